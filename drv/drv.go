//go:build verif

// Package drv provides an in-memory transport driver that records requests and plays scripted
// replies, installed through the build-tag guarded hook uhppote.VerifSetDriver.
package drv

import (
	"errors"
	"net"
	"sync"

	"github.com/uhppoted/uhppote-core/uhppote"
)

type Call struct {
	Method  string // "Broadcast" | "BroadcastTo" | "SendUDP" | "SendTCP" | "Listen"
	Addr    string
	Request []byte // copy of the bytes handed to the driver
}

// ErrTimeout is what the fake returns when the script supplies no acceptable datagram.
var ErrTimeout = errors.New("fake driver: i/o timeout")

// Fake is a uhppote.VerifDriver. Script is consulted on every send and returns the datagrams the
// "network" delivers in response, in order:
//   - SendUDP/SendTCP return the first datagram (ErrTimeout if there is none);
//   - BroadcastTo offers each datagram to the library's filter callback and returns the first one
//     accepted (ErrTimeout if none is);
//   - Broadcast returns all of them.
//
// A nil datagram slice with a nil error for function code 0x96 (set-address) mirrors the real
// driver: (nil, nil) is returned without consuming anything.
type Fake struct {
	mu     sync.Mutex
	Calls  []Call
	Script func(c Call) ([][]byte, error)
	// Delivered keeps every buffer handed to the library, so that a harness can scribble over
	// them afterwards (C17).
	Delivered [][]byte
	// ListenFn, when set, implements Listen; otherwise Listen records the call and returns nil
	// after closing done when signal is closed.
	ListenFn func(signal chan any, done chan any, callback func([]byte)) error
}

func (f *Fake) record(method string, addr string, request []byte) Call {
	c := Call{Method: method, Addr: addr, Request: append([]byte{}, request...)}
	f.mu.Lock()
	f.Calls = append(f.Calls, c)
	f.mu.Unlock()
	return c
}

func (f *Fake) script(c Call) ([][]byte, error) {
	if f.Script == nil {
		return nil, nil
	}
	d, err := f.Script(c)
	f.mu.Lock()
	f.Delivered = append(f.Delivered, d...)
	f.mu.Unlock()
	return d, err
}

func (f *Fake) Reset() {
	f.mu.Lock()
	f.Calls = nil
	f.Delivered = nil
	f.mu.Unlock()
}

func (f *Fake) NumCalls() int {
	f.mu.Lock()
	defer f.mu.Unlock()
	return len(f.Calls)
}

func (f *Fake) Broadcast(addr *net.UDPAddr, request []byte) ([][]byte, error) {
	c := f.record("Broadcast", addr.String(), request)
	return f.script(c)
}

func (f *Fake) BroadcastTo(addr *net.UDPAddr, request []byte, callback func([]byte) bool) ([]byte, error) {
	c := f.record("BroadcastTo", addr.String(), request)
	d, err := f.script(c)
	if err != nil {
		return nil, err
	}
	if len(request) > 1 && request[1] == 0x96 {
		return nil, nil
	}
	for _, b := range d {
		if callback(b) {
			return b, nil
		}
	}
	return nil, ErrTimeout
}

func (f *Fake) SendUDP(addr *net.UDPAddr, request []byte) ([]byte, error) {
	return f.send("SendUDP", addr.String(), request)
}

func (f *Fake) SendTCP(addr *net.TCPAddr, request []byte) ([]byte, error) {
	return f.send("SendTCP", addr.String(), request)
}

func (f *Fake) send(method, addr string, request []byte) ([]byte, error) {
	c := f.record(method, addr, request)
	d, err := f.script(c)
	if err != nil {
		return nil, err
	}
	if len(request) > 1 && request[1] == 0x96 {
		return nil, nil
	}
	if len(d) == 0 {
		return nil, ErrTimeout
	}
	return d[0], nil
}

func (f *Fake) Listen(signal chan any, done chan any, callback func([]byte)) error {
	f.record("Listen", "", nil)
	if f.ListenFn != nil {
		return f.ListenFn(signal, done, callback)
	}
	go func() {
		<-signal
		close(done)
	}()
	return nil
}

// Install replaces the driver of u (a client built by uhppote.NewUHPPOTE) with f.
func Install(u uhppote.IUHPPOTE, f *Fake) bool {
	return uhppote.VerifSetDriver(u, func(uhppote.VerifDriver) uhppote.VerifDriver { return f })
}
