// e1self — unit tests of engine E1 itself (scheduler, explorer, vector-clock race detector, channel /
// mutex / RWMutex / atomic / timer shims): classic litmus programs with known answers. Not a property
// check: `./check e1self` exits 0 iff every litmus test gives the expected verdict at the expected
// bound, which is what makes silence from the property checks meaningful.
package main

import (
	"fmt"
	"os"
	"runtime"
	"sort"
	"strings"
	"time"

	"github.com/uhppoted/uhppote-core/verifshim/vs"
)

type result struct {
	execs    int64
	outcomes map[string]int64
	races    map[string]bool
	aborts   map[string]int64
}

func explore(bound int, body func() string) result {
	r := result{outcomes: map[string]int64{}, races: map[string]bool{}, aborts: map[string]int64{}}
	var out string
	x := &vs.Explorer{Bound: bound}
	x.Check = func(e *vs.Exec) string {
		for _, rc := range e.Races {
			r.races[rc] = true
		}
		if e.Abort != "" {
			r.aborts[e.Abort]++
			return e.Abort
		}
		r.outcomes[out]++
		return out
	}
	x.Explore(func() { out = ""; out = body() })
	r.execs = x.Stats.Executions
	return r
}

func keys(m map[string]int64) string {
	k := []string{}
	for s := range m {
		k = append(k, s)
	}
	sort.Strings(k)
	return strings.Join(k, ",")
}

var failed = 0

func expect(name string, ok bool, detail string) {
	if ok {
		fmt.Printf("ok   %s (%s)\n", name, detail)
	} else {
		fmt.Printf("FAIL %s (%s)\n", name, detail)
		failed++
	}
}

func join(ts ...func()) {
	var wg vs.WaitGroup
	wg.Add(len(ts))
	for i, t := range ts {
		t := t
		vs.GoNamed(fmt.Sprintf("t%d", i+1), func() { defer wg.Done(); t() })
	}
	wg.Wait()
}

func main() {
	// 1. lost update: load; store(v+1) in two threads. 2 always without preemption; 1 reachable with one.
	lost := func() string {
		var x vs.AtomicInt32
		inc := func() { v := x.Load(); x.Store(v + 1) }
		join(inc, inc)
		return fmt.Sprint(x.Load())
	}
	r0, r1, ru := explore(0, lost), explore(1, lost), explore(-1, lost)
	expect("lost-update/bound0", keys(r0.outcomes) == "2", fmt.Sprintf("outcomes %s, %d executions", keys(r0.outcomes), r0.execs))
	expect("lost-update/bound1", keys(r1.outcomes) == "1,2", fmt.Sprintf("outcomes %s, %d executions", keys(r1.outcomes), r1.execs))
	expect("lost-update/unbounded", keys(ru.outcomes) == "1,2" && ru.execs >= r1.execs, fmt.Sprintf("outcomes %s, %d executions", keys(ru.outcomes), ru.execs))
	expect("lost-update/no-race-on-atomics", len(ru.races) == 0, fmt.Sprint(len(ru.races), " race reports"))

	// 2. lock-order inversion deadlocks with one preemption, never without
	inversion := func() string {
		var a, b vs.Mutex
		join(func() { a.Lock(); b.Lock(); b.Unlock(); a.Unlock() }, func() { b.Lock(); a.Lock(); a.Unlock(); b.Unlock() })
		return "done"
	}
	d0, d1 := explore(0, inversion), explore(1, inversion)
	expect("lock-inversion/bound0", d0.aborts["DEADLOCK"] == 0, fmt.Sprintf("%d executions, aborts %v", d0.execs, d0.aborts))
	expect("lock-inversion/bound1", d1.aborts["DEADLOCK"] > 0 && d1.outcomes["done"] > 0, fmt.Sprintf("%d executions, aborts %v", d1.execs, d1.aborts))

	// 3. exhaustiveness: two threads x two independent atomic operations = C(4,2) = 6 orders
	orders := func() string {
		var a, b vs.AtomicInt32
		log := ""
		join(func() { a.Add(1); log += "a"; a.Add(1); log += "a" }, func() { b.Add(1); log += "b"; b.Add(1); log += "b" })
		return log
	}
	o := explore(-1, orders)
	expect("interleavings/2x2", len(o.outcomes) == 6, fmt.Sprintf("%d distinct orders %s in %d executions", len(o.outcomes), keys(o.outcomes), o.execs))
	o3 := explore(-1, func() string {
		var a, b, c vs.AtomicInt32
		log := ""
		join(func() { a.Add(1); log += "a"; a.Add(1); log += "a" }, func() { b.Add(1); log += "b"; b.Add(1); log += "b" }, func() { c.Add(1); log += "c"; c.Add(1); log += "c" })
		return log
	})
	expect("interleavings/3x2", len(o3.outcomes) == 90, fmt.Sprintf("%d distinct orders (6!/(2!2!2!) = 90) in %d executions", len(o3.outcomes), o3.execs))

	// 4. race detector: unsynchronised plain variable = race in every execution; mutex-protected = none;
	//    channel hand-off = none; atomic flag publication = none
	racy := explore(1, func() string {
		x := 0
		join(func() { *vs.W(&x, "x@t1") = 1 }, func() { _ = *vs.R(&x, "x@t2") })
		return "done"
	})
	expect("race/unsynchronised", len(racy.races) > 0 && racy.outcomes["done"] == racy.execs, fmt.Sprintf("%d reports over %d executions", len(racy.races), racy.execs))
	guarded := explore(-1, func() string {
		x := 0
		var mu vs.Mutex
		join(func() { mu.Lock(); *vs.W(&x, "x@t1") = 1; mu.Unlock() }, func() { mu.Lock(); _ = *vs.R(&x, "x@t2"); mu.Unlock() })
		return "done"
	})
	expect("race/mutex-guarded", len(guarded.races) == 0, fmt.Sprintf("%d reports over %d executions", len(guarded.races), guarded.execs))
	handoff := explore(-1, func() string {
		x := 0
		ch := make(chan int)
		join(func() { *vs.W(&x, "x@t1") = 1; vs.Send(ch, 1) }, func() { vs.Recv(ch); _ = *vs.R(&x, "x@t2") })
		return "done"
	})
	expect("race/channel-handoff", len(handoff.races) == 0 && len(handoff.aborts) == 0, fmt.Sprintf("%d reports, aborts %v, %d executions", len(handoff.races), handoff.aborts, handoff.execs))
	rw := explore(-1, func() string {
		x := 0
		var mu vs.RWMutex
		join(func() { mu.RLock(); _ = *vs.R(&x, "x@t1"); mu.RUnlock() }, func() { mu.RLock(); _ = *vs.R(&x, "x@t2"); mu.RUnlock() }, func() { mu.Lock(); *vs.W(&x, "x@t3") = 1; mu.Unlock() })
		return "done"
	})
	expect("race/rwmutex-guarded", len(rw.races) == 0 && len(rw.aborts) == 0, fmt.Sprintf("%d reports, aborts %v, %d executions", len(rw.races), rw.aborts, rw.execs))
	rwbad := explore(1, func() string {
		x := 0
		var mu vs.RWMutex
		join(func() { mu.RLock(); *vs.W(&x, "x@t1") = 1; mu.RUnlock() }, func() { mu.RLock(); *vs.W(&x, "x@t2") = 2; mu.RUnlock() })
		return "done"
	})
	expect("race/write-under-read-lock", len(rwbad.races) > 0, fmt.Sprintf("%d reports over %d executions", len(rwbad.races), rwbad.execs))

	// 5. RWMutex: readers overlap, writers exclude
	overlap := explore(-1, func() string {
		var mu vs.RWMutex
		var inside, max vs.AtomicInt32
		reader := func() {
			mu.RLock()
			if n := inside.Add(1); n > max.Load() {
				max.Store(n)
			}
			inside.Add(-1)
			mu.RUnlock()
		}
		join(reader, reader)
		return fmt.Sprint(max.Load())
	})
	expect("rwmutex/readers-overlap", keys(overlap.outcomes) == "1,2", fmt.Sprintf("max readers inside: %s", keys(overlap.outcomes)))
	excl := explore(-1, func() string {
		var mu vs.RWMutex
		var inside, max vs.AtomicInt32
		writer := func() {
			mu.Lock()
			if n := inside.Add(1); n > max.Load() {
				max.Store(n)
			}
			inside.Add(-1)
			mu.Unlock()
		}
		join(writer, writer)
		return fmt.Sprint(max.Load())
	})
	expect("rwmutex/writers-exclude", keys(excl.outcomes) == "1", fmt.Sprintf("max writers inside: %s", keys(excl.outcomes)))

	// 6. send on a closed channel is found (one preemption), blocked receive forever = deadlock
	closed := explore(1, func() string {
		ch := make(chan int, 1)
		join(func() { vs.Close(ch) }, func() { vs.Send(ch, 1) })
		return "done"
	})
	expect("channel/send-on-closed", closed.aborts["PANIC"] > 0 && closed.outcomes["done"] > 0, fmt.Sprintf("aborts %v outcomes %v", closed.aborts, closed.outcomes))
	stuck := explore(0, func() string {
		ch := make(chan int)
		vs.GoNamed("receiver", func() { vs.Recv(ch) })
		return "done"
	})
	expect("channel/receiver-leak", stuck.aborts["DEADLOCK"] > 0, fmt.Sprintf("aborts %v", stuck.aborts))

	// 7. virtual time: sleeps order threads exactly and cost no wall-clock time
	start := time.Now()
	timed := explore(-1, func() string {
		log := ""
		join(func() { vs.Sleep(2 * time.Second); log += "B" }, func() { vs.Sleep(time.Second); log += "A" }, func() { vs.Sleep(3 * time.Hour); log += "C" })
		return fmt.Sprintf("%s@%v", log, time.Duration(vs.NowNs()))
	})
	expect("time/sleep-order", keys(timed.outcomes) == "ABC@3h0m0s" && time.Since(start) < 30*time.Second, fmt.Sprintf("outcomes %s", keys(timed.outcomes)))
	simul := explore(-1, func() string {
		log := ""
		join(func() { vs.Sleep(time.Second); log += "A" }, func() { vs.Sleep(time.Second); log += "B" })
		return log
	})
	expect("time/simultaneous-timers-both-orders", keys(simul.outcomes) == "AB,BA", fmt.Sprintf("outcomes %s", keys(simul.outcomes)))

	// 7b. nobody is "running" after virtual time had to pass: both wake-up orders are free (no
	//     preemption charged), also when one of the sleepers was the last thread to block
	simul0 := explore(0, func() string {
		log := ""
		join(func() { vs.Sleep(time.Second); log += "A" }, func() { vs.Sleep(time.Second); log += "B" })
		return log
	})
	expect("time/simultaneous-timers-both-orders-without-preemption", keys(simul0.outcomes) == "AB,BA", fmt.Sprintf("outcomes %s at preemption bound 0", keys(simul0.outcomes)))

	// 8. determinism: the same choice sequence gives the same trace; objects whose address keys shim
	//    state are pinned, so garbage collection between and during executions changes nothing
	body := func() {
		for i := 0; i < 50; i++ {
			ch := make(chan int, 1)
			vs.Send(ch, i)
			vs.Close(ch)
			if i%10 == 0 {
				runtime.GC()
			}
		}
		var x vs.AtomicInt32
		join(func() { x.Add(1) }, func() { x.Add(2) })
	}
	e1 := vs.Run([]int{0, 0, 1}, nil, vs.Options{Trace: true}, body)
	e2 := vs.Run([]int{0, 0, 1}, nil, vs.Options{Trace: true}, body)
	expect("determinism/replay", e1.Abort == "" && e2.Abort == "" && strings.Join(e1.Trace, "|") == strings.Join(e2.Trace, "|") && len(e1.Trace) > 100, fmt.Sprintf("aborts %q %q, %d trace entries", e1.Abort+e1.AbortMsg, e2.Abort+e2.AbortMsg, len(e1.Trace)))

	// 9. sync.Once gives happens-before to every later caller; sync.Pool hands the last Put object out
	once := explore(-1, func() string {
		var o vs.Once
		table := 0
		get := func() { o.Do(func() { *vs.W(&table, "table@init") = 7 }); _ = *vs.R(&table, "table@use") }
		join(get, get)
		return "done"
	})
	expect("once/happens-before", len(once.races) == 0 && len(once.aborts) == 0, fmt.Sprintf("%d reports over %d executions", len(once.races), once.execs))

	if failed > 0 {
		fmt.Printf("e1self: %d litmus tests FAILED\n", failed)
		os.Exit(2)
	}
	fmt.Println("e1self: all litmus tests passed")
}
