// C01 — every request on the wire is exactly the protocol encoding of the call.
//
// Bounded-exhaustive exploration through the public API with a recording in-memory driver
// (installed through the `verif` hook): for each of the 32 operations the all-distinct baseline
// tuple, every argument over its full single-field domain, every pair of arguments over boundary
// alphabets, every map shape, and every ordered pair (thorough: triple over a sub-alphabet) of
// operations as a history on one client and alternating between two clients. Oracle: exactly one
// driver call whose bytes equal spec.EncodeRequest (hand-written protocol tables).
package main

import (
	"bytes"
	"encoding/json"
	"fmt"
	"net"
	"net/netip"
	"sync/atomic"
	"time"

	"github.com/uhppoted/uhppote-core/types"
	"github.com/uhppoted/uhppote-core/uhppote"
	"verif/drv"
	"verif/ops"
	"verif/spec"
	"verif/vk"
)

const serial0 = uint32(405419896) // 0x182a6f78: byte-asymmetric

type client struct {
	u    uhppote.IUHPPOTE
	fake *drv.Fake
	// answer: when set, what the network answers with to the next requests (family 5: what a call
	// sends does not depend on what comes back)
	answer func(request []byte) [][]byte
}

func cannedReply(c drv.Call) ([][]byte, error) {
	if len(c.Request) < 8 {
		return nil, nil
	}
	reply := make([]byte, 64)
	copy(reply, c.Request[:8])
	return [][]byte{reply}, nil
}

func newClient() *client { return newClientCfg(0) }

// newClientCfg: 0 = no controllers configured (requests go out through the broadcast path);
// 1 = the target controller configured through NewDevice with its own time zone (UTC+8), UDP;
// 2 = configured as a struct literal with a time zone (UTC-8), TCP. The request bytes are a function
// of the call alone: they must be the same under every configuration.
func newClientCfg(cfg int) *client {
	c := &client{}
	f := &drv.Fake{Script: func(call drv.Call) ([][]byte, error) {
		if c.answer != nil {
			return c.answer(call.Request), nil
		}
		return cannedReply(call)
	}}
	var devices []uhppote.Device
	addr := types.ControllerAddrFrom(netip.MustParseAddr("192.168.1.100"), 60000)
	switch cfg {
	case 1:
		devices = []uhppote.Device{uhppote.NewDevice("alpha", serial0, addr, "udp", []string{"A", "B", "C", "D"}, time.FixedZone("UTC+8", 8*3600))}
	case 2:
		devices = []uhppote.Device{{Name: "beta", DeviceID: serial0, Address: addr, Doors: []string{"A", "B", "C", "D"}, TimeZone: time.FixedZone("UTC-8", -8*3600), Protocol: "tcp"}}
	// 3..9: "rich" descriptions of the controller - fewer / more door names than doors, no time zone, a
	// DST zone, no address (broadcast path), an IPv6 address
	case 3:
		devices = []uhppote.Device{{Name: "one", DeviceID: serial0, Address: addr, Doors: []string{"Front"}, TimeZone: time.UTC, Protocol: "udp"}}
	case 4:
		devices = []uhppote.Device{{Name: "two", DeviceID: serial0, Address: addr, Doors: []string{"Front", "Back"}, TimeZone: time.UTC, Protocol: "tcp"}}
	case 5:
		devices = []uhppote.Device{{Name: "three", DeviceID: serial0, Address: addr, Doors: []string{"A", "B", "C"}, Protocol: "udp"}}
	case 6:
		devices = []uhppote.Device{{Name: "five", DeviceID: serial0, Address: addr, Doors: []string{"A", "B", "C", "D", "E"}, TimeZone: time.UTC, Protocol: "udp"}}
	case 7:
		tz, err := time.LoadLocation("America/Santiago")
		if err != nil {
			panic(err)
		}
		devices = []uhppote.Device{uhppote.NewDevice("new", serial0, addr, "udp", nil, tz)}
	case 8:
		devices = []uhppote.Device{{Name: "", DeviceID: serial0, Doors: []string{"A", "B"}, TimeZone: time.UTC}}
	case 9:
		devices = []uhppote.Device{{Name: "six", DeviceID: serial0, Address: types.ControllerAddrFrom(netip.MustParseAddr("2001:db8::68"), 60000), Doors: []string{"A", "B"}, Protocol: "udp"}}
	}
	u := uhppote.NewUHPPOTE(types.BindAddr{}, types.BroadcastAddr{}, types.ListenAddr{}, time.Second, devices, false)
	if !drv.Install(u, f) {
		panic("cannot install fake driver")
	}
	c.u, c.fake = u, f
	return c
}

type caseT struct {
	Op     string `json:"op"`
	Serial uint32 `json:"serial"`
	Args   string `json:"args"`
	Prefix string `json:"history,omitempty"`
}

func describe(a spec.Args) string { return fmt.Sprintf("%v", map[string]any(a)) }

func fieldAt(op *spec.Op, off int) string {
	if off < 2 {
		return "header"
	}
	if off >= 4 && off < 8 {
		return "serial"
	}
	for _, f := range op.Req {
		if off >= f.Off && off < f.Off+f.Enc.Width() {
			if f.Enc == spec.Magic {
				return "magic"
			}
			return f.Name
		}
	}
	return "unused"
}

var distinctReq atomic.Int64

// call invokes op and compares the recorded request with want (nil: computed from neutral args).
func call(r *vk.Run, c *client, op *spec.Op, serial uint32, a spec.Args, ref spec.Args, history string) {
	r.Count(1)
	if ref == nil {
		ref = a
	}
	want := spec.EncodeRequest(op, serial, ref)
	before := c.fake.NumCalls()
	var obs spec.Observed
	if p, msg, frame := vk.Guard(func() {
		if op.Broadcast {
			_, err := c.u.GetDevices()
			obs.Err = err
		} else {
			obs = ops.Invoke(c.u, op.Name, serial, a)
		}
	}); p {
		r.Violation("C01/"+op.Name+"/panic/"+frame, "panic: "+msg, "call", caseT{op.Name, serial, describe(a), history})
		return
	}
	calls := c.fake.Calls[before:]
	cs := caseT{op.Name, serial, describe(a), history}
	switch {
	case len(calls) == 0:
		r.Violation("C01/"+op.Name+"/no-request", fmt.Sprintf("accepted arguments put nothing on the wire (err=%v)", obs.Err), "call", cs)
		return
	case len(calls) > 1:
		r.Violation("C01/"+op.Name+"/multiple-requests", fmt.Sprintf("%d requests for one call", len(calls)), "call", cs)
		return
	}
	got := calls[0].Request
	if len(got) != 64 {
		r.Violation("C01/"+op.Name+"/length", fmt.Sprintf("request of %d bytes", len(got)), "call", cs)
		return
	}
	if !bytes.Equal(got, want) {
		off := 0
		for off < 64 && got[off] == want[off] {
			off++
		}
		r.Violation("C01/"+op.Name+"/wrong-bytes/"+fieldAt(op, off), fmt.Sprintf("byte %d: got %x want %x", off, got, want), "call", cs)
	}
	if r.NumSamples() < 6 {
		r.Sample(map[string]any{"op": op.Name, "args": describe(a), "request": vk.Hex(got)})
	}
}

var u32alphabet = func() []uint32 {
	v := []uint32{0, 1, 2, 0xff, 0x100, 0xffff, 0x10000, 0xffffff, 0x1000000, 0x7fffffff, 0x80000000, 0xfffffffe, 0xffffffff,
		0x01020304, 0x04030201, 0x55aaaa55, 0xaa5555aa, 999999, 1000000, 8165538, 25565535, 25565536, 100000000, 4294967295}
	for i := 0; i < 32; i++ {
		v = append(v, 1<<uint(i), ^(uint32(1) << uint(i)))
	}
	for k, p := 1, uint32(10); k <= 9; k, p = k+1, p*10 {
		v = append(v, p-1, p, p+1)
	}
	return v
}()

var hhmmAll = func() []spec.HM {
	v := []spec.HM{}
	for h := 0; h < 24; h++ {
		for m := 0; m < 60; m++ {
			v = append(v, spec.HM{H: h, M: m})
		}
	}
	return append(v, spec.HM{H: 24, M: 0})
}()

func dateDomain(thorough bool) []spec.Civil {
	full := map[int]bool{1: true, 1999: true, 2000: true, 2023: true, 2024: true, 2100: true, 9999: true}
	out := []spec.Civil{}
	for y := 1; y <= 9999; y++ {
		for m := 1; m <= 12; m++ {
			n := spec.DaysInMonth(y, m)
			for d := 1; d <= n; d++ {
				if y == 1 && m == 1 && d == 1 {
					continue
				}
				if thorough || full[y] || d == 1 || d == n {
					out = append(out, spec.Civil{Y: y, M: m, D: d})
				}
			}
		}
	}
	return out
}

func pinDomain(thorough bool) []uint32 {
	out := []uint32{}
	if thorough {
		for p := uint32(0); p <= 999999; p++ {
			out = append(out, p)
		}
		return out
	}
	for p := uint32(0); p <= 9999; p++ {
		out = append(out, p)
	}
	for k, p := 1, uint32(10); k <= 5; k, p = k+1, p*10 {
		out = append(out, p-1, p, p+1)
	}
	for p := uint32(999990); p <= 999999; p++ {
		out = append(out, p)
	}
	return append(out, 65535, 65536, 0x0f423f&0xffffff, 123456, 654321)
}

// accepted mirrors the statement's rejection rules (C07 decides them; C01 only needs to stay
// inside the accepted domain).
func accepted(op *spec.Op, serial uint32, a spec.Args) bool {
	if serial == 0 && !op.Broadcast {
		return false
	}
	switch op.Name {
	case "PutCard":
		c := a["CardNumber"].(uint32)
		return c != 0 && c != 0xffffffff && c != 0x00ffffff && a["PIN"].(uint32) <= 999999
	case "SetDoorPasscodes":
		d := a["Door"].(uint8)
		return d >= 1 && d <= 4
	case "SetListener":
		ap := a["AddrPort"].(spec.AP)
		return (ap.IP == [4]byte{} && ap.Port == 0) || ap.Port != 0
	case "SetTimeProfile":
		if a["From"].(spec.Civil).IsZero() || a["To"].(spec.Civil).IsZero() {
			return false
		}
		for i := 1; i <= 3; i++ {
			s, e := a[fmt.Sprintf("Segment%dStart", i)].(spec.HM), a[fmt.Sprintf("Segment%dEnd", i)].(spec.HM)
			if e.H < s.H || (e.H == s.H && e.M < s.M) {
				return false
			}
		}
	}
	return true
}

// reference arguments as the wire sees them (passcodes above 999999 are sent as 0)
func wireArgs(op *spec.Op, a spec.Args) spec.Args {
	if op.Name != "SetDoorPasscodes" {
		return a
	}
	w := spec.Args{}
	for k, v := range a {
		w[k] = v
	}
	for i := 1; i <= 4; i++ {
		k := fmt.Sprintf("Passcode%d", i)
		if w[k].(uint32) > 999999 {
			w[k] = uint32(0)
		}
	}
	return w
}

func with(a spec.Args, k string, v any) spec.Args {
	b := spec.Args{}
	for kk, vv := range a {
		b[kk] = vv
	}
	b[k] = v
	return b
}

func boundary(f spec.Field) []any {
	switch f.Enc {
	case spec.U8:
		return []any{uint8(0), uint8(1), uint8(2), uint8(4), uint8(5), uint8(0x7f), uint8(0x80), uint8(0xfe), uint8(0xff)}
	case spec.U32:
		return []any{uint32(0), uint32(1), uint32(0xff), uint32(0x100), uint32(999999), uint32(1000000), uint32(0x00ffffff), uint32(0x01020304), uint32(0x80000000), uint32(0xffffffff)}
	case spec.Bool:
		return []any{false, true}
	case spec.IPv4:
		return []any{[4]byte{0, 0, 0, 0}, [4]byte{255, 255, 255, 255}, [4]byte{1, 2, 3, 4}, [4]byte{192, 168, 1, 100}}
	case spec.AddrPort:
		return []any{spec.AP{}, spec.AP{IP: [4]byte{1, 2, 3, 4}, Port: 1}, spec.AP{IP: [4]byte{255, 255, 255, 255}, Port: 65535}, spec.AP{IP: [4]byte{192, 168, 1, 100}, Port: 60001}, spec.AP{IP: [4]byte{0, 0, 0, 0}, Port: 0x0102}}
	case spec.Date:
		return []any{spec.Civil{Y: 1, M: 1, D: 2}, spec.Civil{Y: 999, M: 12, D: 31}, spec.Civil{Y: 2000, M: 2, D: 29}, spec.Civil{Y: 2023, M: 10, D: 9}, spec.Civil{Y: 9999, M: 12, D: 31}}
	case spec.DateTime:
		return []any{spec.CivilDT{Y: 1, M: 1, D: 2}, spec.CivilDT{Y: 2000, M: 2, D: 29, H: 23, Mi: 59, S: 59}, spec.CivilDT{Y: 9999, M: 12, D: 31, H: 12, Mi: 34, S: 56}}
	case spec.HHmm:
		return []any{spec.HM{}, spec.HM{H: 0, M: 1}, spec.HM{H: 9, M: 59}, spec.HM{H: 10, M: 0}, spec.HM{H: 23, M: 59}, spec.HM{H: 24, M: 0}}
	case spec.PIN:
		return []any{uint32(0), uint32(1), uint32(255), uint32(256), uint32(65535), uint32(65536), uint32(999999)}
	}
	return nil
}

func domain(r *vk.Run, f spec.Field, dates []spec.Civil, pins []uint32) []any {
	out := []any{}
	switch f.Enc {
	case spec.U8:
		for v := 0; v < 256; v++ {
			out = append(out, uint8(v))
		}
	case spec.U32:
		for _, v := range u32alphabet {
			out = append(out, v)
		}
	case spec.Bool:
		out = append(out, false, true)
	case spec.IPv4:
		base := [4]byte{10, 20, 30, 40}
		for i := 0; i < 4; i++ {
			for v := 0; v < 256; v++ {
				b := base
				b[i] = byte(v)
				out = append(out, b)
			}
		}
	case spec.AddrPort:
		for p := 1; p < 65536; p++ {
			out = append(out, spec.AP{IP: [4]byte{192, 168, 1, 100}, Port: uint16(p)})
		}
		for i := 0; i < 4; i++ {
			for v := 0; v < 256; v++ {
				b := [4]byte{192, 168, 1, 100}
				b[i] = byte(v)
				out = append(out, spec.AP{IP: b, Port: 60001})
			}
		}
		out = append(out, spec.AP{})
	case spec.Date:
		for _, d := range dates {
			out = append(out, d)
		}
	case spec.HHmm:
		for _, t := range hhmmAll {
			out = append(out, t)
		}
	case spec.PIN:
		for _, p := range pins {
			out = append(out, p)
		}
	}
	return out
}

func main() {
	r := vk.Start("C01", "exploration")
	if r.Replay != "" {
		_, c, err := vk.LoadReplay(r.Replay)
		if err != nil {
			r.Machinery("cannot load replay: %v", err)
		} else {
			var cs caseT
			json.Unmarshal(c, &cs)
			fmt.Printf("replay: operation %s serial %d args %s history [%s]\n(the case is re-found by re-running the enumeration family of this operation)\n", cs.Op, cs.Serial, cs.Args, cs.Prefix)
		}
	}

	dates := dateDomain(r.Thorough())
	pins := pinDomain(r.Thorough())
	var distinct int64

	// (1)+(2) baseline and single-field full-domain sweeps, one operation per worker
	vk.Parallel(len(spec.Ops), func(i int) {
		op := &spec.Ops[i]
		c := newClient()
		base := ops.Baseline(op)
		var n int64
		for _, serial := range []uint32{serial0, 1, 0xffffffff, 0x01020304, 0x80000000} {
			s := serial
			if op.Broadcast {
				s = 0
			}
			call(r, c, op, s, base, wireArgs(op, base), "")
			n++
			if op.Broadcast {
				break
			}
		}
		if !op.Broadcast {
			for _, s := range u32alphabet {
				if s != 0 {
					call(r, c, op, s, base, wireArgs(op, base), "")
					n++
				}
			}
		}
		for _, f := range op.Req {
			if f.Enc == spec.Magic || f.Enc == spec.DateTime {
				continue
			}
			for _, v := range domain(r, f, dates, pins) {
				a := with(base, f.Name, v)
				// keep time-profile segments ordered while sweeping one end
				if op.Name == "SetTimeProfile" && f.Enc == spec.HHmm {
					if f.Name[len(f.Name)-3:] == "End" {
						a[f.Name[:len(f.Name)-3]+"Start"] = spec.HM{}
					} else {
						a[f.Name[:len(f.Name)-5]+"End"] = spec.HM{H: 24}
					}
				}
				if !accepted(op, serial0, a) {
					continue
				}
				call(r, c, op, serial0, a, wireArgs(op, a), "")
				n++
				c.fake.Reset()
			}
		}
		// (3) all pairs of arguments over boundary alphabets
		fields := []spec.Field{}
		for _, f := range op.Req {
			if f.Enc != spec.Magic {
				fields = append(fields, f)
			}
		}
		for x := 0; x < len(fields); x++ {
			for y := x + 1; y < len(fields); y++ {
				for _, vx := range boundary(fields[x]) {
					for _, vy := range boundary(fields[y]) {
						a := with(with(base, fields[x].Name, vx), fields[y].Name, vy)
						if !accepted(op, serial0, a) {
							continue
						}
						call(r, c, op, serial0, a, wireArgs(op, a), "")
						n++
					}
				}
				c.fake.Reset()
			}
		}
		// (3c) value histories: every ordered pair of boundary values of one argument as two consecutive
		// calls (an encoder that remembers its previous input or output must not confuse them)
		for _, f := range fields {
			if f.Enc == spec.DateTime {
				continue
			}
			bs := boundary(f)
			for _, v1 := range bs {
				for _, v2 := range bs {
					a1, a2 := with(base, f.Name, v1), with(base, f.Name, v2)
					if !accepted(op, serial0, a1) || !accepted(op, serial0, a2) {
						continue
					}
					call(r, c, op, serial0, a1, wireArgs(op, a1), "")
					call(r, c, op, serial0, a2, wireArgs(op, a2), "")
					n += 2
				}
				c.fake.Reset()
			}
		}
		atomic.AddInt64(&distinct, n)
	})

	// (2b) raw argument shapes: maps (nil / partial / extra keys), IPs in 4- and 16-byte form,
	// passcode lists of length 0..6, SetTime with time.Time values in several Locations
	{
		c := newClient()
		// PutCard doors: each key absent / 0 / 1 / 29, plus nil and an extra key
		op := spec.OpByName("PutCard")
		base := ops.Baseline(op)
		vals := []int{-1, 0, 1, 29}
		for i := 0; i < 256; i++ {
			m := map[uint8]uint8{}
			a := with(base, ops.RawDoors, m)
			for k, x := 0, i; k < 4; k, x = k+1, x/4 {
				name := fmt.Sprintf("Door%d", k+1)
				if v := vals[x%4]; v >= 0 {
					m[uint8(k+1)] = uint8(v)
					a[name] = uint8(v)
				} else {
					a[name] = uint8(0)
				}
			}
			call(r, c, op, serial0, a, a, "")
			distinct++
		}
		for _, m := range []any{nil, map[uint8]uint8{0: 9, 5: 9, 255: 9}} {
			a := with(base, ops.RawDoors, m)
			a["Door1"], a["Door2"], a["Door3"], a["Door4"] = uint8(0), uint8(0), uint8(0), uint8(0)
			call(r, c, op, serial0, a, a, "")
			distinct++
		}
		c.fake.Reset()

		// weekdays for SetTimeProfile and AddTask: each day absent / false / true (3^7), plus nil
		for _, name := range []string{"SetTimeProfile", "AddTask"} {
			op := spec.OpByName(name)
			base := ops.Baseline(op)
			days := []time.Weekday{time.Monday, time.Tuesday, time.Wednesday, time.Thursday, time.Friday, time.Saturday, time.Sunday}
			names := []string{"Monday", "Tuesday", "Wednesday", "Thursday", "Friday", "Saturday", "Sunday"}
			for i := 0; i < 2187; i++ {
				w := types.Weekdays{}
				a := with(base, ops.RawWeekdays, w)
				for k, x := 0, i; k < 7; k, x = k+1, x/3 {
					switch x % 3 {
					case 0:
						a[names[k]] = false
					case 1:
						w[days[k]] = false
						a[names[k]] = false
					case 2:
						w[days[k]] = true
						a[names[k]] = true
					}
				}
				call(r, c, op, serial0, a, a, "")
				distinct++
			}
			a := with(base, ops.RawWeekdays, nil)
			for _, n := range names {
				a[n] = false
			}
			call(r, c, op, serial0, a, a, "")
			distinct++
			c.fake.Reset()
		}

		// readers for ActivateKeypads: 3^4 shapes + nil + extra keys
		op = spec.OpByName("ActivateKeypads")
		for i := 0; i < 81; i++ {
			m := map[uint8]bool{}
			a := spec.Args{ops.RawReaders: m}
			for k, x := 0, i; k < 4; k, x = k+1, x/3 {
				name := fmt.Sprintf("Reader%d", k+1)
				a[name] = x%3 == 2
				if x%3 > 0 {
					m[uint8(k+1)] = x%3 == 2
				}
			}
			call(r, c, op, serial0, a, a, "")
			distinct++
		}
		for _, m := range []any{nil, map[uint8]bool{0: true, 5: true}} {
			a := spec.Args{ops.RawReaders: m, "Reader1": false, "Reader2": false, "Reader3": false, "Reader4": false}
			call(r, c, op, serial0, a, a, "")
			distinct++
		}

		// SetAddress: every octet value in 4-byte and 16-byte form
		op = spec.OpByName("SetAddress")
		for pos := 0; pos < 3; pos++ {
			for oct := 0; oct < 4; oct++ {
				for v := 0; v < 256; v++ {
					for _, long := range []bool{false, true} {
						b := [3][4]byte{{10, 20, 30, 40}, {255, 255, 254, 0}, {10, 20, 30, 1}}
						b[pos][oct] = byte(v)
						var ips [3]net.IP
						for k := range ips {
							if long {
								ips[k] = net.IPv4(b[k][0], b[k][1], b[k][2], b[k][3])
							} else {
								ips[k] = net.IP{b[k][0], b[k][1], b[k][2], b[k][3]}
							}
						}
						a := spec.Args{ops.RawIPs: ips, "Address": b[0], "Mask": b[1], "Gateway": b[2]}
						call(r, c, op, serial0, a, a, "")
						distinct++
					}
				}
			}
			c.fake.Reset()
		}

		// SetListener: IPv4 AddrPort values passed raw
		op = spec.OpByName("SetListener")
		for _, s := range []string{"0.0.0.0:0", "192.168.1.100:60001", "255.255.255.255:65535", "1.2.3.4:1", "0.0.0.0:60001"} {
			ap := netip.MustParseAddrPort(s)
			a := spec.Args{ops.RawAddrPort: ap, "AddrPort": spec.AP{IP: ap.Addr().As4(), Port: ap.Port()}, "Interval": uint8(17)}
			call(r, c, op, serial0, a, a, "")
			distinct++
		}

		// SetDoorPasscodes: lists of length 0..6 over {0, 1, 999999, 1000000, 0xffffffff}
		op = spec.OpByName("SetDoorPasscodes")
		codes := []uint32{0, 1, 999999, 1000000, 0xffffffff}
		var rec func(list []uint32)
		rec = func(list []uint32) {
			a := spec.Args{ops.RawPasscodes: append([]uint32{}, list...), "Door": uint8(1 + len(list)%4)}
			for i := 0; i < 4; i++ {
				v := uint32(0)
				if i < len(list) && list[i] <= 999999 {
					v = list[i]
				}
				a[fmt.Sprintf("Passcode%d", i+1)] = v
			}
			call(r, c, op, serial0, a, a, "")
			distinct++
			if len(list) < 6 {
				for _, v := range codes {
					rec(append(list, v))
				}
			}
		}
		rec(nil)
		a := spec.Args{ops.RawPasscodes: nil, "Door": uint8(2), "Passcode1": uint32(0), "Passcode2": uint32(0), "Passcode3": uint32(0), "Passcode4": uint32(0)}
		call(r, c, op, serial0, a, a, "")
		c.fake.Reset()

		// SetTime: every hour of 2024 plus boundary years, in UTC / fixed +14:00 / fixed -12:00 /
		// America/New_York (DST) / the process zone, with non-zero nanoseconds
		op = spec.OpByName("SetTime")
		locs := []*time.Location{time.UTC, time.FixedZone("+14", 14*3600), time.FixedZone("-12", -12*3600), time.Local}
		if ny, err := time.LoadLocation("America/New_York"); err == nil {
			locs = append(locs, ny)
		}
		for _, loc := range locs {
			t := time.Date(2024, 1, 1, 0, 0, 0, 0, loc)
			for t.Year() == 2024 {
				tt := t.Add(17*time.Minute + 43*time.Second + 999999999*time.Nanosecond)
				a := spec.Args{ops.RawTime: tt, "DateTime": spec.CivilDT{Y: tt.Year(), M: int(tt.Month()), D: tt.Day(), H: tt.Hour(), Mi: tt.Minute(), S: tt.Second()}}
				call(r, c, op, serial0, a, a, "")
				distinct++
				t = t.Add(time.Hour)
			}
			// sub-second parts on both sides of the Unix epoch and of the 32-bit second counters (a whole-second
			// value is what goes out: the wall clock the argument shows, whatever its fraction and its sign)
			fractions := []time.Time{}
			for _, base := range []time.Time{time.Date(1, 1, 2, 0, 0, 1, 0, loc), time.Date(1582, 10, 14, 23, 59, 59, 0, loc), time.Date(1899, 12, 31, 23, 59, 59, 0, loc), time.Date(1901, 12, 13, 20, 45, 52, 0, loc),
				time.Date(1955, 12, 31, 23, 59, 59, 0, loc), time.Date(1969, 7, 20, 20, 17, 40, 0, loc), time.Date(1969, 12, 31, 23, 59, 59, 0, loc), time.Date(1970, 1, 1, 0, 0, 0, 0, loc), time.Date(1970, 1, 1, 0, 0, 1, 0, loc),
				time.Date(2038, 1, 19, 3, 14, 7, 0, loc), time.Date(2038, 1, 19, 3, 14, 8, 0, loc), time.Date(2106, 2, 7, 6, 28, 15, 0, loc), time.Date(2262, 4, 11, 23, 47, 16, 0, loc), time.Date(9999, 12, 31, 23, 59, 59, 0, loc)} {
				for _, ns := range []int{0, 1, 999999, 1000000, 250000000, 500000000, 999000000, 999999999} {
					fractions = append(fractions, base.Add(time.Duration(ns)))
				}
			}
			for _, tt := range append(fractions, time.Date(1, 1, 2, 0, 0, 1, 0, loc), time.Date(999, 12, 31, 23, 59, 59, 5, loc), time.Date(2000, 2, 29, 12, 0, 0, 0, loc), time.Date(9999, 12, 31, 23, 59, 59, 999, loc)) {
				a := spec.Args{ops.RawTime: tt, "DateTime": spec.CivilDT{Y: tt.Year(), M: int(tt.Month()), D: tt.Day(), H: tt.Hour(), Mi: tt.Minute(), S: tt.Second()}}
				call(r, c, op, serial0, a, a, "")
				distinct++
			}
			c.fake.Reset()
		}
	}

	// (1b) the same calls through clients that have the target controller configured (with a time
	// zone of its own): every operation's baseline, and SetTime over every hour of 2024 in 5 Locations
	for cfg := 1; cfg <= 2; cfg++ {
		c := newClientCfg(cfg)
		for i := range spec.Ops {
			op := &spec.Ops[i]
			if op.Broadcast {
				continue
			}
			base := ops.Baseline(op)
			call(r, c, op, serial0, base, wireArgs(op, base), fmt.Sprintf("client configuration %d", cfg))
			distinct++
		}
		op := spec.OpByName("SetTime")
		locs := []*time.Location{time.UTC, time.FixedZone("+14", 14*3600), time.FixedZone("-12", -12*3600), time.FixedZone("UTC+8", 8*3600), time.Local}
		for _, loc := range locs {
			for t := time.Date(2024, 1, 1, 0, 0, 0, 0, loc); t.Year() == 2024; t = t.Add(time.Hour) {
				tt := t.Add(17*time.Minute + 43*time.Second)
				a := spec.Args{ops.RawTime: tt, "DateTime": spec.CivilDT{Y: tt.Year(), M: int(tt.Month()), D: tt.Day(), H: tt.Hour(), Mi: tt.Minute(), S: tt.Second()}}
				call(r, c, op, serial0, a, a, fmt.Sprintf("client configuration %d", cfg))
				distinct++
			}
			c.fake.Reset()
		}
	}

	// (1c) richer descriptions of the controller (configurations 3..9): every operation's baseline,
	// every argument over its boundary alphabet and every 8-bit argument over all 256 values - which
	// bytes a call sends, and whether it is sent, does not depend on how the controller is described
	vk.Parallel(7, func(k int) {
		cfg := 3 + k
		c := newClientCfg(cfg)
		var n int64
		for i := range spec.Ops {
			op := &spec.Ops[i]
			if op.Broadcast {
				continue
			}
			base := ops.Baseline(op)
			h := fmt.Sprintf("client configuration %d", cfg)
			call(r, c, op, serial0, base, wireArgs(op, base), h)
			n++
			for _, f := range op.Req {
				if f.Enc == spec.Magic {
					continue
				}
				vals := boundary(f)
				if f.Enc == spec.U8 || f.Enc == spec.Bool {
					vals = domain(r, f, nil, nil)
				}
				for _, v := range vals {
					a := with(base, f.Name, v)
					if op.Name == "SetTimeProfile" && f.Enc == spec.HHmm {
						if f.Name[len(f.Name)-3:] == "End" {
							a[f.Name[:len(f.Name)-3]+"Start"] = spec.HM{}
						} else {
							a[f.Name[:len(f.Name)-5]+"End"] = spec.HM{H: 24}
						}
					}
					if !accepted(op, serial0, a) {
						continue
					}
					call(r, c, op, serial0, a, wireArgs(op, a), h)
					n++
				}
				c.fake.Reset()
			}
		}
		atomic.AddInt64(&distinct, n)
	})

	// (3b) SetTime histories by value: consecutive calls whose arguments are the same instant in two
	// different Locations (different wall clocks -> different bytes), the same wall clock in two
	// Locations (different instants -> same bytes), and two instants within one second: for every
	// ordered pair of Locations. A value-keyed cache in the encoder that confuses any two of these
	// answers the second call with the first call's bytes.
	{
		c := newClient()
		op := spec.OpByName("SetTime")
		locs := []*time.Location{time.UTC, time.FixedZone("+14", 14*3600), time.FixedZone("-12", -12*3600), time.FixedZone("+0545", 5*3600+45*60), time.Local}
		for _, n := range []string{"America/New_York", "Australia/Lord_Howe"} {
			if l, err := time.LoadLocation(n); err == nil {
				locs = append(locs, l)
			}
		}
		setTime := func(tt time.Time) {
			a := spec.Args{ops.RawTime: tt, "DateTime": spec.CivilDT{Y: tt.Year(), M: int(tt.Month()), D: tt.Day(), H: tt.Hour(), Mi: tt.Minute(), S: tt.Second()}}
			call(r, c, op, serial0, a, a, "")
			distinct++
		}
		bases := []time.Time{}
		for t := time.Date(2024, 1, 1, 0, 0, 0, 0, time.UTC); t.Year() == 2024; t = t.Add(173 * time.Hour) {
			bases = append(bases, t.Add(29*time.Minute+31*time.Second))
		}
		bases = append(bases, time.Date(2024, 3, 10, 6, 30, 0, 0, time.UTC), time.Date(2024, 11, 3, 5, 30, 0, 0, time.UTC), time.Date(2000, 2, 29, 23, 59, 59, 0, time.UTC))
		for _, t := range bases {
			for _, l1 := range locs {
				for _, l2 := range locs {
					if l1 == l2 {
						continue
					}
					t1 := t.In(l1)
					setTime(t1)
					setTime(t.In(l2)) // same instant, other Location
					setTime(t1)
					setTime(time.Date(t1.Year(), t1.Month(), t1.Day(), t1.Hour(), t1.Minute(), t1.Second(), 0, l2)) // same wall clock, other Location
					setTime(t1)
					setTime(t1.Add(999 * time.Millisecond)) // same second
					setTime(t1.Add(time.Second))
				}
			}
			c.fake.Reset()
		}
	}

	// (3d) date values held in other Locations than the process zone (types.Date is a time.Time; a
	// caller can convert one from any time.Time): consecutive AddTask / PutCard calls whose dates are
	// the same instant in two Locations (different calendar days) and the same calendar day in two
	// Locations (different instants). The encoding is the calendar day the value itself shows.
	{
		c := newClient()
		locs := []*time.Location{time.UTC, time.FixedZone("-10", -10*3600), time.FixedZone("+14", 14*3600), time.FixedZone("+0545", 5*3600+45*60), time.Local}
		civ := func(t time.Time) spec.Civil { return spec.Civil{Y: t.Year(), M: int(t.Month()), D: t.Day()} }
		for _, name := range []string{"AddTask", "PutCard", "SetTimeProfile"} {
			op := spec.OpByName(name)
			base := ops.Baseline(op)
			send := func(from, to time.Time) {
				a := spec.Args{}
				for k, v := range base {
					a[k] = v
				}
				a[ops.RawFrom], a[ops.RawTo] = types.Date(from), types.Date(to)
				a["From"], a["To"] = civ(from), civ(to)
				if !accepted(op, serial0, a) {
					return
				}
				call(r, c, op, serial0, a, wireArgs(op, a), "")
				distinct++
			}
			for _, t := range []time.Time{time.Date(2024, 3, 10, 23, 30, 0, 0, time.UTC), time.Date(2024, 12, 31, 12, 0, 0, 0, time.UTC), time.Date(2025, 1, 1, 0, 0, 0, 0, time.UTC), time.Date(2024, 2, 29, 9, 59, 59, 0, time.UTC)} {
				for _, l1 := range locs {
					for _, l2 := range locs {
						if l1 == l2 {
							continue
						}
						end := t.AddDate(0, 6, 0)
						send(t.In(l1), end.In(l1))
						send(t.In(l2), end.In(l2)) // same instants, other Location
						y, m, d := t.In(l1).Date()
						send(time.Date(y, m, d, 0, 0, 0, 0, l2), end.In(l2)) // same calendar day, other Location
					}
				}
			}
			// dates that carry a time of day, around removed local midnights of the Location they are held in
			tod := ops.DatesWithTimeOfDay()
			for _, t := range tod {
				send(t, t.AddDate(0, 6, 0))
				send(t.AddDate(0, -6, 0), t)
			}
			c.fake.Reset()
		}
	}

	// (5) replies: the request stream of a call does not depend on what the controller answers. Every
	// operation's baseline call against: the well-formed baseline reply; that reply with each field
	// in turn all-zero and all-ones, and every single-byte field over all 256 values (event type 0xff,
	// door states, flags, ...); silence; a reply from another controller; a truncated reply - through
	// the unconfigured, the UDP- and the TCP-configured client. Exactly one request, the same bytes.
	vk.Parallel(len(spec.Ops), func(i int) {
		op := &spec.Ops[i]
		if op.Broadcast || op.NoReply {
			return
		}
		base := ops.Baseline(op)
		valid := spec.EncodeReply(op, serial0, ops.BaselineReply(op))
		answers := [][][]byte{{valid}, {}, {append([]byte{}, valid[:40]...)}}
		other := append([]byte{}, valid...)
		other[4] ^= 0x01
		answers = append(answers, [][]byte{other}, [][]byte{other, valid}, [][]byte{valid, valid})
		for _, f := range op.Reply {
			w := f.Enc.Width()
			for _, fill := range []byte{0x00, 0xff} {
				b := append([]byte{}, valid...)
				for k := 0; k < w && f.Off+k < 64; k++ {
					b[f.Off+k] = fill
				}
				answers = append(answers, [][]byte{b})
			}
			if w == 1 {
				for v := 0; v < 256; v++ {
					b := append([]byte{}, valid...)
					b[f.Off] = byte(v)
					answers = append(answers, [][]byte{b})
				}
			}
		}
		var n int64
		for cfg := 0; cfg <= 2; cfg++ {
			c := newClientCfg(cfg)
			for k, ans := range answers {
				ans := ans
				c.answer = func([]byte) [][]byte {
					out := make([][]byte, len(ans))
					for i := range ans {
						out[i] = append([]byte{}, ans[i]...)
					}
					return out
				}
				call(r, c, op, serial0, base, wireArgs(op, base), fmt.Sprintf("client configuration %d; the controller answers with reply variant %d: %x", cfg, k, ans))
				n++
				c.fake.Reset()
			}
		}
		atomic.AddInt64(&distinct, n)
	})

	// (4) histories: every ordered pair of operations on one client, and alternating between two
	// clients; thorough: every ordered triple over a 10-operation sub-alphabet. Each operation has
	// two distinct argument tuples (A = baseline, B = boundary variant) so leaked state is visible.
	variant := func(op *spec.Op) spec.Args {
		a := ops.Baseline(op)
		for _, f := range op.Req {
			if b := boundary(f); len(b) > 1 && f.Enc != spec.Magic {
				a[f.Name] = b[1]
			}
		}
		if !accepted(op, serial0, a) {
			return ops.Baseline(op)
		}
		return a
	}
	nops := len(spec.Ops)
	vk.Parallel(nops, func(i int) {
		var n int64
		for j := 0; j < nops; j++ {
			o1, o2 := &spec.Ops[i], &spec.Ops[j]
			s1, s2 := serial0, uint32(0x04030201)
			if o1.Broadcast {
				s1 = 0
			}
			if o2.Broadcast {
				s2 = 0
			}
			a1, a2 := ops.Baseline(o1), variant(o2)
			h := o1.Name + " ; " + o2.Name
			// one client
			c := newClient()
			call(r, c, o1, s1, a1, wireArgs(o1, a1), "")
			call(r, c, o2, s2, a2, wireArgs(o2, a2), h)
			call(r, c, o1, s1, a1, wireArgs(o1, a1), h+" ; "+o1.Name)
			// two clients, alternating
			x, y := newClient(), newClient()
			call(r, x, o1, s1, a1, wireArgs(o1, a1), "")
			call(r, y, o2, s2, a2, wireArgs(o2, a2), "other client: "+o1.Name)
			call(r, x, o2, s2, a2, wireArgs(o2, a2), h+" (other client interleaved)")
			call(r, y, o1, s1, a1, wireArgs(o1, a1), h+" (other client interleaved)")
			n += 2
		}
		atomic.AddInt64(&distinct, n)
	})
	r.Add("histories_pairs", int64(nops*nops))
	if r.Thorough() {
		sub := []string{"GetDevices", "SetAddress", "SetListener", "SetTime", "PutCard", "SetTimeProfile", "AddTask", "SetDoorPasscodes", "GetStatus", "RestoreDefaultParameters"}
		vk.Parallel(len(sub)*len(sub), func(i int) {
			o1, o2 := spec.OpByName(sub[i/len(sub)]), spec.OpByName(sub[i%len(sub)])
			for _, n3 := range sub {
				o3 := spec.OpByName(n3)
				c := newClient()
				ser := func(o *spec.Op, s uint32) uint32 {
					if o.Broadcast {
						return 0
					}
					return s
				}
				a1, a2, a3 := ops.Baseline(o1), variant(o2), ops.Baseline(o3)
				call(r, c, o1, ser(o1, serial0), a1, wireArgs(o1, a1), "")
				call(r, c, o2, ser(o2, 0x04030201), a2, wireArgs(o2, a2), o1.Name)
				call(r, c, o3, ser(o3, 7), a3, wireArgs(o3, a3), o1.Name+" ; "+o2.Name)
			}
		})
		r.Add("histories_triples", int64(len(sub)*len(sub)*len(sub)))
		distinct += int64(len(sub) * len(sub) * len(sub))
	}

	r.Distinct(distinct)
	r.Rule("per operation: baseline x serial alphabet (also through clients that have the controller configured with a time zone of its own, via NewDevice/UDP and as a literal/TCP, together with the SetTime sweep; and, with every argument over its boundary alphabet and every 8-bit argument over all 256 values, through 7 richer descriptions of the controller: 1/2/3/5 door names, NewDevice with a DST zone, no address, an IPv6 address); every argument over its full single-field domain (all uint8, 32-bit structured alphabet, all HH:mm, all ports, every octet, dates: thorough all 3652058 / quick 7 full years + first/last of every month, PINs: thorough all 10^6 / quick 0..9999 + boundaries); all argument pairs over boundary alphabets; every ordered pair of boundary values of one argument as two consecutive calls; all map shapes; passcode lists <= 6; SetTime over 5 Locations x every hour of 2024, and consecutive SetTime calls with the same instant / the same wall clock / the same second in every ordered pair of 7 Locations; consecutive AddTask / PutCard / SetTimeProfile calls whose Date arguments are the same instant / the same calendar day held in two different Locations; every ordered pair of the 32 operations as a history on one and on two clients (thorough: triples over 10 operations); every operation's baseline call against reply variants (valid; each reply field all-zero / all-ones; every single-byte reply field over all 256 values; silence; foreign; truncated; duplicated) on three client configurations. distinct = distinct (operation, argument tuple[, history]) cases generated; each differs from the baseline in at least one argument")
	r.Assume("reference encoder spec.EncodeRequest and tables spec/protocol.go (hand-written)")
	r.Assume("process time zone pinned to UTC (zone dependence is C05/C13)")
	r.Finish()
}
