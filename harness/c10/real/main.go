// Engine E3 conformance replay for C10: every datagram-class sequence of length <= 2 that the E1
// content layer enumerates is sent over a real loopback socket to the UNMODIFIED Listen, the stop
// signal follows well after the last datagram, and the callbacks are compared with what the model
// produced for "stop after the whole sequence" (all datagrams read). The listen address is then
// bound again immediately. Output: one JSON object on stdout.
package main

import (
	"encoding/binary"
	"encoding/json"
	"fmt"
	"net"
	"net/netip"
	"os"
	"sync"
	"time"

	"github.com/uhppoted/uhppote-core/types"
	"github.com/uhppoted/uhppote-core/uhppote"
	"verif/ops"
	"verif/spec"
)

const serial = uint32(405419896)

var classes = []string{"valid", "valid-v6.62", "valid-index-0", "len63", "len65", "serial-0", "wrong-function", "protocol-00", "bad-boolean", "bad-bcd-timestamp", "bad-bcd-sysdate", "bad-bcd-systime", "len0"}
var statusOp = spec.OpByName("GetStatus")

func datagram(class string, seq int) []byte {
	v := ops.BaselineReply(statusOp)
	v["SequenceId"] = uint32(1000 + seq)
	v["EventIndex"] = uint32(70 + seq)
	v["CardNumber"] = uint32(8000000 + seq)
	v["SystemTime"] = spec.HMS{H: 13, M: 47, S: 10 + seq}
	if class == "valid-index-0" {
		v["EventIndex"] = uint32(0)
	}
	d := spec.EncodeMessage(0x17, 0x20, serial, spec.StatusReply, v)
	off := func(name string) int {
		for _, f := range spec.StatusReply {
			if f.Name == name {
				return f.Off
			}
		}
		panic(name)
	}
	switch class {
	case "valid", "valid-index-0":
	case "valid-v6.62":
		d[0] = 0x19
	case "len63":
		d = d[:63]
	case "len65":
		d = append(d, 0)
	case "len0":
		d = []byte{}
	case "serial-0":
		binary.LittleEndian.PutUint32(d[4:8], 0)
	case "wrong-function":
		d[1] = 0x22
	case "protocol-00":
		d[0] = 0
	case "bad-boolean":
		d[off("Door3State")] = 2
	case "bad-bcd-timestamp":
		d[off("Timestamp")+2] = 0x1a
	case "bad-bcd-sysdate":
		d[off("SystemDate")+1] = 0xf1
	case "bad-bcd-systime":
		d[off("SystemTime")] = 0x2b
	}
	return d
}

type listener struct {
	mu        sync.Mutex
	connected int
	events    []map[string]any
	errors    int
	ready     chan struct{}
}

func (l *listener) OnConnected() {
	l.mu.Lock()
	l.connected++
	l.mu.Unlock()
	select {
	case l.ready <- struct{}{}:
	default:
	}
}
func (l *listener) OnEvent(s *types.Status) {
	l.mu.Lock()
	l.events = append(l.events, ops.StatusFields(s))
	l.mu.Unlock()
}
func (l *listener) OnError(error) bool { l.mu.Lock(); l.errors++; l.mu.Unlock(); return true }

// one returns "" if the real run agrees with the model, else a description.
func one(seq []string, port int) string {
	lo := netip.MustParseAddr("127.0.0.1")
	u := uhppote.NewUHPPOTE(types.BindAddr{}, types.BroadcastAddr{}, types.ListenAddrFrom(lo, uint16(port)), time.Second, nil, false)
	var sent [][]byte
	for k, c := range seq {
		sent = append(sent, datagram(c, k))
	}
	for cycle := 0; cycle < 2; cycle++ { // the second cycle checks the immediate re-bind
		l := &listener{ready: make(chan struct{}, 1)}
		q := make(chan os.Signal, 1)
		done := make(chan error, 1)
		go func() { done <- u.Listen(l, q) }()
		select {
		case <-l.ready:
		case err := <-done:
			return fmt.Sprintf("cycle %d: Listen returned before connecting: %v", cycle, err)
		case <-time.After(5 * time.Second):
			return fmt.Sprintf("cycle %d: OnConnected not called within 5 s", cycle)
		}
		conn, err := net.DialUDP("udp4", nil, &net.UDPAddr{IP: net.IPv4(127, 0, 0, 1), Port: port})
		if err != nil {
			return "ENV"
		}
		for _, d := range sent {
			conn.Write(d)
			time.Sleep(5 * time.Millisecond)
		}
		conn.Close()
		// wait until every datagram has produced its callback (or 2 s), then stop
		want := len(sent)
		for i := 0; i < 400; i++ {
			l.mu.Lock()
			n := len(l.events) + l.errors
			l.mu.Unlock()
			if n >= want {
				break
			}
			time.Sleep(5 * time.Millisecond)
		}
		q <- os.Interrupt
		select {
		case err := <-done:
			if err != nil {
				return fmt.Sprintf("cycle %d: Listen returned %v", cycle, err)
			}
		case <-time.After(5 * time.Second):
			return fmt.Sprintf("cycle %d: Listen did not return within 5 s of the stop signal", cycle)
		}
		time.Sleep(10 * time.Millisecond) // the dispatcher may still be delivering the last event
		l.mu.Lock()
		var wantEvents [][]byte
		wantErrors := 0
		for _, d := range sent {
			ok := len(d) == 64 && (d[0] == 0x17 || d[0] == 0x19) && d[1] == 0x20 && binary.LittleEndian.Uint32(d[4:8]) != 0
			if ok {
				ok = !spec.ExpectReply(statusOp, serial, spec.Args{}, d).AnyOut
			}
			if ok {
				wantEvents = append(wantEvents, d)
			} else {
				wantErrors++
			}
		}
		res := ""
		switch {
		case l.connected != 1:
			res = fmt.Sprintf("cycle %d: OnConnected x%d", cycle, l.connected)
		case len(l.events) != len(wantEvents) || l.errors != wantErrors:
			res = fmt.Sprintf("cycle %d: %d events / %d errors, model %d / %d", cycle, len(l.events), l.errors, len(wantEvents), wantErrors)
		default:
			for i, ev := range l.events {
				ex := spec.ExpectReply(statusOp, serial, spec.Args{}, wantEvents[i])
				if v := spec.Judge(ex, spec.Observed{Fields: ev}); v.Class != "" {
					res = fmt.Sprintf("cycle %d: event %d: %s", cycle, i, v.Detail)
				}
			}
		}
		l.mu.Unlock()
		if res != "" {
			return res
		}
	}
	return ""
}

func main() {
	var seqs [][]string
	seqs = append(seqs, []string{})
	for _, a := range classes {
		seqs = append(seqs, []string{a})
		for _, b := range classes {
			seqs = append(seqs, []string{a, b})
		}
	}
	var mu sync.Mutex
	replayed, agreed, skipped := 0, 0, 0
	var divergences []map[string]string
	var wg sync.WaitGroup
	sem := make(chan struct{}, 16)
	for i, s := range seqs {
		i, s := i, s
		wg.Add(1)
		sem <- struct{}{}
		go func() {
			defer wg.Done()
			defer func() { <-sem }()
			res := ""
			for attempt := 0; attempt < 5; attempt++ {
				res = one(s, 22000+i)
				if res == "" || res == "ENV" {
					break
				}
			}
			mu.Lock()
			defer mu.Unlock()
			if res == "ENV" {
				skipped++
				return
			}
			replayed++
			if res == "" {
				agreed++
			} else {
				divergences = append(divergences, map[string]string{"scenario": fmt.Sprint(s), "real": res})
			}
		}()
	}
	wg.Wait()
	json.NewEncoder(os.Stdout).Encode(map[string]any{"replayed": replayed, "agreed": agreed, "skipped": skipped, "divergences": divergences})
}
