// C10 — the event listener delivers every valid event once, in order, and nothing else.
//
// Engine E1: the real Listen (API -> listen -> ut0311.Listen: receive loop, dispatcher goroutine,
// shutdown goroutine, unbuffered event pipe) runs on the simulated network while datagrams of an
// enumerated class sequence arrive and the stop signal is injected after every prefix. Two layers:
// (a) content — every sequence over the full 16-class alphabet, preemption bound 0 (all forced
// switch orders); (b) scheduling — every sequence over {valid, v6.62, malformed} under ALL
// interleavings of receive loop, dispatcher, shutdown goroutine, stopper and caller within the
// preemption bound; (c) start/stop cycles on the same listen address.
package main

import (
	"encoding/binary"
	"fmt"
	"net/netip"
	"os"
	"reflect"
	"sort"
	"strconv"
	"strings"
	"syscall"
	"time"

	"github.com/uhppoted/uhppote-core/types"
	"github.com/uhppoted/uhppote-core/uhppote"
	"github.com/uhppoted/uhppote-core/verifshim/vs"
	"verif/mc/e1"
	"verif/mc/farm"
	"verif/ops"
	"verif/spec"
	"verif/vk"
)

const (
	T      = time.Second
	serial = uint32(405419896)
	lport  = 60001
)

var classes = []string{"valid", "valid-v6.62", "valid-index-0", "len63", "len65", "serial-0", "wrong-function", "protocol-00", "bad-boolean", "bad-bcd-timestamp", "bad-bcd-sysdate", "bad-bcd-systime", "len0", "len1100", "len6", "function-ff"}

var statusOp = spec.OpByName("GetStatus")

func datagram(class string, seq int) []byte {
	v := ops.BaselineReply(statusOp)
	v["SequenceId"] = uint32(1000 + seq)
	v["EventIndex"] = uint32(70 + seq)
	v["CardNumber"] = uint32(8000000 + seq)
	v["SystemTime"] = spec.HMS{H: 13 + (seq/3000)%10, M: (seq / 50) % 60, S: 10 + seq%50}
	// every datagram of a sequence differs from its neighbours in every kind of field, the door and
	// button flags included (storage shared between two delivered statuses must show)
	for d := 1; d <= 4; d++ {
		v[fmt.Sprintf("Door%dState", d)] = (seq>>(d-1))&1 == 1
		v[fmt.Sprintf("Door%dButton", d)] = (seq>>(d-1))&1 == 0
	}
	v["RelayState"] = uint8(seq & 0x0f)
	v["InputState"] = uint8(0x0f - seq&0x0f)
	if class == "valid-index-0" {
		v["EventIndex"] = uint32(0)
	}
	from := serial
	if strings.HasPrefix(class, "valid@") { // a valid event from another controller
		n, err := strconv.ParseUint(class[6:], 10, 32)
		if err != nil {
			panic(class)
		}
		from, class = uint32(n), "valid"
	}
	d := spec.EncodeMessage(0x17, 0x20, from, spec.StatusReply, v)
	off := func(name string) int {
		for _, f := range spec.StatusReply {
			if f.Name == name {
				return f.Off
			}
		}
		panic(name)
	}
	switch class {
	case "valid", "valid-index-0":
	case "valid-v6.62":
		d[0] = 0x19
	case "len63":
		d = d[:63]
	case "len65":
		d = append(d, 0)
	case "len6":
		d = d[:6]
	case "function-ff":
		d[1] = 0xff
	case "len0":
		d = []byte{}
	case "len1100": // a well-formed event followed by 1036 more bytes
		d = append(d, make([]byte, 1100-64)...)
	case "serial-0":
		binary.LittleEndian.PutUint32(d[4:8], 0)
	case "wrong-function":
		d[1] = 0x22
	case "protocol-00":
		d[0] = 0
	case "bad-boolean":
		d[off("Door3State")] = 2
	case "bad-bcd-timestamp":
		d[off("Timestamp")+2] = 0x1a
	case "bad-bcd-sysdate":
		d[off("SystemDate")+1] = 0xf1
	case "bad-bcd-systime":
		d[off("SystemTime")] = 0x2b
	default:
		panic(class)
	}
	return d
}

func isValid(class string) bool {
	return class == "valid" || class == "valid-v6.62" || class == "valid-index-0" || strings.HasPrefix(class, "valid@")
}

type rec struct {
	err     error  // error callbacks: the error object as delivered
	errSnap string // every byte reachable from it, at delivery
	kind    string // "connected" | "event" | "error"
	status  *types.Status
	snap    map[string]any
	socks   int
}

type listener struct {
	calls []rec
	// choose: what OnError returns is an environment choice (the documentation gives the return value
	// no meaning for the delivery of later datagrams); otherwise it returns true
	choose bool
}

func (l *listener) OnConnected() {
	l.calls = append(l.calls, rec{kind: "connected", socks: len(vs.Net().OpenSockets())})
}
func (l *listener) OnEvent(s *types.Status) {
	l.calls = append(l.calls, rec{kind: "event", status: s, snap: ops.StatusFields(s)})
}
func (l *listener) OnError(err error) bool {
	l.calls = append(l.calls, rec{kind: "error", err: err, errSnap: reachableBytes(err)})
	if l.choose {
		return vs.Choose(2, "OnError-returns") == 0
	}
	return true
}

type run struct {
	l         *listener
	ret       error
	returned  bool
	openAtRet string
	readLog   [][]byte
}

func scenario(name string, seq []string, stopAfter int, senders int, bound int, cycles int, burst bool) e1.Scenario {
	var runs []*run
	body := func() {
		runs = nil
		vs.Net().Env = &farm.Farm{}
		// (two senders = the variant whose client is built with debug = true as well)
		u := uhppote.NewUHPPOTE(types.BindAddr{}, types.BroadcastAddr{}, types.ListenAddrFrom(netip.MustParseAddr("0.0.0.0"), lport), T, nil, senders == 2)
		for c := 0; c < cycles; c++ {
			r := &run{l: &listener{choose: bound == 0 || strings.Contains(name, "onerror-choice")}}
			runs = append(runs, r)
			base := vs.NowNs()
			_ = base
			for k, class := range seq {
				d := datagram(class, c*10+k)
				src := "192.168.1.100:60000"
				if senders == 2 && k%2 == 1 {
					src = "192.168.1.101:60000"
				}
				at := time.Duration(k+1) * T / 10
				if burst {
					at = T / 10 // everything arrives in the same instant as the stop signal
				}
				vs.After(at, func() { vs.Net().DeliverUDP(src, fmt.Sprintf("192.168.1.2:%d", lport), d) })
			}
			q := make(chan os.Signal, 1)
			stopAt := time.Duration(stopAfter)*T/10 + T/20
			if burst && stopAfter == 0 {
				stopAt = T / 10 // the stop signal falls into the same instant as the burst
			}
			vs.GoNamed("stopper", func() {
				vs.Sleep(stopAt)
				vs.Send(q, os.Signal(os.Interrupt))
			})
			before := len(vs.Net().ReadLog)
			r.ret = u.Listen(r.l, q)
			r.returned = true
			r.openAtRet = vs.Net().SocketSummary()
			r.readLog = vs.Net().ReadLog[before:]
			// straggling deliveries of this cycle must be over before the next one starts
			vs.Sleep(2 * T)
		}
	}
	check := func(e *vs.Exec) (string, []e1.Viol) {
		viols := e1.Generic(e)
		for _, r := range e.Races {
			viols = append(viols, e1.Viol{Key: "race", What: "data race: " + r})
		}
		if e.Abort != "" {
			return e.Abort, viols
		}
		add := func(key, what string) {
			viols = append(viols, e1.Viol{Key: key, What: fmt.Sprintf("%s (datagrams %v, stop after %d)", what, seq, stopAfter)})
		}
		label := ""
		for c, r := range runs {
			if !r.returned || r.ret != nil {
				add("listen-did-not-return-nil", fmt.Sprintf("cycle %d: returned=%v err=%v", c, r.returned, r.ret))
				continue
			}
			if r.openAtRet != "[]" {
				add("port-not-free-at-return", fmt.Sprintf("cycle %d: open sockets when Listen returned: %s", c, r.openAtRet))
			}
			// what the socket actually handed to the library, in order (the log keeps growing
			// until the socket is closed; reads of this cycle only)
			var wantEvents [][]byte
			wantErrors := 0
			for _, d := range vs.Net().ReadLog {
				_ = d
			}
			for _, d := range r.readLog {
				ok := len(d) == 64 && (d[0] == 0x17 || d[0] == 0x19) && d[1] == 0x20 && binary.LittleEndian.Uint32(d[4:8]) != 0
				if ok {
					ex := spec.ExpectReply(statusOp, binary.LittleEndian.Uint32(d[4:8]), spec.Args{}, d)
					ok = !ex.AnyOut
				}
				if ok {
					wantEvents = append(wantEvents, d)
				} else {
					wantErrors++
				}
			}
			connected, errors := 0, 0
			var events []rec
			for i, call := range r.l.calls {
				switch call.kind {
				case "connected":
					connected++
					if i != 0 {
						add("connected-not-first", fmt.Sprintf("cycle %d: OnConnected was callback #%d", c, i))
					}
					if call.socks != 1 {
						add("connected-before-bind", fmt.Sprintf("cycle %d: %d sockets open at OnConnected", c, call.socks))
					}
				case "event":
					events = append(events, call)
				case "error":
					errors++
				}
			}
			if connected != 1 {
				add("connected-count", fmt.Sprintf("cycle %d: OnConnected called %d times", c, connected))
			}
			if errors != wantErrors {
				add("error-callbacks", fmt.Sprintf("cycle %d: %d error callbacks for %d datagrams that are not well-formed events", c, errors, wantErrors))
			}
			if len(events) != len(wantEvents) {
				add("event-count", fmt.Sprintf("cycle %d: %d events delivered, %d well-formed events were received", c, len(events), len(wantEvents)))
			} else {
				for i, ev := range events {
					ex := spec.ExpectReply(statusOp, binary.LittleEndian.Uint32(wantEvents[i][4:8]), spec.Args{}, wantEvents[i])
					if v := spec.Judge(ex, spec.Observed{Fields: ev.snap}); v.Class != "" {
						add("event-content-or-order", fmt.Sprintf("cycle %d: event %d is not the decoding of received datagram %d: %s", c, i, i, v.Detail))
					}
					_ = i
				}
				for i, call := range r.l.calls {
					if call.kind == "error" && call.err != nil {
						if now := reachableBytes(call.err); now != call.errSnap {
							add("error-changed-afterwards", fmt.Sprintf("cycle %d: the error object handed to OnError (callback %d, %T) reaches bytes that changed after delivery: %s -> %s", c, i, call.err, call.errSnap, now))
						}
					}
				}
				for i, ev := range events {
					if now := ops.StatusFields(ev.status); !reflect.DeepEqual(now, ev.snap) {
						add("event-changed-afterwards", fmt.Sprintf("cycle %d: event %d changed after delivery", c, i))
					}
				}
			}
			label += fmt.Sprintf("[read=%d events=%d errors=%d]", len(r.readLog), len(events), errors)
		}
		if open := vs.Net().OpenSockets(); len(open) > 0 {
			add("socket-leak", fmt.Sprint(open))
		}
		return label, viols
	}
	return e1.Scenario{Name: name, Bound: bound, Body: body, Check: check, Opt: vs.Options{Horizon: 3000}}
}

// restartScenario: a second Listen on the same client while the first one is still winding down.
// Listener 1 has a slow OnEvent (it takes 0.5 T); two events arrive at 0.1 T, so at 0.2 T, when
// listener 1 is told to stop, its callback is busy with the first and the receive loop is waiting to
// hand over the second. At `at` another thread calls Listen again on the same client (and stops it
// at 1.5 T). Listener 1 must still come to an end, with both of its events delivered once; listener
// 2 must return nil as well (or fail to bind while listener 1 still holds the address).
type slowListener struct {
	listener
	delay time.Duration
}

func (l *slowListener) OnEvent(s *types.Status) {
	l.listener.OnEvent(s)
	vs.Sleep(l.delay)
}

func restartScenario(at time.Duration, bound int) e1.Scenario {
	var l1 *slowListener
	var l2 *listener
	var ret1, ret2 error
	var done1, done2 bool
	body := func() {
		l1, l2 = &slowListener{delay: T / 2}, &listener{}
		done1, done2, ret1, ret2 = false, false, nil, nil
		c1, c2 := l1, l2
		vs.Net().Env = &farm.Farm{}
		u := uhppote.NewUHPPOTE(types.BindAddr{}, types.BroadcastAddr{}, types.ListenAddrFrom(netip.MustParseAddr("0.0.0.0"), lport), T, nil, false)
		for k := 0; k < 2; k++ {
			d := datagram("valid", k)
			vs.After(T/10, func() { vs.Net().DeliverUDP("192.168.1.100:60000", fmt.Sprintf("192.168.1.2:%d", lport), d) })
		}
		q1, q2 := make(chan os.Signal, 1), make(chan os.Signal, 1)
		vs.GoNamed("stopper1", func() { vs.Sleep(2 * T / 10); vs.Send(q1, os.Signal(os.Interrupt)) })
		vs.GoNamed("stopper2", func() { vs.Sleep(15 * T / 10); vs.Send(q2, os.Signal(os.Interrupt)) })
		var wg vs.WaitGroup
		wg.Add(1)
		vs.GoNamed("second-listen", func() {
			defer wg.Done()
			vs.Sleep(at)
			ret2 = u.Listen(c2, q2)
			done2 = true
		})
		ret1 = u.Listen(c1, q1)
		done1 = true
		wg.Wait()
	}
	check := func(e *vs.Exec) (string, []e1.Viol) {
		viols := e1.Generic(e)
		for _, r := range e.Races {
			viols = append(viols, e1.Viol{Key: "race", What: "data race: " + r})
		}
		if e.Abort != "" {
			return e.Abort, viols
		}
		add := func(key, what string) {
			viols = append(viols, e1.Viol{Key: "restart/" + key, What: fmt.Sprintf("%s (second Listen on the same client at %v, first listener stopped at 0.2 T with its callback busy)", what, at)})
		}
		if !done1 || ret1 != nil {
			add("first-listener-did-not-return-nil", fmt.Sprintf("returned=%v err=%v", done1, ret1))
		}
		if !done2 {
			add("second-listener-did-not-return", "")
		}
		ev1 := 0
		for _, c := range l1.calls {
			if c.kind == "event" {
				ev1++
			}
		}
		if ev1 != 2 {
			add("first-listener-events", fmt.Sprintf("%d events delivered to the first listener, 2 were read before it was stopped", ev1))
		}
		if open := vs.Net().OpenSockets(); len(open) > 0 {
			add("socket-leak", fmt.Sprint(open))
		}
		return fmt.Sprintf("restart first=%v/%d second=%v", ret1 == nil, ev1, ret2 == nil), viols
	}
	return e1.Scenario{Name: fmt.Sprintf("restart-while-callback-busy/second-listen@%v", at), Bound: bound, Body: body, Check: check, Opt: vs.Options{Horizon: 3000}}
}

// doubleStopScenario: the caller signals the stop channel more than once (an impatient second
// Ctrl-C: two values on a buffered channel, or a value followed by close) while the listener's slow
// callback is still busy with the first of two events that were read before the first signal. The
// listener stops once, delivers both events exactly once, returns nil and frees the address.
func doubleStopScenario(how string, bound int) e1.Scenario {
	var l1 *slowListener
	var ret error
	var done bool
	body := func() {
		l1 = &slowListener{delay: T / 2}
		done, ret = false, nil
		c1 := l1
		vs.Net().Env = &farm.Farm{}
		u := uhppote.NewUHPPOTE(types.BindAddr{}, types.BroadcastAddr{}, types.ListenAddrFrom(netip.MustParseAddr("0.0.0.0"), lport), T, nil, false)
		for k := 0; k < 2; k++ {
			d := datagram("valid", k)
			vs.After(T/10, func() { vs.Net().DeliverUDP("192.168.1.100:60000", fmt.Sprintf("192.168.1.2:%d", lport), d) })
		}
		q := make(chan os.Signal, 2)
		vs.GoNamed("stopper", func() {
			vs.Sleep(2 * T / 10)
			vs.Send(q, os.Signal(os.Interrupt))
			switch how {
			case "two-signals-at-once":
				vs.Send(q, os.Signal(os.Interrupt))
			case "second-signal-later":
				vs.Sleep(T / 10)
				vs.Send(q, os.Signal(os.Interrupt))
			case "signal-then-close":
				vs.Sleep(T / 10)
				vs.Close(q)
			}
		})
		ret = u.Listen(c1, q)
		done = true
	}
	check := func(e *vs.Exec) (string, []e1.Viol) {
		viols := e1.Generic(e)
		for _, r := range e.Races {
			viols = append(viols, e1.Viol{Key: "race", What: "data race: " + r})
		}
		if e.Abort != "" {
			return e.Abort, viols
		}
		add := func(key, what string) {
			viols = append(viols, e1.Viol{Key: "double-stop/" + key, What: fmt.Sprintf("%s (stop channel: %s, the callback busy with the first of two events read before the first signal)", what, how)})
		}
		if !done || ret != nil {
			add("listener-did-not-return-nil", fmt.Sprintf("returned=%v err=%v", done, ret))
		}
		ev := 0
		for _, c := range l1.calls {
			if c.kind == "event" {
				ev++
			}
		}
		if ev != 2 {
			add("events", fmt.Sprintf("%d events delivered, 2 were read before the listener was stopped", ev))
		}
		if open := vs.Net().OpenSockets(); len(open) > 0 {
			add("socket-leak", fmt.Sprint(open))
		}
		return fmt.Sprintf("double-stop %s ret=%v events=%d", how, ret == nil, ev), viols
	}
	return e1.Scenario{Name: "double-stop/" + how, Bound: bound, Body: body, Check: check, Opt: vs.Options{Horizon: 3000}}
}

// Listener values of other dynamic kinds than a pointer to a struct: a struct passed by value (methods
// with value receivers, the recorder behind a pointer field), a map type and a func type. Listen takes
// an interface; what kind of value implements it is the application's business.
type valueListener struct{ rec *listener }

func (l valueListener) OnConnected()            { l.rec.OnConnected() }
func (l valueListener) OnEvent(s *types.Status) { l.rec.OnEvent(s) }
func (l valueListener) OnError(err error) bool  { return l.rec.OnError(err) }

type mapListener map[string]*listener

func (l mapListener) OnConnected()            { l["rec"].OnConnected() }
func (l mapListener) OnEvent(s *types.Status) { l["rec"].OnEvent(s) }
func (l mapListener) OnError(err error) bool  { return l["rec"].OnError(err) }

type funcListener func() *listener

func (l funcListener) OnConnected()            { l().OnConnected() }
func (l funcListener) OnEvent(s *types.Status) { l().OnEvent(s) }
func (l funcListener) OnError(err error) bool  { return l().OnError(err) }

type intListener int

var intListenerRec *listener

func (l intListener) OnConnected()            { intListenerRec.OnConnected() }
func (l intListener) OnEvent(s *types.Status) { intListenerRec.OnEvent(s) }
func (l intListener) OnError(err error) bool  { return intListenerRec.OnError(err) }

func listenerKindScenario(kind string) e1.Scenario {
	var rec *listener
	var ret error
	var done bool
	body := func() {
		rec = &listener{}
		done, ret = false, nil
		r := rec
		var l uhppote.Listener
		switch kind {
		case "struct-value":
			l = valueListener{rec: r}
		case "map":
			l = mapListener{"rec": r}
		case "func":
			l = funcListener(func() *listener { return r })
		case "int":
			intListenerRec = r
			l = intListener(7)
		default:
			l = r
		}
		vs.Net().Env = &farm.Farm{}
		u := uhppote.NewUHPPOTE(types.BindAddr{}, types.BroadcastAddr{}, types.ListenAddrFrom(netip.MustParseAddr("0.0.0.0"), lport), T, nil, false)
		for k, class := range []string{"valid", "len63", "valid"} {
			d := datagram(class, k)
			vs.After(time.Duration(k+1)*T/10, func() { vs.Net().DeliverUDP("192.168.1.100:60000", fmt.Sprintf("192.168.1.2:%d", lport), d) })
		}
		q := make(chan os.Signal, 1)
		vs.GoNamed("stopper", func() { vs.Sleep(5 * T / 10); vs.Send(q, os.Signal(os.Interrupt)) })
		ret = u.Listen(l, q)
		done = true
	}
	check := func(e *vs.Exec) (string, []e1.Viol) {
		viols := e1.Generic(e)
		if e.Abort != "" {
			return e.Abort, viols
		}
		what := "the Listener is a " + kind
		if !done || ret != nil {
			viols = append(viols, e1.Viol{Key: "listener-kind/listener-did-not-return-nil", What: fmt.Sprintf("returned=%v err=%v (%s)", done, ret, what)})
		}
		kinds := ""
		for _, c := range rec.calls {
			kinds += c.kind + " "
		}
		if kinds != "connected event error event " {
			viols = append(viols, e1.Viol{Key: "listener-kind/callbacks", What: fmt.Sprintf("callbacks [%s], expected [connected event error event] for valid, 63 bytes, valid (%s)", kinds, what)})
		}
		if open := vs.Net().OpenSockets(); len(open) > 0 {
			viols = append(viols, e1.Viol{Key: "listener-kind/socket-leak", What: fmt.Sprint(open) + " (" + what + ")"})
		}
		return "listener-kind " + kinds, viols
	}
	return e1.Scenario{Name: "listener-kind/" + kind, Bound: 1, Body: body, Check: check, Opt: vs.Options{Horizon: 3000}}
}

// slowCallbackScenario: the application's OnEvent takes long (seconds, minutes - far longer than any
// grace period a shutdown path might allow itself). Two events are read before the stop signal; the
// callback is busy with the first. However long it takes, the listener neither gives up on the
// second event nor returns while the library still has work in flight: both events are delivered
// once, nothing panics, Listen returns nil.
func slowCallbackScenario(delay time.Duration) e1.Scenario {
	var l1 *slowListener
	var ret error
	var done bool
	body := func() {
		l1 = &slowListener{delay: delay}
		done, ret = false, nil
		c1 := l1
		vs.Net().Env = &farm.Farm{}
		u := uhppote.NewUHPPOTE(types.BindAddr{}, types.BroadcastAddr{}, types.ListenAddrFrom(netip.MustParseAddr("0.0.0.0"), lport), T, nil, false)
		for k := 0; k < 2; k++ {
			d := datagram("valid", k)
			vs.After(T/10, func() { vs.Net().DeliverUDP("192.168.1.100:60000", fmt.Sprintf("192.168.1.2:%d", lport), d) })
		}
		q := make(chan os.Signal, 1)
		vs.GoNamed("stopper", func() { vs.Sleep(2 * T / 10); vs.Send(q, os.Signal(os.Interrupt)) })
		ret = u.Listen(c1, q)
		done = true
	}
	check := func(e *vs.Exec) (string, []e1.Viol) {
		viols := e1.Generic(e)
		if e.Abort != "" {
			return e.Abort, viols
		}
		what := fmt.Sprintf("OnEvent takes %v per event, two events read before the stop signal", delay)
		if !done || ret != nil {
			viols = append(viols, e1.Viol{Key: "slow-callback/listener-did-not-return-nil", What: fmt.Sprintf("returned=%v err=%v (%s)", done, ret, what)})
		}
		ev := 0
		for _, c := range l1.calls {
			if c.kind == "event" {
				ev++
			}
		}
		if ev != 2 {
			viols = append(viols, e1.Viol{Key: "slow-callback/events", What: fmt.Sprintf("%d events delivered, 2 were read (%s)", ev, what)})
		}
		if open := vs.Net().OpenSockets(); len(open) > 0 {
			viols = append(viols, e1.Viol{Key: "slow-callback/socket-leak", What: fmt.Sprint(open) + " (" + what + ")"})
		}
		return fmt.Sprintf("slow-callback ret=%v events=%d", ret == nil, ev), viols
	}
	return e1.Scenario{Name: fmt.Sprintf("slow-callback/%v", delay), Bound: 1, Body: body, Check: check, Opt: vs.Options{Horizon: 3000}}
}

// stopTokenScenario: "the listener stops when signalled" - whatever is delivered on the stop
// channel: any os.Signal value (signals an application may receive without meaning to quit
// included), a nil value, or the channel being closed; through a quiet and a debug client.
var stopTokens = map[string]os.Signal{"interrupt": os.Interrupt, "kill": os.Kill, "sigterm": syscall.SIGTERM, "sighup": syscall.SIGHUP, "sigquit": syscall.SIGQUIT,
	"sigurg": syscall.SIGURG, "sigchld": syscall.SIGCHLD, "sigwinch": syscall.SIGWINCH, "sigusr1": syscall.SIGUSR1, "sigpipe": syscall.SIGPIPE, "sigcont": syscall.SIGCONT, "signal-0": syscall.Signal(0), "nil": nil}

func stopTokenScenario(token string, debug bool) e1.Scenario {
	var l1 *listener
	var ret error
	var done bool
	body := func() {
		l1 = &listener{}
		done, ret = false, nil
		c1 := l1
		vs.Net().Env = &farm.Farm{}
		u := uhppote.NewUHPPOTE(types.BindAddr{}, types.BroadcastAddr{}, types.ListenAddrFrom(netip.MustParseAddr("0.0.0.0"), lport), T, nil, debug)
		d := datagram("valid", 0)
		vs.After(T/10, func() { vs.Net().DeliverUDP("192.168.1.100:60000", fmt.Sprintf("192.168.1.2:%d", lport), d) })
		q := make(chan os.Signal, 1)
		vs.GoNamed("stopper", func() {
			vs.Sleep(3 * T / 10)
			if token == "close" {
				vs.Close(q)
			} else {
				vs.Send(q, stopTokens[token])
			}
		})
		ret = u.Listen(c1, q)
		done = true
	}
	check := func(e *vs.Exec) (string, []e1.Viol) {
		viols := e1.Generic(e)
		if e.Abort != "" {
			return e.Abort, viols
		}
		what := fmt.Sprintf("stop channel: %s, debug=%v", token, debug)
		if !done || ret != nil {
			viols = append(viols, e1.Viol{Key: "stop-token/listener-did-not-return-nil", What: fmt.Sprintf("returned=%v err=%v (%s)", done, ret, what)})
		}
		ev := 0
		for _, c := range l1.calls {
			if c.kind == "event" {
				ev++
			}
		}
		if ev != 1 {
			viols = append(viols, e1.Viol{Key: "stop-token/events", What: fmt.Sprintf("%d events delivered, 1 arrived before the stop (%s)", ev, what)})
		}
		if open := vs.Net().OpenSockets(); len(open) > 0 {
			viols = append(viols, e1.Viol{Key: "stop-token/socket-leak", What: fmt.Sprint(open) + " (" + what + ")"})
		}
		return fmt.Sprintf("stop-token ret=%v events=%d", ret == nil, ev), viols
	}
	return e1.Scenario{Name: fmt.Sprintf("stop-token/%s/debug=%v", token, debug), Bound: 1, Body: body, Check: check, Opt: vs.Options{Horizon: 3000}}
}

func sequences(alphabet []string, maxLen int) [][]string {
	out := [][]string{{}}
	frontier := [][]string{{}}
	for n := 1; n <= maxLen; n++ {
		var next [][]string
		for _, s := range frontier {
			for _, a := range alphabet {
				t := append(append([]string{}, s...), a)
				next = append(next, t)
			}
		}
		out = append(out, next...)
		frontier = next
	}
	return out
}

// budget is the wall-clock allowance of one worker process: generous multiples of the measured
// run time; running out of it yields exhaustive:false, never a violation.
func budget(r *vk.Run) time.Duration {
	if r.Thorough() {
		return 25 * time.Minute
	}
	return 4 * time.Minute
}

func main() {
	r := vk.Start("C10", "model_checking")
	scenarios := []e1.Scenario{}
	contentLen, schedLen, schedBound := 2, 2, 2
	if r.Thorough() {
		contentLen, schedLen, schedBound = 3, 3, 2
	}
	// (a) content layer
	for _, seq := range sequences(classes, contentLen) {
		for stop := 0; stop <= len(seq); stop++ {
			for _, senders := range []int{1, 2} {
				if senders == 2 && len(seq) < 2 {
					continue
				}
				scenarios = append(scenarios, scenario(fmt.Sprintf("content/%v/stop=%d/senders=%d", seq, stop, senders), seq, stop, senders, 0, 1, false))
			}
		}
	}
	// (b) scheduling layer: spaced sequences are explored COMPLETELY (no preemption bound: every
	// interleaving at scheduling-point granularity); bursts (all datagrams and the stop signal in one
	// virtual instant) completely for length 1 (thorough: also length 2, sharded over 16 work items
	// each) and with a preemption bound beyond that.
	for _, seq := range sequences([]string{"valid", "valid-v6.62", "bad-boolean"}, schedLen) {
		for stop := 0; stop <= len(seq); stop++ {
			scenarios = append(scenarios, scenario(fmt.Sprintf("sched/%v/stop=%d/unbounded", seq, stop), seq, stop, 1, -1, 1, false))
		}
		if len(seq) == 0 {
			continue
		}
		s := scenario(fmt.Sprintf("sched-burst/%v", seq), seq, 0, 1, schedBound, 1, true)
		switch {
		case len(seq) == 1:
			s.Bound, s.Name = -1, s.Name+"/unbounded"
		case len(seq) == 2 && r.Thorough():
			s.Bound, s.Name, s.Shards = -1, s.Name+"/unbounded", 16
		case len(seq) == 3:
			s.Shards = 8
		}
		scenarios = append(scenarios, s)
	}
	for _, seq := range sequences(classes, 1) {
		if len(seq) > 0 {
			scenarios = append(scenarios, scenario(fmt.Sprintf("content-burst/%v/unbounded", seq), seq, 0, 1, -1, 1, true))
		}
	}
	// what OnError returns (true / false, freely per call) while several rejected datagrams are already
	// queued: every burst of two and three datagrams over four malformed classes and a valid event
	{
		set := []string{"len63", "bad-boolean", "serial-0", "wrong-function", "valid"}
		for _, seq := range sequences(set, 3) {
			if len(seq) >= 2 {
				sc := scenario(fmt.Sprintf("onerror-choice-burst/%v", seq), seq, 0, 1, 1, 1, true)
				sc.Deviations = 4
				scenarios = append(scenarios, sc)
			}
		}
	}
	// long sequences with a small preemption bound: queues, batching or rate-dependent behaviour
	// only show with many events in flight
	long := make([]string, 12)
	for i := range long {
		long[i] = "valid"
		if i%5 == 4 {
			long[i] = "valid-v6.62"
		}
	}
	longBound := 1
	if r.Thorough() {
		longBound = 2
	}
	mixed := append(append([]string{}, long[:6]...), "bad-boolean", "valid", "len63", "valid", "serial-0", "valid")
	for _, ls := range []e1.Scenario{
		scenario("long-burst/12-valid/stop-with-burst", long, 0, 1, longBound, 1, true),
		scenario("long-burst/12-valid/stop-later", long, 3, 1, longBound, 1, true),
		scenario("long-spaced/12-valid/stop=12", long, 12, 2, longBound, 1, false),
		scenario("long-spaced/12-valid/stop=6", long, 6, 1, longBound, 1, false),
		scenario("long-burst/12-mixed/stop-later", mixed, 3, 2, longBound, 1, true),
	} {
		ls.Deviations = 2 // at most 2 non-default choices of any kind (forced-switch orders included)
		ls.Shards = 4
		scenarios = append(scenarios, ls)
	}
	// events from sixteen controllers whose serial numbers differ in every way a model-dependent decoder
	// could care about (each leading decimal digit, the extremes), door and button flags in all patterns
	{
		seq := []string{}
		for _, sn := range []uint32{1, 99999999, 105419896, 199999999, 201020304, 299999999, 303986753, 423187757, 500000000, 600000001, 757781324, 800000000, 999999999, 0x7fffffff, 0xfffffffe, 0xffffffff} {
			seq = append(seq, fmt.Sprintf("valid@%d", sn))
		}
		sc := scenario("serials/16-valid-from-16-controllers", seq, 16, 1, 1, 1, false)
		sc.Deviations = 1
		scenarios = append(scenarios, sc)
	}
	// a burst far longer than any plausible internal queue (bounded buffers, rings, batches), while
	// nothing consumes: every event must still be delivered, none may turn into an error
	{
		n := 300
		if r.Thorough() {
			n = 1100
		}
		huge := make([]string, n)
		for i := range huge {
			huge[i] = "valid"
			if i%7 == 6 {
				huge[i] = "valid-v6.62"
			}
		}
		hs := scenario(fmt.Sprintf("long-burst/%d-valid/stop-later", n), huge, 3, 1, 1, 1, true)
		hs.Deviations = 1
		hs.Opt.Horizon = 40 * n
		hs.Shards = 4
		scenarios = append(scenarios, hs)
		if !r.Thorough() {
			// and, in the quick tier, 1100 events on the default schedule alone
			vs2 := make([]string, 1100)
			for i := range vs2 {
				vs2[i] = "valid"
			}
			ds := scenario("long-burst/1100-valid/stop-later/default-schedule", vs2, 3, 1, 0, 1, true)
			ds.DefaultOnly = true
			ds.Opt.Horizon = 40 * 1100
			scenarios = append(scenarios, ds)
		}
	}
	// a second Listen on the same client while the first is winding down with its callback busy
	for _, at := range []time.Duration{15 * T / 100, 25 * T / 100, 3 * T / 10, 65 * T / 100} {
		b := 1
		if r.Thorough() {
			b = 2
		}
		scenarios = append(scenarios, restartScenario(at, b))
	}
	// the stop channel signalled more than once while the callback is busy
	for _, how := range []string{"two-signals-at-once", "second-signal-later", "signal-then-close"} {
		b := 1
		if r.Thorough() {
			b = 2
		}
		scenarios = append(scenarios, doubleStopScenario(how, b))
	}
	// the stop signal raised from inside OnEvent
	scenarios = append(scenarios, selfStopScenario(false), selfStopScenario(true), selfStopScenarioW(false, true), selfStopScenarioW(true, true))
	for _, stray := range []string{"len6", "serial-0", "bad-bcd-sysdate"} {
		scenarios = append(scenarios, selfStopScenarioS(false, true, stray), selfStopScenarioS(true, true, stray), selfStopScenarioS(false, false, stray))
	}
	// Listener values of every dynamic kind
	for _, k := range []string{"pointer", "struct-value", "map", "func", "int"} {
		scenarios = append(scenarios, listenerKindScenario(k))
	}
	// callbacks that take seconds, minutes, hours
	for _, d := range []time.Duration{3 * time.Second, 6 * time.Second, 31 * time.Second, 61 * time.Second, 11 * time.Minute, 25 * time.Hour} {
		scenarios = append(scenarios, slowCallbackScenario(d))
	}
	// every kind of stop token, quiet and debug client
	{
		tokens := []string{"close"}
		for t := range stopTokens {
			tokens = append(tokens, t)
		}
		sort.Strings(tokens)
		for _, t := range tokens {
			scenarios = append(scenarios, stopTokenScenario(t, false), stopTokenScenario(t, true))
		}
	}
	// (c) start/stop cycles on the same address
	for _, seq := range sequences([]string{"valid", "bad-boolean"}, 1) {
		for stop := 0; stop <= len(seq); stop++ {
			scenarios = append(scenarios, scenario(fmt.Sprintf("cycles/%v/stop=%d/unbounded", seq, stop), seq, stop, 1, -1, 2, false))
		}
	}
	if r.Thorough() {
		e1.PerScenario = 6 * time.Minute
	}
	e1.RunAll(r, scenarios, budget(r))
	if r.Worker == "" && r.Replay == "" {
		e1.Conformance(r)
	}
	r.Rule(fmt.Sprintf("(a) every datagram-class sequence of length <= %d over %d classes x stop signal after every prefix x 1-2 senders (the two-sender variants use a client built with debug = true) x OnError returning true / false (an environment choice per error), preemption bound 0; (b) every sequence of length <= %d over {valid, v6.62, malformed} x stop after every prefix under ALL interleavings (no preemption bound), and as a burst (datagrams and stop signal in one instant) under ALL interleavings for length 1 (thorough: length <= 2) and with <= %d preemptions beyond; (c) two consecutive Listen runs on the same address under all interleavings, and a second Listen on the same client started (at 4 instants) while the first, stopped with its callback busy, is still winding down; (d) a burst of 300 (thorough 1100) valid events with at most one non-default choice (quick: 1100 events on the default schedule as well), and 12-event sequences (burst and spaced, valid and mixed) with at most 2 non-default scheduling choices of any kind. distinct = distinct (datagrams read, events, errors) labels", contentLen, len(classes), schedLen, schedBound))
	r.Assume("a datagram counts as received when a read on the listen socket returned it (datagrams still queued when the socket is closed were never received)")
	r.Assume("calendar-invalid (but BCD) timestamps are outside the alphabet: the library documents decoding them as 'no value'")
	r.Finish()
}

// reachableBytes renders every byte slice / array / string reachable from v (through pointers,
// interfaces, struct fields exported or not, error wrapping) - what an application that keeps the
// value would still be looking at later.
func reachableBytes(v any) string {
	var b strings.Builder
	seen := map[uintptr]bool{}
	var walk func(x reflect.Value, depth int)
	walk = func(x reflect.Value, depth int) {
		if depth > 8 || !x.IsValid() {
			return
		}
		switch x.Kind() {
		case reflect.Ptr, reflect.Interface:
			if x.IsNil() {
				return
			}
			if x.Kind() == reflect.Ptr {
				if seen[x.Pointer()] {
					return
				}
				seen[x.Pointer()] = true
			}
			walk(x.Elem(), depth+1)
		case reflect.Struct:
			for i := 0; i < x.NumField(); i++ {
				walk(x.Field(i), depth+1)
			}
		case reflect.Slice, reflect.Array:
			if x.Kind() == reflect.Slice && x.IsNil() {
				return
			}
			if x.Type().Elem().Kind() == reflect.Uint8 {
				b.WriteString("[")
				for i := 0; i < x.Len(); i++ {
					fmt.Fprintf(&b, "%02x", x.Index(i).Uint())
				}
				b.WriteString("]")
				return
			}
			for i := 0; i < x.Len() && i < 64; i++ {
				walk(x.Index(i), depth+1)
			}
		case reflect.String:
			fmt.Fprintf(&b, "%q", x.String())
		}
	}
	walk(reflect.ValueOf(v), 0)
	return b.String()
}

// selfStopScenario: the application stops the listener from inside its own event callback - OnEvent
// sends on the (unbuffered) stop channel when it sees the first event. The listener stops, Listen
// returns nil, the address is free.
type selfStopListener struct {
	listener
	q    chan os.Signal
	done bool
	// returned: when non-nil the callback, having raised the stop, waits until Listen has returned
	// ("signal, then wait for the listener to finish" - a common shutdown idiom) before it returns itself
	returned chan struct{}
	// stray: when non-empty, a datagram of this (malformed) class reaches the listen address while the
	// callback is running, just before it raises the stop: the library reports it (OnError) or drops it
	// with the closing socket - either way the listener still stops and returns
	stray string
}

func (l *selfStopListener) OnEvent(s *types.Status) {
	l.listener.OnEvent(s)
	if !l.done {
		l.done = true
		if l.stray != "" {
			vs.Net().DeliverUDP("192.168.1.100:60000", fmt.Sprintf("192.168.1.2:%d", lport), datagram(l.stray, 7))
		}
		vs.Send(l.q, os.Signal(os.Interrupt))
		if l.returned != nil {
			vs.Recv(l.returned)
		}
	}
}

func selfStopScenario(buffered bool) e1.Scenario { return selfStopScenarioW(buffered, false) }

func selfStopScenarioW(buffered, wait bool) e1.Scenario { return selfStopScenarioS(buffered, wait, "") }

func selfStopScenarioS(buffered, wait bool, stray string) e1.Scenario {
	var l1 *selfStopListener
	var ret error
	var done bool
	body := func() {
		n := 0
		if buffered {
			n = 1
		}
		l1 = &selfStopListener{q: make(chan os.Signal, n), stray: stray}
		if wait {
			l1.returned = make(chan struct{})
		}
		done, ret = false, nil
		c1 := l1
		vs.Net().Env = &farm.Farm{}
		u := uhppote.NewUHPPOTE(types.BindAddr{}, types.BroadcastAddr{}, types.ListenAddrFrom(netip.MustParseAddr("0.0.0.0"), lport), T, nil, false)
		for k := 0; k < 2; k++ {
			d := datagram("valid", k)
			vs.After(time.Duration(k+1)*T/10, func() { vs.Net().DeliverUDP("192.168.1.100:60000", fmt.Sprintf("192.168.1.2:%d", lport), d) })
		}
		ret = u.Listen(c1, c1.q)
		done = true
		if c1.returned != nil {
			vs.Close(c1.returned)
		}
	}
	check := func(e *vs.Exec) (string, []e1.Viol) {
		viols := e1.Generic(e)
		if e.Abort != "" {
			return e.Abort, viols
		}
		what := fmt.Sprintf("OnEvent sends the stop signal itself (buffered channel: %v; then waits for Listen to return: %v; malformed datagram arriving meanwhile: %q)", buffered, wait, stray)
		if !done || ret != nil {
			viols = append(viols, e1.Viol{Key: "stop-from-callback/listener-did-not-return-nil", What: fmt.Sprintf("returned=%v err=%v (%s)", done, ret, what)})
		}
		if open := vs.Net().OpenSockets(); len(open) > 0 {
			viols = append(viols, e1.Viol{Key: "stop-from-callback/socket-leak", What: fmt.Sprint(open) + " (" + what + ")"})
		}
		return fmt.Sprintf("stop-from-callback ret=%v", ret == nil), viols
	}
	name := fmt.Sprintf("stop-from-callback/buffered=%v/waits-for-return=%v", buffered, wait)
	if stray != "" {
		name += "/stray=" + stray
	}
	return e1.Scenario{Name: name, Bound: 1, Body: body, Check: check, Opt: vs.Options{Horizon: 3000}}
}
