package main

import (
	"os"
	"runtime"
	"runtime/pprof"
)

func init() {
	if p := os.Getenv("C18_PROF"); p != "" {
		f, _ := os.Create(p + ".cpu")
		pprof.StartCPUProfile(f)
		runtime.SetMutexProfileFraction(5)
		runtime.SetBlockProfileRate(10000)
		profStop = func() {
			pprof.StopCPUProfile()
			f.Close()
			g, _ := os.Create(p + ".mutex")
			pprof.Lookup("mutex").WriteTo(g, 0)
			g.Close()
			h, _ := os.Create(p + ".block")
			pprof.Lookup("block").WriteTo(h, 0)
			h.Close()
			var m runtime.MemStats
			runtime.ReadMemStats(&m)
			println("heap MB", m.HeapAlloc>>20, "sys MB", m.Sys>>20, "numGC", m.NumGC)
		}
	}
}

var profStop = func() {}
