package main

// Named message types. reflect.StructOf only builds anonymous struct types, whose String() spells
// out every field; real messages are NAMED types, and Go allows two different types to carry the
// same name (types declared inside two functions, or in two packages that share a package name) -
// reflect.Type.String() is then equal for both. A codec that keys anything by the type's name
// instead of its identity confuses them. Each function below declares a local type `msg` with its
// own layout; the family runs them through the codec one after the other, in both orders.

import (
	"reflect"

	"github.com/uhppoted/uhppote-core/types"
	"verif/spec"
)

type namedProgram struct {
	p program
	l layout
}

func namedA() namedProgram {
	type msg struct {
		MsgType types.MsgType `uhppote:"value:0x41"`
		F0      uint32        `uhppote:"offset:8"`
		F1      uint8         `uhppote:"offset:12"`
	}
	return namedProgram{program{t: reflect.TypeOf(msg{}), fn: []int{0}, paths: [][]int{{1}, {2}}},
		layout{FnTag: "0x41", Fn: 0x41, Fields: []fieldSpec{{Kind: spec.KUint32, Name: "u32", Offset: 8}, {Kind: spec.KUint8, Name: "u8", Offset: 12}}}}
}

func namedB() namedProgram {
	type msg struct {
		MsgType types.MsgType `uhppote:"value:0x42"`
		F0      uint8         `uhppote:"offset:20"`
		F1      uint32        `uhppote:"offset:30"`
	}
	return namedProgram{program{t: reflect.TypeOf(msg{}), fn: []int{0}, paths: [][]int{{1}, {2}}},
		layout{FnTag: "0x42", Fn: 0x42, Fields: []fieldSpec{{Kind: spec.KUint8, Name: "u8", Offset: 20}, {Kind: spec.KUint32, Name: "u32", Offset: 30}}}}
}

func namedC() namedProgram {
	type msg struct {
		MsgType types.MsgType `uhppote:"value:67"`
		F0      types.Date    `uhppote:"offset:8"`
		F1      bool          `uhppote:"offset:63"`
		F2      uint16        `uhppote:"offset:40"`
	}
	return namedProgram{program{t: reflect.TypeOf(msg{}), fn: []int{0}, paths: [][]int{{1}, {2}, {3}}},
		layout{FnTag: "67", Fn: 67, Fields: []fieldSpec{{Kind: spec.KDate, Name: "date", Offset: 8}, {Kind: spec.KBool, Name: "bool", Offset: 63}, {Kind: spec.KUint16, Name: "u16", Offset: 40}}}}
}

func namedD() namedProgram {
	type msg struct {
		MsgType types.MsgType `uhppote:"value:0x44"`
		F0      uint32        `uhppote:"offset:8"`
	}
	return namedProgram{program{t: reflect.TypeOf(msg{}), fn: []int{0}, paths: [][]int{{1}}},
		layout{FnTag: "0x44", Fn: 0x44, Fields: []fieldSpec{{Kind: spec.KUint32, Name: "u32", Offset: 8}}}}
}
