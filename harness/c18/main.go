// C18 — the codec is generic over message layouts.
//
// "Programs" are struct types built at run time with reflect.StructOf from the codec's tag
// grammar. Every single-field layout (kind x offset x embedded or not), every adjacent and
// right-aligned two-field layout and (thorough) three-field layouts are generated, filled with the
// kind's value alphabet, and the real codec (Marshal / Unmarshal / UnmarshalAs; UnmarshalArray / UnmarshalArrayElement on single-field layouts) is compared with
// the hand-written per-kind reference encoders of verif/spec (spec.KindEncode), which know nothing
// about the library's reflection tags.
//
// Oracle per (layout, value tuple):
//   - Marshal (by pointer and by value) does not panic, returns 64 bytes: 0x17, the function code,
//     each field's reference bytes at its offset, zero elsewhere;
//   - Unmarshal / UnmarshalAs of the reference message do not panic, succeed, and yield the values
//     (semantic equality, DESIGN §4.1a) and the function code;
//   - complementing the input buffer afterwards leaves every decoded value unchanged;
//   - a wrong function code or a wrong fixed-value byte is rejected.
//
// A failure of a multi-field or embedded layout is attributed by re-running its single-field /
// non-embedded projections, so one defect yields one key however many layouts contain it.
package main

import (
	"encoding/json"
	"fmt"
	"net"
	"net/netip"
	"os"
	"os/exec"
	"reflect"
	"sort"
	"strings"
	"sync"
	"sync/atomic"
	"time"

	codec "github.com/uhppoted/uhppote-core/encoding/UTO311-L0x"
	"github.com/uhppoted/uhppote-core/types"
	"verif/spec"
	"verif/vk"
)

// ---------------------------------------------------------------------------------------------
// layouts
// ---------------------------------------------------------------------------------------------

type fieldSpec struct {
	Kind     spec.Kind `json:"kind"`
	Name     string    `json:"kind_name"`
	Offset   int       `json:"offset"`
	Embedded bool      `json:"embedded,omitempty"`
	Tag      string    `json:"value_tag,omitempty"` // fixed-value kind: the number as written
	Fixed    int       `json:"value,omitempty"`     // fixed-value kind: the number denoted
}

type layout struct {
	FnTag  string      `json:"fn_tag"` // function code as written in the MsgType tag
	Fn     int         `json:"fn"`
	SOMTag string      `json:"som_tag,omitempty"`
	SOM    int         `json:"som,omitempty"`
	Fields []fieldSpec `json:"fields"`
	// Shadow: fields are numbered separately inside and outside the embedded struct, so an embedded
	// field can have the same Go name as a field of the enclosing struct (legal Go; the outer one
	// shadows the promoted one for selectors, which must not matter to a codec that walks the layout)
	Shadow bool `json:"shadow,omitempty"`
	// Spelling: how the tag text is written - 0 `offset:8, value:0x55` (as the shipped messages do),
	// 1 one blank after each colon, 2 two blanks after each colon and before the second item, 3 a tab
	// after each colon. The codec's tag grammar allows white space there (`offset:\s*N`, `value:\s*V`).
	Spelling int `json:"tag_spelling,omitempty"`
}

var colonForms = []string{":", ": ", ":  ", ":\\t"}

type options struct {
	RejectAll bool `json:"reject_all,omitempty"` // try all 255 wrong bytes instead of two
	Reject    bool `json:"reject,omitempty"`
	AltDecode bool `json:"alt_decode,omitempty"` // also decode the alternative spellings
}

type layoutCase struct {
	Layout layout    `json:"layout"`
	Values []spec.KV `json:"values"`
	Opts   options   `json:"options"`
}

var goTypes = [spec.NumKinds]reflect.Type{
	spec.KUint8:       reflect.TypeOf(uint8(0)),
	spec.KUint16:      reflect.TypeOf(uint16(0)),
	spec.KUint32:      reflect.TypeOf(uint32(0)),
	spec.KBool:        reflect.TypeOf(false),
	spec.KIPv4:        reflect.TypeOf(net.IP{}),
	spec.KAddrPort:    reflect.TypeOf(netip.AddrPort{}),
	spec.KRawMAC:      reflect.TypeOf(net.HardwareAddr{}),
	spec.KSerial:      reflect.TypeOf(types.SerialNumber(0)),
	spec.KDate:        reflect.TypeOf(types.Date{}),
	spec.KDateTime:    reflect.TypeOf(types.DateTime{}),
	spec.KSysDate:     reflect.TypeOf(types.SystemDate{}),
	spec.KSysTime:     reflect.TypeOf(types.SystemTime{}),
	spec.KHHmm:        reflect.TypeOf(types.HHmm{}),
	spec.KPIN:         reflect.TypeOf(types.PIN(0)),
	spec.KVersion:     reflect.TypeOf(types.Version(0)),
	spec.KMacAddress:  reflect.TypeOf(types.MacAddress{}),
	spec.KFixed:       reflect.TypeOf(uint8(0)),
	spec.KDatePtr:     reflect.TypeOf(&types.Date{}),
	spec.KDateTimePtr: reflect.TypeOf(&types.DateTime{}),
	spec.KHHmmPtr:     reflect.TypeOf(&types.HHmm{}),
}

var (
	tMsgType = reflect.TypeOf(types.MsgType(0))
	tSOM     = reflect.TypeOf(types.SOM(0))
)

type program struct {
	t     reflect.Type
	paths [][]int // index path of field i
	fn    []int   // index path of the MsgType field
}

var typesBuilt atomic.Int64

func fieldTag(f fieldSpec, spelling int) reflect.StructTag {
	c := colonForms[spelling]
	sep := ", "
	if spelling == 2 {
		sep = ",  "
	}
	if f.Kind == spec.KFixed {
		return reflect.StructTag(fmt.Sprintf(`uhppote:"offset%s%d%svalue%s%s"`, c, f.Offset, sep, c, f.Tag))
	}
	return reflect.StructTag(fmt.Sprintf(`uhppote:"offset%s%d"`, c, f.Offset))
}

// build turns a layout into a struct type: [SOM,] MsgType, then the fields in order; all fields
// marked Embedded live in one embedded struct placed where the first of them occurs.
func build(l layout) program {
	var top []reflect.StructField
	var inner []reflect.StructField
	p := program{paths: make([][]int, len(l.Fields))}
	if l.SOMTag != "" {
		top = append(top, reflect.StructField{Name: "SOM", Type: tSOM, Tag: reflect.StructTag(`uhppote:"value` + colonForms[l.Spelling] + l.SOMTag + `"`)})
	}
	p.fn = []int{len(top)}
	top = append(top, reflect.StructField{Name: "MsgType", Type: tMsgType, Tag: reflect.StructTag(`uhppote:"value` + colonForms[l.Spelling] + l.FnTag + `"`)})
	innerAt := -1
	for i, f := range l.Fields {
		sf := reflect.StructField{Name: fmt.Sprintf("F%d", i), Type: goTypes[f.Kind], Tag: fieldTag(f, l.Spelling)}
		if l.Shadow {
			if f.Embedded {
				sf.Name = fmt.Sprintf("F%d", len(inner))
			} else {
				sf.Name = fmt.Sprintf("F%d", i-len(inner))
			}
		}
		if f.Embedded {
			if innerAt < 0 {
				innerAt = len(top)
				top = append(top, reflect.StructField{}) // placeholder
			}
			p.paths[i] = []int{innerAt, len(inner)}
			inner = append(inner, sf)
		} else {
			p.paths[i] = []int{len(top)}
			top = append(top, sf)
		}
	}
	if innerAt >= 0 {
		top[innerAt] = reflect.StructField{Name: "Inner", Type: reflect.StructOf(inner), Anonymous: true}
	}
	p.t = reflect.StructOf(top)
	typesBuilt.Add(1)
	return p
}

// ---------------------------------------------------------------------------------------------
// values: KV -> library value, library value -> KV
// ---------------------------------------------------------------------------------------------

func octets(b []int) []byte {
	out := make([]byte, len(b))
	for i, x := range b {
		out[i] = byte(x)
	}
	return out
}

func ints(b []byte) []int {
	out := make([]int, len(b))
	for i, x := range b {
		out[i] = int(x)
	}
	return out
}

func civil(t []int) time.Time {
	return time.Date(t[0], time.Month(t[1]), t[2], t[3], t[4], t[5], 0, time.Local)
}

func setValue(fv reflect.Value, k spec.Kind, v spec.KV) {
	switch k {
	case spec.KUint8, spec.KFixed, spec.KUint16, spec.KUint32, spec.KSerial, spec.KPIN, spec.KVersion:
		fv.SetUint(v.N)
	case spec.KBool:
		fv.SetBool(v.N != 0)
	case spec.KIPv4:
		if v.Wide {
			fv.Set(reflect.ValueOf(net.IPv4(byte(v.B[0]), byte(v.B[1]), byte(v.B[2]), byte(v.B[3]))))
		} else {
			fv.Set(reflect.ValueOf(net.IP(octets(v.B))))
		}
	case spec.KAddrPort:
		a := netip.AddrFrom4([4]byte{byte(v.B[0]), byte(v.B[1]), byte(v.B[2]), byte(v.B[3])})
		fv.Set(reflect.ValueOf(netip.AddrPortFrom(a, uint16(v.N))))
	case spec.KRawMAC:
		fv.Set(reflect.ValueOf(net.HardwareAddr(octets(v.B))))
	case spec.KMacAddress:
		fv.Set(reflect.ValueOf(types.MacAddress(octets(v.B))))
	case spec.KDate:
		if v.Zero {
			fv.Set(reflect.ValueOf(types.Date{}))
		} else {
			fv.Set(reflect.ValueOf(types.Date(civil([]int{v.T[0], v.T[1], v.T[2], 0, 0, 0}))))
		}
	case spec.KDateTime:
		if v.Zero {
			fv.Set(reflect.ValueOf(types.DateTime{}))
		} else {
			fv.Set(reflect.ValueOf(types.DateTime(civil(v.T))))
		}
	case spec.KSysDate:
		fv.Set(reflect.ValueOf(types.SystemDate(civil([]int{v.T[0], v.T[1], v.T[2], 0, 0, 0}))))
	case spec.KSysTime:
		// the way the library itself builds one (TimeFromString): a clock reading in year 0
		fv.Set(reflect.ValueOf(types.SystemTime(civil([]int{0, 1, 1, v.T[0], v.T[1], v.T[2]}))))
	case spec.KHHmm:
		fv.Set(reflect.ValueOf(types.NewHHmm(v.T[0], v.T[1])))
	case spec.KDatePtr, spec.KDateTimePtr, spec.KHHmmPtr:
		if v.Nil {
			fv.Set(reflect.Zero(fv.Type()))
		} else {
			p := reflect.New(fv.Type().Elem())
			setValue(p.Elem(), k.Base(), v)
			fv.Set(p)
		}
	}
}

func observe(fv reflect.Value, k spec.Kind) spec.KV {
	switch k {
	case spec.KUint8, spec.KFixed, spec.KUint16, spec.KUint32, spec.KSerial, spec.KPIN, spec.KVersion:
		return spec.KV{N: fv.Uint()}
	case spec.KBool:
		if fv.Bool() {
			return spec.KV{N: 1}
		}
		return spec.KV{}
	case spec.KIPv4:
		ip := fv.Interface().(net.IP)
		if ip4 := ip.To4(); ip4 != nil {
			return spec.KV{B: ints(ip4), Wide: len(ip) == 16}
		}
		return spec.KV{B: append([]int{-1}, ints(ip)...)}
	case spec.KAddrPort:
		ap := fv.Interface().(netip.AddrPort)
		a := ap.Addr().Unmap()
		if !a.Is4() {
			return spec.KV{B: []int{-1}, N: uint64(ap.Port())}
		}
		b := a.As4()
		return spec.KV{B: ints(b[:]), N: uint64(ap.Port())}
	case spec.KRawMAC:
		return spec.KV{B: ints(fv.Interface().(net.HardwareAddr))}
	case spec.KMacAddress:
		return spec.KV{B: ints(fv.Interface().(types.MacAddress))}
	case spec.KDate:
		d := fv.Interface().(types.Date)
		if d.IsZero() {
			return spec.KV{Zero: true}
		}
		y, m, dd := time.Time(d).Date()
		return spec.KV{T: []int{y, int(m), dd}}
	case spec.KDateTime:
		d := fv.Interface().(types.DateTime)
		if d.IsZero() {
			return spec.KV{Zero: true}
		}
		y, m, dd := time.Time(d).Date()
		h, mi, s := time.Time(d).Clock()
		return spec.KV{T: []int{y, int(m), dd, h, mi, s}}
	case spec.KSysDate:
		d := fv.Interface().(types.SystemDate)
		y, m, dd := time.Time(d).Date()
		return spec.KV{T: []int{y, int(m), dd}}
	case spec.KSysTime:
		h, mi, s := time.Time(fv.Interface().(types.SystemTime)).Clock()
		return spec.KV{T: []int{h, mi, s}}
	case spec.KHHmm:
		// HHmm exposes its content through String() ("HH:mm") only; called directly, not via fmt
		s := fv.Interface().(types.HHmm).String()
		if len(s) == 5 && s[2] == ':' && digit(s[0]) && digit(s[1]) && digit(s[3]) && digit(s[4]) {
			return spec.KV{T: []int{int(s[0]-'0')*10 + int(s[1]-'0'), int(s[3]-'0')*10 + int(s[4]-'0')}}
		}
		return spec.KV{T: []int{-1, -1}}
	case spec.KDatePtr, spec.KDateTimePtr, spec.KHHmmPtr:
		if fv.IsNil() {
			return spec.KV{Nil: true}
		}
		return observe(fv.Elem(), k.Base())
	}
	return spec.KV{}
}

func digit(c byte) bool { return c >= '0' && c <= '9' }

// show renders a value compactly (JSON) for messages.
func show(v any) string {
	b, _ := json.Marshal(v)
	return string(b)
}

// ---------------------------------------------------------------------------------------------
// evaluation of one (layout, values) case
// ---------------------------------------------------------------------------------------------

type failure struct {
	Op    string // marshal | unmarshal | unmarshalAs
	Field int    // index of the field concerned, -1 = function code / header, -2 = whole message
	Class string
	What  string
}

var libraryCalls atomic.Int64

func want(f fieldSpec, v spec.KV) spec.KV {
	if f.Kind == spec.KFixed {
		return spec.KV{N: uint64(f.Fixed)}
	}
	return v
}

// reference builds the reference message and, per field, the acceptable spellings.
func reference(l layout, vals []spec.KV) (msg []byte, accept [][][]byte) {
	msg = make([]byte, 64)
	msg[0] = 0x17
	if l.SOMTag != "" {
		msg[0] = byte(l.SOM)
	}
	msg[1] = byte(l.Fn)
	accept = make([][][]byte, len(l.Fields))
	for i, f := range l.Fields {
		var c []byte
		var alts [][]byte
		if f.Kind == spec.KFixed {
			c = []byte{byte(f.Fixed)}
		} else {
			c, alts = spec.KindEncode(f.Kind, vals[i])
		}
		copy(msg[f.Offset:], c)
		accept[i] = append([][]byte{c}, alts...)
	}
	return msg, accept
}

func fill(p program, l layout, vals []spec.KV) reflect.Value {
	s := reflect.New(p.t)
	for i, f := range l.Fields {
		setValue(s.Elem().FieldByIndex(p.paths[i]), f.Kind, vals[i])
	}
	return s
}

func eq(a, b []byte) bool {
	if len(a) != len(b) {
		return false
	}
	for i := range a {
		if a[i] != b[i] {
			return false
		}
	}
	return true
}

func checkMarshal(l layout, ref []byte, accept [][][]byte, how string, call func() ([]byte, error)) []failure {
	var out []byte
	var err error
	libraryCalls.Add(1)
	if p, msg, _ := vk.Guard(func() { out, err = call() }); p {
		return []failure{{"marshal", -2, "panic", fmt.Sprintf("Marshal(%s) panicked: %s", how, msg)}}
	}
	if err != nil {
		return []failure{{"marshal", -2, "error", fmt.Sprintf("Marshal(%s) = error %q, want %x", how, err.Error(), ref)}}
	}
	if len(out) != 64 {
		return []failure{{"marshal", -2, "wrong-length", fmt.Sprintf("Marshal(%s) returned %d bytes", how, len(out))}}
	}
	var fails []failure
	covered := [64]bool{0: true, 1: true}
	if out[0] != ref[0] {
		fails = append(fails, failure{"marshal", -1, "wrong-start-byte", fmt.Sprintf("Marshal(%s) byte 0 = %02x, want %02x", how, out[0], ref[0])})
	}
	if out[1] != ref[1] {
		fails = append(fails, failure{"marshal", -1, "wrong-function-code", fmt.Sprintf("Marshal(%s) byte 1 = %02x, want %02x (tag value:%s)", how, out[1], ref[1], l.FnTag)})
	}
	for i, f := range l.Fields {
		w := f.Kind.Width()
		for j := f.Offset; j < f.Offset+w; j++ {
			covered[j] = true
		}
		ok := false
		for _, a := range accept[i] {
			ok = ok || eq(out[f.Offset:f.Offset+w], a)
		}
		if !ok {
			fails = append(fails, failure{"marshal", i, "wrong-bytes", fmt.Sprintf("Marshal(%s) wrote %x at offset %d for field %d (%s), want %x", how, out[f.Offset:f.Offset+w], f.Offset, i, f.Name, accept[i][0])})
		}
	}
	for j := 0; j < 64; j++ {
		if !covered[j] && out[j] != 0 {
			fails = append(fails, failure{"marshal", -2, "stray-bytes", fmt.Sprintf("Marshal(%s) wrote %02x at byte %d outside every field: %x", how, out[j], j, out)})
			break
		}
	}
	return fails
}

// checkDecoded compares the decoded struct s with the wanted values, then complements the input
// buffer and checks that nothing the caller holds changed.
func checkDecoded(op string, p program, l layout, vals []spec.KV, s reflect.Value, buf []byte) []failure {
	var fails []failure
	if fn := s.FieldByIndex(p.fn).Uint(); fn != uint64(l.Fn) {
		fails = append(fails, failure{op, -1, "wrong-function-code", fmt.Sprintf("%s left MsgType = %#02x, want %#02x", op, fn, l.Fn)})
	}
	before := make([]spec.KV, len(l.Fields))
	for i, f := range l.Fields {
		before[i] = observe(s.FieldByIndex(p.paths[i]), f.Kind)
		if w := want(f, vals[i]); !spec.KindSame(f.Kind, before[i], w) {
			fails = append(fails, failure{op, i, "wrong-value", fmt.Sprintf("%s of %x: field %d (%s at offset %d) = %s, want %s", op, buf[f.Offset:f.Offset+f.Kind.Width()], i, f.Name, f.Offset, show(before[i]), show(spec.KindNorm(f.Kind, w)))})
		}
	}
	for j := range buf {
		buf[j] = ^buf[j]
	}
	for i, f := range l.Fields {
		if after := observe(s.FieldByIndex(p.paths[i]), f.Kind); !spec.KVEqual(before[i], after) {
			fails = append(fails, failure{op, i, "aliases-input", fmt.Sprintf("%s: field %d (%s at offset %d) was %s and became %s after the input buffer was complemented", op, i, f.Name, f.Offset, show(before[i]), show(after))})
		}
	}
	for j := range buf {
		buf[j] = ^buf[j]
	}
	return fails
}

func decode(op string, p program, buf []byte) (s reflect.Value, err error, fails []failure) {
	libraryCalls.Add(1)
	var panicked bool
	var msg string
	switch op {
	case "unmarshal":
		dst := reflect.New(p.t)
		panicked, msg, _ = vk.Guard(func() { err = codec.Unmarshal(buf, dst.Interface()) })
		s = dst.Elem()
	case "unmarshalAs":
		var res any
		panicked, msg, _ = vk.Guard(func() { res, err = codec.UnmarshalAs(buf, reflect.Zero(p.t).Interface()) })
		if !panicked && err == nil {
			if s = reflect.ValueOf(res); !s.IsValid() || s.Type() != p.t {
				return s, nil, []failure{{op, -2, "wrong-type", fmt.Sprintf("UnmarshalAs returned %T", res)}}
			}
		}
	case "unmarshalArrayElement":
		var res any
		arr := reflect.New(reflect.SliceOf(p.t))
		panicked, msg, _ = vk.Guard(func() { res, err = codec.UnmarshalArrayElement(buf, arr.Interface()) })
		if !panicked && err == nil {
			if s = reflect.ValueOf(res); !s.IsValid() || s.Type() != p.t {
				return s, nil, []failure{{op, -2, "wrong-type", fmt.Sprintf("UnmarshalArrayElement returned %T", res)}}
			}
			// (the result is a copy of an addressable value: make it addressable again for the observers)
			c := reflect.New(p.t).Elem()
			c.Set(s)
			s = c
		}
	case "unmarshalArray":
		arr := reflect.New(reflect.SliceOf(p.t))
		// a batch of two copies of the message: two elements, equal, and no pointer of the one is a pointer
		// of the other (each element is decoded on its own)
		panicked, msg, _ = vk.Guard(func() { err = codec.UnmarshalArray([][]byte{buf, append([]byte{}, buf...)}, arr.Interface()) })
		if !panicked && err == nil {
			if arr.Elem().Len() != 2 {
				return s, nil, []failure{{op, -2, "wrong-type", fmt.Sprintf("UnmarshalArray of two messages produced %d elements", arr.Elem().Len())}}
			}
			e0, e1 := arr.Elem().Index(0), arr.Elem().Index(1)
			for _, path := range p.paths {
				f0, f1 := e0.FieldByIndex(path), e1.FieldByIndex(path)
				if f0.Kind() == reflect.Ptr && !f0.IsNil() && f0.Pointer() == f1.Pointer() {
					return s, nil, []failure{{op, -2, "elements-share-storage", fmt.Sprintf("UnmarshalArray of two messages: field %v of both elements is the same pointer", path)}}
				}
			}
			if !reflect.DeepEqual(e0.Interface(), e1.Interface()) {
				return s, nil, []failure{{op, -2, "elements-differ", fmt.Sprintf("UnmarshalArray of two copies of one message: %+v and %+v", e0.Interface(), e1.Interface())}}
			}
			s = e1
		}
	case "unmarshalAs-pointer":
		var res any
		panicked, msg, _ = vk.Guard(func() { res, err = codec.UnmarshalAs(buf, reflect.New(p.t).Interface()) })
		if !panicked && err == nil {
			if s = reflect.ValueOf(res); !s.IsValid() || s.Type() != p.t {
				return s, nil, []failure{{"unmarshalAs", -2, "wrong-type", fmt.Sprintf("UnmarshalAs(pointer) returned %T", res)}}
			}
		}
	}
	if panicked {
		o := op
		if o == "unmarshalAs-pointer" {
			o = "unmarshalAs"
		}
		return s, nil, []failure{{o, -2, "panic", fmt.Sprintf("%s of %x panicked: %s", op, buf, msg)}}
	}
	return s, err, nil
}

func has(fails []failure, op string) bool {
	for _, f := range fails {
		if f.Op == op {
			return true
		}
	}
	return false
}

// evaluate runs the real codec on one case and returns every deviation from the reference.
// (memoised: attribution re-runs the same few projections for every failing case)
func evaluate(l layout, vals []spec.KV, o options) []failure {
	k, _ := json.Marshal(layoutCase{l, vals, o})
	if v, ok := evaluated.Load(string(k)); ok {
		return v.([]failure)
	}
	fails := evaluateWith(build(l), l, vals, o)
	evaluated.Store(string(k), fails)
	return fails
}

var evaluated sync.Map

func evaluateWith(p program, l layout, vals []spec.KV, o options) []failure {
	ref, accept := reference(l, vals)
	var fails []failure

	// encode: by pointer and by value
	src := fill(p, l, vals)
	fails = append(fails, checkMarshal(l, ref, accept, "pointer", func() ([]byte, error) { return codec.Marshal(src.Interface()) })...)
	if !has(fails, "marshal") {
		fails = append(fails, checkMarshal(l, ref, accept, "value", func() ([]byte, error) { return codec.Marshal(src.Elem().Interface()) })...)
	}

	// SOM tags are checked for emission only (DESIGN §4.1a): a layout that declares another start
	// byte than 0x17 is not decoded.
	if l.SOMTag != "" && l.SOM != 0x17 {
		return fails
	}

	// decode the reference message (and, in single-field layouts, the alternative spellings)
	messages := [][]byte{ref}
	if o.AltDecode {
		for i, f := range l.Fields {
			for _, a := range accept[i][1:] {
				m := append([]byte{}, ref...)
				copy(m[f.Offset:], a)
				messages = append(messages, m)
			}
		}
	}
	rejectsValid := false
	for _, m := range messages {
		var first []failure
		decoders := []string{"unmarshal", "unmarshalAs", "unmarshalAs-pointer"}
		if len(l.Fields) <= 1 {
			// the two array entry points share the decoder: exercised on the single-field layouts
			decoders = append(decoders, "unmarshalArrayElement", "unmarshalArray")
		}
		for _, op := range decoders {
			buf := append([]byte{}, m...)
			name := op
			if name == "unmarshalAs-pointer" {
				name = "unmarshalAs"
			}
			s, err, fs := decode(op, p, buf)
			if fs == nil && err != nil {
				fs = []failure{{name, -2, "rejects-valid", fmt.Sprintf("%s of %x = error %q, want the encoded values", op, m, err.Error())}}
				rejectsValid = true
			} else if fs == nil {
				fs = checkDecoded(name, p, l, vals, s, buf)
			}
			if op == "unmarshal" {
				first = fs
				fails = append(fails, fs...)
				continue
			}
			// UnmarshalAs shares its decoder with Unmarshal: only what Unmarshal did not show is new
			for _, f := range fs {
				dup := (has(fails, "unmarshalAs") && f.Op == "unmarshalAs") || (has(fails, f.Op) && strings.HasPrefix(f.Op, "unmarshalArray"))
				for _, g := range first {
					dup = dup || (g.Field == f.Field && g.Class == f.Class)
				}
				if !dup {
					fails = append(fails, f)
				}
			}
		}
	}

	// enforcement of the function code and of fixed values (cannot be judged when the declared
	// value itself is refused: that is a misread tag, reported above)
	if (o.Reject || o.RejectAll) && !rejectsValid {
		wrong := func(b byte) []byte {
			if o.RejectAll {
				out := []byte{}
				for x := 1; x < 256; x++ {
					out = append(out, b^byte(x))
				}
				return out
			}
			return []byte{b ^ 0xff, b ^ 0x01}
		}
		try := func(at int, field int, class string) {
			for _, w := range wrong(ref[at]) {
				if at == 1 && ref[0] == 0x19 {
					continue
				}
				buf := append([]byte{}, ref...)
				buf[at] = w
				for _, op := range []string{"unmarshal", "unmarshalAs"} {
					_, err, fs := decode(op, p, buf)
					if fs != nil {
						fails = append(fails, fs...)
						return
					}
					if err == nil {
						fails = append(fails, failure{"unmarshal", field, class, fmt.Sprintf("%s accepted byte %d = %02x where the tag declares %02x", op, at, w, ref[at])})
						return
					}
				}
			}
		}
		try(1, -1, "function-code-not-enforced")
		for i, f := range l.Fields {
			if f.Kind == spec.KFixed {
				try(f.Offset, i, "fixed-value-not-enforced")
			}
		}
	}
	return fails
}

// ---------------------------------------------------------------------------------------------
// attribution: failure -> stable key
// ---------------------------------------------------------------------------------------------

func nearEnd(f fieldSpec) bool { return f.Offset+f.Kind.Width() > 60 }

// fieldKey names a failure of a plain (non-embedded) single-field layout.
func fieldKey(f fieldSpec, x failure) string {
	class := x.Class
	if class == "panic" && nearEnd(f) {
		class = "panic-near-end" // the field's last byte is one of the last four bytes of the message
	}
	if f.Kind == spec.KFixed {
		switch {
		case x.Op == "marshal" && (class == "error" || class == "wrong-bytes"), class == "rejects-valid":
			// the number in the tag is not read the way it is written
			return "C18/value-tag/byte/base"
		case class == "fixed-value-not-enforced":
			return "C18/value-tag/byte/not-enforced"
		}
	}
	return "C18/" + x.Op + "/" + f.Name + "/" + class
}

func headerKey(x failure) string {
	switch x.Class {
	case "function-code-not-enforced":
		return "C18/value-tag/MsgType/not-enforced"
	case "error", "wrong-function-code", "rejects-valid":
		return "C18/value-tag/MsgType/base"
	case "wrong-start-byte":
		return "C18/value-tag/SOM/not-emitted"
	}
	return "C18/" + x.Op + "/header/" + x.Class
}

func coarse(class string) string {
	if len(class) >= 5 && class[:5] == "panic" {
		return "panic"
	}
	return class
}

// attribute maps one failure of a case to the key(s) it is reported under.
func attribute(l layout, vals []spec.KV, o options, x failure) []string {
	if len(l.Fields) == 0 {
		return []string{headerKey(x)}
	}
	header := layout{FnTag: l.FnTag, Fn: l.Fn, SOMTag: l.SOMTag, SOM: l.SOM}
	if x.Field == -1 || x.Class == "error" || x.Class == "rejects-valid" || coarse(x.Class) == "panic" {
		// the function-code tag alone?
		for _, g := range evaluate(header, nil, o) {
			if g.Op == x.Op {
				return []string{headerKey(g)}
			}
		}
		if x.Field == -1 {
			return []string{headerKey(x)}
		}
	}
	if len(l.Fields) > 1 {
		// pass 0: the field concerned alone (or, for a whole-message failure, any field alone that
		// fails the same way); pass 1: any field alone that fails in the same operation (a field
		// whose decoding aborts silently leaves its neighbours unset) — only when nothing fails
		// alone is the failure an interaction of the fields.
		for pass := 0; pass < 2; pass++ {
			keys := []string{}
			for i := range l.Fields {
				if pass == 0 && x.Field >= 0 && x.Field != i {
					continue
				}
				pl := header
				pl.Fields = []fieldSpec{l.Fields[i]}
				pv := vals[i : i+1]
				for _, g := range evaluate(pl, pv, o) {
					if g.Op == x.Op && (pass == 1 || x.Field >= 0 || coarse(g.Class) == coarse(x.Class)) {
						keys = append(keys, attribute(pl, pv, o, g)...)
					}
				}
			}
			if len(keys) > 0 {
				return keys
			}
		}
		if l.Shadow {
			return []string{"C18/" + x.Op + "/embedded-field-shadowed-by-name/" + x.Class}
		}
		return []string{"C18/" + x.Op + "/multi-field/" + x.Class}
	}
	f := l.Fields[0]
	if f.Embedded {
		pl := header
		g0 := f
		g0.Embedded = false
		pl.Fields = []fieldSpec{g0}
		keys := []string{}
		for _, g := range evaluate(pl, vals, o) {
			if g.Op == x.Op {
				keys = append(keys, attribute(pl, vals, o, g)...)
			}
		}
		if len(keys) > 0 {
			return keys
		}
		return []string{"C18/" + x.Op + "/embedded/" + x.Class}
	}
	return []string{fieldKey(f, x)}
}

// ---------------------------------------------------------------------------------------------
// collection (deterministic first case per key although the enumeration runs in parallel)
// ---------------------------------------------------------------------------------------------

type found struct {
	order [2]int64
	what  string
	c     layoutCase
	count int64
}

type collector struct {
	mu sync.Mutex
	m  map[string]*found
}

func (c *collector) add(key string, order [2]int64, what string, lc layoutCase) {
	c.mu.Lock()
	defer c.mu.Unlock()
	f, ok := c.m[key]
	if !ok {
		c.m[key] = &found{order, what, lc, 1}
		return
	}
	f.count++
	if order[0] < f.order[0] || (order[0] == f.order[0] && order[1] < f.order[1]) {
		f.order, f.what, f.c = order, what, lc
	}
}

func (c *collector) merge(w workerFound) {
	c.mu.Lock()
	defer c.mu.Unlock()
	f, ok := c.m[w.Key]
	if !ok {
		c.m[w.Key] = &found{w.Order, w.What, w.Case, w.Count}
		return
	}
	f.count += w.Count
	if w.Order[0] < f.order[0] || (w.Order[0] == f.order[0] && w.Order[1] < f.order[1]) {
		f.order, f.what, f.c = w.Order, w.What, w.Case
	}
}

func (c *collector) flush(r *vk.Run) {
	keys := []string{}
	for k := range c.m {
		keys = append(keys, k)
	}
	sort.Strings(keys)
	vs := []vk.WorkerViolation{}
	for _, k := range keys {
		f := c.m[k]
		vs = append(vs, vk.WorkerViolation{Key: k, What: f.what, Kind: "layout", Case: f.c, Count: f.count})
	}
	r.Import(vs)
}

var coll = &collector{m: map[string]*found{}}

// judge evaluates one case and files its failures.
func judge(p program, l layout, vals []spec.KV, o options, order [2]int64) {
	fails := evaluateWith(p, l, vals, o)
	if len(fails) == 0 {
		return
	}
	seen := map[string]bool{}
	for _, x := range fails {
		for _, key := range attribute(l, vals, o, x) {
			if seen[key] {
				continue
			}
			seen[key] = true
			lc := layoutCase{Layout: l, Values: append([]spec.KV{}, vals...), Opts: o}
			coll.add(key, order, describe(l)+": "+x.What, lc)
		}
	}
}

func describe(l layout) string {
	s := fmt.Sprintf("layout{MsgType value:%s", l.FnTag)
	for _, f := range l.Fields {
		e := ""
		if f.Embedded {
			e = " embedded"
		}
		if f.Kind == spec.KFixed {
			s += fmt.Sprintf("; %s offset:%d value:%s%s", f.Name, f.Offset, f.Tag, e)
		} else {
			s += fmt.Sprintf("; %s offset:%d%s", f.Name, f.Offset, e)
		}
	}
	return s + "}"
}

// ---------------------------------------------------------------------------------------------
// enumeration
// ---------------------------------------------------------------------------------------------

// variant = a kind, or the fixed-value kind with one concrete tag
type variant struct {
	Kind  spec.Kind
	Tag   string
	Fixed int
}

func (v variant) at(offset int, embedded bool) fieldSpec {
	return fieldSpec{Kind: v.Kind, Name: v.Kind.String(), Offset: offset, Embedded: embedded, Tag: v.Tag, Fixed: v.Fixed}
}

// fnFor spreads function codes and the five ways of writing them over the layouts (structured,
// deterministic; the full code x form product is enumerated separately).
func fnFor(a, b int) (string, int) {
	fn := 0x20 + (a*7+b*13)%0xd0
	forms := spec.ValueTagForms(fn)
	return forms[(a+b)%len(forms)], fn
}

func nontrivial(l layout, vals []spec.KV) bool {
	ref, _ := reference(l, vals)
	for _, b := range ref[2:] {
		if b != 0 {
			return true
		}
	}
	return false
}

type job struct {
	family string
	l      layout
	tuples [][]spec.KV
	o      options
	p      program
	ix     int64 // global index of the layout (the same in every worker)
	again  bool  // differs from a layout of another family in the function code only: not counted as distinct
}

func main() {
	r := vk.Start("C18", "exploration")

	if r.Replay != "" {
		replay(r)
		return
	}
	if r.Worker == "" {
		parent(r)
		return
	}
	// worker "k/n": the layouts whose index is k modulo n
	var shard, shards int
	if _, err := fmt.Sscanf(r.Worker, "%d/%d", &shard, &shards); err != nil || shards < 1 || shard < 0 || shard >= shards {
		fmt.Fprintf(os.Stderr, "C18 worker: bad spec %q\n", r.Worker)
		os.Exit(2)
	}

	var alphabets, deepAlphabets, pairAlphabets [spec.NumKinds][]spec.KV
	for k := spec.Kind(0); k < spec.NumKinds; k++ {
		alphabets[k] = spec.KindAlphabet(k)
		deepAlphabets[k] = spec.KindDeepAlphabet(k)
		pairAlphabets[k] = spec.KindPairAlphabet(k)
	}

	var cases, distinct atomic.Int64
	perFamily := map[string]*atomic.Int64{}
	for _, f := range []string{"single-field", "single-field-tag-spelling", "two-field", "two-field-shadowed-name", "three-field", "function-code-tags", "fixed-value-tags", "som-tags"} {
		perFamily[f] = &atomic.Int64{}
	}
	var jobs []job
	var layouts int64
	var samplesMu sync.Mutex
	samples := map[string]any{}
	sample := func(family string, l layout, vals []spec.KV) {
		samplesMu.Lock()
		defer samplesMu.Unlock()
		if _, ok := samples[family]; ok {
			return
		}
		ref, _ := reference(l, vals)
		samples[family] = map[string]any{"family": family, "layout": describe(l), "values": vals, "reference_message": vk.Hex(ref)}
	}

	singleFixedTags := map[string]bool{}
	add := func(family string, l layout, tuples [][]spec.KV, o options) {
		ix := layouts
		layouts++
		if ix%int64(shards) == int64(shard) {
			again := family == "fixed-value-tags" && singleFixedTags[l.Fields[0].Tag]
			jobs = append(jobs, job{family: family, l: l, tuples: tuples, o: o, ix: ix, again: again})
		}
	}
	run := func(jb *job) {
		ix := jb.ix
		family, l, tuples, o, p := jb.family, jb.l, jb.tuples, jb.o, jb.p
		var n, d int64
		for j, vals := range tuples {
			judge(p, l, vals, o, [2]int64{ix, int64(j)})
			n++
			if !jb.again && nontrivial(l, vals) {
				d++
			}
			o.Reject, o.RejectAll = false, false // enforcement is a property of the layout: once, with the first tuple
		}
		cases.Add(n)
		distinct.Add(d)
		perFamily[family].Add(n)
		if len(tuples) > 0 {
			sample(family, l, tuples[len(tuples)/2])
		}
	}

	// (1) every single-field layout: kind x offset x embedded-or-not x the kind's alphabet (full small
	// domains — every HH:mm, every IPv4 octet value — at the first and the last offset).
	singles := []variant{}
	for k := spec.Kind(0); k < spec.NumKinds; k++ {
		if k != spec.KFixed {
			singles = append(singles, variant{Kind: k})
		}
	}
	for _, fx := range [][2]any{{"85", 85}, {"0x55", 0x55}, {"0X5a", 0x5a}, {"0xA5", 0xa5}, {"0XFF", 0xff}, {"255", 255}, {"0", 0}, {"0x00", 0}, {"9", 9}, {"171", 171}} {
		singles = append(singles, variant{Kind: spec.KFixed, Tag: fx[0].(string), Fixed: fx[1].(int)})
		singleFixedTags[fx[0].(string)] = true
	}
	for vi, v := range singles {
		for _, embedded := range []bool{false, true} {
			for off := 2; off+v.Kind.Width() <= 64; off++ {
				tag, fn := fnFor(off, vi)
				l := layout{FnTag: tag, Fn: fn, Fields: []fieldSpec{v.at(off, embedded)}}
				alphabet := alphabets[v.Kind]
				if r.Thorough() || (!embedded && (off == 2 || off+v.Kind.Width() == 64)) {
					alphabet = deepAlphabets[v.Kind] // full small domains: at the first and the last offset (quick), everywhere (thorough)
				}
				tuples := [][]spec.KV{}
				for _, x := range alphabet {
					tuples = append(tuples, []spec.KV{x})
				}
				add("single-field", l, tuples, options{Reject: true, AltDecode: true})
				// the same layout with the tag text written with white space after the colons
				if !embedded || off%8 == 2 {
					for sp := 1; sp < len(colonForms); sp++ {
						l.Spelling = sp
						add("single-field-tag-spelling", l, tuples[:1], options{Reject: true})
					}
				}
			}
		}
	}

	// (2) every two-field layout: ordered pair of kinds, first field at every offset, second field
	// adjacent and (where that is a different place) right-aligned to byte 63; embedding patterns
	// none / second / first / both; cross product of the two small alphabets.
	multi := []variant{}
	for k := spec.Kind(0); k < spec.NumKinds; k++ {
		if k != spec.KFixed {
			multi = append(multi, variant{Kind: k})
		}
	}
	multi = append(multi, variant{Kind: spec.KFixed, Tag: "171", Fixed: 171}, variant{Kind: spec.KFixed, Tag: "0xAb", Fixed: 0xab})
	cross := func(vs ...variant) [][]spec.KV {
		out := [][]spec.KV{{}}
		for _, v := range vs {
			next := [][]spec.KV{}
			for _, t := range out {
				for _, x := range pairAlphabets[v.Kind] {
					next = append(next, append(append([]spec.KV{}, t...), x))
				}
			}
			out = next
		}
		// baseline tuple first (all fields byte-asymmetric and pairwise distinct)
		return out
	}
	pairEmbeddings := [][2]bool{{false, false}, {false, true}, {true, false}, {true, true}}
	for ai, a := range multi {
		for bi, b := range multi {
			wa, wb := a.Kind.Width(), b.Kind.Width()
			tuples := cross(a, b)
			for off := 2; off+wa+wb <= 64; off++ {
				seconds := []int{off + wa}
				if 64-wb != off+wa {
					seconds = append(seconds, 64-wb)
				}
				for _, second := range seconds {
					for _, e := range pairEmbeddings {
						tag, fn := fnFor(off+second, ai*31+bi)
						l := layout{FnTag: tag, Fn: fn, Fields: []fieldSpec{a.at(off, e[0]), b.at(second, e[1])}}
						add("two-field", l, tuples, options{Reject: true})
						if e[0] != e[1] && second == off+wa {
							// one field inside, one outside the embedded struct, both named F0
							l.Shadow = true
							add("two-field-shadowed-name", l, tuples[:1], options{Reject: true})
						}
					}
				}
			}
		}
	}

	// (3) thorough: every three-field adjacent layout at offsets 2, 30 and end-aligned; embedding
	// patterns none / middle / outer two / all; baseline tuple plus each field over its small
	// alphabet with the others at baseline.
	if r.Thorough() {
		tripleEmbeddings := [][3]bool{{false, false, false}, {false, true, false}, {true, false, true}, {true, true, true}}
		for ai, a := range multi {
			for bi, b := range multi {
				for ci, c := range multi {
					ks := []variant{a, b, c}
					wa, wb, wc := a.Kind.Width(), b.Kind.Width(), c.Kind.Width()
					tuples := [][]spec.KV{{pairAlphabets[a.Kind][0], pairAlphabets[b.Kind][0], pairAlphabets[c.Kind][0]}}
					for i, k := range ks {
						for _, x := range pairAlphabets[k.Kind][1:] {
							t := append([]spec.KV{}, tuples[0]...)
							t[i] = x
							tuples = append(tuples, t)
						}
					}
					for _, off := range []int{2, 30, 64 - wa - wb - wc} {
						for _, e := range tripleEmbeddings {
							tag, fn := fnFor(off, ai*31+bi*17+ci)
							l := layout{FnTag: tag, Fn: fn, Fields: []fieldSpec{a.at(off, e[0]), b.at(off+wa, e[1]), c.at(off+wa+wb, e[2])}}
							add("three-field", l, tuples, options{Reject: true})
						}
					}
				}
			}
		}
	}

	// (4) function-code tags: every code 0..255 x every way of writing it, no other field; emitted
	// on encode; the right code accepted and each of the 255 wrong codes rejected on decode.
	for fn := 0; fn < 256; fn++ {
		for _, tag := range spec.ValueTagForms(fn) {
			l := layout{FnTag: tag, Fn: fn}
			add("function-code-tags", l, [][]spec.KV{{}}, options{RejectAll: true})
		}
	}

	// (5) fixed-value tags: every value 0..255 x every way of writing it at offsets 2, 33 and 63,
	// plain and embedded, Go field content 0 / 0xa5 / 0xff (ignored by encode); the declared value
	// accepted and each of the 255 other bytes rejected on decode. And five values in every form
	// at every offset.
	for v := 0; v < 256; v++ {
		for _, tag := range spec.ValueTagForms(v) {
			for _, off := range []int{2, 33, 63} {
				for _, embedded := range []bool{false, true} {
					ft, fn := fnFor(off, v)
					l := layout{FnTag: ft, Fn: fn, Fields: []fieldSpec{variant{spec.KFixed, tag, v}.at(off, embedded)}}
					tuples := [][]spec.KV{}
					for _, x := range alphabets[spec.KFixed] {
						tuples = append(tuples, []spec.KV{x})
					}
					add("fixed-value-tags", l, tuples, options{RejectAll: true})
				}
			}
		}
	}
	for _, v := range []int{0x0a, 0x10, 0x99, 0xc8, 0xfe} {
		for _, tag := range spec.ValueTagForms(v) {
			for off := 2; off < 64; off++ {
				if off == 2 || off == 33 || off == 63 {
					continue
				}
				ft, fn := fnFor(off, v)
				l := layout{FnTag: ft, Fn: fn, Fields: []fieldSpec{variant{spec.KFixed, tag, v}.at(off, off%2 == 1)}}
				add("fixed-value-tags", l, [][]spec.KV{{alphabets[spec.KFixed][1]}}, options{Reject: true})
			}
		}
	}

	// (6) SOM tags (emission only): start byte 0x17 and 0x19 in every form, with one uint32 field.
	for _, som := range []int{0x17, 0x19} {
		for _, tag := range spec.ValueTagForms(som) {
			l := layout{FnTag: "0x20", Fn: 0x20, SOMTag: tag, SOM: som, Fields: []fieldSpec{variant{Kind: spec.KUint32}.at(8, false)}}
			add("som-tags", l, [][]spec.KV{{pairAlphabets[spec.KUint32][0]}}, options{})
		}
	}

	// Phase 1 builds every struct type (and its pointer type) before phase 2 runs the codec:
	// reflect's type caches are sync.Maps, which are only cheap to read while nothing is added.
	vk.Parallel(len(jobs), func(i int) {
		jobs[i].p = build(jobs[i].l)
		reflect.PointerTo(jobs[i].p.t)
	})
	vk.Parallel(len(jobs), func(i int) { run(&jobs[i]) })

	// (7) named message types that share one name (see named.go), one after the other, twice
	if shard == 0 {
		progs := []namedProgram{namedA(), namedB(), namedC(), namedD()}
		for round := 0; round < 2; round++ {
			for i, np := range progs {
				vals := []spec.KV{}
				for _, f := range np.l.Fields {
					vals = append(vals, pairAlphabets[f.Kind][round%len(pairAlphabets[f.Kind])])
				}
				for _, x := range evaluateWith(np.p, np.l, vals, options{Reject: true}) {
					coll.add("C18/"+x.Op+"/same-named-types/"+x.Class, [2]int64{layouts + int64(i), int64(round)},
						fmt.Sprintf("named type %s (one of four distinct local types that are all called msg), %s: %s", np.p.t, describe(np.l), x.What),
						layoutCase{Layout: np.l, Values: vals, Opts: options{Reject: true}})
				}
				cases.Add(1)
				distinct.Add(1)
			}
		}
	}

	res := workerResult{Cases: cases.Load(), Distinct: distinct.Load(), Layouts: layouts, Mine: int64(len(jobs)),
		Types: typesBuilt.Load(), Calls: libraryCalls.Load(), PerFamily: map[string]int64{}, Samples: samples}
	for f, n := range perFamily {
		res.PerFamily[f] = n.Load()
	}
	for k, f := range coll.m {
		res.Found = append(res.Found, workerFound{Key: k, Order: f.order, What: f.what, Case: f.c, Count: f.count})
	}
	if err := json.NewEncoder(os.Stdout).Encode(res); err != nil {
		fmt.Fprintf(os.Stderr, "C18 worker: %v\n", err)
		os.Exit(2)
	}
	os.Exit(0)
}

type workerFound struct {
	Key   string     `json:"key"`
	Order [2]int64   `json:"order"`
	What  string     `json:"what"`
	Case  layoutCase `json:"case"`
	Count int64      `json:"count"`
}

type workerResult struct {
	Cases     int64            `json:"cases"`
	Distinct  int64            `json:"distinct"`
	Layouts   int64            `json:"layouts"`
	Mine      int64            `json:"mine"`
	Types     int64            `json:"types"`
	Calls     int64            `json:"calls"`
	PerFamily map[string]int64 `json:"per_family"`
	Samples   map[string]any   `json:"samples"`
	Found     []workerFound    `json:"found"`
}

// parent runs the enumeration in worker processes, one after the other (each uses every core):
// struct types made with reflect.StructOf are never freed, so the number of types alive at once is
// bounded by giving each worker a share of the layouts.
func parent(r *vk.Run) {
	shards := 8
	if r.Thorough() {
		shards = 12
	}
	perFamily := map[string]int64{}
	var layouts, mine, built, calls int64
	samples := map[string]any{}
	for k := 0; k < shards; k++ {
		cmd := exec.Command(os.Args[0], "--worker", fmt.Sprintf("%d/%d", k, shards), "--tier", r.Tier)
		cmd.Stderr = os.Stderr
		out, err := cmd.Output()
		var res workerResult
		if err == nil {
			err = json.Unmarshal(out, &res)
		}
		if err != nil {
			r.Machinery("worker %d/%d failed: %v", k, shards, err)
			r.Finish()
		}
		if k > 0 && res.Layouts != layouts {
			r.Machinery("worker %d/%d enumerated %d layouts, worker 0 enumerated %d", k, shards, res.Layouts, layouts)
			r.Finish()
		}
		layouts = res.Layouts
		mine += res.Mine
		built += res.Types
		calls += res.Calls
		r.Count(res.Cases)
		r.Distinct(res.Distinct)
		for f, n := range res.PerFamily {
			perFamily[f] += n
		}
		for f, v := range res.Samples {
			if _, ok := samples[f]; !ok {
				samples[f] = v
			}
		}
		for _, f := range res.Found {
			coll.merge(f)
		}
	}
	if mine != layouts {
		r.Machinery("workers covered %d of %d layouts", mine, layouts)
		r.Finish()
	}
	coll.flush(r)
	for _, f := range []string{"single-field", "single-field-tag-spelling", "two-field", "two-field-shadowed-name", "three-field", "function-code-tags", "fixed-value-tags", "som-tags"} {
		r.Set("cases_"+f, perFamily[f])
		if v, ok := samples[f]; ok {
			r.Sample(v)
		}
	}
	r.Set("layouts", layouts)
	r.Set("struct_types_built", built)
	r.Set("library_calls", calls)
	r.Set("field_kinds", int64(spec.NumKinds))
	r.Set("worker_processes", int64(shards))
	third := "not in this tier"
	if r.Thorough() {
		third = "every ordered triple of the 21 kind variants, adjacent, at offsets 2, 30 and end-aligned x 4 embedding patterns (none, middle, outer two, all) x (baseline tuple + each field over its small alphabet)"
	}
	r.Rule("struct types generated with reflect.StructOf: (1) every single-field layout = 20 kinds (17 + pointer variants of Date, DateTime, HHmm; the fixed-value byte in 10 tag spellings) x every offset 2..63 at which the kind fits x plain/embedded x the kind's value alphabet (boundaries, walking bits, byte-distinct patterns, all 256 bytes; every HH:mm 00:00..24:00 and every IPv4 octet value at the first and last offset in the quick tier, at every offset plain and embedded in the thorough tier); (2) every two-field layout = every ordered pair of 21 kind variants (19 kinds + fixed byte written in decimal and in hex) x every offset of the first field x second field adjacent and right-aligned to byte 63 x 4 embedding patterns (none, second, first, both) x the cross product of the two small alphabets, plus every adjacent mixed (one embedded, one not) layout again with both fields carrying the same Go name, baseline tuple; (3) three-field layouts: " + third + "; (4) every function code 0..255 x every decimal/0x/0X/upper-case spelling x all 255 wrong codes on decode; (5) every fixed value 0..255 x every spelling at offsets 2, 33, 63 plain and embedded x all 255 wrong bytes, plus five values in every spelling at every other offset; (6) SOM tags 0x17/0x19 in every spelling (emission); (7) four hand-written NAMED local struct types that share the name msg (reflect.Type.String() equal, layouts different), run one after the other, twice. A case is one (layout, value tuple); cases are pairwise distinct by construction (alphabets are duplicate-free, coinciding adjacent/right-aligned placements are generated once, fixed-value layouts of (5) that repeat a tag spelling of (1) are not counted); non-trivial = the reference message has at least one non-zero byte after the function code")
	r.Assume("reference encoders spec.KindEncode are written by hand from the protocol; reflect.StructOf types behave like declared struct types for the codec (same reflect API)")
	r.Assume("time.Local = UTC (zone behaviour of dates belongs to C13/C05)")
	r.Assume("function codes and tag spellings of the field layouts are assigned by a fixed arithmetic rule over (offset, kind); their full product is enumerated in family (4)")
	r.Assume("a *types.PIN field and nil / non-6-byte MAC, nil or non-IPv4 address values are outside the property's grammar and not generated")
	r.Finish()
}

// ---------------------------------------------------------------------------------------------
// replay
// ---------------------------------------------------------------------------------------------

func replay(r *vk.Run) {
	kind, raw, err := vk.LoadReplay(r.Replay)
	if err != nil || kind != "layout" {
		r.Machinery("cannot load replay %s: kind=%q err=%v", r.Replay, kind, err)
		r.Finish()
	}
	var lc layoutCase
	if err := json.Unmarshal(raw, &lc); err != nil {
		r.Machinery("cannot parse replay case: %v", err)
		r.Finish()
	}
	l, vals := lc.Layout, lc.Values
	if len(vals) != len(l.Fields) {
		r.Machinery("replay case has %d values for %d fields", len(vals), len(l.Fields))
		r.Finish()
	}
	p := build(l)
	ref, _ := reference(l, vals)
	fmt.Printf("struct type: %v\n", p.t)
	fmt.Printf("values:      %s\n", show(vals))
	fmt.Printf("reference message: %x\n", ref)
	var out []byte
	var merr error
	src := fill(p, l, vals)
	if pn, msg, frame := vk.Guard(func() { out, merr = codec.Marshal(src.Interface()) }); pn {
		fmt.Printf("library Marshal:   PANIC %s (in %s)\n", msg, frame)
	} else {
		fmt.Printf("library Marshal:   %x err=%v\n", out, merr)
	}
	dst := reflect.New(p.t)
	buf := append([]byte{}, ref...)
	var uerr error
	if pn, msg, frame := vk.Guard(func() { uerr = codec.Unmarshal(buf, dst.Interface()) }); pn {
		fmt.Printf("library Unmarshal(reference message): PANIC %s (in %s)\n", msg, frame)
	} else {
		fmt.Printf("library Unmarshal(reference message): err=%v\n", uerr)
		for i, f := range l.Fields {
			fmt.Printf("  field %d (%s at %d): decoded %s, reference %s\n", i, f.Name, f.Offset, show(observe(dst.Elem().FieldByIndex(p.paths[i]), f.Kind)), show(spec.KindNorm(f.Kind, want(f, vals[i]))))
		}
		for j := range buf {
			buf[j] = ^buf[j]
		}
		for i, f := range l.Fields {
			fmt.Printf("  field %d after complementing the input buffer: %s\n", i, show(observe(dst.Elem().FieldByIndex(p.paths[i]), f.Kind)))
		}
	}
	o := lc.Opts
	o.Reject, o.AltDecode = true, true
	fails := evaluate(l, vals, o)
	if len(fails) == 0 {
		fmt.Println("no deviation from the reference")
	}
	for _, x := range fails {
		fmt.Printf("deviation: op=%s field=%d class=%s: %s\n", x.Op, x.Field, x.Class, x.What)
	}
	judge(p, l, vals, o, [2]int64{0, 0})
	coll.flush(r)
	r.Count(1)
	r.Distinct(1)
	r.Rule("replay of one (layout, value tuple) case")
	r.Sample(lc)
	r.Finish()
}
