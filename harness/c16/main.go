// C16 — date and time comparisons form a strict total order consistent with the calendar.
//
// Bounded-exhaustive enumeration, every case compared with a hand-written reference:
//
//	HH:mm      all 1441² ordered pairs 00:00..24:00 (trichotomy, mirror, agreement with (h, m) order),
//	           all triples over a boundary set (transitivity);
//	dates      every day 0001-01-02..9999-12-31 against itself and against the days at a fixed list of
//	           distances (1 = every adjacent-day pair; thorough: week/month/year/century distances),
//	           all ordered pairs over a boundary set, all triples over a subset; reference = ordinal
//	           day number of spec/calendar (no time package);
//	date-time  DateTime.Before(time.Time) for all ordered pairs of instants straddling second
//	           boundaries × three locations on either side; reference = whole seconds since 1970;
//	profiles   SetTimeProfile through the real API with the fake transport, all 1441² (start, end)
//	           pairs in each of the three segment positions: a request is sent exactly when the end
//	           is not before the start, otherwise an error and nothing on the wire.
//
// Not judged (executed only, must not panic): the zero Date (0001-01-01) — the property's range
// starts at 0001-01-02 and says nothing about where the "no date" value sorts; instants before
// 1970 — the property says "from 1970 on" (truncation and floor differ for negative timestamps).
package main

import (
	"encoding/json"
	"fmt"
	"net/netip"
	"sort"
	"sync/atomic"
	"time"
	_ "time/tzdata"

	"github.com/uhppoted/uhppote-core/types"
	"github.com/uhppoted/uhppote-core/uhppote"
	"verif/drv"
	"verif/ops"
	"verif/spec"
	"verif/vk"
)

// ---------------------------------------------------------------------------------------------
// generic order judgement

type order[T any] interface {
	Before(T) bool
	After(T) bool
	Equals(T) bool
}

// obs holds a.Before(b), a.After(b), a.Equals(b), b.Before(a), b.After(a), b.Equals(a).
type obs struct{ B, A, E, RB, RA, RE bool }

func observe[T order[T]](a, b T) obs {
	return obs{a.Before(b), a.After(b), a.Equals(b), b.Before(a), b.After(a), b.Equals(a)}
}

func (o obs) String() string {
	return fmt.Sprintf("a.Before(b)=%v a.After(b)=%v a.Equals(b)=%v b.Before(a)=%v b.After(a)=%v b.Equals(a)=%v", o.B, o.A, o.E, o.RB, o.RA, o.RE)
}

func b2i(b bool) int {
	if b {
		return 1
	}
	return 0
}

// sound reports whether the six observations are what a strict total order in which a stands in
// relation want (-1 earlier, 0 same, +1 later) to b must give.
func sound(o obs, want int) bool {
	return o.B == (want < 0) && o.A == (want > 0) && o.E == (want == 0) &&
		o.RA == o.B && o.RB == o.A && o.RE == o.E
}

var relName = [...]string{"earlier than", "the same as", "later than"}
var relKey = [...]string{"earlier", "same", "later"}

// report files one violation per failed clause. typ is "HHmm" or "Date".
func report(r *vk.Run, typ string, o obs, want int, kind string, c any, desc string) {
	all := fmt.Sprintf("%s: a.Before(b)=%v a.After(b)=%v a.Equals(b)=%v b.Before(a)=%v b.After(a)=%v b.Equals(a)=%v; reference: a is %s b",
		desc, o.B, o.A, o.E, o.RB, o.RA, o.RE, relName[want+1])
	if o.B != (want < 0) {
		r.Violation(fmt.Sprintf("C16/%s.Before/%v-for-%s", typ, o.B, relKey[want+1]), "Before disagrees with the calendar/clock order — "+all, kind, c)
	}
	if o.A != (want > 0) {
		r.Violation(fmt.Sprintf("C16/%s.After/%v-for-%s", typ, o.A, relKey[want+1]), "After disagrees with the calendar/clock order — "+all, kind, c)
	}
	if o.E != (want == 0) {
		r.Violation(fmt.Sprintf("C16/%s.Equals/%v-for-%s", typ, o.E, relKey[want+1]), "Equals disagrees with the calendar/clock order — "+all, kind, c)
	}
	if b2i(o.B)+b2i(o.A)+b2i(o.E) != 1 {
		r.Violation(fmt.Sprintf("C16/%s/trichotomy", typ), "not exactly one of Before/Equals/After holds — "+all, kind, c)
	}
	if o.RA != o.B || o.RB != o.A {
		r.Violation(fmt.Sprintf("C16/%s/mirror", typ), "a.Before(b) and b.After(a) (or a.After(b) and b.Before(a)) differ — "+all, kind, c)
	}
	if o.RE != o.E {
		r.Violation(fmt.Sprintf("C16/%s/Equals-asymmetric", typ), "a.Equals(b) and b.Equals(a) differ — "+all, kind, c)
	}
}

// tri holds the nine results needed for the transitivity clauses of a triple (a, b, c).
type tri struct{ Bab, Bbc, Bac, Aab, Abc, Aac, Eab, Ebc, Eac bool }

func observe3[T order[T]](a, b, c T) tri {
	return tri{a.Before(b), b.Before(c), a.Before(c), a.After(b), b.After(c), a.After(c), a.Equals(b), b.Equals(c), a.Equals(c)}
}

func (t tri) String() string {
	return fmt.Sprintf("Before ab=%v bc=%v ac=%v  After ab=%v bc=%v ac=%v  Equals ab=%v bc=%v ac=%v", t.Bab, t.Bbc, t.Bac, t.Aab, t.Abc, t.Aac, t.Eab, t.Ebc, t.Eac)
}

func (t tri) sound() bool {
	return !(t.Bab && t.Bbc && !t.Bac) && !(t.Aab && t.Abc && !t.Aac) && !(t.Eab && t.Ebc && !t.Eac) &&
		!(t.Eab && t.Bbc && !t.Bac) && !(t.Bab && t.Ebc && !t.Bac)
}

func report3(r *vk.Run, typ string, t tri, kind string, c any, desc string) {
	all := fmt.Sprintf("%s: Before ab=%v bc=%v ac=%v  After ab=%v bc=%v ac=%v  Equals ab=%v bc=%v ac=%v", desc, t.Bab, t.Bbc, t.Bac, t.Aab, t.Abc, t.Aac, t.Eab, t.Ebc, t.Eac)
	if t.Bab && t.Bbc && !t.Bac {
		r.Violation(fmt.Sprintf("C16/%s/transitivity/Before", typ), "a before b, b before c, but a not before c — "+all, kind, c)
	}
	if t.Aab && t.Abc && !t.Aac {
		r.Violation(fmt.Sprintf("C16/%s/transitivity/After", typ), "a after b, b after c, but a not after c — "+all, kind, c)
	}
	if t.Eab && t.Ebc && !t.Eac {
		r.Violation(fmt.Sprintf("C16/%s/transitivity/Equals", typ), "a equals b, b equals c, but a does not equal c — "+all, kind, c)
	}
	if (t.Eab && t.Bbc && !t.Bac) || (t.Bab && t.Ebc && !t.Bac) {
		r.Violation(fmt.Sprintf("C16/%s/transitivity/Equals-Before", typ), "Before is not compatible with Equals — "+all, kind, c)
	}
}

func cmpInt(a, b int) int {
	switch {
	case a < b:
		return -1
	case a > b:
		return +1
	}
	return 0
}

// ---------------------------------------------------------------------------------------------
// HH:mm

type hm struct {
	H int `json:"h"`
	M int `json:"m"`
	// Via: how the library value is obtained - 0 NewHHmm; 1..3 HHmmFromTime of a time.Time showing
	// that hour and minute (1: seconds 0, UTC; 2: 59.999999999 s, UTC; 3: 30 s, a +05:45 Location);
	// 4 HHmmFromString; 5 JSON; 6 the wire decoder. Which of them built it does not matter to the order.
	Via int `json:"via,omitempty"`
}

var viaNames = []string{"NewHHmm", "HHmmFromTime(hh:mm:00 UTC)", "HHmmFromTime(hh:mm:59.999999999 UTC)", "HHmmFromTime(hh:mm:30 +05:45)", "HHmmFromString", "UnmarshalJSON", "UnmarshalUT0311L0x"}

func (t hm) String() string {
	if t.Via != 0 {
		return fmt.Sprintf("%02d:%02d[%s]", t.H, t.M, viaNames[t.Via])
	}
	return fmt.Sprintf("%02d:%02d", t.H, t.M)
}

// libCache: the library value of every (via, hh:mm), built once (the text parsers compile a regular
// expression per call)
var libCache [7][1441]*types.HHmm

func (t hm) lib() types.HHmm {
	if i := t.H*60 + t.M; t.Via >= 0 && t.Via < 7 && i >= 0 && i < 1441 && t.M < 60 {
		if p := libCache[t.Via][i]; p != nil {
			return *p
		}
	}
	return t.build()
}

func (t hm) build() types.HHmm {
	switch {
	case t.Via >= 1 && t.Via <= 3 && t.H < 24:
		switch t.Via {
		case 1:
			return types.HHmmFromTime(time.Date(2024, 6, 15, t.H, t.M, 0, 0, time.UTC))
		case 2:
			return types.HHmmFromTime(time.Date(2024, 6, 15, t.H, t.M, 59, 999999999, time.UTC))
		default:
			return types.HHmmFromTime(time.Date(2024, 6, 15, t.H, t.M, 30, 0, time.FixedZone("+0545", 5*3600+45*60)))
		}
	case t.Via == 4:
		if v, err := types.HHmmFromString(fmt.Sprintf("%02d:%02d", t.H, t.M)); err == nil && v != nil {
			return *v
		}
	case t.Via == 5:
		var v types.HHmm
		if err := json.Unmarshal([]byte(fmt.Sprintf(`"%02d:%02d"`, t.H, t.M)), &v); err == nil {
			return v
		}
	case t.Via == 6:
		var v types.HHmm
		if x, err := v.UnmarshalUT0311L0x([]byte{byte(t.H/10<<4 | t.H%10), byte(t.M/10<<4 | t.M%10)}); err == nil {
			if p, ok := x.(*types.HHmm); ok && p != nil {
				return *p
			}
		}
	}
	return types.NewHHmm(t.H, t.M)
}

// refHHmm: lexicographic (hour, minute), as the property states it.
func refHHmm(a, b hm) int {
	if a.H != b.H {
		return cmpInt(a.H, b.H)
	}
	return cmpInt(a.M, b.M)
}

type hmPair struct{ A, B hm }
type hmTriple struct{ A, B, C hm }

// allHHmm lists the 1441 values 00:00, 00:01, ..., 23:59, 24:00.
func allHHmm() []hm {
	out := make([]hm, 0, 1441)
	for h := 0; h < 24; h++ {
		for m := 0; m < 60; m++ {
			out = append(out, hm{H: h, M: m})
		}
	}
	return append(out, hm{H: 24})
}

func checkHHmmPair(r *vk.Run, a, b hm) {
	var o obs
	if p, msg, frame := vk.Guard(func() { o = observe(a.lib(), b.lib()) }); p {
		r.Violation("C16/panic/"+frame, fmt.Sprintf("comparing %v with %v panicked: %s", a, b, msg), "hhmm-pair", hmPair{a, b})
		return
	}
	want := refHHmm(a, b)
	if want != cmpInt(a.H*60+a.M, b.H*60+b.M) { // the two formulations of the clock order must agree
		r.Machinery("reference self-check: (h,m) order and minutes-since-midnight order differ for %v, %v", a, b)
		return
	}
	if !sound(o, want) {
		report(r, "HHmm", o, want, "hhmm-pair", hmPair{a, b}, fmt.Sprintf("a=%v b=%v", a, b))
	}
}

func checkHHmmTriple(r *vk.Run, a, b, c hm) {
	var t tri
	if p, msg, frame := vk.Guard(func() { t = observe3(a.lib(), b.lib(), c.lib()) }); p {
		r.Violation("C16/panic/"+frame, fmt.Sprintf("comparing %v, %v, %v panicked: %s", a, b, c, msg), "hhmm-triple", hmTriple{a, b, c})
		return
	}
	if !t.sound() {
		report3(r, "HHmm", t, "hhmm-triple", hmTriple{a, b, c}, fmt.Sprintf("a=%v b=%v c=%v", a, b, c))
	}
}

func hhmmBoundary(thorough bool) []hm {
	hours := []int{0, 1, 2, 9, 10, 11, 12, 13, 22, 23}
	mins := []int{0, 1, 9, 10, 30, 59}
	if thorough {
		hours = hours[:0]
		for h := 0; h < 24; h++ {
			hours = append(hours, h)
		}
		mins = []int{0, 1, 9, 10, 29, 30, 31, 58, 59}
	}
	out := []hm{}
	for _, h := range hours {
		for _, m := range mins {
			out = append(out, hm{H: h, M: m})
		}
	}
	return append(out, hm{H: 24})
}

func runHHmm(r *vk.Run) {
	all := allHHmm()
	for via := range libCache {
		for _, t := range all {
			t.Via = via
			v := t.build()
			libCache[via][t.H*60+t.M] = &v
		}
	}
	vk.Parallel(len(all), func(i int) {
		for j := range all {
			checkHHmmPair(r, all[i], all[j])
		}
		r.Count(int64(len(all)))
	})
	r.Distinct(int64(len(all) * len(all)))
	r.Set("hhmm_ordered_pairs", int64(len(all)*len(all)))

	// provenance: one operand from each other way of obtaining an HH:mm value (a time.Time that also
	// carries seconds, text, JSON, the wire decoder), the other from NewHHmm, both ways round: every
	// value x the boundary set
	{
		bs := hhmmBoundary(r.Thorough())
		vk.Parallel(len(all), func(i int) {
			for via := 1; via < len(viaNames); via++ {
				a := all[i]
				a.Via = via
				for _, b := range bs {
					checkHHmmPair(r, a, b)
					checkHHmmPair(r, b, a)
					bv := b
					bv.Via = via
					checkHHmmPair(r, a, bv)
				}
			}
			r.Count(int64(3 * (len(viaNames) - 1) * len(bs)))
		})
		n := int64(len(all)) * int64(3*(len(viaNames)-1)*len(bs))
		r.Distinct(n)
		r.Set("hhmm_provenance_pairs", n)
	}

	set := hhmmBoundary(r.Thorough())
	vk.Parallel(len(set), func(i int) {
		for j := range set {
			for k := range set {
				checkHHmmTriple(r, set[i], set[j], set[k])
			}
		}
		r.Count(int64(len(set) * len(set)))
	})
	n3 := int64(len(set)) * int64(len(set)) * int64(len(set))
	r.Distinct(n3)
	r.Set("hhmm_triples", n3)
	r.Set("hhmm_triple_set_size", len(set))
}

// ---------------------------------------------------------------------------------------------
// dates

type ymd struct {
	Y int `json:"y"`
	M int `json:"m"`
	D int `json:"d"`
}

func (d ymd) String() string { return fmt.Sprintf("%04d-%02d-%02d", d.Y, d.M, d.D) }
func (d ymd) ord() int       { return spec.Ordinal(d.Y, d.M, d.D) }

type datePair struct{ A, B ymd }
type dateTriple struct{ A, B, C ymd }

var misbuilt atomic.Int64 // dates that types.ToDate did not build as asked (C13's business, see mk)
var firstMisbuilt atomic.Value

// mk builds the library value for a civil date. The process zone is pinned to UTC, where every
// civil day exists; should ToDate nevertheless hand back another day, the comparison functions
// cannot be blamed for what follows, so such dates are left out (and the run is marked
// not-exhaustive) — the construction itself belongs to C13.
func mk(d ymd) (types.Date, bool) {
	v := types.ToDate(d.Y, time.Month(d.M), d.D)
	y, m, dd := time.Time(v).Date()
	if y != d.Y || int(m) != d.M || dd != d.D {
		if misbuilt.Add(1) == 1 {
			firstMisbuilt.Store(fmt.Sprintf("ToDate(%v) = %04d-%02d-%02d", d, y, int(m), dd))
		}
		return v, false
	}
	return v, true
}

// refDate: ordinal day numbers (spec/calendar), cross-checked against lexicographic (y, m, d).
func refDate(r *vk.Run, a, b ymd) (int, bool) {
	want := cmpInt(a.ord(), b.ord())
	if want != spec.CompareYMD(a.Y, a.M, a.D, b.Y, b.M, b.D) {
		r.Machinery("reference self-check: ordinal order and (y,m,d) order differ for %v, %v", a, b)
		return 0, false
	}
	return want, true
}

func checkDatePair(r *vk.Run, a, b ymd) {
	da, oka := mk(a)
	db, okb := mk(b)
	if !oka || !okb {
		return
	}
	var o obs
	if p, msg, frame := vk.Guard(func() { o = observe(da, db) }); p {
		r.Violation("C16/panic/"+frame, fmt.Sprintf("comparing %v with %v panicked: %s", a, b, msg), "date-pair", datePair{a, b})
		return
	}
	want, ok := refDate(r, a, b)
	if !ok {
		return
	}
	if !sound(o, want) {
		report(r, "Date", o, want, "date-pair", datePair{a, b}, fmt.Sprintf("a=%v b=%v", a, b))
	}
}

// runDatesHeldElsewhere: a Date is a calendar day whatever Location the value carries (a caller can
// convert one from any time.Time) and whatever the process zone is. In process zones that skipped a
// whole civil day (Pacific/Apia 2011-12-30 ...) and in ordinary ones, every ordered pair of the days
// around such a gap, held in UTC and in a far-east / far-west fixed zone, compares by (y, m, d).
// Runs alone (it changes time.Local).
func runDatesHeldElsewhere(r *vk.Run) {
	saved := time.Local
	defer func() { time.Local = saved }()
	held := []*time.Location{time.UTC, time.FixedZone("+14", 14*3600), time.FixedZone("-12", -12*3600)}
	gaps := []struct {
		zone    string
		y, m, d int
	}{{"Pacific/Apia", 2011, 12, 30}, {"Pacific/Kiritimati", 1994, 12, 31}, {"Pacific/Kwajalein", 1993, 8, 21}, {"America/Santiago", 2024, 9, 8}, {"UTC", 2024, 2, 29}}
	var n int64
	for _, g := range gaps {
		loc, err := time.LoadLocation(g.zone)
		if err != nil {
			continue
		}
		time.Local = loc
		days := []ymd{}
		for k := -3; k <= 3; k++ {
			t := time.Date(g.y, time.Month(g.m), g.d+k, 12, 0, 0, 0, time.UTC)
			days = append(days, ymd{t.Year(), int(t.Month()), t.Day()})
		}
		for _, a := range days {
			for _, b := range days {
				for _, la := range held {
					for _, lb := range held {
						n++
						da := types.Date(time.Date(a.Y, time.Month(a.M), a.D, 0, 0, 0, 0, la))
						db := types.Date(time.Date(b.Y, time.Month(b.M), b.D, 0, 0, 0, 0, lb))
						var o obs
						c := datePair{a, b}
						if p, msg, frame := vk.Guard(func() { o = observe(da, db) }); p {
							r.Violation("C16/panic/"+frame, fmt.Sprintf("comparing %v with %v (process zone %s) panicked: %s", a, b, g.zone, msg), "date-pair", c)
							continue
						}
						want, ok := refDate(r, a, b)
						if ok && !sound(o, want) {
							report(r, "Date(held-in-another-location)", o, want, "date-pair", c, fmt.Sprintf("a=%v held in %v, b=%v held in %v, process zone %s", a, la, b, lb, g.zone))
						}
					}
				}
			}
		}
	}
	// the same calendar day held in Locations whose offsets lie far apart (local mean times of the IANA
	// data base reach +15:13 and -15:56; time.FixedZone takes anything), at both ends of the day: the
	// instants are more than two days apart, the dates are equal - and the neighbouring days are not
	{
		time.Local = saved
		far := []*time.Location{time.FixedZone("LMT+15:13:42", 15*3600+13*60+42), time.FixedZone("LMT-15:56", -(15*3600 + 56*60)), time.FixedZone("+18", 18*3600), time.FixedZone("-18", -18*3600),
			time.FixedZone("+23:59:59", 86399), time.FixedZone("-23:59:59", -86399), time.UTC}
		for _, name := range []string{"Asia/Manila", "America/Metlakatla", "America/Juneau"} {
			if l, err := time.LoadLocation(name); err == nil {
				far = append(far, l)
			}
		}
		clocks := [][3]int{{0, 0, 0}, {12, 0, 0}, {23, 59, 59}}
		for _, base := range []ymd{{1800, 5, 5}, {2024, 2, 29}, {1844, 12, 31}, {9999, 12, 30}, {1, 1, 3}} {
			for da := -1; da <= 1; da++ {
				for db := -1; db <= 1; db++ {
					ta := time.Date(base.Y, time.Month(base.M), base.D+da, 12, 0, 0, 0, time.UTC)
					tb := time.Date(base.Y, time.Month(base.M), base.D+db, 12, 0, 0, 0, time.UTC)
					a, b := ymd{ta.Year(), int(ta.Month()), ta.Day()}, ymd{tb.Year(), int(tb.Month()), tb.Day()}
					for _, la := range far {
						for _, lb := range far {
							for _, ca := range clocks {
								for _, cb := range clocks {
									va := time.Date(a.Y, time.Month(a.M), a.D, ca[0], ca[1], ca[2], 0, la)
									vb := time.Date(b.Y, time.Month(b.M), b.D, cb[0], cb[1], cb[2], 0, lb)
									if va.Year() != a.Y || va.Day() != a.D || vb.Year() != b.Y || vb.Day() != b.D {
										continue // (a clock reading the zone does not have on that day)
									}
									n++
									var o obs
									c := datePair{a, b}
									desc := fmt.Sprintf("a=Date(%s) b=Date(%s)", va.Format("2006-01-02 15:04:05 -07:00:00"), vb.Format("2006-01-02 15:04:05 -07:00:00"))
									if p, msg, frame := vk.Guard(func() { o = observe(types.Date(va), types.Date(vb)) }); p {
										r.Violation("C16/panic/"+frame, fmt.Sprintf("comparing %s panicked: %s", desc, msg), "date-pair", c)
										continue
									}
									want, ok := refDate(r, a, b)
									if ok && !sound(o, want) {
										report(r, "Date(held-in-far-apart-locations)", o, want, "date-pair", c, desc)
									}
								}
							}
						}
					}
				}
			}
		}
	}
	// dates that carry a time of day (a types.Date converted from any time.Time), around removed local
	// midnights of the Location they are held in: against ToDate of the day before, the same day and the
	// day after, and against each other when they show the same or adjacent days - by (y, m, d) alone
	time.Local = saved
	tod := ops.DatesWithTimeOfDay()
	civil := func(t time.Time) ymd { return ymd{t.Year(), int(t.Month()), t.Day()} }
	cmpTod := func(da, db types.Date, a, b ymd, desc string) {
		n++
		var o obs
		c := datePair{a, b}
		if p, msg, frame := vk.Guard(func() { o = observe(da, db) }); p {
			r.Violation("C16/panic/"+frame, fmt.Sprintf("comparing %s panicked: %s", desc, msg), "date-pair", c)
			return
		}
		want, ok := refDate(r, a, b)
		if ok && !sound(o, want) {
			report(r, "Date(with-time-of-day)", o, want, "date-pair", c, desc)
		}
	}
	for i, t := range tod {
		a := civil(t)
		for k := -1; k <= 1; k++ {
			u := time.Date(a.Y, time.Month(a.M), a.D+k, 12, 0, 0, 0, time.UTC)
			b := civil(u)
			db, ok := mk(b)
			if !ok {
				continue
			}
			cmpTod(types.Date(t), db, a, b, fmt.Sprintf("a=Date(%s) b=ToDate(%v)", t.Format(time.RFC3339Nano), b))
			cmpTod(db, types.Date(t), b, a, fmt.Sprintf("a=ToDate(%v) b=Date(%s)", b, t.Format(time.RFC3339Nano)))
		}
		for j := i - 12; j <= i+12; j++ {
			if j >= 0 && j < len(tod) {
				cmpTod(types.Date(t), types.Date(tod[j]), a, civil(tod[j]), fmt.Sprintf("a=Date(%s) b=Date(%s)", t.Format(time.RFC3339Nano), tod[j].Format(time.RFC3339Nano)))
			}
		}
	}
	r.Count(n)
	r.Distinct(n)
	r.Set("dates_held_elsewhere_cases", n)
}

func checkDateTriple(r *vk.Run, a, b, c ymd) {
	da, oka := mk(a)
	db, okb := mk(b)
	dc, okc := mk(c)
	if !oka || !okb || !okc {
		return
	}
	var t tri
	if p, msg, frame := vk.Guard(func() { t = observe3(da, db, dc) }); p {
		r.Violation("C16/panic/"+frame, fmt.Sprintf("comparing %v, %v, %v panicked: %s", a, b, c, msg), "date-triple", dateTriple{a, b, c})
		return
	}
	if !t.sound() {
		report3(r, "Date", t, "date-triple", dateTriple{a, b, c}, fmt.Sprintf("a=%v b=%v c=%v", a, b, c))
	}
}

// executeZeroDate runs the comparisons of the zero Date against d in both directions; only a
// panic is reported (the ordering of the "no date" value is outside the property).
func executeZeroDate(r *vk.Run, d ymd) {
	v, ok := mk(d)
	if !ok {
		return
	}
	if p, msg, frame := vk.Guard(func() { observe(types.Date{}, v); observe(v, types.Date{}); observe(types.Date{}, types.Date{}) }); p {
		r.Violation("C16/panic/"+frame, fmt.Sprintf("comparing the zero Date with %v panicked: %s", d, msg), "date-zero", d)
	}
}

// dateDistances: every day is compared with the day that many days later (and that day with it).
func dateDistances(thorough bool) []int {
	if !thorough {
		return []int{0, 1}
	}
	return []int{0, 1, 2, 6, 7, 27, 28, 29, 30, 31, 32, 58, 59, 60, 61, 62, 89, 92, 181, 184, 364, 365, 366, 367, 730, 731, 1460, 1461, 1462, 36524, 36525, 146096, 146097, 146098}
}

func dateBoundary(thorough bool) []ymd {
	years := []int{1, 2, 3, 4, 5, 99, 100, 101, 399, 400, 401, 999, 1000, 1001, 1582, 1599, 1600, 1601, 1699, 1700, 1752,
		1799, 1800, 1899, 1900, 1901, 1969, 1970, 1971, 1999, 2000, 2001, 2003, 2004, 2023, 2024, 2025, 2037, 2038,
		2099, 2100, 2101, 2399, 2400, 2401, 4000, 8000, 9998, 9999}
	// month/day pairs: month and year ends and starts, leap day, and pairs whose day order is the
	// opposite of their month order (01-31/02-01, 03-31/04-01, 09-10/10-09)
	md := [][2]int{{1, 1}, {1, 2}, {1, 31}, {2, 1}, {2, 28}, {2, 29}, {3, 1}, {3, 31}, {4, 1}, {6, 30}, {7, 1}, {9, 10}, {10, 9}, {12, 1}, {12, 30}, {12, 31}}
	seen := map[ymd]bool{}
	out := []ymd{}
	add := func(d ymd) {
		if spec.ValidDate(d.Y, d.M, d.D) && !(d.Y == 1 && d.M == 1 && d.D == 1) && !seen[d] {
			seen[d] = true
			out = append(out, d)
		}
	}
	for _, y := range years {
		for _, p := range md {
			add(ymd{y, p[0], p[1]})
		}
	}
	if thorough {
		for _, y := range []int{1, 1900, 2000, 2023, 2024, 9999} {
			for m := 1; m <= 12; m++ {
				for d := 1; d <= spec.DaysIn(y, m); d++ {
					add(ymd{y, m, d})
				}
			}
		}
	}
	sort.Slice(out, func(i, j int) bool { return out[i].ord() < out[j].ord() })
	return out
}

func dateTripleSet(thorough bool) []ymd {
	years := []int{1, 1900, 1999, 2000, 2001, 2024, 9999}
	md := [][2]int{{1, 1}, {1, 31}, {2, 1}, {2, 28}, {2, 29}, {3, 1}, {9, 10}, {10, 9}, {12, 1}, {12, 30}, {12, 31}}
	if thorough {
		years = []int{1, 2, 4, 100, 400, 1600, 1899, 1900, 1901, 1970, 1999, 2000, 2001, 2023, 2024, 2025, 2100, 9998, 9999}
	}
	seen := map[ymd]bool{}
	out := []ymd{}
	for _, y := range years {
		for _, p := range md {
			d := ymd{y, p[0], p[1]}
			if spec.ValidDate(d.Y, d.M, d.D) && !(d.Y == 1 && d.M == 1 && d.D == 1) && !seen[d] {
				seen[d] = true
				out = append(out, d)
			}
		}
	}
	for _, d := range []ymd{{1, 1, 2}, {1969, 12, 31}, {1970, 1, 1}, {2038, 1, 19}, {2023, 2, 28}, {2023, 3, 1}, {2100, 2, 28}, {2100, 3, 1}} {
		if !seen[d] {
			seen[d] = true
			out = append(out, d)
		}
	}
	sort.Slice(out, func(i, j int) bool { return out[i].ord() < out[j].ord() })
	return out
}

func runDates(r *vk.Run) {
	dist := dateDistances(r.Thorough())
	isDist := map[int]bool{}
	for _, k := range dist {
		isDist[k] = true
	}

	// (1) whole-range sweep, one shard per year
	var sweep atomic.Int64
	vk.Parallel(spec.MaxYear, func(i int) {
		y := i + 1
		var n int64
		for m := 1; m <= 12; m++ {
			for d := 1; d <= spec.DaysIn(y, m); d++ {
				a := ymd{y, m, d}
				o := a.ord()
				if o == spec.OrdinalMin { // 0001-01-01 is the zero value
					continue
				}
				for _, k := range dist {
					if o+k > spec.OrdinalMax {
						continue
					}
					if k == 0 {
						checkDatePair(r, a, a)
						n++
						continue
					}
					by, bm, bd := spec.FromOrdinal(o + k)
					b := ymd{by, bm, bd}
					checkDatePair(r, a, b)
					checkDatePair(r, b, a)
					n += 2
				}
			}
		}
		r.Count(n)
		sweep.Add(n)
	})
	r.Distinct(sweep.Load())
	r.Set("date_sweep_ordered_pairs", sweep.Load())
	r.Set("date_sweep_distances_days", dist)

	// (2) all ordered pairs over the boundary set
	set := dateBoundary(r.Thorough())
	var fresh atomic.Int64
	vk.Parallel(len(set), func(i int) {
		var n int64
		for j := range set {
			checkDatePair(r, set[i], set[j])
			if delta := set[i].ord() - set[j].ord(); !isDist[delta] && !isDist[-delta] { // not already in the sweep
				n++
			}
		}
		r.Count(int64(len(set)))
		fresh.Add(n)
	})
	r.Distinct(fresh.Load())
	r.Set("date_boundary_set_size", len(set))
	r.Set("date_boundary_ordered_pairs", int64(len(set)*len(set)))

	// (3) all triples over the subset
	sub := dateTripleSet(r.Thorough())
	vk.Parallel(len(sub), func(i int) {
		for j := range sub {
			for k := range sub {
				checkDateTriple(r, sub[i], sub[j], sub[k])
			}
		}
		r.Count(int64(len(sub) * len(sub)))
	})
	n3 := int64(len(sub)) * int64(len(sub)) * int64(len(sub))
	r.Distinct(n3)
	r.Set("date_triples", n3)
	r.Set("date_triple_set_size", len(sub))

	// (4) the zero Date: executed, not judged
	for _, d := range set {
		executeZeroDate(r, d)
	}
	r.Count(int64(len(set)))
	r.Set("unjudged_zero_date_cases", len(set))

	if n := misbuilt.Load(); n > 0 {
		r.NotExhaustive(fmt.Sprintf("types.ToDate did not build the requested civil date under UTC in %d constructions (first: %v); pairs involving those dates were not judged — see C13", n, firstMisbuilt.Load()))
	}
}

// ---------------------------------------------------------------------------------------------
// date-times

type inst struct {
	Sec  int64  `json:"sec"`  // whole seconds since 1970-01-01T00:00:00Z (floor)
	Nsec int64  `json:"nsec"` // 0..999 999 999
	Loc  string `json:"loc"`
}

type dtPair struct{ D, T inst }

var locNames = []string{"UTC", "+05:45", "America/New_York"}

// dstNames: zones whose offset changes; instants around their transitions (the repeated and the
// skipped local hour) are compared across all locations.
var dstNames = []string{"America/New_York", "Europe/London", "Australia/Lord_Howe"}
var locs = map[string]*time.Location{}

func loadLocs(r *vk.Run) bool {
	locs["UTC"] = time.UTC
	locs["+05:45"] = time.FixedZone("+0545", 5*3600+45*60)
	ny, err := time.LoadLocation("America/New_York")
	if err != nil {
		r.Machinery("cannot load America/New_York: %v", err)
		return false
	}
	locs["America/New_York"] = ny
	for _, n := range dstNames {
		l, err := time.LoadLocation(n)
		if err != nil {
			r.Machinery("cannot load %s: %v", n, err)
			return false
		}
		locs[n] = l
	}
	return true
}

func (i inst) time() time.Time { return time.Unix(i.Sec, i.Nsec).In(locs[i.Loc]) }
func (i inst) String() string {
	return fmt.Sprintf("%d.%09ds[%s]", i.Sec, i.Nsec, i.Loc)
}

// instants returns the judged instants (sec >= 0) and the unjudged ones before 1970, each as
// (sec, nsec) with 0 <= nsec < 1e9 so that sec *is* the whole-second timestamp by construction.
func instants() (judged, early [][2]int64) {
	bases := []int64{0, 1, 59, 60, 3600, 86399, 86400, 946684799, 946684800, 999999999, 1000000000, 1234567890,
		1700000000, 2147483647, 2147483648, 4102444800, 4294967295, 4294967296, 32503680000, 253402300798}
	offsets := []int64{-1000000000, -999000000, -1000000, -1, 0, 1, 1000000, 499999999, 500000000, 999000000, 999999999, 1000000000}
	seen := map[[2]int64]bool{}
	for _, b := range bases {
		for _, off := range offsets {
			sec, nsec := b, off
			for nsec < 0 {
				sec, nsec = sec-1, nsec+1000000000
			}
			for nsec >= 1000000000 {
				sec, nsec = sec+1, nsec-1000000000
			}
			k := [2]int64{sec, nsec}
			if seen[k] {
				continue
			}
			seen[k] = true
			if sec < 0 {
				early = append(early, k)
			} else {
				judged = append(judged, k)
			}
		}
	}
	return
}

func checkDateTime(r *vk.Run, d, t inst, judge bool) {
	dt, tt := d.time(), t.time()
	if dt.Unix() != d.Sec || tt.Unix() != t.Sec || int64(dt.Nanosecond()) != d.Nsec || int64(tt.Nanosecond()) != t.Nsec {
		r.Machinery("time.Unix did not reproduce (sec, nsec) for %v / %v", d, t)
		return
	}
	var got bool
	if p, msg, frame := vk.Guard(func() { got = types.DateTime(dt).Before(tt) }); p {
		r.Violation("C16/panic/"+frame, fmt.Sprintf("DateTime(%v).Before(%v) panicked: %s", d, t, msg), "datetime", dtPair{d, t})
		return
	}
	if !judge {
		return
	}
	want := d.Sec < t.Sec
	if got != want {
		rel := relKey[cmpI64(d.Sec, t.Sec)+1]
		r.Violation(fmt.Sprintf("C16/DateTime.Before/%v-for-%s-second", got, rel),
			fmt.Sprintf("DateTime(%v).Before(%v) = %v; whole-second timestamps %d and %d, so it must be %v", d, t, got, d.Sec, t.Sec, want), "datetime", dtPair{d, t})
	}
}

func cmpI64(a, b int64) int {
	switch {
	case a < b:
		return -1
	case a > b:
		return 1
	}
	return 0
}

func runDateTimes(r *vk.Run) {
	if !loadLocs(r) {
		return
	}
	judged, early := instants()
	all := []inst{}
	for _, k := range judged {
		for _, l := range locNames {
			all = append(all, inst{k[0], k[1], l})
		}
	}
	vk.Parallel(len(all), func(i int) {
		for j := range all {
			checkDateTime(r, all[i], all[j], true)
		}
		r.Count(int64(len(all)))
	})
	r.Distinct(int64(len(all) * len(all)))
	r.Set("datetime_instants", len(judged))
	r.Set("datetime_ordered_pairs", int64(len(all)*len(all)))

	// around offset changes: the repeated hour (two instants share one wall-clock reading) and the
	// skipped one, every instant expressed in every location, all ordered pairs
	trans := []inst{}
	seenT := map[int64]bool{}
	for _, zn := range dstNames {
		at := time.Date(2024, 1, 15, 12, 0, 0, 0, locs[zn])
		for k := 0; k < 2; k++ {
			_, end := at.ZoneBounds()
			if end.IsZero() {
				break
			}
			base := end.Unix()
			at = end.Add(24 * time.Hour)
			for _, off := range []int64{-3601, -3600, -1801, -1800, -1, 0, 1, 1799, 1800, 3599, 3600, 3601} {
				if seenT[base+off] {
					continue
				}
				seenT[base+off] = true
				for _, ns := range []int64{0, 999000000} {
					for _, l := range append([]string{"UTC", "+05:45"}, dstNames...) {
						trans = append(trans, inst{base + off, ns, l})
					}
				}
			}
		}
	}
	vk.Parallel(len(trans), func(i int) {
		for j := range trans {
			checkDateTime(r, trans[i], trans[j], true)
		}
		r.Count(int64(len(trans)))
	})
	r.Distinct(int64(len(trans) * len(trans)))
	r.Set("datetime_transition_instants", len(trans))

	// before 1970: executed, not judged
	var n int64
	for _, k := range early {
		e := inst{k[0], k[1], "UTC"}
		for _, o := range all {
			checkDateTime(r, e, o, false)
			checkDateTime(r, o, e, false)
			n += 2
		}
	}
	r.Count(n)
	r.Set("unjudged_pre1970_cases", n)
}

// ---------------------------------------------------------------------------------------------
// SetTimeProfile

var serial uint32 = 405419896

type profCase struct {
	Transport string `json:"transport"` // "broadcast" | "udp" | "tcp"
	Pos       int    `json:"segment"`   // 1..3
	Start     hm     `json:"start"`
	End       hm     `json:"end"`
	// Others: what the two segments not being varied hold - "" two ordinary ones (fillers), "unused"
	// 00:00-00:00, "instant" 12:00-12:00, "whole-day" 00:00-24:00
	Others string `json:"other_segments,omitempty"`
}

var otherSegments = map[string]types.Segment{
	"unused":    {Start: types.NewHHmm(0, 0), End: types.NewHHmm(0, 0)},
	"instant":   {Start: types.NewHHmm(12, 0), End: types.NewHHmm(12, 0)},
	"whole-day": {Start: types.NewHHmm(0, 0), End: types.NewHHmm(24, 0)},
}

func newClient(transport string) (uhppote.IUHPPOTE, *drv.Fake) {
	reply := make([]byte, 64)
	reply[0], reply[1] = 0x17, 0x88
	reply[4], reply[5], reply[6], reply[7] = byte(serial), byte(serial>>8), byte(serial>>16), byte(serial>>24)
	reply[8] = 1
	f := &drv.Fake{Script: func(c drv.Call) ([][]byte, error) {
		return [][]byte{append([]byte{}, reply...)}, nil
	}}
	devices := []uhppote.Device{}
	if transport != "broadcast" {
		addr := types.ControllerAddrFrom(netip.MustParseAddr("192.168.1.100"), 60000)
		devices = append(devices, uhppote.Device{Name: "c16", DeviceID: serial, Address: addr, Doors: []string{}, TimeZone: time.UTC, Protocol: transport})
	}
	u := uhppote.NewUHPPOTE(
		types.BindAddrFrom(netip.MustParseAddr("0.0.0.0"), 0),
		types.BroadcastAddrFrom(netip.MustParseAddr("255.255.255.255"), 60000),
		types.ListenAddrFrom(netip.MustParseAddr("0.0.0.0"), 60001),
		time.Second, devices, false)
	if !drv.Install(u, f) {
		return nil, nil
	}
	return u, f
}

// the two segments that are not being varied: valid, non-empty and different from each other
var fillers = []types.Segment{
	{Start: types.NewHHmm(8, 30), End: types.NewHHmm(11, 45)},
	{Start: types.NewHHmm(13, 15), End: types.NewHHmm(17, 0)},
}

func checkProfile(r *vk.Run, u uhppote.IUHPPOTE, f *drv.Fake, c profCase) {
	segments := types.Segments{}
	fill := 0
	for k := 1; k <= 3; k++ {
		if k == c.Pos {
			segments[uint8(k)] = types.Segment{Start: c.Start.lib(), End: c.End.lib()}
		} else if o, ok := otherSegments[c.Others]; ok {
			segments[uint8(k)] = o
		} else {
			segments[uint8(k)] = fillers[fill]
			fill++
		}
	}
	profile := types.TimeProfile{
		ID:              29,
		LinkedProfileID: 0,
		From:            types.ToDate(2024, time.January, 1),
		To:              types.ToDate(2024, time.December, 31),
		Weekdays:        types.Weekdays{time.Monday: true, time.Wednesday: true, time.Friday: true},
		Segments:        segments,
	}
	f.Reset()
	var ok bool
	var err error
	if p, msg, frame := vk.Guard(func() { ok, err = u.SetTimeProfile(serial, profile) }); p {
		r.Violation("C16/panic/"+frame, fmt.Sprintf("SetTimeProfile with segment %d = %v-%v panicked: %s", c.Pos, c.Start, c.End, msg), "profile", c)
		return
	}
	sent := f.NumCalls()
	accept := refHHmm(c.End, c.Start) >= 0 // end is not before start
	desc := fmt.Sprintf("segment %d = %v-%v (other segments: %q) over %s: SetTimeProfile = (%v, %v), requests sent = %d", c.Pos, c.Start, c.End, c.Others, c.Transport, ok, err, sent)
	switch {
	case accept && sent == 0 && err != nil:
		r.Violation("C16/SetTimeProfile/rejects-end-not-before-start", desc+"; the end is not before the start, so the profile must be sent", "profile", c)
	case accept && sent == 0:
		r.Violation("C16/SetTimeProfile/nothing-sent-no-error", desc+"; the end is not before the start, so the profile must be sent", "profile", c)
	case accept && sent > 1:
		r.Violation("C16/SetTimeProfile/request-count", desc+"; exactly one request expected", "profile", c)
	case accept && (err != nil || !ok):
		r.Violation("C16/SetTimeProfile/valid-profile-fails-after-send", desc+"; the controller acknowledged the request, (true, nil) expected", "profile", c)
	case !accept && sent > 0:
		r.Violation("C16/SetTimeProfile/sends-end-before-start", desc+"; the end is before the start, so nothing may be sent", "profile", c)
	case !accept && err == nil:
		r.Violation("C16/SetTimeProfile/no-error-end-before-start", desc+"; the end is before the start, an error is expected", "profile", c)
	}
}

func runProfiles(r *vk.Run) {
	transports := []string{"broadcast"}
	if r.Thorough() {
		transports = []string{"broadcast", "udp", "tcp"}
	}
	all := allHHmm()
	var accepted, rejected atomic.Int64
	for _, tr := range transports {
		tr := tr
		if u, _ := newClient(tr); u == nil {
			r.Machinery("cannot install the fake driver (uhppote.VerifSetDriver refused the client)")
			return
		}
		vk.Parallel(3*len(all), func(i int) {
			pos, s := i/len(all)+1, all[i%len(all)]
			u, f := newClient(tr)
			var acc int64
			for _, e := range all {
				checkProfile(r, u, f, profCase{tr, pos, s, e, ""})
				if refHHmm(e, s) >= 0 {
					acc++
				}
			}
			r.Count(int64(len(all)))
			accepted.Add(acc)
			rejected.Add(int64(len(all)) - acc)
		})
	}
	// the verdict on one segment does not depend on what the other two hold: the boundary set x itself
	// for each position with the others unused (00:00-00:00), a single instant, the whole day
	bs := hhmmBoundary(r.Thorough())
	var extra int64
	{
		u, f := newClient("broadcast")
		for _, others := range []string{"unused", "instant", "whole-day"} {
			for pos := 1; pos <= 3; pos++ {
				for _, s := range bs {
					for _, e := range bs {
						checkProfile(r, u, f, profCase{"broadcast", pos, s, e, others})
						extra++
					}
				}
			}
		}
		r.Count(extra)
	}
	n := int64(len(transports))*3*int64(len(all))*int64(len(all)) + extra
	r.Distinct(n)
	r.Set("profile_cases", n)
	r.Set("profile_must_accept", accepted.Load())
	r.Set("profile_must_reject", rejected.Load())
	r.Set("profile_transports", transports)
}

// ---------------------------------------------------------------------------------------------

func replay(r *vk.Run) {
	kind, c, err := vk.LoadReplay(r.Replay)
	if err != nil {
		r.Machinery("cannot load replay: %v", err)
		return
	}
	bad := func(err error) bool {
		if err != nil {
			r.Machinery("replay case does not parse: %v", err)
		}
		return err != nil
	}
	switch kind {
	case "hhmm-pair":
		var p hmPair
		if bad(json.Unmarshal(c, &p)) {
			return
		}
		o := observe(p.A.lib(), p.B.lib())
		fmt.Printf("a=%v b=%v\n library:   %v\n reference: a is %s b\n", p.A, p.B, o, relName[refHHmm(p.A, p.B)+1])
		checkHHmmPair(r, p.A, p.B)
	case "hhmm-triple":
		var p hmTriple
		if bad(json.Unmarshal(c, &p)) {
			return
		}
		fmt.Printf("a=%v b=%v c=%v\n library:   %v\n reference: Before, After and Equals are transitive\n", p.A, p.B, p.C, observe3(p.A.lib(), p.B.lib(), p.C.lib()))
		checkHHmmTriple(r, p.A, p.B, p.C)
	case "date-pair":
		var p datePair
		if bad(json.Unmarshal(c, &p)) {
			return
		}
		da, _ := mk(p.A)
		db, _ := mk(p.B)
		fmt.Printf("a=%v b=%v\n library:   %v\n reference: ordinals %d and %d, a is %s b\n", p.A, p.B, observe(da, db), p.A.ord(), p.B.ord(), relName[cmpInt(p.A.ord(), p.B.ord())+1])
		checkDatePair(r, p.A, p.B)
	case "date-triple":
		var p dateTriple
		if bad(json.Unmarshal(c, &p)) {
			return
		}
		da, _ := mk(p.A)
		db, _ := mk(p.B)
		dc, _ := mk(p.C)
		fmt.Printf("a=%v b=%v c=%v\n library:   %v\n reference: Before, After and Equals are transitive\n", p.A, p.B, p.C, observe3(da, db, dc))
		checkDateTriple(r, p.A, p.B, p.C)
	case "date-zero":
		var d ymd
		if bad(json.Unmarshal(c, &d)) {
			return
		}
		executeZeroDate(r, d)
	case "datetime":
		var p dtPair
		if bad(json.Unmarshal(c, &p)) || !loadLocs(r) {
			return
		}
		if locs[p.D.Loc] == nil || locs[p.T.Loc] == nil {
			r.Machinery("replay names an unknown location")
			return
		}
		got := types.DateTime(p.D.time()).Before(p.T.time())
		fmt.Printf("DateTime(%v).Before(%v)\n library:   %v\n reference: %v (whole seconds %d vs %d)\n", p.D, p.T, got, p.D.Sec < p.T.Sec, p.D.Sec, p.T.Sec)
		checkDateTime(r, p.D, p.T, p.D.Sec >= 0 && p.T.Sec >= 0)
	case "profile":
		var p profCase
		if bad(json.Unmarshal(c, &p)) {
			return
		}
		u, f := newClient(p.Transport)
		if u == nil || p.Pos < 1 || p.Pos > 3 {
			r.Machinery("cannot set up the replay of %+v", p)
			return
		}
		checkProfile(r, u, f, p)
		verdict := "must be sent (exactly one request)"
		if refHHmm(p.End, p.Start) < 0 {
			verdict = "must be rejected with nothing sent"
		}
		fmt.Printf("segment %d = %v-%v over %s\n library:   requests sent = %d\n reference: %s\n", p.Pos, p.Start, p.End, p.Transport, f.NumCalls(), verdict)
	default:
		r.Machinery("unknown replay kind %q", kind)
	}
	r.Count(1)
}

func main() {
	r := vk.Start("C16", "exploration")

	if r.Replay != "" {
		replay(r)
		r.Finish()
	}

	if err := spec.CalendarSelfTest(); err != nil {
		r.Machinery("%v", err)
		r.Finish()
	}
	// the independent calendar against the trusted time package (machinery check, not an oracle)
	for _, d := range dateBoundary(true) {
		if got := int(time.Date(d.Y, time.Month(d.M), d.D, 0, 0, 0, 0, time.UTC).Unix()/86400) + 719163; got != d.ord() {
			r.Machinery("spec.Ordinal(%v) = %d but the time package says %d", d, d.ord(), got)
			r.Finish()
		}
	}

	for _, part := range []struct {
		name string
		run  func(*vk.Run)
	}{{"hhmm", runHHmm}, {"dates", runDates}, {"datetimes", runDateTimes}, {"profiles", runProfiles}, {"dates-held-elsewhere", runDatesHeldElsewhere}} {
		t0 := time.Now()
		part.run(r)
		r.Set("wall_s_"+part.name, time.Since(t0).Seconds())
	}

	r.Rule("HH:mm: every ordered pair of the 1441 values 00:00..24:00, every triple over the boundary set; " +
		"dates: every day 0001-01-02..9999-12-31 paired (both orders) with itself and with the day k days later for every k in date_sweep_distances_days, " +
		"every ordered pair over the boundary set (counted as distinct only when its distance is not one of the k), every triple over the subset; " +
		"dates held in UTC / +14:00 / -12:00 around whole-day gaps, in process zones Pacific/Apia, Kiritimati, Kwajalein, America/Santiago and UTC: every ordered pair over 7 days x 3x3 Locations; " +
		"date-times: every ordered pair of (instant, location) over the de-duplicated instants from 1970 on × 3 locations, and every ordered pair over the instants within ±1 h 1 s of each 2024 offset change of America/New_York, Europe/London and Australia/Lord_Howe (repeated and skipped local hour) × 5 locations; " +
		"SetTimeProfile: every (start, end) of 1441² in each segment position per transport, the other two segments fixed; " +
		"distinct = distinct argument tuples by construction; the zero Date and pre-1970 instants are executed but neither judged nor counted as distinct")
	r.Sample(map[string]any{"hhmm": "a=08:59 b=09:00", "reference": "a earlier: Before only; b.After(a)"})
	r.Sample(map[string]any{"hhmm": "a=24:00 b=23:59", "reference": "a later: After only"})
	r.Sample(map[string]any{"date": "a=2024-01-31 b=2024-02-01", "reference": "ordinals 738916 < 738917: Before only"})
	r.Sample(map[string]any{"date": "a=1900-02-28 b=1900-03-01", "reference": "adjacent days (1900 is not a leap year): Before only"})
	r.Sample(map[string]any{"date-triple": "1999-12-31, 2000-01-01, 2000-02-29", "reference": "Before(a,b), Before(b,c) => Before(a,c)"})
	r.Sample(map[string]any{"datetime": "DateTime(946684799.999999999s[UTC]).Before(946684800.000000000s[+05:45])", "reference": "true (946684799 < 946684800)"})
	r.Sample(map[string]any{"datetime": "DateTime(946684800.000000000s[UTC]).Before(946684800.999000000s[America/New_York])", "reference": "false (same whole second)"})
	r.Sample(map[string]any{"profile": "segment 2 = 12:00-12:00", "reference": "sent (end not before start), one request"})
	r.Sample(map[string]any{"profile": "segment 3 = 12:00-11:59", "reference": "rejected, nothing sent"})
	r.Assume("process time zone pinned to UTC (zone behaviour of date construction belongs to C13); types.ToDate under UTC is checked to yield the requested civil day, otherwise the pair is skipped and the run marked not exhaustive")
	r.Assume("the ordering of the zero Date (0001-01-01) and of instants before 1970 is outside the property: executed for panics only")
	r.Assume("HH:mm values are built with types.NewHHmm (and, in the provenance family, with HHmmFromTime / HHmmFromString / JSON / the wire decoder), dates with types.ToDate; values outside 00:00..24:00 / 0001..9999 are out of domain (C04)")
	r.Assume("the fake transport (verif/drv) answers every SetTimeProfile request with a well-formed success reply")
	r.Finish()
}
