package main

import (
	"encoding/binary"
	"encoding/hex"
	"fmt"
	"net/netip"
	"reflect"
	"time"

	"github.com/uhppoted/uhppote-core/types"
	"github.com/uhppoted/uhppote-core/uhppote"
	"verif/drv"
	"verif/vk"
)

// The 30 operations that wait for a reply from one controller (GetDevices, the 31st reply-bearing
// operation, is a broadcast and has its own sweep; SetAddress expects no reply; Listen is the
// event path), each called with arguments that match the valid sample reply so that the sample
// travels the whole result path.
type apiOp struct {
	name string
	code byte
	call func(u uhppote.IUHPPOTE, serial uint32) ([]any, error)
}

// reflectedOps: operations not in the table below - methods of the client found by reflection (the
// harness does not know them by name); called with sample arguments, function code learned from
// the request they send
var reflectedOps = map[string]bool{}

// discoverOps appends to apiOps every method of the client whose first parameter is a uint32
// controller id and whose last result is an error, and that apiOps does not list: whatever
// operations the library has take part in the reply sweeps.
func discoverOps() (added []string) {
	known := map[string]bool{"SetAddress": true}
	for _, op := range apiOps {
		known[op.name] = true
	}
	cl := newClient("SendUDP", sampleSerial)
	uv := reflect.ValueOf(cl.u)
	errT := reflect.TypeOf((*error)(nil)).Elem()
	for i := 0; i < uv.NumMethod(); i++ {
		name := uv.Type().Method(i).Name
		mt := uv.Method(i).Type()
		if known[name] || mt.NumIn() < 1 || mt.In(0).Kind() != reflect.Uint32 || mt.NumOut() < 1 || mt.Out(mt.NumOut()-1) != errT {
			continue
		}
		call := func(u uhppote.IUHPPOTE, serial uint32) ([]any, error) {
			m := reflect.ValueOf(u).MethodByName(name)
			t := m.Type()
			args := []reflect.Value{reflect.ValueOf(serial).Convert(t.In(0))}
			for k := 1; k < t.NumIn(); k++ {
				if t.IsVariadic() && k == t.NumIn()-1 {
					break
				}
				v := reflect.New(t.In(k)).Elem()
				switch v.Kind() {
				case reflect.Uint8, reflect.Uint16, reflect.Uint32, reflect.Uint64, reflect.Uint:
					v.SetUint(1)
				case reflect.Int8, reflect.Int16, reflect.Int32, reflect.Int64, reflect.Int:
					v.SetInt(1)
				case reflect.Bool:
					v.SetBool(true)
				}
				args = append(args, v)
			}
			outs := m.Call(args)
			err, _ := outs[len(outs)-1].Interface().(error)
			vals := []any{}
			for _, o := range outs[:len(outs)-1] {
				vals = append(vals, o.Interface())
			}
			return vals, err
		}
		cl.answer = nil
		cl.f.Reset()
		if p, _, _ := vk.Guard(func() { call(cl.u, sampleSerial) }); p || cl.f.NumCalls() != 1 || len(cl.f.Calls[0].Request) != 64 {
			continue
		}
		apiOps = append(apiOps, apiOp{name, cl.f.Calls[0].Request[1], call})
		reflectedOps[name] = true
		added = append(added, name)
	}
	return
}

func res(err error, v ...any) ([]any, error) { return v, err }

var (
	sampleProfile types.TimeProfile
	sampleCard    types.Card
	sampleTask    types.Task
)

var apiOps = []apiOp{
	{"GetStatus", 0x20, func(u uhppote.IUHPPOTE, s uint32) ([]any, error) { v, err := u.GetStatus(s); return res(err, v) }},
	{"SetTime", 0x30, func(u uhppote.IUHPPOTE, s uint32) ([]any, error) {
		v, err := u.SetTime(s, time.Date(2024, 11, 5, 14, 37, 59, 0, time.UTC))
		return res(err, v)
	}},
	{"GetTime", 0x32, func(u uhppote.IUHPPOTE, s uint32) ([]any, error) { v, err := u.GetTime(s); return res(err, v) }},
	{"OpenDoor", 0x40, func(u uhppote.IUHPPOTE, s uint32) ([]any, error) { v, err := u.OpenDoor(s, 3); return res(err, v) }},
	{"PutCard", 0x50, func(u uhppote.IUHPPOTE, s uint32) ([]any, error) {
		v, err := u.PutCard(s, sampleCard)
		return res(err, v)
	}},
	{"DeleteCard", 0x52, func(u uhppote.IUHPPOTE, s uint32) ([]any, error) {
		v, err := u.DeleteCard(s, 8165535)
		return res(err, v)
	}},
	{"DeleteCards", 0x54, func(u uhppote.IUHPPOTE, s uint32) ([]any, error) { v, err := u.DeleteCards(s); return res(err, v) }},
	{"GetCards", 0x58, func(u uhppote.IUHPPOTE, s uint32) ([]any, error) { v, err := u.GetCards(s); return res(err, v) }},
	{"GetCardByID", 0x5a, func(u uhppote.IUHPPOTE, s uint32) ([]any, error) {
		v, err := u.GetCardByID(s, 8165535)
		return res(err, v)
	}},
	{"GetCardByIndex", 0x5c, func(u uhppote.IUHPPOTE, s uint32) ([]any, error) {
		v, err := u.GetCardByIndex(s, 17)
		return res(err, v)
	}},
	{"SetDoorControlState", 0x80, func(u uhppote.IUHPPOTE, s uint32) ([]any, error) {
		v, err := u.SetDoorControlState(s, 2, types.Controlled, 7)
		return res(err, v)
	}},
	{"GetDoorControlState", 0x82, func(u uhppote.IUHPPOTE, s uint32) ([]any, error) {
		v, err := u.GetDoorControlState(s, 2)
		return res(err, v)
	}},
	{"SetTimeProfile", 0x88, func(u uhppote.IUHPPOTE, s uint32) ([]any, error) {
		v, err := u.SetTimeProfile(s, sampleProfile)
		return res(err, v)
	}},
	{"ClearTimeProfiles", 0x8a, func(u uhppote.IUHPPOTE, s uint32) ([]any, error) {
		v, err := u.ClearTimeProfiles(s)
		return res(err, v)
	}},
	{"SetDoorPasscodes", 0x8c, func(u uhppote.IUHPPOTE, s uint32) ([]any, error) {
		v, err := u.SetDoorPasscodes(s, 3, 12345, 0, 999999, 1)
		return res(err, v)
	}},
	{"RecordSpecialEvents", 0x8e, func(u uhppote.IUHPPOTE, s uint32) ([]any, error) {
		v, err := u.RecordSpecialEvents(s, true)
		return res(err, v)
	}},
	{"SetListener", 0x90, func(u uhppote.IUHPPOTE, s uint32) ([]any, error) {
		v, err := u.SetListener(s, netip.MustParseAddrPort("192.168.1.100:60001"), 15)
		return res(err, v)
	}},
	{"GetListener", 0x92, func(u uhppote.IUHPPOTE, s uint32) ([]any, error) {
		a, i, err := u.GetListener(s)
		return res(err, a, i)
	}},
	{"GetDevice", 0x94, func(u uhppote.IUHPPOTE, s uint32) ([]any, error) { v, err := u.GetDevice(s); return res(err, v) }},
	{"GetTimeProfile", 0x98, func(u uhppote.IUHPPOTE, s uint32) ([]any, error) {
		v, err := u.GetTimeProfile(s, 29)
		return res(err, v)
	}},
	{"SetPCControl", 0xa0, func(u uhppote.IUHPPOTE, s uint32) ([]any, error) {
		v, err := u.SetPCControl(s, true)
		return res(err, v)
	}},
	{"SetInterlock", 0xa2, func(u uhppote.IUHPPOTE, s uint32) ([]any, error) {
		v, err := u.SetInterlock(s, types.Interlock12_34)
		return res(err, v)
	}},
	{"ActivateKeypads", 0xa4, func(u uhppote.IUHPPOTE, s uint32) ([]any, error) {
		v, err := u.ActivateKeypads(s, map[uint8]bool{1: true, 2: false, 3: true, 4: true})
		return res(err, v)
	}},
	{"ClearTaskList", 0xa6, func(u uhppote.IUHPPOTE, s uint32) ([]any, error) { v, err := u.ClearTaskList(s); return res(err, v) }},
	{"AddTask", 0xa8, func(u uhppote.IUHPPOTE, s uint32) ([]any, error) {
		v, err := u.AddTask(s, sampleTask)
		return res(err, v)
	}},
	{"RefreshTaskList", 0xac, func(u uhppote.IUHPPOTE, s uint32) ([]any, error) { v, err := u.RefreshTaskList(s); return res(err, v) }},
	{"GetEvent", 0xb0, func(u uhppote.IUHPPOTE, s uint32) ([]any, error) { v, err := u.GetEvent(s, 78); return res(err, v) }},
	{"SetEventIndex", 0xb2, func(u uhppote.IUHPPOTE, s uint32) ([]any, error) {
		v, err := u.SetEventIndex(s, 78)
		return res(err, v)
	}},
	{"GetEventIndex", 0xb4, func(u uhppote.IUHPPOTE, s uint32) ([]any, error) { v, err := u.GetEventIndex(s); return res(err, v) }},
	{"RestoreDefaultParameters", 0xc8, func(u uhppote.IUHPPOTE, s uint32) ([]any, error) {
		v, err := u.RestoreDefaultParameters(s)
		return res(err, v)
	}},
}

func findOp(name string) *apiOp {
	for i := range apiOps {
		if apiOps[i].name == name {
			return &apiOps[i]
		}
	}
	return nil
}

// ---- clients on the three routing paths ----------------------------------------------------------

var paths = []string{"BroadcastTo", "SendUDP", "SendTCP"}

type client struct {
	u       uhppote.IUHPPOTE
	f       *drv.Fake
	answer  [][]byte // what the network answers with to the next request
	path    string
	serials []uint32 // configured controllers
}

// newClient builds a client whose driver is the fake; `serials` are the configured controllers on
// the SendUDP / SendTCP paths (none on the BroadcastTo path).
func newClient(path string, serials ...uint32) *client {
	devices := []uhppote.Device{}
	if path != "BroadcastTo" {
		proto := "udp"
		if path == "SendTCP" {
			proto = "tcp"
		}
		for _, s := range serials {
			devices = append(devices, uhppote.Device{
				Name:     "c04",
				DeviceID: s,
				Address:  types.ControllerAddrFrom(netip.MustParseAddr("192.168.1.100"), 60000),
				Doors:    []string{"D1", "D2", "D3", "D4"},
				TimeZone: time.UTC,
				Protocol: proto,
			})
		}
	}
	c := &client{path: path, serials: serials}
	c.u = uhppote.NewUHPPOTE(types.BindAddr{}, types.BroadcastAddr{}, types.ListenAddr{}, time.Second, devices, false)
	c.f = &drv.Fake{Script: func(drv.Call) ([][]byte, error) { return c.answer, nil }}
	if !drv.Install(c.u, c.f) {
		panic("cannot install the fake driver")
	}
	return c
}

type apiCase struct {
	Op      string   `json:"op"`
	Path    string   `json:"path"`
	Serial  uint32   `json:"serial"`
	Replies []string `json:"replies"` // hex datagrams the network answers with
	Devices []uint32 `json:"configured"`
}

func hexes(bs [][]byte) []string {
	out := make([]string, len(bs))
	for i, b := range bs {
		out[i] = hex.EncodeToString(b)
	}
	return out
}

// exec runs one API call against the scripted answer, renders everything it returned.
func (c *ctx) exec(cl *client, op *apiOp, serial uint32, answer [][]byte) (returned bool) {
	c.count++
	cl.answer = answer
	cl.f.Reset()
	var vs []any
	var err error
	cs := func() any { return apiCase{op.name, cl.path, serial, hexes(answer), cl.serials} }
	if p, msg, frame := vk.Guard(func() { vs, err = op.call(cl.u, serial) }); p {
		c.panicked(frame, fmt.Sprintf("%s panicked on the %s path: %s", op.name, cl.path, msg), "api-reply", cs())
		return false
	}
	if c.verbose {
		for _, v := range vs {
			fmt.Printf("library: value = %+v\n", v) // fmt shows a String() panic as %!v(PANIC=...)
		}
		fmt.Printf("library: error = %v\n", err)
	}
	if err != nil {
		if p, msg, frame := vk.Guard(func() { _ = err.Error() }); p {
			c.panicked(frame, fmt.Sprintf("the error returned by %s panicked in Error(): %s", op.name, msg), "api-reply", cs())
		}
		return false
	}
	for _, v := range vs {
		c.renderAll(v, "returned by "+op.name, "api-reply", cs)
	}
	return true
}

func withSerial(b []byte, serial uint32) []byte {
	out := append([]byte{}, b...)
	if len(out) >= 8 {
		binary.LittleEndian.PutUint32(out[4:8], serial)
	}
	return out
}

// apiBases: 17 <code> 00 00 <serial> then zeros / the valid sample / 0x99 / 0xff.
func apiBases(code byte) [4][]byte {
	var out [4][]byte
	for i, fill := range []int{0x00, -1, 0x99, 0xff} {
		b := make([]byte, 64)
		if fill < 0 {
			copy(b, responseSample(code))
		} else {
			for k := range b {
				b[k] = byte(fill)
			}
		}
		b[0], b[1] = 0x17, code
		copy(b[4:8], serialLE)
		out[i] = b
	}
	return out
}

// sweepAPIPositions: every position x every value over the 4 bases as the reply to each of the 30
// single-controller operations, on the given routing paths. Positions 0..63: a damaged header or
// serial number exercises the rejection paths (BroadcastTo filter, sendto checks).
func sweepAPIPositions(r *vk.Run, pathsFor func(base int) []string) (distinct int64) {
	type task struct {
		op   int
		path string
		base int
	}
	tasks := []task{}
	for i := range apiOps {
		for b := 0; b < 4; b++ {
			for _, p := range pathsFor(b) {
				tasks = append(tasks, task{i, p, b})
				distinct += 64*255 + 1
			}
		}
	}
	vk.Parallel(len(tasks)*8, func(i int) {
		c := &ctx{r: r}
		defer c.flush()
		t := tasks[i/8]
		op := &apiOps[t.op]
		cl := newClient(t.path, sampleSerial)
		b := apiBases(op.code)[t.base]
		ans := [][]byte{b}
		ok := int64(0)
		for pos := (i % 8) * 8; pos < (i%8)*8+8; pos++ {
			orig := b[pos]
			for v := 0; v < 256; v++ {
				b[pos] = byte(v)
				if c.exec(cl, op, sampleSerial, ans) {
					ok++
				}
			}
			b[pos] = orig
		}
		r.Add("api_returned_value/"+t.path, ok)
	})
	return
}

// sweepAPILengths: replies of every length 0..2048 x 4 patterns to every operation on all three paths.
func sweepAPILengths(r *vk.Run) (distinct int64) {
	vk.Parallel(len(apiOps)*len(paths)*4, func(i int) {
		c := &ctx{r: r}
		defer c.flush()
		op := &apiOps[i/(len(paths)*4)]
		path := paths[(i/4)%len(paths)]
		pat := i % 4
		cl := newClient(path, sampleSerial)
		sample := responseSample(op.code)
		for n := 0; n <= 2048; n++ {
			b := make([]byte, n)
			switch pat {
			case 0: // zeros
			case 1:
				for k := range b {
					b[k] = 0xff
				}
			case 2: // valid sample truncated / zero-extended
				copy(b, sample)
			case 3: // valid header + serial, then 0x99
				for k := range b {
					b[k] = 0x99
				}
				copy(b, sample[:8])
			}
			c.exec(cl, op, sampleSerial, [][]byte{b})
		}
	})
	return int64(len(apiOps)*len(paths)) * (4*2049 - 6)
}

// ---- GetDevices (Broadcast) -----------------------------------------------------------------

var getDevicesOp = apiOp{"GetDevices", 0x94, func(u uhppote.IUHPPOTE, _ uint32) ([]any, error) { v, err := u.GetDevices(); return res(err, v) }}

func sweepGetDevices(r *vk.Run) (distinct int64) {
	valid := responseSample(0x94)
	other := withSerial(valid, 303986753)
	short := valid[:63]
	long := append(append([]byte{}, valid...), 0x00)
	// (1) position x value x base, delivered inside a list with a valid, a short and a long datagram
	vk.Parallel(4*64, func(i int) {
		c := &ctx{r: r}
		defer c.flush()
		cl := newClient("BroadcastTo")
		cl.path = "Broadcast"
		b := apiBases(0x94)[i/64]
		pos := i % 64
		for v := 0; v < 256; v++ {
			b[pos] = byte(v)
			c.exec(cl, &getDevicesOp, 0, [][]byte{other, b, short, long})
			c.exec(cl, &getDevicesOp, 0, [][]byte{b})
		}
	})
	distinct += 4 * (64*255 + 1) * 2
	// (2) every length 0..2048 x 3 patterns, alone, before and after a valid reply
	vk.Parallel(3*16, func(i int) {
		c := &ctx{r: r}
		defer c.flush()
		cl := newClient("BroadcastTo")
		cl.path = "Broadcast"
		pat := i / 16
		for n := i % 16; n <= 2048; n += 16 {
			b := make([]byte, n)
			switch pat {
			case 1:
				for k := range b {
					b[k] = 0xff
				}
			case 2:
				copy(b, valid)
			}
			c.exec(cl, &getDevicesOp, 0, [][]byte{b})
			c.exec(cl, &getDevicesOp, 0, [][]byte{b, valid})
			c.exec(cl, &getDevicesOp, 0, [][]byte{valid, b, other})
		}
	})
	distinct += 3 * 2049 * 3
	// (3) list shapes
	c := &ctx{r: r}
	defer c.flush()
	for _, path := range paths { // configured controllers give the devices their names
		cl := newClient(path, sampleSerial, 303986753)
		cl.path = "Broadcast"
		for _, l := range [][][]byte{nil, {}, {nil}, {{}}, {nil, valid, nil}, {valid}, {valid, valid}, {valid, other}, {short}, {long}, {short, long},
			{valid, other, valid, other, valid, other, valid, other}} {
			c.exec(cl, &getDevicesOp, 0, l)
			distinct++
		}
	}
	return
}
