package main

import (
	"encoding"
	"encoding/json"
	"fmt"
	"reflect"
	"strings"
	"sync"

	"verif/vk"
)

// Rendering oracle: "every value the API returns can be rendered with its String method and with
// JSON encoding without panicking". fmt's verbs recover panics raised by String methods (the text
// then contains "%!v(PANIC=String method: ...)"), and most container types of the library format
// their fields through fmt, so a value is rendered by walking it and calling String(),
// MarshalJSON() and MarshalText() DIRECTLY on the value itself and on every nested field, element
// and map entry that implements them, plus one json.Marshal of the whole value (encoding/json
// re-panics anything raised inside a MarshalJSON method).

type rpanic struct {
	Via   string // "String" | "MarshalJSON" | "MarshalText" | "json.Marshal" | "String(swallowed by fmt)"
	Type  string
	Msg   string
	Frame string
}

var (
	tStringer = reflect.TypeOf((*fmt.Stringer)(nil)).Elem()
	tJSON     = reflect.TypeOf((*json.Marshaler)(nil)).Elem()
	tText     = reflect.TypeOf((*encoding.TextMarshaler)(nil)).Elem()
)

type tcaps struct {
	str, jsn, txt    bool // implemented by T
	pstr, pjsn, ptxt bool // implemented by *T only
	lib              bool // type declared inside uhppote-core
}

var capCache sync.Map

func capsOf(t reflect.Type) *tcaps {
	if c, ok := capCache.Load(t); ok {
		return c.(*tcaps)
	}
	c := &tcaps{}
	c.str, c.jsn, c.txt = t.Implements(tStringer), t.Implements(tJSON), t.Implements(tText)
	if t.Kind() != reflect.Ptr && t.Kind() != reflect.Interface {
		p := reflect.PointerTo(t)
		c.pstr = !c.str && p.Implements(tStringer)
		c.pjsn = !c.jsn && p.Implements(tJSON)
		c.ptxt = !c.txt && p.Implements(tText)
	}
	c.lib = strings.Contains(t.PkgPath(), "uhppoted/uhppote-core")
	capCache.Store(t, c)
	return c
}

type renderer struct {
	out       []rpanic
	swallowed []rpanic
}

func (r *renderer) call(via string, t reflect.Type, fn func()) {
	if p, msg, frame := vk.Guard(fn); p {
		r.out = append(r.out, rpanic{via, t.String(), msg, frame})
	}
}

func (r *renderer) methods(v reflect.Value) {
	t := v.Type()
	c := capsOf(t)
	if !(c.str || c.jsn || c.txt || c.pstr || c.pjsn || c.ptxt) || !v.CanInterface() {
		return
	}
	if k := v.Kind(); (k == reflect.Ptr || k == reflect.Interface) && v.IsNil() {
		return // an absent value: calling a value-receiver method on it is the caller's nil dereference
	}
	if c.str || c.jsn || c.txt {
		x := v.Interface()
		if c.str {
			r.call("String", t, func() {
				if s := x.(fmt.Stringer).String(); strings.Contains(s, "(PANIC=") {
					r.swallowed = append(r.swallowed, rpanic{"String(swallowed by fmt)", t.String(), s, t.String() + ".String"})
				}
			})
		}
		if c.jsn {
			r.call("MarshalJSON", t, func() { x.(json.Marshaler).MarshalJSON() })
		}
		if c.txt {
			r.call("MarshalText", t, func() { x.(encoding.TextMarshaler).MarshalText() })
		}
	}
	if (c.pstr || c.pjsn || c.ptxt) && v.CanAddr() {
		x := v.Addr().Interface()
		pt := reflect.PointerTo(t)
		if c.pstr {
			r.call("String", pt, func() {
				if s := x.(fmt.Stringer).String(); strings.Contains(s, "(PANIC=") {
					r.swallowed = append(r.swallowed, rpanic{"String(swallowed by fmt)", pt.String(), s, pt.String() + ".String"})
				}
			})
		}
		if c.pjsn {
			r.call("MarshalJSON", pt, func() { x.(json.Marshaler).MarshalJSON() })
		}
		if c.ptxt {
			r.call("MarshalText", pt, func() { x.(encoding.TextMarshaler).MarshalText() })
		}
	}
}

func addressable(v reflect.Value) reflect.Value {
	if v.CanAddr() {
		return v
	}
	p := reflect.New(v.Type())
	p.Elem().Set(v)
	return p.Elem()
}

func (r *renderer) walk(v reflect.Value, depth int) {
	if !v.IsValid() || depth > 8 {
		return
	}
	r.methods(v)
	switch v.Kind() {
	case reflect.Ptr, reflect.Interface:
		if !v.IsNil() {
			e := v.Elem()
			if v.Kind() == reflect.Interface {
				e = addressable(e)
			}
			// the pointee's own methods were reached through the pointer's method set already
			// when it is a pointer; walk into it for the nested fields
			if v.Kind() == reflect.Ptr {
				r.inside(e, depth+1)
			} else {
				r.walk(e, depth+1)
			}
		}
	default:
		r.inside(v, depth)
	}
}

// inside walks the components of v without calling v's own methods again.
func (r *renderer) inside(v reflect.Value, depth int) {
	switch v.Kind() {
	case reflect.Struct:
		if !capsOf(v.Type()).lib {
			return // std-lib structs (time.Location, netip.Addr, ...) are not under test
		}
		t := v.Type()
		for i := 0; i < v.NumField(); i++ {
			if t.Field(i).IsExported() {
				r.walk(v.Field(i), depth+1)
			}
		}
	case reflect.Slice, reflect.Array:
		if v.Type().Elem().Kind() == reflect.Uint8 {
			return
		}
		for i := 0; i < v.Len(); i++ {
			r.walk(addressable(v.Index(i)), depth+1)
		}
	case reflect.Map:
		it := v.MapRange()
		for it.Next() {
			r.walk(addressable(it.Key()), depth+1)
			r.walk(addressable(it.Value()), depth+1)
		}
	case reflect.Ptr, reflect.Interface:
		r.walk(v, depth)
	}
}

// render renders x every way the property names and returns the panics observed (deduplicated by
// frame). A panic that fmt swallowed inside a String method is reported only when the direct calls
// on the nested values did not already expose it (so that one defect keeps one key).
func render(x any) []rpanic {
	v := reflect.ValueOf(x)
	if !v.IsValid() {
		return nil
	}
	r := &renderer{}
	r.walk(addressable(v), 0)
	if p, msg, frame := vk.Guard(func() { json.Marshal(x) }); p {
		r.out = append(r.out, rpanic{"json.Marshal", v.Type().String(), msg, frame})
	}
	if len(r.out) == 0 && len(r.swallowed) > 0 {
		r.out = r.swallowed
	}
	if len(r.out) < 2 {
		return r.out
	}
	seen := map[string]bool{}
	uniq := r.out[:0]
	for _, p := range r.out {
		if !seen[p.Frame] {
			seen[p.Frame] = true
			uniq = append(uniq, p)
		}
	}
	return uniq
}
