// C04 — nothing the network or the caller supplies can crash the library.
//
// Bounded-exhaustive robustness exploration; oracle: no panic (a recovered panic is a violation keyed
// by the innermost library frame), and every value the library hands back can be rendered by
// calling String() / MarshalJSON() / MarshalText() directly (never through fmt, which swallows
// panics) and with json.Marshal.
//
//	bytes.go   the codec entry points and the request/response dispatchers over lengths, headers,
//	           (position, value) and - thorough - adjacent byte pairs, for all 65 message structs
//	api.go     the same datagram families as replies to the 30 single-controller operations on the
//	           three routing paths and to GetDevices (fake transport driver verif/drv)
//	listen.go  the same as event datagrams delivered to uhppote.Listen (in child processes, because a
//	           panic on the library's own event goroutine is not recoverable)
//	args.go    argument alphabets x operations (nil maps, short IPs, extreme dates, enum values 0..255 ...)
//	render.go  the rendering oracle
package main

import (
	"encoding/hex"
	"encoding/json"
	"fmt"
	"os"
	"runtime/debug"
	"strings"
	"sync"
	"time"

	"github.com/uhppoted/uhppote-core/types"
	"verif/vk"
)

var (
	machMu   sync.Mutex
	machMsgs []string
)

// machinery records a machinery failure (and remembers it so that a worker can pass it to its parent).
func machinery(r *vk.Run, format string, a ...any) {
	machMu.Lock()
	machMsgs = append(machMsgs, fmt.Sprintf(format, a...))
	machMu.Unlock()
	r.Machinery(format, a...)
}

// initSamples builds the sample arguments after vk.Start has pinned time.Local to UTC.
func initSamples() {
	sampleProfile = types.TimeProfile{
		ID: 29, LinkedProfileID: 3,
		From: types.ToDate(2024, 1, 1), To: types.ToDate(2024, 12, 31),
		Weekdays: types.Weekdays{time.Monday: true, time.Tuesday: true, time.Thursday: true, time.Saturday: true, time.Sunday: true},
		Segments: types.Segments{
			1: types.Segment{Start: types.NewHHmm(8, 30), End: types.NewHHmm(11, 45)},
			2: types.Segment{},
			3: types.Segment{Start: types.NewHHmm(13, 30), End: types.NewHHmm(17, 0)},
		},
	}
	sampleCard = types.Card{
		CardNumber: 8165535, From: types.ToDate(2024, 1, 1), To: types.ToDate(2024, 12, 31),
		Doors: map[uint8]uint8{1: 1, 2: 0, 3: 29, 4: 1}, PIN: 7531,
	}
	sampleTask = types.Task{
		Task: types.EnableMoreCards, Door: 3, From: types.ToDate(2024, 1, 1), To: types.ToDate(2024, 12, 31),
		Weekdays: types.Weekdays{time.Monday: true, time.Friday: true}, Start: types.NewHHmm(8, 45), Cards: 7,
	}
}

// selfTest: the hand-written samples must be accepted by the library and every API operation must
// return a value for its sample reply on every routing path - otherwise the "valid sample" bases do
// not reach the result paths and the run proves less than it says (machinery error, not a violation).
func selfTest(r *vk.Run) {
	if len(registry) != 65 {
		machinery(r, "expected 65 message structs, have %d", len(registry))
	}
	for i := range registry {
		m := &registry[i]
		for e := 0; e < 5; e++ {
			if _, err := m.entries[e](m.sample); err != nil {
				machinery(r, "sample for %s rejected by %s: %v", m.name, entryNames[e], err)
			}
		}
	}
	c := &ctx{r: r}
	for _, path := range paths {
		for i := range apiOps {
			op := &apiOps[i]
			if reflectedOps[op.name] {
				continue
			}
			cl := newClient(path, sampleSerial)
			cl.answer = [][]byte{responseSample(op.code)}
			vs, err := op.call(cl.u, sampleSerial)
			if err != nil || len(vs) == 0 {
				machinery(r, "%s on path %s does not accept its sample reply: %v", op.name, path, err)
			}
			if n := cl.f.NumCalls(); n != 1 || cl.f.Calls[0].Method != path {
				machinery(r, "%s on path %s: unexpected driver calls %+v", op.name, path, cl.f.Calls)
			}
		}
	}
	c.flush()
}

func replay(r *vk.Run) {
	kind, raw, err := vk.LoadReplay(r.Replay)
	if err != nil {
		machinery(r, "cannot load replay: %v", err)
		return
	}
	c := &ctx{r: r, verbose: true}
	defer c.flush()
	switch kind {
	case "decode", "dump":
		var d decodeCase
		json.Unmarshal(raw, &d)
		b, _ := hex.DecodeString(d.Hex)
		m := findMsg(d.Msg)
		if m == nil && d.Entry < 5 {
			machinery(r, "unknown message %q", d.Msg)
			return
		}
		before := r.Violations()
		ok := false
		if d.Entry <= 6 {
			ok = c.decode(m, d.Entry, b, true)
		}
		fmt.Printf("%s(%s, %d bytes %s): library: decoded=%v, panicked or unrenderable=%v   reference: a value or an error, no panic, value renderable\n",
			entryName(d.Entry), d.Msg, len(b), d.Hex, ok, r.Violations() > before)
	case "api-reply":
		var a apiCase
		json.Unmarshal(raw, &a)
		answer := [][]byte{}
		for _, h := range a.Replies {
			b, _ := hex.DecodeString(h)
			answer = append(answer, b)
		}
		op := findOp(a.Op)
		path := a.Path
		if a.Op == "GetDevices" {
			op = &getDevicesOp
			path = "BroadcastTo"
		}
		if op == nil {
			machinery(r, "unknown operation %q", a.Op)
			return
		}
		cl := newClient(path, a.Devices...)
		if len(a.Devices) > 0 && a.Op == "GetDevices" {
			cl = newClient("SendUDP", a.Devices...)
		}
		cl.path = a.Path
		before := r.Violations()
		returned := c.exec(cl, op, a.Serial, answer)
		fmt.Printf("%s(serial %d) on path %s answered with %v: library: returned a value=%v, panicked or unrenderable=%v   reference: a value or an error, no panic, value renderable\n",
			a.Op, a.Serial, a.Path, a.Replies, returned, r.Violations() > before)
	case "api-args":
		var a argCase
		json.Unmarshal(raw, &a)
		op := findArgOp(a.Op)
		if op == nil {
			machinery(r, "unknown operation %q", a.Op)
			return
		}
		e := &argEnum{c: c, op: op.name, code: op.code, only: a.N, shards: 1, clients: map[string]*client{}, verbose: true}
		op.enum(e, true)
	case "listen":
		var l listenCase
		json.Unmarshal(raw, &l)
		replayListen(r, l)
	case "config-api":
		var cc configCase
		json.Unmarshal(raw, &cc)
		sweepConfigured(c, cc.Config)
	case "new":
		fmt.Println("constructor case: re-running the constructor sweep")
		sweepArgs(r)
	default:
		machinery(r, "unknown replay kind %q", kind)
	}
}

func main() {
	r := vk.Start("C04", "exploration")
	initSamples()
	// The live heap is a few MB while every decode allocates: with the default GOGC the collector
	// would run thousands of times per second and serialise the 16 workers. Collect by memory limit
	// instead (the process stays below ~0.6 GB).
	debug.SetGCPercent(-1)
	debug.SetMemoryLimit(512 << 20)

	if strings.HasPrefix(r.Worker, "listen") {
		listenWorker(r, os.Getenv("C04_PROGRESS"))
		return
	}
	added := discoverOps() // before a replay too: a recorded case may name a reflected operation
	if r.Replay != "" {
		replay(r)
		r.Finish()
	}
	r.Set("operations_found_by_reflection_beyond_the_table", added)

	selfTest(r)

	// the listener sweep runs in child processes alongside everything else
	nChildren := 1
	if r.Thorough() {
		nChildren = 4
	}
	children := []*listenChild{}
	for k := 0; k < nChildren; k++ {
		if ch := startListenChild(r, fmt.Sprintf("listen:%d/%d", k, nChildren), k); ch != nil {
			children = append(children, ch)
		}
	}

	// the same for a client that has the sending controller configured (bare literal / NewDevice)
	for cfg := 1; cfg <= 2; cfg++ {
		if ch := startListenChild(r, fmt.Sprintf("listen:0/1/%d", cfg), nChildren+cfg); ch != nil {
			children = append(children, ch)
		}
	}

	var distinct int64
	t0 := time.Now()
	lap := func(name string, d int64) {
		distinct += d
		r.Set("distinct/"+name, d)
		r.Set("seconds/"+name, time.Since(t0).Seconds())
		t0 = time.Now()
	}

	lap("codec: lengths 0..2048 x 7 patterns", sweepLengths(r))
	lap("codec: protocol id x function code", sweepHeaders(r))
	lap("codec: position x value x 4 bases", sweepPositions(r, true))
	if r.Thorough() {
		lap("codec: adjacent byte pairs", sweepPairs(r))
	}
	lap("api: reply position x value", sweepAPIPositions(r, func(base int) []string { return paths }))
	lap("api: reply lengths 0..2048", sweepAPILengths(r))
	lap("api: GetDevices reply lists", sweepGetDevices(r))
	lap("api: argument tuples", sweepArgs(r))
	{
		c := &ctx{r: r}
		n := sweepListenStops(c)
		c.flush()
		r.Set("listen_stop_forms_x_debug", n)
	}

	_, evDistinct := eventDatagrams(r.Thorough(), func(int64, []byte) {})
	_, evReduced := eventDatagramsX(r.Thorough(), true, func(int64, []byte) {})
	evDistinct += 2 * evReduced // the reduced sweep under two more client configurations
	var events, errs int64
	for _, ch := range children {
		res, _ := ch.wait(r)
		events += res.Events
		errs += res.Errors
	}
	cleanWorkDir()
	r.Set("listener_events_delivered", events)
	r.Set("listener_datagrams_rejected", errs)
	lap("listener: event datagrams", evDistinct)

	r.Distinct(distinct)
	r.Rule("distinct = distinct (entry point or operation, input) pairs, counted by construction and conservatively (coinciding patterns subtracted): " +
		"per message struct every length 0..2048 x 7 fill patterns, every protocol id {00,17,19,ff} x function code 0..255 x 3 bodies, every position 2..63 x byte value on 4 bases " +
		"(valid header + 00 / valid sample / 99 / ff), thorough: every adjacent byte pair x 65536 values on the valid sample; the same families as replies to the 30 single-controller operations " +
		"(positions 0..63) on the BroadcastTo, SendUDP and SendTCP paths, as GetDevices reply lists and as listener event datagrams (client without configured controllers; the position x value sweep over both well-formed samples and the header sweep again with the sending controller configured as a bare Device literal and through NewDevice); plus the argument tuples of args.go. " +
		"evaluations = library calls executed (each codec input runs through 5 entry points + dispatcher; each argument tuple through 3 paths x {reply, silence}); trivial inputs (rejected on length or header) are included in the families but make up < 10 % of the position/pair sweeps")
	r.Sample(map[string]any{"entry": "codec.Unmarshal", "message": "GetDoorControlStateResponse", "datagram": hex.EncodeToString(responseSample(0x82)), "reference": "value or error, no panic; value renderable"})
	r.Sample(map[string]any{"op": "GetDoorControlState", "path": "BroadcastTo", "reply": "17820000 78372a18 02 04 07 00...", "reference": "returned *DoorControlState renders with String()/json.Marshal without panicking"})
	r.Sample(map[string]any{"op": "SetAddress", "arguments": "serial=1 address=nil mask=3-byte gateway=16-byte v6", "reference": "error or result, no panic"})
	r.Sample(map[string]any{"op": "SetTimeProfile", "arguments": "segments=nil weekdays=extra keys from=year 10000", "reference": "error or result, no panic"})
	r.Sample(map[string]any{"op": "Listen", "datagram": hex.EncodeToString(statusBody(0x19)), "reference": "OnEvent or OnError, no panic, Status renderable"})
	r.Sample(map[string]any{"op": "GetDevices", "replies": []string{"<valid>", "<63 bytes>", "<65 bytes>", "<position 20 = 0xff>"}, "reference": "a list, every Device renderable"})
	r.Assume("the fake transport driver (verif/drv) stands in for the network: the library's own driver code (uhppote/UT0311*.go) is exercised by the E1/E3 checks, not here")
	r.Assume("Go's runtime, reflect, fmt, encoding/json and time are trusted; a panic whose stack holds no uhppote-core frame is treated as a harness failure")
	r.Assume("decode destinations are the registered message structs (a nil or non-struct destination is a programming error outside the property's quantifier); Listener and channel arguments are non-nil")
	r.Finish()
}
