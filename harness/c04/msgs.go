package main

import (
	"encoding/hex"
	"strings"

	codec "github.com/uhppoted/uhppote-core/encoding/UTO311-L0x"
	"github.com/uhppoted/uhppote-core/messages"
)

// The 63 registered message structs + Event + EventV6_62, each with a hand-written valid sample
// datagram (written from the protocol layout, not produced by the library's encoder; they are
// enumeration bases, not oracles; a start-up self-test only confirms that the library accepts them).

const (
	kRequest = iota
	kResponse
	kEvent
)

// serial number 405419896 (0x182a3778), little-endian on the wire
const sampleSerial uint32 = 405419896

var serialLE = []byte{0x78, 0x37, 0x2a, 0x18}

type msgType struct {
	name   string
	code   byte
	kind   int
	sample []byte
	// the five codec entry points, instantiated for the struct type
	entries [5]func(b []byte) (any, error)
}

var entryNames = [5]string{"Unmarshal", "UnmarshalAs(value)", "UnmarshalAs(pointer)", "UnmarshalArray", "UnmarshalArrayElement"}

func reg[T any](name string, code byte, kind int, sample []byte) msgType {
	return msgType{
		name: name, code: code, kind: kind, sample: sample,
		entries: [5]func(b []byte) (any, error){
			func(b []byte) (any, error) { p := new(T); err := codec.Unmarshal(b, p); return p, err },
			func(b []byte) (any, error) { var z T; return codec.UnmarshalAs(b, z) },
			func(b []byte) (any, error) { return codec.UnmarshalAs(b, new(T)) },
			func(b []byte) (any, error) { p := new([]T); err := codec.UnmarshalArray([][]byte{b}, p); return p, err },
			func(b []byte) (any, error) { return codec.UnmarshalArrayElement(b, new([]T)) },
		},
	}
}

// mk builds a 64-byte datagram: 17 <code> 00 00 <serial> then the given (offset, hex) pieces.
func mk(som, code byte, pieces ...any) []byte {
	b := make([]byte, 64)
	b[0], b[1] = som, code
	copy(b[4:], serialLE)
	for i := 0; i+1 < len(pieces); i += 2 {
		off := pieces[i].(int)
		h, err := hex.DecodeString(strings.ReplaceAll(pieces[i+1].(string), " ", ""))
		if err != nil {
			panic("bad sample hex: " + pieces[i+1].(string))
		}
		copy(b[off:], h)
	}
	return b
}

const (
	hxCard     = "9f987c00"       // card 8165535
	hxFrom     = "20240101"       // BCD yyyymmdd
	hxTo       = "20241231"       //
	hxDoors    = "01001d01"       // door permissions
	hxPIN      = "6b1d00"         // PIN 7531
	hxMagic    = "55aaaa55"       //
	hxDateTime = "20241105143759" // BCD yyyymmddHHMMSS
	hxWeekdays = "01010001000101" //
	hxSegments = "083011450000000013301700"
)

func statusBody(som byte) []byte {
	return mk(som, 0x20,
		8, "4e000000", 12, "02", 13, "01", 14, "03", 15, "01", 16, hxCard, 20, "20220823094706", 27, "2c",
		28, "00010000", 32, "00000001", 36, "03", 37, "094939", 40, "2d553919", 48, "27", 49, "07", 50, "09", 51, "220823")
}

var registry = []msgType{
	reg[messages.GetStatusRequest]("GetStatusRequest", 0x20, kRequest, mk(0x17, 0x20)),
	reg[messages.GetStatusResponse]("GetStatusResponse", 0x20, kResponse, statusBody(0x17)),
	reg[messages.SetTimeRequest]("SetTimeRequest", 0x30, kRequest, mk(0x17, 0x30, 8, hxDateTime)),
	reg[messages.SetTimeResponse]("SetTimeResponse", 0x30, kResponse, mk(0x17, 0x30, 8, hxDateTime)),
	reg[messages.GetTimeRequest]("GetTimeRequest", 0x32, kRequest, mk(0x17, 0x32)),
	reg[messages.GetTimeResponse]("GetTimeResponse", 0x32, kResponse, mk(0x17, 0x32, 8, hxDateTime)),
	reg[messages.OpenDoorRequest]("OpenDoorRequest", 0x40, kRequest, mk(0x17, 0x40, 8, "03")),
	reg[messages.OpenDoorResponse]("OpenDoorResponse", 0x40, kResponse, mk(0x17, 0x40, 8, "01")),
	reg[messages.PutCardRequest]("PutCardRequest", 0x50, kRequest, mk(0x17, 0x50, 8, hxCard, 12, hxFrom, 16, hxTo, 20, hxDoors, 24, hxPIN)),
	reg[messages.PutCardResponse]("PutCardResponse", 0x50, kResponse, mk(0x17, 0x50, 8, "01")),
	reg[messages.DeleteCardRequest]("DeleteCardRequest", 0x52, kRequest, mk(0x17, 0x52, 8, hxCard)),
	reg[messages.DeleteCardResponse]("DeleteCardResponse", 0x52, kResponse, mk(0x17, 0x52, 8, "01")),
	reg[messages.DeleteCardsRequest]("DeleteCardsRequest", 0x54, kRequest, mk(0x17, 0x54, 8, hxMagic)),
	reg[messages.DeleteCardsResponse]("DeleteCardsResponse", 0x54, kResponse, mk(0x17, 0x54, 8, "01")),
	reg[messages.GetCardsRequest]("GetCardsRequest", 0x58, kRequest, mk(0x17, 0x58)),
	reg[messages.GetCardsResponse]("GetCardsResponse", 0x58, kResponse, mk(0x17, 0x58, 8, "39300000")),
	reg[messages.GetCardByIDRequest]("GetCardByIDRequest", 0x5a, kRequest, mk(0x17, 0x5a, 8, hxCard)),
	reg[messages.GetCardByIDResponse]("GetCardByIDResponse", 0x5a, kResponse, mk(0x17, 0x5a, 8, hxCard, 12, hxFrom, 16, hxTo, 20, hxDoors, 24, hxPIN)),
	reg[messages.GetCardByIndexRequest]("GetCardByIndexRequest", 0x5c, kRequest, mk(0x17, 0x5c, 8, "11000000")),
	reg[messages.GetCardByIndexResponse]("GetCardByIndexResponse", 0x5c, kResponse, mk(0x17, 0x5c, 8, hxCard, 12, hxFrom, 16, hxTo, 20, hxDoors, 24, hxPIN)),
	reg[messages.SetDoorControlStateRequest]("SetDoorControlStateRequest", 0x80, kRequest, mk(0x17, 0x80, 8, "020307")),
	reg[messages.SetDoorControlStateResponse]("SetDoorControlStateResponse", 0x80, kResponse, mk(0x17, 0x80, 8, "020307")),
	reg[messages.GetDoorControlStateRequest]("GetDoorControlStateRequest", 0x82, kRequest, mk(0x17, 0x82, 8, "02")),
	reg[messages.GetDoorControlStateResponse]("GetDoorControlStateResponse", 0x82, kResponse, mk(0x17, 0x82, 8, "020307")),
	reg[messages.SetTimeProfileRequest]("SetTimeProfileRequest", 0x88, kRequest, mk(0x17, 0x88, 8, "1d", 9, hxFrom, 13, hxTo, 17, hxWeekdays, 24, hxSegments, 36, "03")),
	reg[messages.SetTimeProfileResponse]("SetTimeProfileResponse", 0x88, kResponse, mk(0x17, 0x88, 8, "01")),
	reg[messages.ClearTimeProfilesRequest]("ClearTimeProfilesRequest", 0x8a, kRequest, mk(0x17, 0x8a, 8, hxMagic)),
	reg[messages.ClearTimeProfilesResponse]("ClearTimeProfilesResponse", 0x8a, kResponse, mk(0x17, 0x8a, 8, "01")),
	reg[messages.SetDoorPasscodesRequest]("SetDoorPasscodesRequest", 0x8c, kRequest, mk(0x17, 0x8c, 8, "03", 12, "39300000", 16, "00000000", 20, "3f420f00", 24, "01000000")),
	reg[messages.SetDoorPasscodesResponse]("SetDoorPasscodesResponse", 0x8c, kResponse, mk(0x17, 0x8c, 8, "01")),
	reg[messages.RecordSpecialEventsRequest]("RecordSpecialEventsRequest", 0x8e, kRequest, mk(0x17, 0x8e, 8, "01")),
	reg[messages.RecordSpecialEventsResponse]("RecordSpecialEventsResponse", 0x8e, kResponse, mk(0x17, 0x8e, 8, "01")),
	reg[messages.SetListenerRequest]("SetListenerRequest", 0x90, kRequest, mk(0x17, 0x90, 8, "c0a80164", 12, "61ea", 14, "0f")),
	reg[messages.SetListenerResponse]("SetListenerResponse", 0x90, kResponse, mk(0x17, 0x90, 8, "01")),
	reg[messages.GetListenerRequest]("GetListenerRequest", 0x92, kRequest, mk(0x17, 0x92)),
	reg[messages.GetListenerResponse]("GetListenerResponse", 0x92, kResponse, mk(0x17, 0x92, 8, "c0a80164", 12, "61ea", 14, "0f")),
	reg[messages.GetDeviceRequest]("GetDeviceRequest", 0x94, kRequest, mk(0x17, 0x94)),
	reg[messages.GetDeviceResponse]("GetDeviceResponse", 0x94, kResponse, mk(0x17, 0x94, 8, "c0a80164", 12, "ffffff00", 16, "c0a80101", 20, "001223344556", 26, "0892", 28, "20181105")),
	reg[messages.SetAddressRequest]("SetAddressRequest", 0x96, kRequest, mk(0x17, 0x96, 8, "c0a80164", 12, "ffffff00", 16, "c0a80101", 20, hxMagic)),
	reg[messages.GetTimeProfileRequest]("GetTimeProfileRequest", 0x98, kRequest, mk(0x17, 0x98, 8, "1d")),
	reg[messages.GetTimeProfileResponse]("GetTimeProfileResponse", 0x98, kResponse, mk(0x17, 0x98, 8, "1d", 9, hxFrom, 13, hxTo, 17, hxWeekdays, 24, hxSegments, 36, "03")),
	reg[messages.SetPCControlRequest]("SetPCControlRequest", 0xa0, kRequest, mk(0x17, 0xa0, 8, hxMagic, 12, "01")),
	reg[messages.SetPCControlResponse]("SetPCControlResponse", 0xa0, kResponse, mk(0x17, 0xa0, 8, "01")),
	reg[messages.SetInterlockRequest]("SetInterlockRequest", 0xa2, kRequest, mk(0x17, 0xa2, 8, "03")),
	reg[messages.SetInterlockResponse]("SetInterlockResponse", 0xa2, kResponse, mk(0x17, 0xa2, 8, "01")),
	reg[messages.ActivateAccessKeypadsRequest]("ActivateAccessKeypadsRequest", 0xa4, kRequest, mk(0x17, 0xa4, 8, "01000101")),
	reg[messages.ActivateAccessKeypadsResponse]("ActivateAccessKeypadsResponse", 0xa4, kResponse, mk(0x17, 0xa4, 8, "01")),
	reg[messages.ClearTaskListRequest]("ClearTaskListRequest", 0xa6, kRequest, mk(0x17, 0xa6, 8, hxMagic)),
	reg[messages.ClearTaskListResponse]("ClearTaskListResponse", 0xa6, kResponse, mk(0x17, 0xa6, 8, "01")),
	reg[messages.AddTaskRequest]("AddTaskRequest", 0xa8, kRequest, mk(0x17, 0xa8, 8, hxFrom, 12, hxTo, 16, hxWeekdays, 23, "0845", 25, "03", 26, "08", 27, "07")),
	reg[messages.AddTaskResponse]("AddTaskResponse", 0xa8, kResponse, mk(0x17, 0xa8, 8, "01")),
	reg[messages.SetFirstCardRequest]("SetFirstCardRequest", 0xaa, kRequest, mk(0x17, 0xaa, 8, "03", 9, "0830", 11, "01", 12, "1745", 14, "02", 15, hxWeekdays)),
	reg[messages.SetFirstCardResponse]("SetFirstCardResponse", 0xaa, kResponse, mk(0x17, 0xaa, 8, "01")),
	reg[messages.RefreshTaskListRequest]("RefreshTaskListRequest", 0xac, kRequest, mk(0x17, 0xac, 8, hxMagic)),
	reg[messages.RefreshTaskListResponse]("RefreshTaskListResponse", 0xac, kResponse, mk(0x17, 0xac, 8, "01")),
	reg[messages.GetEventRequest]("GetEventRequest", 0xb0, kRequest, mk(0x17, 0xb0, 8, "4e000000")),
	reg[messages.GetEventResponse]("GetEventResponse", 0xb0, kResponse, mk(0x17, 0xb0, 8, "4e000000", 12, "02", 13, "01", 14, "03", 15, "01", 16, hxCard, 20, "20220823094706", 27, "2c")),
	reg[messages.SetEventIndexRequest]("SetEventIndexRequest", 0xb2, kRequest, mk(0x17, 0xb2, 8, "4e000000", 12, hxMagic)),
	reg[messages.SetEventIndexResponse]("SetEventIndexResponse", 0xb2, kResponse, mk(0x17, 0xb2, 8, "01")),
	reg[messages.GetEventIndexRequest]("GetEventIndexRequest", 0xb4, kRequest, mk(0x17, 0xb4)),
	reg[messages.GetEventIndexResponse]("GetEventIndexResponse", 0xb4, kResponse, mk(0x17, 0xb4, 8, "4e000000")),
	reg[messages.RestoreDefaultParametersRequest]("RestoreDefaultParametersRequest", 0xc8, kRequest, mk(0x17, 0xc8, 8, hxMagic)),
	reg[messages.RestoreDefaultParametersResponse]("RestoreDefaultParametersResponse", 0xc8, kResponse, mk(0x17, 0xc8, 8, "01")),
	reg[messages.Event]("Event", 0x20, kEvent, statusBody(0x17)),
	reg[messages.EventV6_62]("EventV6_62", 0x20, kEvent, statusBody(0x19)),
}

func findMsg(name string) *msgType {
	for i := range registry {
		if registry[i].name == name {
			return &registry[i]
		}
	}
	return nil
}

func responseSample(code byte) []byte {
	for i := range registry {
		if registry[i].kind == kResponse && registry[i].code == code {
			return registry[i].sample
		}
	}
	if len(reflectedOps) > 0 {
		// an operation found by reflection: no hand-written sample - a well-formed header, payload of ones
		b := make([]byte, 64)
		b[0], b[1] = 0x17, code
		copy(b[4:8], serialLE)
		for k := 8; k < 64; k++ {
			b[k] = 1
		}
		return b
	}
	return nil
}
