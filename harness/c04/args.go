package main

import (
	"fmt"
	"math"
	"net"
	"net/netip"
	"strings"
	"time"
	"verif/drv"

	"github.com/uhppoted/uhppote-core/types"
	"github.com/uhppoted/uhppote-core/uhppote"
	"verif/vk"
)

// Argument sweeps: per operation the cross product of the argument alphabets below (split into a
// few sub-products where the full product would be far beyond 10^5; every sub-product contains all
// pairs of the dimensions it names), each tuple called on every routing path with (a) a valid
// canned reply carrying the right serial number, so that the result path runs and the results are
// rendered, and (b) no reply at all. Oracle: no panic.

var serials = []uint32{0, 1, 0xffffffff}

func dateAlphabet() []types.Date {
	return []types.Date{
		{}, // zero value
		types.ToDate(1, time.January, 1),
		types.ToDate(9999, time.December, 31),
		types.ToDate(0, time.January, 1),
		types.ToDate(10000, time.January, 1),
		types.ToDate(-1, time.December, 31),
		types.Date(time.Date(2024, 2, 29, 23, 59, 59, 999999999, time.FixedZone("far-east", 14*3600))),
	}
}

var dateNames = []string{"zero", "0001-01-01", "9999-12-31", "year 0", "year 10000", "year -1", "2024-02-29T23:59:59.999999999+14:00"}

func hhmmAlphabet() []types.HHmm {
	vals := []int{-1, 0, 24, 25, 99, 100}
	out := []types.HHmm{}
	for _, h := range vals {
		for _, m := range vals {
			out = append(out, types.NewHHmm(h, m))
		}
	}
	return out
}

var u32Alphabet = []uint32{0, 1, 999999, 1000000, 0x00ffffff, 0x7fffffff, 0x80000000, 0xfffffffe, 0xffffffff}
var cardAlphabet = []uint32{0, 1, 6154412, 25565535, 25565536, 25600000, 100000000, 0x00ffffff, 0x7fffffff, 0xfffffffe, 0xffffffff}
var pinAlphabet = []types.PIN{0, 1, 999999, 1000000, 0x00ffffff, 0x01000000, 0xffffffff}

func doorsAlphabet() []map[uint8]uint8 {
	return []map[uint8]uint8{
		nil, {}, {1: 1}, {1: 1, 2: 0, 3: 29, 4: 255}, {0: 1, 1: 1, 2: 254, 3: 1, 4: 2, 5: 1, 255: 9},
	}
}

func weekdaysAlphabet() []types.Weekdays {
	return []types.Weekdays{
		nil, {}, {time.Monday: true},
		{time.Monday: true, time.Tuesday: true, time.Wednesday: true, time.Thursday: true, time.Friday: true, time.Saturday: true, time.Sunday: true},
		{time.Monday: false, time.Tuesday: false, time.Wednesday: false, time.Thursday: false, time.Friday: false, time.Saturday: false, time.Sunday: false},
		{time.Monday: true, time.Sunday: true, time.Weekday(7): true, time.Weekday(-1): true, time.Weekday(255): true, time.Weekday(math.MaxInt): true},
	}
}

var mapNames = []string{"nil", "empty", "partial", "full", "full(other)", "extra keys"}

func readersAlphabet() []map[uint8]bool {
	return []map[uint8]bool{
		nil, {}, {1: true}, {1: true, 2: false, 3: true, 4: true}, {0: true, 1: true, 2: true, 3: true, 4: true, 5: true, 255: true},
	}
}

func ipAlphabet() []net.IP {
	return []net.IP{
		nil, {}, {192, 168, 1}, {192, 168, 1, 100}, {192, 168, 1, 100, 7}, net.IPv4(192, 168, 1, 100), net.ParseIP("2001:db8::1"),
	}
}

var ipNames = []string{"nil", "0-byte", "3-byte", "4-byte", "5-byte", "16-byte v4-mapped", "16-byte v6"}

func addrPortAlphabet() []netip.AddrPort {
	return []netip.AddrPort{
		{},
		netip.MustParseAddrPort("192.168.1.100:60001"),
		netip.MustParseAddrPort("192.168.1.100:0"),
		netip.MustParseAddrPort("0.0.0.0:0"),
		netip.MustParseAddrPort("255.255.255.255:65535"),
		netip.MustParseAddrPort("[2001:db8::1]:60001"),
		netip.MustParseAddrPort("[::ffff:192.168.1.100]:60001"),
		netip.MustParseAddrPort("[fe80::1%eth0]:60001"),
	}
}

func timeAlphabet() []time.Time {
	return []time.Time{
		{},
		time.Date(1, 1, 1, 0, 0, 0, 0, time.UTC),
		time.Date(9999, 12, 31, 23, 59, 59, 0, time.UTC),
		time.Date(0, 1, 1, 0, 0, 0, 0, time.UTC),
		time.Date(10000, 1, 1, 0, 0, 0, 0, time.UTC),
		time.Date(-1, 12, 31, 23, 59, 59, 0, time.UTC),
		time.Date(2024, 2, 29, 23, 59, 60, 999999999, time.UTC),
		time.Date(2024, 11, 5, 14, 37, 59, 0, time.FixedZone("far-east", 14*3600)),
		time.Date(2024, 11, 5, 14, 37, 59, 0, time.FixedZone("far-west", -12*3600)),
		time.Date(2024, 11, 5, 14, 37, 59, 0, time.Local),
		time.Unix(math.MaxInt64, 999999999),
		time.Unix(math.MinInt64, 0),
		time.Unix(0, math.MaxInt64),
		time.Unix(0, math.MinInt64),
		time.Unix(1<<40, 0),
		time.Date(math.MaxInt32, 12, 31, 0, 0, 0, 0, time.UTC),
		time.Date(math.MinInt32, 1, 1, 0, 0, 0, 0, time.UTC),
		time.Now(), // carries a monotonic reading; only its presence matters, the value is not judged
	}
}

func intEnum() []int { // enum-typed int arguments: every byte value and the integer extremes
	out := []int{-1}
	for i := 0; i < 256; i++ {
		out = append(out, i)
	}
	return append(out, 256, math.MaxInt32, math.MinInt32, math.MaxInt, math.MinInt)
}

func formatLists() [][]types.CardFormat {
	return [][]types.CardFormat{
		nil, {}, {types.WiegandAny}, {types.Wiegand26}, {types.WiegandAny, types.Wiegand26}, {types.Wiegand26, types.WiegandAny},
		{2}, {255}, {types.Wiegand26, 255}, {255, types.Wiegand26}, {2, 3, 4},
	}
}

func passcodeLists(alphabet []uint32) [][]uint32 {
	out := [][]uint32{nil, {}}
	var rec func(prefix []uint32)
	rec = func(prefix []uint32) {
		if len(prefix) > 0 {
			out = append(out, append([]uint32{}, prefix...))
		}
		if len(prefix) == 6 {
			return
		}
		for _, v := range alphabet {
			rec(append(prefix, v))
		}
	}
	rec(nil)
	return out
}

// ---- enumeration machinery --------------------------------------------------------------------

type argCase struct {
	Op    string `json:"op"`
	N     int64  `json:"case"` // index in the operation's deterministic enumeration
	Path  string `json:"path"`
	Reply bool   `json:"reply"` // canned valid reply (true) or silence (false)
	Desc  string `json:"arguments"`
}

type argEnum struct {
	c       *ctx
	op      string
	code    byte
	n       int64 // running case number
	shard   int64
	shards  int64
	only    int64 // replay: run only this case (-1 = all)
	clients map[string]*client
	verbose bool
}

func (e *argEnum) client(path string) *client {
	if cl, ok := e.clients[path]; ok {
		return cl
	}
	cl := newClient(path, 1, 0xffffffff)
	e.clients[path] = cl
	return cl
}

// run executes one argument tuple on every path with and without a reply.
func (e *argEnum) run(serial uint32, call func(u uhppote.IUHPPOTE) ([]any, error), desc func() string) {
	n := e.n
	e.n++
	if e.only >= 0 {
		if n != e.only {
			return
		}
	} else if n%e.shards != e.shard {
		return
	}
	for _, path := range paths {
		cl := e.client(path)
		for _, reply := range []bool{true, false} {
			cl.answer = nil
			if reply {
				if s := responseSample(e.code); s != nil {
					cl.answer = [][]byte{withSerial(s, serial)}
				}
			}
			cl.f.Reset()
			e.c.count++
			var vs []any
			var err error
			cs := func() any { return argCase{e.op, n, path, reply, desc()} }
			p, msg, frame := vk.Guard(func() { vs, err = call(cl.u) })
			if e.verbose {
				fmt.Printf("%s(%s) path=%s reply=%v: library = %v, %v panic=%v %s   reference = returns without panicking\n", e.op, desc(), path, reply, vs, err, p, msg)
			}
			if p {
				e.c.panicked(frame, fmt.Sprintf("%s(%s) panicked: %s", e.op, desc(), msg), "api-args", cs())
				continue
			}
			if err != nil {
				if p, msg, frame := vk.Guard(func() { _ = err.Error() }); p {
					e.c.panicked(frame, fmt.Sprintf("the error returned by %s panicked in Error(): %s", e.op, msg), "api-args", cs())
				}
				continue
			}
			for _, v := range vs {
				e.c.renderAll(v, "returned by "+e.op, "api-args", cs)
			}
		}
	}
}

type argOp struct {
	name string
	code byte
	enum func(e *argEnum, thorough bool)
}

func serialLoop(e *argEnum, call func(u uhppote.IUHPPOTE, s uint32) ([]any, error)) {
	for _, s := range serials {
		e.run(s, func(u uhppote.IUHPPOTE) ([]any, error) { return call(u, s) }, func() string { return fmt.Sprintf("serial=%d", s) })
	}
}

func simple(name string) argOp {
	op := findOp(name)
	return argOp{name, op.code, func(e *argEnum, _ bool) { serialLoop(e, op.call) }}
}

var argOps = []argOp{
	simple("GetDevice"), simple("GetListener"), simple("GetTime"), simple("GetStatus"), simple("GetCards"), simple("DeleteCards"),
	simple("ClearTimeProfiles"), simple("ClearTaskList"), simple("RefreshTaskList"), simple("GetEventIndex"), simple("RestoreDefaultParameters"),

	{"SetAddress", 0x96, func(e *argEnum, _ bool) {
		ips := ipAlphabet()
		for _, s := range serials {
			for a := range ips {
				for m := range ips {
					for g := range ips {
						e.run(s, func(u uhppote.IUHPPOTE) ([]any, error) {
							v, err := u.SetAddress(s, ips[a], ips[m], ips[g])
							return res(err, v)
						},
							func() string {
								return fmt.Sprintf("serial=%d address=%s mask=%s gateway=%s", s, ipNames[a], ipNames[m], ipNames[g])
							})
					}
				}
			}
		}
	}},
	{"SetListener", 0x90, func(e *argEnum, _ bool) {
		aps := addrPortAlphabet()
		for _, s := range serials {
			for _, ap := range aps {
				for _, interval := range []uint8{0, 1, 15, 255} {
					e.run(s, func(u uhppote.IUHPPOTE) ([]any, error) { v, err := u.SetListener(s, ap, interval); return res(err, v) },
						func() string { return fmt.Sprintf("serial=%d address=%q interval=%d", s, ap.String(), interval) })
				}
			}
		}
	}},
	{"SetTime", 0x30, func(e *argEnum, _ bool) {
		for _, s := range serials {
			for i, t := range timeAlphabet() {
				e.run(s, func(u uhppote.IUHPPOTE) ([]any, error) { v, err := u.SetTime(s, t); return res(err, v) },
					func() string { return fmt.Sprintf("serial=%d time#%d unix=%d", s, i, t.Unix()) })
			}
		}
	}},
	{"GetDoorControlState", 0x82, func(e *argEnum, _ bool) {
		for _, s := range serials {
			for door := 0; door < 256; door++ {
				e.run(s, func(u uhppote.IUHPPOTE) ([]any, error) {
					v, err := u.GetDoorControlState(s, byte(door))
					return res(err, v)
				},
					func() string { return fmt.Sprintf("serial=%d door=%d", s, door) })
			}
		}
	}},
	{"SetDoorControlState", 0x80, func(e *argEnum, _ bool) {
		for _, s := range serials {
			for _, door := range []uint8{0, 1, 4, 5, 255} {
				for _, state := range intEnum() {
					for _, delay := range []uint8{0, 1, 255} {
						e.run(s, func(u uhppote.IUHPPOTE) ([]any, error) {
							v, err := u.SetDoorControlState(s, door, types.ControlState(state), delay)
							return res(err, v)
						}, func() string { return fmt.Sprintf("serial=%d door=%d state=%d delay=%d", s, door, state, delay) })
					}
				}
			}
		}
	}},
	{"GetCardByIndex", 0x5c, func(e *argEnum, _ bool) {
		for _, s := range serials {
			for _, ix := range u32Alphabet {
				e.run(s, func(u uhppote.IUHPPOTE) ([]any, error) { v, err := u.GetCardByIndex(s, ix); return res(err, v) },
					func() string { return fmt.Sprintf("serial=%d index=%d", s, ix) })
			}
		}
	}},
	{"GetCardByID", 0x5a, func(e *argEnum, _ bool) {
		for _, s := range serials {
			for _, card := range append([]uint32{8165535}, cardAlphabet...) {
				e.run(s, func(u uhppote.IUHPPOTE) ([]any, error) { v, err := u.GetCardByID(s, card); return res(err, v) },
					func() string { return fmt.Sprintf("serial=%d card=%d", s, card) })
			}
		}
	}},
	{"DeleteCard", 0x52, func(e *argEnum, _ bool) {
		for _, s := range serials {
			for _, card := range cardAlphabet {
				e.run(s, func(u uhppote.IUHPPOTE) ([]any, error) { v, err := u.DeleteCard(s, card); return res(err, v) },
					func() string { return fmt.Sprintf("serial=%d card=%d", s, card) })
			}
		}
	}},
	{"PutCard", 0x50, func(e *argEnum, _ bool) {
		dates, doors, formats := dateAlphabet(), doorsAlphabet(), formatLists()
		for _, s := range serials {
			for _, card := range cardAlphabet {
				for f := range dates {
					for t := range dates {
						for d := range doors {
							for _, pin := range pinAlphabet {
								for fl := range formats {
									e.run(s, func(u uhppote.IUHPPOTE) ([]any, error) {
										c := types.Card{CardNumber: card, From: dates[f], To: dates[t], Doors: doors[d], PIN: pin}
										v, err := u.PutCard(s, c, formats[fl]...)
										return res(err, v)
									}, func() string {
										return fmt.Sprintf("serial=%d card=%d from=%s to=%s doors=%s PIN=%d formats=%v(nil:%v)", s, card, dateNames[f], dateNames[t], mapNames[d], pin, ints8(formats[fl]), formats[fl] == nil)
									})
								}
							}
						}
					}
				}
			}
		}
	}},
	{"GetTimeProfile", 0x98, func(e *argEnum, _ bool) {
		for _, s := range serials {
			for id := 0; id < 256; id++ {
				e.run(s, func(u uhppote.IUHPPOTE) ([]any, error) { v, err := u.GetTimeProfile(s, uint8(id)); return res(err, v) },
					func() string { return fmt.Sprintf("serial=%d profile=%d", s, id) })
			}
		}
	}},
	{"SetTimeProfile", 0x88, func(e *argEnum, _ bool) {
		dates, wds, hh := dateAlphabet(), weekdaysAlphabet(), hhmmAlphabet()
		seg := types.Segment{Start: types.NewHHmm(8, 30), End: types.NewHHmm(17, 0)}
		segShapes := []types.Segments{
			nil, {}, {1: seg}, {1: seg, 2: {}, 3: seg}, {0: seg, 1: seg, 2: seg, 3: seg, 4: seg, 255: seg},
			{1: seg, 3: seg}, {2: seg, 3: seg},
		}
		segNames := []string{"nil", "empty", "{1}", "{1,2,3}", "{0,1,2,3,4,255}", "{1,3}", "{2,3}"}
		// (a) serial x id x linked x from x to x weekdays x segment map shapes
		for _, s := range serials {
			for _, id := range []uint8{0, 1, 2, 254, 255} {
				for _, linked := range []uint8{0, 3, 255} {
					for f := range dates {
						for t := range dates {
							for w := range wds {
								for sh := range segShapes {
									e.run(s, func(u uhppote.IUHPPOTE) ([]any, error) {
										p := types.TimeProfile{ID: id, LinkedProfileID: linked, From: dates[f], To: dates[t], Weekdays: wds[w], Segments: segShapes[sh]}
										v, err := u.SetTimeProfile(s, p)
										return res(err, v)
									}, func() string {
										return fmt.Sprintf("serial=%d id=%d linked=%d from=%s to=%s weekdays=%s segments=%s", s, id, linked, dateNames[f], dateNames[t], mapNames[w], segNames[sh])
									})
								}
							}
						}
					}
				}
			}
		}
		// (b) every (start, end) pair of the HH:mm alphabet in each of the three segments
		for _, s := range []uint32{1, 0xffffffff} {
			for k := uint8(1); k <= 3; k++ {
				for a := range hh {
					for b := range hh {
						e.run(s, func(u uhppote.IUHPPOTE) ([]any, error) {
							p := types.TimeProfile{ID: 29, From: types.ToDate(2024, 1, 1), To: types.ToDate(2024, 12, 31), Weekdays: wds[3],
								Segments: types.Segments{1: {}, 2: {}, 3: {}}}
							p.Segments[k] = types.Segment{Start: hh[a], End: hh[b]}
							v, err := u.SetTimeProfile(s, p)
							return res(err, v)
						}, func() string {
							return fmt.Sprintf("serial=%d segment %d = %s-%s", s, k, hh[a].String(), hh[b].String())
						})
					}
				}
			}
		}
	}},
	{"AddTask", 0xa8, func(e *argEnum, _ bool) {
		dates, wds, hh := dateAlphabet(), weekdaysAlphabet(), hhmmAlphabet()
		// (a) serial x task type x door x cards
		for _, s := range serials {
			for _, tt := range intEnum() {
				for _, door := range []uint8{0, 1, 4, 255} {
					for _, cards := range []uint8{0, 1, 255} {
						e.run(s, func(u uhppote.IUHPPOTE) ([]any, error) {
							t := sampleTask
							t.Task, t.Door, t.Cards = types.TaskType(tt), door, cards
							v, err := u.AddTask(s, t)
							return res(err, v)
						}, func() string { return fmt.Sprintf("serial=%d task=%d door=%d cards=%d", s, tt, door, cards) })
					}
				}
			}
		}
		// (b) serial x from x to x weekdays x start
		for _, s := range serials {
			for f := range dates {
				for t := range dates {
					for w := range wds {
						for h := range hh {
							e.run(s, func(u uhppote.IUHPPOTE) ([]any, error) {
								task := types.Task{Task: types.DoorNormallyOpen, Door: 4, From: dates[f], To: dates[t], Weekdays: wds[w], Start: hh[h]}
								v, err := u.AddTask(s, task)
								return res(err, v)
							}, func() string {
								return fmt.Sprintf("serial=%d from=%s to=%s weekdays=%s start=%s", s, dateNames[f], dateNames[t], mapNames[w], hh[h].String())
							})
						}
					}
				}
			}
		}
	}},
	{"RecordSpecialEvents", 0x8e, func(e *argEnum, _ bool) {
		for _, s := range serials {
			for _, b := range []bool{false, true} {
				e.run(s, func(u uhppote.IUHPPOTE) ([]any, error) { v, err := u.RecordSpecialEvents(s, b); return res(err, v) },
					func() string { return fmt.Sprintf("serial=%d enable=%v", s, b) })
			}
		}
	}},
	{"SetPCControl", 0xa0, func(e *argEnum, _ bool) {
		for _, s := range serials {
			for _, b := range []bool{false, true} {
				e.run(s, func(u uhppote.IUHPPOTE) ([]any, error) { v, err := u.SetPCControl(s, b); return res(err, v) },
					func() string { return fmt.Sprintf("serial=%d enable=%v", s, b) })
			}
		}
	}},
	{"GetEvent", 0xb0, func(e *argEnum, _ bool) {
		for _, s := range serials {
			for _, ix := range append([]uint32{78}, u32Alphabet...) {
				e.run(s, func(u uhppote.IUHPPOTE) ([]any, error) { v, err := u.GetEvent(s, ix); return res(err, v) },
					func() string { return fmt.Sprintf("serial=%d index=%d", s, ix) })
			}
		}
	}},
	{"SetEventIndex", 0xb2, func(e *argEnum, _ bool) {
		for _, s := range serials {
			for _, ix := range u32Alphabet {
				e.run(s, func(u uhppote.IUHPPOTE) ([]any, error) { v, err := u.SetEventIndex(s, ix); return res(err, v) },
					func() string { return fmt.Sprintf("serial=%d index=%d", s, ix) })
			}
		}
	}},
	{"SetDoorPasscodes", 0x8c, func(e *argEnum, thorough bool) {
		alphabet := []uint32{0, 999999, 0xffffffff}
		if thorough {
			alphabet = []uint32{0, 1, 999999, 1000000, 0xffffffff}
		}
		lists := passcodeLists(alphabet)
		for _, s := range serials {
			for _, door := range []uint8{0, 1, 4, 5, 255} {
				for _, l := range lists {
					e.run(s, func(u uhppote.IUHPPOTE) ([]any, error) {
						v, err := u.SetDoorPasscodes(s, door, l...)
						return res(err, v)
					},
						func() string { return fmt.Sprintf("serial=%d door=%d passcodes=%v(nil:%v)", s, door, l, l == nil) })
				}
			}
		}
	}},
	{"OpenDoor", 0x40, func(e *argEnum, _ bool) {
		for _, s := range serials {
			for door := 0; door < 256; door++ {
				e.run(s, func(u uhppote.IUHPPOTE) ([]any, error) { v, err := u.OpenDoor(s, uint8(door)); return res(err, v) },
					func() string { return fmt.Sprintf("serial=%d door=%d", s, door) })
			}
		}
	}},
	{"SetInterlock", 0xa2, func(e *argEnum, _ bool) {
		for _, s := range serials {
			for il := 0; il < 256; il++ {
				e.run(s, func(u uhppote.IUHPPOTE) ([]any, error) {
					v, err := u.SetInterlock(s, types.Interlock(il))
					return res(err, v)
				},
					func() string { return fmt.Sprintf("serial=%d interlock=%d", s, il) })
			}
		}
	}},
	{"ActivateKeypads", 0xa4, func(e *argEnum, _ bool) {
		readers := readersAlphabet()
		for _, s := range serials {
			for i := range readers {
				e.run(s, func(u uhppote.IUHPPOTE) ([]any, error) {
					v, err := u.ActivateKeypads(s, readers[i])
					return res(err, v)
				},
					func() string { return fmt.Sprintf("serial=%d readers=%s", s, mapNames[i]) })
			}
		}
	}},
	{"GetDevices", 0x94, func(e *argEnum, _ bool) {
		e.run(sampleSerial, func(u uhppote.IUHPPOTE) ([]any, error) { v, err := u.GetDevices(); return res(err, v) }, func() string { return "" })
	}},
	{"DeviceList+ListenAddrList", 0x00, func(e *argEnum, _ bool) {
		e.run(1, func(u uhppote.IUHPPOTE) ([]any, error) { return []any{u.DeviceList(), u.ListenAddrList()}, nil }, func() string { return "" })
	}},
}

func ints8(f []types.CardFormat) []int {
	out := make([]int, len(f))
	for i, v := range f {
		out[i] = int(v)
	}
	return out
}

func findArgOp(name string) *argOp {
	for i := range argOps {
		if argOps[i].name == name {
			return &argOps[i]
		}
	}
	return nil
}

// sweepArgs runs every argument enumeration, sharded over the cores. Returns the number of distinct
// argument tuples.
func sweepArgs(r *vk.Run) (tuples int64) {
	const shards = 16
	counts := make([]int64, len(argOps))
	vk.Parallel(len(argOps)*shards, func(i int) {
		c := &ctx{r: r}
		defer c.flush()
		op := &argOps[i/shards]
		e := &argEnum{c: c, op: op.name, code: op.code, shard: int64(i % shards), shards: shards, only: -1, clients: map[string]*client{}}
		op.enum(e, r.Thorough())
		if i%shards == 0 {
			counts[i/shards] = e.n
		}
	})
	for i, n := range counts {
		tuples += n
		r.Set("arg_tuples/"+argOps[i].name, n)
	}
	// constructor arguments: device lists
	c := &ctx{r: r}
	defer c.flush()
	for i, devices := range deviceLists() {
		c.count++
		if p, msg, frame := vk.Guard(func() {
			u := uhppote.NewUHPPOTE(types.BindAddr{}, types.BroadcastAddr{}, types.ListenAddr{}, 0, devices, false)
			for _, v := range []any{u.DeviceList(), u.ListenAddrList()} {
				c.renderAll(v, "returned by DeviceList/ListenAddrList", "new", func() any { return i })
			}
		}); p {
			c.panicked(frame, "NewUHPPOTE/DeviceList panicked: "+msg, "new", i)
		}
		tuples++
	}
	tuples += sweepConfigured(c, -1)
	return
}

// ---- constructor arguments, continued: every operation through clients whose controller is
// configured with each of a menu of (address, protocol, door names, time zone) - addresses that
// are not usable IPv4 endpoints included (IPv6, IPv4-mapped, zone-qualified, zero, port 0).
type configCase struct {
	Config int    `json:"configuration"`
	Desc   string `json:"device"`
	Op     string `json:"op"`
	Reply  bool   `json:"reply"`
}

func configuredDevices() (out []uhppote.Device, desc []string) {
	addrs := []string{"", "0.0.0.0", "10.0.0.1", "255.255.255.255", "::1", "::", "2001:db8::1", "::ffff:10.0.0.1", "fe80::1%eth0", "ff02::1"}
	santiago, err := time.LoadLocation("America/Santiago")
	if err != nil {
		panic(err)
	}
	for _, a := range addrs {
		for _, port := range []uint16{60000, 0} {
			for _, proto := range []string{"", "udp", "tcp", "any"} {
				for k, doors := range [][]string{nil, {"A", "B"}} {
					address := types.ControllerAddr{}
					if a != "" {
						address = types.ControllerAddrFrom(netip.MustParseAddr(a), port)
					} else if port == 0 {
						continue
					}
					tz := []*time.Location{nil, santiago}[k]
					out = append(out, uhppote.Device{Name: "cfg", DeviceID: 405419896, Address: address, Doors: doors, TimeZone: tz, Protocol: proto})
					desc = append(desc, fmt.Sprintf("Device{Address: %q port %d, Protocol: %q, Doors: %v, TimeZone: %v}", a, port, proto, doors, tz))
					if k == 1 {
						out = append(out, uhppote.NewDevice("cfg", 405419896, address, proto, doors, tz))
						desc = append(desc, fmt.Sprintf("NewDevice(address %q port %d, protocol %q, doors %v, %v)", a, port, proto, doors, tz))
					}
				}
			}
		}
	}
	// free-text controller names (they come back in what GetDevice / GetDevices return): blank, with
	// runs of white space, valid multi-byte UTF-8, bytes that are not UTF-8 (a Latin-1 configuration
	// file), a NUL, a long one
	for _, name := range []string{"", " ", "  two   words\t\n ", "B\u00fcro Ost", "B\xfcro Ost", "Entr\xe9e", "\xff\xfe", "\u65e5\u672c\u8a9e \u30c9\u30a2", "a\x00b", strings.Repeat("n\xe4me ", 60)} {
		for _, a := range []string{"", "10.0.0.1"} {
			for _, proto := range []string{"udp", "tcp"} {
				address := types.ControllerAddr{}
				if a != "" {
					address = types.ControllerAddrFrom(netip.MustParseAddr(a), 60000)
				}
				out = append(out, uhppote.Device{Name: name, DeviceID: 405419896, Address: address, Doors: []string{name, name}, Protocol: proto})
				desc = append(desc, fmt.Sprintf("Device{Name: %q, Address: %q, Protocol: %q, Doors: two of the same name}", name, a, proto))
				out = append(out, uhppote.NewDevice(name, 405419896, address, proto, []string{name}, nil))
				desc = append(desc, fmt.Sprintf("NewDevice(name %q, address %q, protocol %q)", name, a, proto))
			}
		}
	}
	return
}

func sweepConfigured(c *ctx, only int) (n int64) {
	devices, desc := configuredDevices()
	const serial = 405419896
	for i := range devices {
		if only >= 0 && i != only {
			continue
		}
		var cl *client
		if p, msg, frame := vk.Guard(func() {
			cl = &client{path: "configured", serials: []uint32{serial}}
			cl.u = uhppote.NewUHPPOTE(types.BindAddr{}, types.BroadcastAddr{}, types.ListenAddr{}, time.Second, devices[i:i+1], false)
			cl.f = &drv.Fake{Script: func(drv.Call) ([][]byte, error) { return cl.answer, nil }}
			if !drv.Install(cl.u, cl.f) {
				panic("cannot install the fake driver")
			}
		}); p {
			c.panicked(frame, "NewUHPPOTE("+desc[i]+") panicked: "+msg, "config-api", configCase{i, desc[i], "NewUHPPOTE", false})
			continue
		}
		ops := append([]apiOp{getDevicesOp}, apiOps...)
		for k := range ops {
			op := &ops[k]
			for _, reply := range []bool{true, false} {
				cl.answer = nil
				if reply {
					if s := responseSample(op.code); s != nil {
						cl.answer = [][]byte{withSerial(s, serial)}
					}
				}
				cl.f.Reset()
				c.count++
				n++
				var vs []any
				var err error
				cs := func() any { return configCase{i, desc[i], op.name, reply} }
				p, msg, frame := vk.Guard(func() { vs, err = op.call(cl.u, serial) })
				if c.verbose {
					fmt.Printf("%s on a client configured with %s (reply=%v): library = %v, %v panic=%v %s   reference = returns without panicking\n", op.name, desc[i], reply, vs, err, p, msg)
				}
				if p {
					c.panicked(frame, fmt.Sprintf("%s panicked on a client whose controller is configured as %s: %s", op.name, desc[i], msg), "config-api", cs())
					continue
				}
				if err != nil {
					if p, msg, frame := vk.Guard(func() { _ = err.Error() }); p {
						c.panicked(frame, fmt.Sprintf("the error returned by %s panicked in Error(): %s", op.name, msg), "config-api", cs())
					}
					continue
				}
				for _, v := range vs {
					c.renderAll(v, "returned by "+op.name, "config-api", cs)
				}
			}
		}
	}
	return
}

func deviceLists() [][]uhppote.Device {
	d := uhppote.Device{Name: "x", DeviceID: 1, Address: types.ControllerAddrFrom(netip.MustParseAddr("10.0.0.1"), 60000), Protocol: "tcp"}
	return [][]uhppote.Device{
		nil, {}, {{}}, {d}, {d, d}, {{DeviceID: 0}, {DeviceID: 0xffffffff, Doors: nil, TimeZone: nil}},
		{uhppote.NewDevice("", 0, types.ControllerAddr{}, "", nil, nil)},
		{uhppote.NewDevice("y", 2, types.ControllerAddrFrom(netip.MustParseAddr("2001:db8::1"), 0), "any", []string{}, time.UTC)},
	}
}
