package main

import (
	"bytes"
	"encoding/hex"
	"encoding/json"
	"fmt"
	"os"
	"os/exec"
	"path/filepath"
	"sort"
	"strconv"
	"strings"
	"sync/atomic"
	"syscall"
	"time"

	"github.com/uhppoted/uhppote-core/types"
	"github.com/uhppoted/uhppote-core/uhppote"
	"verif/drv"
	"verif/vk"
)

// Event datagrams handed to the listener. uhppote.Listen decodes a datagram in the driver's
// callback and hands the event to a goroutine of its own that builds the types.Status and calls
// Listener.OnEvent. A panic on that goroutine cannot be recovered by anybody: it kills the process.
// The sweep therefore runs in child processes of this harness (`--worker listen:<k>/<n>`); a child
// notes the datagram in flight in a scratch file before handing it over, so that the parent can
// attribute a crash (key = innermost library frame of the crash trace, case = that datagram).
//
// Inside a child one Listen session is run per chunk of datagrams: the fake driver's Listen calls
// the library's callback synchronously for each datagram and waits until the library has either
// reported an error (Listener.OnError, synchronous) or delivered the event (Listener.OnEvent), so
// exactly one datagram is in flight at any time. The session is shut down the way the API
// documents: a value is sent on q, Listen closes the driver's signal channel, the fake closes
// `closed`, Listen returns.

type listenCase struct {
	Hex string `json:"datagram"`
	// Config: how the listening client was built — 0 no controllers configured, 1 the sending
	// controller configured as a bare struct literal (no address, no doors, nil time zone), 2 the
	// sending controller configured through uhppote.NewDevice
	Config int `json:"config,omitempty"`
}

// listenCfg is the client configuration of this (child) process.
var listenCfg int

func listenDevices() []uhppote.Device {
	serial := uint32(serialLE[0]) | uint32(serialLE[1])<<8 | uint32(serialLE[2])<<16 | uint32(serialLE[3])<<24
	switch listenCfg {
	case 1:
		return []uhppote.Device{{DeviceID: serial}}
	case 2:
		return []uhppote.Device{uhppote.NewDevice("c04", serial, types.ControllerAddr{}, "udp", nil, nil)}
	}
	return nil
}

type recorder struct {
	c         *ctx
	cur       []byte
	connected chan struct{}
	evDone    chan struct{}
	errs      atomic.Int64
	events    atomic.Int64
}

func (l *recorder) OnConnected() { close(l.connected) }

func (l *recorder) OnEvent(s *types.Status) {
	l.events.Add(1)
	cur := l.cur
	l.c.renderAll(s, "delivered to Listener.OnEvent", "listen", func() any { return listenCase{hex.EncodeToString(cur), listenCfg} })
	l.evDone <- struct{}{}
}

func (l *recorder) OnError(err error) bool {
	l.errs.Add(1)
	if err != nil {
		cur := l.cur
		if p, msg, frame := vk.Guard(func() { _ = err.Error() }); p {
			l.c.panicked(frame, "the error handed to Listener.OnError panicked in Error(): "+msg, "listen", listenCase{hex.EncodeToString(cur), listenCfg})
		}
	}
	return true
}

// listenSession feeds the datagrams produced by next() (nil = end) through one uhppote.Listen call.
func listenSession(c *ctx, next func() []byte, progress *os.File) (events, errs int64) {
	return listenSessionX(c, next, progress, false, "interrupt")
}

// stopForms: what the caller does with the stop channel (a non-nil channel argument in every case)
var stopForms = map[string]os.Signal{"interrupt": os.Interrupt, "sigterm": syscall.SIGTERM, "sigurg": syscall.SIGURG, "nil-signal": nil}

// listenSessionX: the client built with debug on or off, the listener stopped by sending a signal
// value (any os.Signal, nil included) or by closing the channel.
func listenSessionX(c *ctx, next func() []byte, progress *os.File, debug bool, stop string) (events, errs int64) {
	rec := &recorder{c: c, connected: make(chan struct{}), evDone: make(chan struct{}, 1)}
	u := uhppote.NewUHPPOTE(types.BindAddr{}, types.BroadcastAddr{}, types.ListenAddr{}, time.Second, listenDevices(), debug)
	f := &drv.Fake{}
	stuck := false
	f.ListenFn = func(signal chan any, done chan any, callback func([]byte)) error {
		go func() {
			<-signal
			close(done)
		}()
		hdr := make([]byte, 4)
		for b := next(); b != nil; b = next() {
			c.count++
			rec.cur = b
			if progress != nil {
				hdr[0], hdr[1], hdr[2], hdr[3] = 'D', byte(len(b)>>8), byte(len(b)), '\n'
				progress.WriteAt(append(hdr[:4:4], b...), 0)
			}
			before := rec.errs.Load()
			if p, msg, frame := vk.Guard(func() { callback(b) }); p {
				c.panicked(frame, "the listener's datagram handler panicked: "+msg, "listen", listenCase{hex.EncodeToString(b), listenCfg})
				continue
			}
			if rec.errs.Load() != before {
				continue // rejected, reported through OnError
			}
			select {
			case <-rec.evDone:
			case <-time.After(20 * time.Second):
				machinery(c.r, "listener neither reported an error nor delivered an event within 20 s for datagram %x", b)
				stuck = true
				return nil
			}
		}
		return nil
	}
	if !drv.Install(u, f) {
		machinery(c.r, "cannot install the fake driver")
		return
	}
	q := make(chan os.Signal, 1)
	finished := make(chan error, 1)
	go func() {
		var err error
		if p, msg, frame := vk.Guard(func() { err = u.Listen(rec, q) }); p {
			c.panicked(frame, fmt.Sprintf("Listen panicked (client debug=%v, stop channel: %s): %s", debug, stop, msg), "listen", listenCase{hex.EncodeToString(rec.cur), listenCfg})
		}
		finished <- err
	}()
	select {
	case <-rec.connected:
	case err := <-finished:
		if !stuck {
			machinery(c.r, "Listen returned before OnConnected: %v", err)
		}
		return rec.events.Load(), rec.errs.Load()
	case <-time.After(10 * time.Minute):
		machinery(c.r, "Listen did not reach OnConnected")
		return
	}
	if stop == "close" {
		close(q)
	} else {
		q <- stopForms[stop]
	}
	wait := 30 * time.Second
	if stop != "interrupt" {
		wait = 2 * time.Second // whether this form stops the listener is C10's business: here only "no panic"
	}
	select {
	case err := <-finished:
		if err != nil && stop == "interrupt" {
			machinery(c.r, "Listen returned %v", err)
		}
	case <-time.After(wait):
		if stop == "interrupt" {
			machinery(c.r, "Listen did not return within 30 s of the shutdown request")
		} else if stop != "close" {
			select {
			case q <- os.Interrupt:
			default:
			}
		}
	}
	return rec.events.Load(), rec.errs.Load()
}

// eventDatagrams enumerates the datagrams of the listener sweep in a fixed order; fn returns false to stop.
func eventDatagrams(thorough bool, fn func(i int64, b []byte)) (total, distinct int64) {
	return eventDatagramsX(thorough, false, fn)
}

// reduced: only the position x value sweep over the two well-formed samples and the header sweep
// (used for the client configurations other than the default one).
func eventDatagramsX(thorough, reduced bool, fn func(i int64, b []byte)) (total, distinct int64) {
	var i int64
	emit := func(b []byte) { fn(i, b); i++ }
	samples := [2][]byte{statusBody(0x17), statusBody(0x19)}
	// (1) protocol id x position x value over the 4 bases
	for _, sample := range samples {
		for bi, fill := range []int{0x00, -1, 0x99, 0xff} {
			_ = bi
			if reduced && fill >= 0 {
				continue
			}
			b := make([]byte, 64)
			if fill < 0 {
				copy(b, sample)
			} else {
				for k := range b {
					b[k] = byte(fill)
				}
				copy(b, sample[:2])
				copy(b[4:8], serialLE)
			}
			for pos := 0; pos < 64; pos++ {
				orig := b[pos]
				for v := 0; v < 256; v++ {
					b[pos] = byte(v)
					emit(b)
				}
				b[pos] = orig
			}
			distinct += 64*255 + 1
		}
	}
	// (2) lengths 0..2048 x 5 patterns
	for pat := 0; pat < 5 && !reduced; pat++ {
		for n := 0; n <= 2048; n++ {
			b := make([]byte, n)
			switch pat {
			case 1:
				for k := range b {
					b[k] = 0xff
				}
			case 2:
				copy(b, samples[0])
			case 3:
				copy(b, samples[1])
			case 4:
				for k := range b {
					b[k] = 0x99
				}
				copy(b, samples[0][:8])
			}
			emit(b)
		}
		distinct += 2049
	}
	if !reduced {
		distinct -= 4 // the zero-length datagram recurs
	}
	// (3) protocol id x function code x 2 bodies
	for _, s := range []byte{0x00, 0x17, 0x19, 0xff} {
		for code := 0; code < 256; code++ {
			for body := 0; body < 2; body++ {
				b := make([]byte, 64)
				if body == 1 {
					copy(b, samples[0])
				} else {
					copy(b[4:8], serialLE)
				}
				b[0], b[1] = s, byte(code)
				emit(b)
			}
		}
	}
	distinct += 4 * 256 * 2
	// (3b) pairs of single-byte event fields over all 65536 value pairs: the event type (offset 12)
	// with each of access granted / door / direction / reason (13, 14, 15, 27), and reason with each
	// of those - a table indexed by one of them and sized by another is reached only by such pairs
	if !reduced {
		for _, pr := range [][2]int{{12, 27}, {12, 13}, {12, 14}, {12, 15}, {13, 27}, {14, 27}, {15, 27}} {
			b := append([]byte{}, samples[0]...)
			for x := 0; x < 256; x++ {
				b[pr[0]] = byte(x)
				for y := 0; y < 256; y++ {
					b[pr[1]] = byte(y)
					emit(b)
				}
			}
		}
		distinct += 7 * 65536
	}
	// (4) thorough: every adjacent byte pair over all 65536 values on both samples
	if thorough && !reduced {
		for _, sample := range samples {
			b := append([]byte{}, sample...)
			for p := 0; p < 63; p++ {
				o0, o1 := b[p], b[p+1]
				for x := 0; x < 256; x++ {
					b[p] = byte(x)
					for y := 0; y < 256; y++ {
						b[p+1] = byte(y)
						emit(b)
					}
				}
				b[p], b[p+1] = o0, o1
			}
			distinct += 63*65536 - 62*256
		}
	}
	return i, distinct
}

type workerResult struct {
	Count      int64                `json:"count"`
	Events     int64                `json:"events"`
	Errors     int64                `json:"errors"`
	Violations []vk.WorkerViolation `json:"violations"`
	Machinery  []string             `json:"machinery"`
}

// listenWorker is the body of a child process. spec = "listen:<k>/<n>" (share k of n of the sweep)
// or "listen1:<hex>" (one datagram, for replays).
func listenWorker(r *vk.Run, progressPath string) {
	c := &ctx{r: r}
	var progress *os.File
	if progressPath != "" {
		f, err := os.OpenFile(progressPath, os.O_CREATE|os.O_RDWR, 0o644)
		if err != nil {
			fmt.Fprintf(os.Stderr, "cannot open progress file: %v\n", err)
			os.Exit(2)
		}
		progress = f
	}
	res := workerResult{}
	switch {
	case strings.HasPrefix(r.Worker, "listen1:"):
		rest := strings.TrimPrefix(r.Worker, "listen1:")
		if i := strings.Index(rest, ":"); i >= 0 {
			listenCfg, _ = strconv.Atoi(rest[:i])
			rest = rest[i+1:]
		}
		b, err := hex.DecodeString(rest)
		if err != nil {
			fmt.Fprintf(os.Stderr, "bad datagram: %v\n", err)
			os.Exit(2)
		}
		queue := [][]byte{b}
		res.Events, res.Errors = listenSession(c, func() []byte {
			if len(queue) == 0 {
				return nil
			}
			d := queue[0]
			queue = queue[1:]
			return d
		}, progress)
	default:
		var k, n int64 = 0, 1
		if parts := strings.Split(strings.TrimPrefix(r.Worker, "listen:"), "/"); len(parts) >= 2 {
			k, _ = strconv.ParseInt(parts[0], 10, 64)
			n, _ = strconv.ParseInt(parts[1], 10, 64)
			if len(parts) == 3 {
				listenCfg, _ = strconv.Atoi(parts[2])
			}
		}
		// the enumeration is pushed through a channel-free pull adapter: collect this worker's share
		// chunk by chunk (a chunk = one Listen session of up to 4096 datagrams)
		chunk := make([][]byte, 0, 4096)
		flush := func() {
			if len(chunk) == 0 {
				return
			}
			pos := 0
			ev, er := listenSession(c, func() []byte {
				if pos == len(chunk) {
					return nil
				}
				pos++
				return chunk[pos-1]
			}, progress)
			res.Events += ev
			res.Errors += er
			chunk = chunk[:0]
		}
		eventDatagramsX(r.Thorough(), listenCfg != 0, func(i int64, b []byte) {
			if i%n != k {
				return
			}
			chunk = append(chunk, append([]byte{}, b...))
			if len(chunk) == cap(chunk) {
				flush()
			}
		})
		flush()
	}
	c.flush()
	res.Count = r.Evaluations.Load()
	res.Violations = r.Export()
	machMu.Lock()
	res.Machinery = append([]string{}, machMsgs...)
	machMu.Unlock()
	out, _ := json.Marshal(res)
	os.Stdout.Write(append(out, '\n'))
	os.Exit(0)
}

// ---- parent side -------------------------------------------------------------------------------

type listenChild struct {
	cmd      *exec.Cmd
	stdout   bytes.Buffer
	stderr   bytes.Buffer
	progress string
	spec     string
}

func workDir() string {
	if w := os.Getenv("VERIF_WORK"); w != "" {
		return w
	}
	d := filepath.Join(vk.Root, ".work", fmt.Sprintf("c04.%d", os.Getpid()))
	os.MkdirAll(d, 0o755)
	return d
}

// cleanWorkDir removes the scratch directory when this process had to create one itself
// (./check supplies and removes $VERIF_WORK).
func cleanWorkDir() {
	if os.Getenv("VERIF_WORK") == "" {
		os.RemoveAll(filepath.Join(vk.Root, ".work", fmt.Sprintf("c04.%d", os.Getpid())))
	}
}

func startListenChild(r *vk.Run, spec string, id int) *listenChild {
	ch := &listenChild{spec: spec, progress: filepath.Join(workDir(), fmt.Sprintf("c04-listen-%d-%d.progress", os.Getpid(), id))}
	os.Remove(ch.progress)
	ch.cmd = exec.Command(os.Args[0], "--worker", spec, "--tier", r.Tier)
	ch.cmd.Env = append(os.Environ(), "C04_PROGRESS="+ch.progress, "GOMAXPROCS=2", "GOTRACEBACK=all")
	ch.cmd.Stdout = &ch.stdout
	ch.cmd.Stderr = &ch.stderr
	if err := ch.cmd.Start(); err != nil {
		machinery(r, "cannot start listener worker: %v", err)
		return nil
	}
	return ch
}

// crashFrame extracts the innermost uhppote-core frame of the crashing goroutine from a Go crash trace.
func crashFrame(trace string) (msg, frame string) {
	lines := strings.Split(trace, "\n")
	frame = "unknown"
	running := false
	for _, l := range lines {
		if msg == "" && (strings.HasPrefix(l, "panic: ") || strings.HasPrefix(l, "fatal error: ")) {
			msg = l
		}
		if strings.HasPrefix(l, "goroutine ") {
			if running {
				break // only the first (crashing) goroutine
			}
			running = strings.Contains(l, "[running]")
			continue
		}
		if running && strings.Contains(l, "uhppoted/uhppote-core/") && !strings.HasPrefix(l, "\t") {
			fn := l[strings.Index(l, "uhppote-core/")+len("uhppote-core/"):]
			if i := strings.LastIndex(fn, "("); i > 0 {
				fn = fn[:i]
			}
			if i := strings.Index(fn, "["); i > 0 {
				fn = fn[:i]
			}
			frame = fn
			break
		}
	}
	return
}

func (ch *listenChild) wait(r *vk.Run) (res workerResult, ok bool) {
	err := ch.cmd.Wait()
	defer os.Remove(ch.progress)
	if err == nil {
		if e := json.Unmarshal(bytes.TrimSpace(ch.stdout.Bytes()), &res); e != nil {
			r.Machinery("listener worker %s: unreadable result %q (%v)", ch.spec, ch.stdout.String(), e)
			return res, false
		}
		r.Count(res.Count)
		r.Import(res.Violations)
		for _, m := range res.Machinery {
			r.Machinery("listener worker %s: %s", ch.spec, m)
		}
		return res, true
	}
	trace := ch.stderr.String()
	msg, frame := crashFrame(trace)
	if msg == "" || frame == "unknown" {
		if len(trace) > 2000 {
			trace = trace[:2000]
		}
		r.Machinery("listener worker %s failed: %v\n%s", ch.spec, err, trace)
		return res, false
	}
	// the datagram in flight
	datagram := ""
	if p, e := os.ReadFile(ch.progress); e == nil && len(p) >= 4 && p[0] == 'D' {
		n := int(p[1])<<8 | int(p[2])
		if len(p) >= 4+n {
			datagram = hex.EncodeToString(p[4 : 4+n])
		}
	}
	cfg := 0
	if parts := strings.Split(strings.TrimPrefix(ch.spec, "listen:"), "/"); strings.HasPrefix(ch.spec, "listen:") && len(parts) == 3 {
		cfg, _ = strconv.Atoi(parts[2])
	} else if rest := strings.TrimPrefix(ch.spec, "listen1:"); strings.HasPrefix(ch.spec, "listen1:") && strings.Contains(rest, ":") {
		cfg, _ = strconv.Atoi(rest[:strings.Index(rest, ":")])
	}
	r.Violation("C04/panic/"+frame, fmt.Sprintf("the process crashed while the listener (client configuration %d: 0 = no controllers, 1 = sender configured as a bare Device literal, 2 = sender configured with NewDevice) handled an event datagram (panic on the library's own goroutine, not recoverable by the caller): %s", cfg, msg), "listen", listenCase{datagram, cfg})
	r.NotExhaustive("the listener sweep share " + ch.spec + " was cut short by a process crash")
	return res, false
}

func replayListen(r *vk.Run, lc listenCase) {
	ch := startListenChild(r, fmt.Sprintf("listen1:%d:%s", lc.Config, lc.Hex), 0)
	if ch == nil {
		return
	}
	res, ok := ch.wait(r)
	cleanWorkDir()
	fmt.Printf("listener datagram %s: library = %d events, %d errors, crashed=%v   reference = an event or an error, no panic\n", lc.Hex, res.Events, res.Errors, !ok)
}

// sweepListenStops: a short session (three datagrams) for every combination of debug on / off and
// stop form; the library's trace output is discarded.
func sweepListenStops(c *ctx) (n int64) {
	saved := os.Stdout
	if null, err := os.OpenFile(os.DevNull, os.O_WRONLY, 0); err == nil {
		os.Stdout = null
		defer func() { os.Stdout = saved; null.Close() }()
	}
	forms := []string{"close"}
	for f := range stopForms {
		forms = append(forms, f)
	}
	sort.Strings(forms)
	sample := [][]byte{statusBody(0x17), statusBody(0x19), make([]byte, 64)}
	for _, debug := range []bool{false, true} {
		for _, form := range forms {
			k := 0
			listenSessionX(c, func() []byte {
				if k >= len(sample) {
					return nil
				}
				k++
				return sample[k-1]
			}, nil, debug, form)
			n++
		}
	}
	return
}
