package main

import (
	"encoding/hex"
	"fmt"

	codec "github.com/uhppoted/uhppote-core/encoding/UTO311-L0x"
	"github.com/uhppoted/uhppote-core/messages"
	"verif/vk"
)

// ---- shared bookkeeping ---------------------------------------------------------------------

type ctx struct {
	r       *vk.Run
	count   int64
	verbose bool // replays: print what the library returned
}

func (c *ctx) flush() {
	if c.count > 0 {
		c.r.Count(c.count)
		c.count = 0
	}
}

// panicKey names a panic by its innermost library frame. A panic without any library frame on the
// stack cannot be a library defect: it is a failure of this harness.
func (c *ctx) panicked(frame, what, kind string, cs any) {
	if frame == "unknown" {
		machinery(c.r, "panic outside the library (%s), case %v", what, cs)
		return
	}
	c.r.Violation("C04/panic/"+frame, what, kind, cs)
}

// renderAll renders a value produced by the library and records every panic.
func (c *ctx) renderAll(v any, origin string, kind string, cs func() any) {
	for _, p := range render(v) {
		what := fmt.Sprintf("rendering the %T %s panicked: %s on %s -> %s", v, origin, p.Via, p.Type, p.Msg)
		if p.Via == "String(swallowed by fmt)" {
			if p.Frame == "unknown" {
				continue
			}
			c.r.Violation("C04/panic-swallowed-by-fmt/"+p.Frame, what, kind, cs())
			continue
		}
		c.panicked(p.Frame, what, kind, cs())
	}
}

// ---- codec entry points ------------------------------------------------------------------------

type decodeCase struct {
	Msg   string `json:"message"`
	Entry int    `json:"entry"` // index into entryNames; 5 = UnmarshalRequest, 6 = UnmarshalResponse
	Hex   string `json:"datagram"`
}

func entryName(e int) string {
	switch e {
	case 5:
		return "messages.UnmarshalRequest"
	case 6:
		return "messages.UnmarshalResponse"
	}
	return "codec." + entryNames[e]
}

// decode runs one datagram through one entry point; rend says whether a successfully decoded value
// is rendered as well (done for Unmarshal and the dispatchers: the other entry points produce the
// same values through the same field decoders).
func (c *ctx) decode(m *msgType, e int, b []byte, rend bool) (decoded bool) {
	c.count++
	var v any
	var err error
	p, msg, frame := vk.Guard(func() {
		switch e {
		case 5:
			v, err = messages.UnmarshalRequest(b)
		case 6:
			v, err = messages.UnmarshalResponse(b)
		default:
			v, err = m.entries[e](b)
		}
	})
	name := ""
	if m != nil {
		name = m.name
	}
	if p {
		c.panicked(frame, fmt.Sprintf("%s(%d bytes -> %s) panicked: %s", entryName(e), len(b), name, msg), "decode",
			decodeCase{name, e, hex.EncodeToString(b)})
		return false
	}
	if c.verbose {
		fmt.Printf("library: value = %+v, error = %v\n", v, err)
	}
	if err != nil {
		return false
	}
	if rend {
		c.renderAll(v, "decoded by "+entryName(e), "decode", func() any { return decodeCase{name, e, hex.EncodeToString(b)} })
	}
	return true
}

func (c *ctx) decodeAll(m *msgType, b []byte) (decoded bool) {
	for e := 0; e < 5; e++ {
		if c.decode(m, e, b, e == 0) {
			decoded = true
		}
	}
	return
}

func (c *ctx) dispatcher(m *msgType) int {
	switch m.kind {
	case kRequest:
		return 5
	case kResponse:
		return 6
	}
	return -1
}

func som(m *msgType) byte { return m.sample[0] }

// bases: valid header then zeros / the valid sample / 0x99 / 0xff.
func bases(m *msgType) [4][]byte {
	var out [4][]byte
	for i, fill := range []int{0x00, -1, 0x99, 0xff} {
		b := make([]byte, 64)
		if fill < 0 {
			copy(b, m.sample)
		} else {
			for k := range b {
				b[k] = byte(fill)
			}
			b[0], b[1] = som(m), m.code
		}
		out[i] = b
	}
	return out
}

var baseNames = [4]string{"header+00", "valid sample", "header+99", "header+ff"}

// lengthPatterns: the fill patterns of the length sweep, for one length.
func lengthPattern(m *msgType, pat int, n int) []byte {
	b := make([]byte, n)
	fill := func(v byte, from int) {
		for i := from; i < n; i++ {
			b[i] = v
		}
	}
	switch pat {
	case 0:
	case 1:
		fill(0xff, 0)
	case 2:
		fill(0x99, 0)
	case 3:
		fill(0x17, 0)
	case 4, 5: // valid-looking header then fill
		if pat == 5 {
			fill(0x99, 0)
		}
		if n > 0 {
			b[0] = som(m)
		}
		if n > 1 {
			b[1] = m.code
		}
	case 6: // the valid sample truncated / zero-extended
		copy(b, m.sample)
	}
	return b
}

const nLengthPatterns = 7

// sweepLengths: every length 0..2048 x 7 fill patterns x 65 structs x 5 entry points (+ dispatchers, + Dump).
func sweepLengths(r *vk.Run) (distinct int64) {
	vk.Parallel(len(registry)*nLengthPatterns, func(i int) {
		c := &ctx{r: r}
		defer c.flush()
		m := &registry[i/nLengthPatterns]
		pat := i % nLengthPatterns
		for n := 0; n <= 2048; n++ {
			b := lengthPattern(m, pat, n)
			c.decodeAll(m, b)
			if pat >= 4 || m.name == "GetStatusRequest" || m.name == "GetStatusResponse" {
				if d := c.dispatcher(m); d > 0 {
					c.decode(m, d, b, true)
				}
			}
			if m.name == "GetStatusResponse" {
				c.count++
				if p, msg, frame := vk.Guard(func() { codec.Dump(b, "   ") }); p {
					c.panicked(frame, "codec.Dump panicked: "+msg, "dump", decodeCase{"", 7, hex.EncodeToString(b)})
				}
			}
		}
	})
	// distinct (struct, datagram) pairs: patterns 0..3 coincide at length 0, 4/5 coincide with 0/2 below
	// length 1..2 only partly; count conservatively: per struct 7 patterns x 2049 lengths minus the
	// coincidences at lengths 0, 1, 2 (<= 6+4+2)
	return int64(len(registry)) * (nLengthPatterns*2049 - 12)
}

// sweepHeaders: every (protocol id in {00,17,19,ff}) x (all 256 function codes) at length 64 x 3 bodies.
func sweepHeaders(r *vk.Run) (distinct int64) {
	soms := []byte{0x00, 0x17, 0x19, 0xff}
	vk.Parallel(len(registry)*3, func(i int) {
		c := &ctx{r: r}
		defer c.flush()
		m := &registry[i/3]
		b := make([]byte, 64)
		switch i % 3 {
		case 1:
			for k := range b {
				b[k] = 0x99
			}
		case 2:
			copy(b, m.sample)
		}
		for _, s := range soms {
			for code := 0; code < 256; code++ {
				b[0], b[1] = s, byte(code)
				c.decodeAll(m, b)
				if d := c.dispatcher(m); d > 0 {
					c.decode(m, d, b, true)
				}
			}
		}
	})
	return int64(len(registry)) * 3 * 4 * 256
}

// sweepPositions: for every position 2..63 every byte value over the 4 bases.
// entries: which codec entry points run on which base (quick restricts the non-sample bases to
// Unmarshal + dispatcher; thorough runs all five everywhere).
func sweepPositions(r *vk.Run, allEntriesOnAllBases bool) (distinct int64) {
	const first = 2
	npos := 64 - first
	vk.Parallel(len(registry)*4*npos, func(i int) {
		c := &ctx{r: r}
		defer c.flush()
		m := &registry[i/(4*npos)]
		bi := (i / npos) % 4
		pos := first + i%npos
		b := bases(m)[bi]
		ok := int64(0)
		for v := 0; v < 256; v++ {
			b[pos] = byte(v)
			if allEntriesOnAllBases || bi == 1 {
				if c.decodeAll(m, b) {
					ok++
				}
			} else if c.decode(m, 0, b, true) {
				ok++
			}
			if d := c.dispatcher(m); d > 0 {
				c.decode(m, d, b, true)
			}
		}
		r.Add("decoded_ok/"+baseNames[bi], ok)
	})
	// per (struct, base): the base itself + 255 changed values per position
	return int64(len(registry)) * 4 * (int64(npos)*255 + 1)
}

// sweepPairs (thorough): every adjacent byte pair (p, p+1), p = 0..62, over all 65536 values on the
// valid-sample base, through Unmarshal (+ rendering). (The other entry points and the dispatchers
// differ from Unmarshal only in their wrappers, which the single-byte sweeps cover on every base.)
func sweepPairs(r *vk.Run) (distinct int64) {
	vk.Parallel(len(registry)*63*16, func(i int) {
		c := &ctx{r: r}
		defer c.flush()
		m := &registry[i/(63*16)]
		p := (i / 16) % 63
		hi := i % 16
		b := append([]byte{}, m.sample...)
		for x := hi * 16; x < hi*16+16; x++ {
			b[p] = byte(x)
			for y := 0; y < 256; y++ {
				b[p+1] = byte(y)
				c.decode(m, 0, b, true)
			}
			if c.count > 1<<16 {
				c.flush()
			}
		}
	})
	// per struct: 63 pairs x 65536 values; neighbouring pairs share the 256 datagrams in which only
	// their common byte differs from the sample
	return int64(len(registry)) * (63*65536 - 62*256)
}
