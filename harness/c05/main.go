// C05 — encoding and decoding are mutually inverse for every message type.
//
// Bounded-exhaustive: (A) for each of the 32 request, 31 reply and 2 event struct types, values are
// built by reflection from per-Go-type in-domain alphabets (baseline, every single-field sweep,
// all field pairs over boundary alphabets), marshalled, unmarshalled (Unmarshal, UnmarshalAs and
// the dispatchers) and compared semantically; (B) every byte that belongs to no field (per the
// hand-written layouts in spec) is swept over all 256 values and must not change the decoded
// value; (C) the dispatchers are probed with all 256 function codes x protocol ids x lengths
// 0..128. The date-bearing part of (A) is repeated with every zone of zones.txt (quick: 40 zones)
// as the process time zone, in worker processes.
package main

import (
	"bufio"
	"bytes"
	"encoding/json"
	"fmt"
	"net"
	"net/netip"
	"os"
	"os/exec"
	"reflect"
	"runtime"
	"strings"
	"sync"
	"time"
	_ "time/tzdata"

	codec "github.com/uhppoted/uhppote-core/encoding/UTO311-L0x"
	"github.com/uhppoted/uhppote-core/messages"
	"github.com/uhppoted/uhppote-core/types"
	"verif/ops"
	"verif/spec"
	"verif/vk"
)

var msgTypes = []any{
	messages.ActivateAccessKeypadsRequest{}, messages.ActivateAccessKeypadsResponse{}, messages.AddTaskRequest{}, messages.AddTaskResponse{},
	messages.ClearTaskListRequest{}, messages.ClearTaskListResponse{}, messages.ClearTimeProfilesRequest{}, messages.ClearTimeProfilesResponse{},
	messages.DeleteCardRequest{}, messages.DeleteCardResponse{}, messages.DeleteCardsRequest{}, messages.DeleteCardsResponse{},
	messages.Event{}, messages.EventV6_62{},
	messages.GetCardByIndexRequest{}, messages.GetCardByIDRequest{}, messages.GetCardByIndexResponse{}, messages.GetCardByIDResponse{},
	messages.GetCardsRequest{}, messages.GetCardsResponse{}, messages.GetDeviceRequest{}, messages.GetDeviceResponse{},
	messages.GetDoorControlStateRequest{}, messages.GetDoorControlStateResponse{}, messages.GetEventRequest{}, messages.GetEventResponse{},
	messages.GetEventIndexRequest{}, messages.GetEventIndexResponse{}, messages.GetListenerRequest{}, messages.GetListenerResponse{},
	messages.GetStatusRequest{}, messages.GetStatusResponse{}, messages.GetTimeRequest{}, messages.GetTimeResponse{},
	messages.GetTimeProfileRequest{}, messages.GetTimeProfileResponse{}, messages.OpenDoorRequest{}, messages.OpenDoorResponse{},
	messages.PutCardRequest{}, messages.PutCardResponse{}, messages.RecordSpecialEventsRequest{}, messages.RecordSpecialEventsResponse{},
	messages.RefreshTaskListRequest{}, messages.RefreshTaskListResponse{}, messages.RestoreDefaultParametersRequest{}, messages.RestoreDefaultParametersResponse{},
	messages.SetAddressRequest{}, messages.SetDoorControlStateRequest{}, messages.SetDoorControlStateResponse{},
	messages.SetDoorPasscodesRequest{}, messages.SetDoorPasscodesResponse{}, messages.SetEventIndexRequest{}, messages.SetEventIndexResponse{},
	messages.SetFirstCardRequest{}, messages.SetFirstCardResponse{}, messages.SetInterlockRequest{}, messages.SetInterlockResponse{},
	messages.SetListenerRequest{}, messages.SetListenerResponse{}, messages.SetPCControlRequest{}, messages.SetPCControlResponse{},
	messages.SetTimeRequest{}, messages.SetTimeResponse{}, messages.SetTimeProfileRequest{}, messages.SetTimeProfileResponse{},
}

var (
	tDate     = reflect.TypeOf(types.Date{})
	tDateTime = reflect.TypeOf(types.DateTime{})
	tSysDate  = reflect.TypeOf(types.SystemDate{})
	tSysTime  = reflect.TypeOf(types.SystemTime{})
	tHHmm     = reflect.TypeOf(types.HHmm{})
	tHHmmPtr  = reflect.TypeOf(&types.HHmm{})
	tPIN      = reflect.TypeOf(types.PIN(0))
	tVersion  = reflect.TypeOf(types.Version(0))
	tMAC      = reflect.TypeOf(types.MacAddress{})
	tSerial   = reflect.TypeOf(types.SerialNumber(0))
	tMsgType  = reflect.TypeOf(types.MsgType(0))
	tSOM      = reflect.TypeOf(types.SOM(0))
	tIP       = reflect.TypeOf(net.IP{})
	tAddrPort = reflect.TypeOf(netip.AddrPort{})
)

func dateBearing(t reflect.Type) bool {
	for i := 0; i < t.NumField(); i++ {
		f := t.Field(i)
		if f.Anonymous {
			if dateBearing(f.Type) {
				return true
			}
			continue
		}
		switch f.Type {
		case tDate, tDateTime, tSysDate, tSysTime:
			return true
		}
	}
	return false
}

// civil dates used as alphabet (zone-independent list; instantiated in the process zone)
var civilDates = [][3]int{{0, 0, 0}, {1, 1, 2}, {999, 12, 31}, {1900, 3, 1}, {1999, 12, 31}, {2000, 2, 29}, {2011, 12, 31}, {2023, 10, 15}, {2024, 2, 29}, {2024, 3, 31}, {2024, 9, 8}, {2024, 10, 27}, {2038, 1, 19}, {2100, 2, 28}, {9999, 12, 31}}

func mkDate(c [3]int) types.Date {
	if c == [3]int{} {
		return types.Date{}
	}
	return types.ToDate(c[0], time.Month(c[1]), c[2])
}

// alphabet returns the in-domain values for a field of Go type t; small=true gives the boundary
// subset used for pairs.
func alphabet(t reflect.Type, small bool) []reflect.Value {
	var out []reflect.Value
	add := func(v any) { out = append(out, reflect.ValueOf(v)) }
	switch t {
	case tSerial:
		for _, v := range []uint32{405419896, 1, 0xffffffff, 0x01020304} {
			add(types.SerialNumber(v))
		}
	case tDate:
		for i, c := range civilDates {
			if small && i%3 != 0 {
				continue
			}
			add(mkDate(c))
		}
		// the zero 'no value' date held in a Location (IsZero() is true whatever the Location says)
		for _, loc := range []*time.Location{time.UTC, time.FixedZone("-5", -5*3600), time.FixedZone("+14", 14*3600), time.Local} {
			add(types.Date(time.Time{}.In(loc)))
		}
		// and ordinary dates held in other Locations than the process zone
		add(types.Date(time.Date(2024, 2, 29, 0, 0, 0, 0, time.FixedZone("-11", -11*3600))))
		add(types.Date(time.Date(2024, 12, 31, 23, 0, 0, 0, time.FixedZone("+13", 13*3600))))
		// dates that carry a time of day, around removed local midnights of the Location they are held in
		if !small {
			for _, t := range ops.DatesWithTimeOfDay() {
				add(types.Date(t))
			}
		}
	case tDateTime:
		add(types.DateTime{})
		for _, loc := range []*time.Location{time.UTC, time.FixedZone("-5", -5*3600), time.FixedZone("+14", 14*3600), time.Local} {
			add(types.DateTime(time.Time{}.In(loc)))
		}
		for i, c := range civilDates[1:] {
			if small && i%4 != 0 {
				continue
			}
			for _, hms := range [][3]int{{0, 0, 0}, {2, 30, 0}, {12, 34, 56}, {23, 59, 59}} {
				add(types.DateTime(time.Date(c[0], time.Month(c[1]), c[2], hms[0], hms[1], hms[2], 0, time.Local)))
				if small {
					break
				}
			}
		}
	case tSysDate:
		for _, c := range [][3]int{{2000, 1, 1}, {2024, 2, 29}, {2023, 10, 15}, {2068, 12, 31}, {2024, 9, 8}} {
			add(types.SystemDate(time.Date(c[0], time.Month(c[1]), c[2], 0, 0, 0, 0, time.Local)))
		}
	case tSysTime:
		for _, hms := range [][3]int{{0, 0, 0}, {12, 34, 56}, {23, 59, 59}, {9, 9, 9}} {
			add(types.SystemTime(time.Date(2000, 1, 1, hms[0], hms[1], hms[2], 0, time.UTC)))
		}
	case tHHmm:
		if small {
			for _, hm := range [][2]int{{0, 0}, {0, 1}, {9, 59}, {12, 34}, {23, 59}, {24, 0}} {
				add(types.NewHHmm(hm[0], hm[1]))
			}
		} else {
			for h := 0; h < 24; h++ {
				for m := 0; m < 60; m++ {
					add(types.NewHHmm(h, m))
				}
			}
			add(types.NewHHmm(24, 0))
		}
	case tHHmmPtr:
		out = append(out, reflect.Zero(tHHmmPtr))
		for _, hm := range [][2]int{{0, 0}, {0, 1}, {12, 34}, {23, 59}, {24, 0}} {
			v := types.NewHHmm(hm[0], hm[1])
			add(&v)
		}
	case tPIN:
		for _, p := range []uint32{0, 1, 255, 256, 65535, 65536, 123456, 999999} {
			add(types.PIN(p))
		}
	case tVersion:
		for _, v := range []uint16{0, 0x0892, 0x0662, 0xffff, 0x0100, 0x00ff} {
			add(types.Version(v))
		}
	case tMAC:
		add(types.MacAddress{0, 0x12, 0x23, 0x34, 0x45, 0x56})
		add(types.MacAddress{0xff, 0xff, 0xff, 0xff, 0xff, 0xff})
		add(types.MacAddress{0, 0, 0, 0, 0, 0})
	case tIP:
		add(net.IPv4(192, 168, 1, 100))
		add(net.IPv4(0, 0, 0, 0))
		add(net.IPv4(255, 255, 255, 255))
		add(net.IP{10, 1, 2, 3})
	case tAddrPort:
		add(netip.MustParseAddrPort("192.168.1.100:60001"))
		add(netip.MustParseAddrPort("0.0.0.0:0"))
		add(netip.MustParseAddrPort("255.255.255.255:65535"))
		add(netip.MustParseAddrPort("1.2.3.4:258"))
	default:
		switch t.Kind() {
		case reflect.Bool:
			add(false)
			add(true)
		case reflect.Uint8:
			if small {
				for _, v := range []uint8{0, 1, 0x7f, 0x80, 0xff} {
					out = append(out, reflect.ValueOf(v).Convert(t))
				}
			} else {
				for v := 0; v < 256; v++ {
					out = append(out, reflect.ValueOf(uint8(v)).Convert(t))
				}
			}
		case reflect.Uint16:
			for _, v := range []uint16{0, 1, 0x0102, 0xff00, 0xffff} {
				out = append(out, reflect.ValueOf(v).Convert(t))
			}
		case reflect.Uint32:
			for _, v := range []uint32{0, 1, 0x01020304, 0x04030201, 0x55aaaa55, 0x80000000, 0xffffffff, 999999, 0x00ffffff} {
				out = append(out, reflect.ValueOf(v).Convert(t))
			}
		}
	}
	return out
}

type slot struct {
	index []int
	typ   reflect.Type
	name  string
}

func slots(t reflect.Type, prefix []int, out *[]slot) {
	for i := 0; i < t.NumField(); i++ {
		f := t.Field(i)
		ix := append(append([]int{}, prefix...), i)
		if f.Anonymous && f.Type.Kind() == reflect.Struct {
			slots(f.Type, ix, out)
			continue
		}
		if f.Type == tMsgType || f.Type == tSOM {
			continue
		}
		*out = append(*out, slot{ix, f.Type, f.Name})
	}
}

// semantic equality of two decoded/constructed field values
func same(t reflect.Type, a, b reflect.Value) bool {
	switch t {
	case tDate:
		x, y := time.Time(a.Interface().(types.Date)), time.Time(b.Interface().(types.Date))
		if x.IsZero() || y.IsZero() {
			return x.IsZero() == y.IsZero()
		}
		ay, am, ad := x.Date()
		by, bm, bd := y.Date()
		return ay == by && am == bm && ad == bd
	case tDateTime:
		x, y := time.Time(a.Interface().(types.DateTime)), time.Time(b.Interface().(types.DateTime))
		if x.IsZero() || y.IsZero() {
			return x.IsZero() == y.IsZero()
		}
		return x.Format("2006-01-02 15:04:05") == y.Format("2006-01-02 15:04:05")
	case tSysDate:
		x, y := time.Time(a.Interface().(types.SystemDate)), time.Time(b.Interface().(types.SystemDate))
		return x.Format("060102") == y.Format("060102")
	case tSysTime:
		x, y := time.Time(a.Interface().(types.SystemTime)), time.Time(b.Interface().(types.SystemTime))
		return x.Format("150405") == y.Format("150405")
	case tHHmmPtr:
		// a nil *HHmm encodes as 00 00 and decodes as a pointer to 00:00: both read as 00:00
		get := func(v reflect.Value) types.HHmm {
			if v.IsNil() {
				return types.HHmm{}
			}
			return v.Elem().Interface().(types.HHmm)
		}
		return get(a).Equals(get(b))
	case tIP:
		return a.Interface().(net.IP).Equal(b.Interface().(net.IP))
	case tMAC:
		return bytes.Equal(a.Interface().(types.MacAddress), b.Interface().(types.MacAddress))
	}
	return reflect.DeepEqual(a.Interface(), b.Interface())
}

type caseT struct {
	Type   string `json:"type"`
	Zone   string `json:"zone"`
	Fields string `json:"fields"`
	Bytes  string `json:"bytes,omitempty"`
}

func show(v reflect.Value) string {
	if v.Kind() == reflect.Ptr && v.IsNil() {
		return "nil"
	}
	if s, ok := v.Interface().(fmt.Stringer); ok && v.Type() != tDate && v.Type() != tDateTime {
		return s.String()
	}
	switch v.Type() {
	case tDate:
		return time.Time(v.Interface().(types.Date)).Format("2006-01-02")
	case tDateTime:
		return time.Time(v.Interface().(types.DateTime)).Format("2006-01-02 15:04:05 MST")
	}
	return fmt.Sprint(v.Interface())
}

var sharedInput [64]byte

func roundTrip(r *vk.Run, zone string, proto any, sl []slot, set map[int]reflect.Value) {
	t := reflect.TypeOf(proto)
	v := reflect.New(t).Elem()
	desc := []string{}
	for i, s := range sl {
		if val, ok := set[i]; ok {
			v.FieldByIndex(s.index).Set(val)
			desc = append(desc, s.name+"="+show(val))
		}
	}
	r.Count(1)
	cs := caseT{Type: t.Name(), Zone: zone, Fields: strings.Join(desc, " ")}
	var enc []byte
	var err error
	if p, msg, frame := vk.Guard(func() { enc, err = codec.Marshal(v.Interface()) }); p {
		r.Violation("C05/"+t.Name()+"/marshal-panic/"+frame, msg, "roundtrip", cs)
		return
	}
	if err != nil || len(enc) != 64 {
		r.Violation("C05/marshal-failed", fmt.Sprintf("%s: err=%v len=%d", t.Name(), err, len(enc)), "roundtrip", cs)
		return
	}
	cs.Bytes = vk.Hex(enc)
	// decode from one input buffer that every round trip of this process reuses (a decoder must not
	// keep a reference to its input), and overwrite it afterwards (results must not alias it)
	orig := append([]byte{}, enc...)
	copy(sharedInput[:], enc)
	enc = sharedInput[:64:64]
	decoders := map[string]func() (reflect.Value, error){
		"Unmarshal": func() (reflect.Value, error) {
			p := reflect.New(t)
			err := codec.Unmarshal(enc, p.Interface())
			return p.Elem(), err
		},
		"UnmarshalAs": func() (reflect.Value, error) {
			x, err := codec.UnmarshalAs(enc, v.Interface())
			if err != nil {
				return reflect.Value{}, err
			}
			return reflect.ValueOf(x), nil
		},
	}
	// a receiver that is not fresh: every pointer field of one type points at ONE shared object (a
	// template whose optional fields all refer to the same "unset" value), the rest is zero. What a
	// message decodes to does not depend on what the receiver held, and distinct fields stay distinct.
	hasPtr := false
	for _, s := range sl {
		hasPtr = hasPtr || s.typ.Kind() == reflect.Ptr
	}
	if hasPtr {
		decoders["Unmarshal(receiver with aliased pointer fields)"] = func() (reflect.Value, error) {
			p := reflect.New(t)
			shared := map[reflect.Type]reflect.Value{}
			for _, s := range sl {
				if s.typ.Kind() == reflect.Ptr {
					if _, ok := shared[s.typ]; !ok {
						shared[s.typ] = reflect.New(s.typ.Elem())
					}
					p.Elem().FieldByIndex(s.index).Set(shared[s.typ])
				}
			}
			err := codec.Unmarshal(enc, p.Interface())
			return p.Elem(), err
		}
	}
	for name, dec := range decoders {
		var got reflect.Value
		var derr error
		copy(sharedInput[:], orig)
		if p, msg, frame := vk.Guard(func() { got, derr = dec() }); p {
			r.Violation("C05/"+name+"-panic/"+frame, t.Name()+": "+msg, "roundtrip", cs)
			continue
		}
		if derr != nil {
			r.Violation("C05/"+name+"/rejects-own-encoding", fmt.Sprintf("%s: %v", t.Name(), derr), "roundtrip", cs)
			continue
		}
		if got.Type() != t {
			r.Violation("C05/"+name+"/wrong-type", fmt.Sprintf("%s decoded as %s", t.Name(), got.Type()), "roundtrip", cs)
			continue
		}
		// the caller reuses its buffer: the decoded value must not follow
		for i := range sharedInput {
			sharedInput[i] ^= 0xff
		}
		for _, s := range sl {
			a, b := v.FieldByIndex(s.index), got.FieldByIndex(s.index)
			if !same(s.typ, a, b) {
				kind := s.typ.String()
				extra := ""
				if (s.typ == tDateTime || s.typ == tDate) && a.Interface().(interface{ IsZero() bool }).IsZero() {
					extra = "/zero-value"
				}
				r.Violation("C05/roundtrip/"+kind+extra, fmt.Sprintf("%s.%s: encoded %s, decoded %s (zone %s, via %s)", t.Name(), s.name, show(a), show(b), zone, name), "roundtrip", cs)
			}
		}
	}
}

// partA runs the struct-value round trips; zoned=true restricts to date-bearing types.
func partA(r *vk.Run, zone string, zoned bool) int64 {
	var n int64
	for _, proto := range msgTypes {
		t := reflect.TypeOf(proto)
		if zoned && !dateBearing(t) {
			continue
		}
		var sl []slot
		slots(t, nil, &sl)
		base := map[int]reflect.Value{}
		for i, s := range sl {
			a := alphabet(s.typ, true)
			if len(a) == 0 {
				r.Machinery("no alphabet for field %s.%s of type %s", t.Name(), s.name, s.typ)
				return n
			}
			base[i] = a[(i+1)%len(a)]
		}
		roundTrip(r, zone, proto, sl, base)
		n++
		// (the all-zero Go value is not in the domain: a zero netip.AddrPort or a nil net.IP is no IPv4
		// address; the zero 'no value' date and date-time are members of their alphabets instead)
		first := map[int]reflect.Value{}
		for i, s := range sl {
			first[i] = alphabet(s.typ, false)[0]
		}
		roundTrip(r, zone, proto, sl, first)
		n++
		for i, s := range sl {
			if zoned && s.typ != tDate && s.typ != tDateTime && s.typ != tSysDate && s.typ != tSysTime {
				continue
			}
			for _, val := range alphabet(s.typ, false) {
				m := map[int]reflect.Value{}
				for k, v := range base {
					m[k] = v
				}
				m[i] = val
				roundTrip(r, zone, proto, sl, m)
				n++
			}
		}
		if zoned {
			continue
		}
		// value histories: every ordered pair of alphabet values of one field as two consecutive
		// round trips of the same message type
		for i, s := range sl {
			a := alphabet(s.typ, true)
			for _, v1 := range a {
				for _, v2 := range a {
					for _, val := range []reflect.Value{v1, v2} {
						m := map[int]reflect.Value{}
						for k, v := range base {
							m[k] = v
						}
						m[i] = val
						roundTrip(r, zone, proto, sl, m)
						n++
					}
				}
			}
		}
		for i := range sl {
			for j := i + 1; j < len(sl); j++ {
				for _, vi := range alphabet(sl[i].typ, true) {
					for _, vj := range alphabet(sl[j].typ, true) {
						m := map[int]reflect.Value{}
						for k, v := range base {
							m[k] = v
						}
						m[i], m[j] = vi, vj
						roundTrip(r, zone, proto, sl, m)
						n++
					}
				}
			}
		}
	}
	return n
}

// partB: bytes that belong to no field do not influence the decoded value.
func partB(r *vk.Run) int64 {
	var n int64
	for kind, layouts := range map[string]map[byte][]spec.Field{"request": spec.RequestLayouts(), "reply": spec.ReplyLayouts()} {
		for code, fields := range layouts {
			base := spec.EncodeMessage(0x17, code, 405419896, fields, canonical(fields))
			decode := func(b []byte) (any, error) {
				if kind == "request" {
					return messages.UnmarshalRequest(b)
				}
				return messages.UnmarshalResponse(b)
			}
			ref, err := decode(base)
			if err != nil {
				r.Violation("C05/dispatcher/rejects-canonical-"+kind, fmt.Sprintf("code %02x: %v", code, err), "bytes", map[string]any{"bytes": vk.Hex(base)})
				continue
			}
			cov := spec.Covered(fields)
			for off := 2; off < 64; off++ {
				if cov[off] {
					continue
				}
				for v := 1; v < 256; v++ {
					b := append([]byte{}, base...)
					b[off] = byte(v)
					got, err := decode(b)
					n++
					if err != nil || !reflect.DeepEqual(got, ref) {
						r.Violation("C05/unused-byte-changes-"+kind, fmt.Sprintf("code %02x: byte %d (outside every field) = %02x changes the decoded value (err=%v)", code, off, v, err), "bytes", map[string]any{"bytes": vk.Hex(b)})
						break
					}
				}
			}
		}
	}
	return n
}

func canonical(fields []spec.Field) spec.Args {
	a := spec.Args{}
	for i, f := range fields {
		switch f.Enc {
		case spec.U8:
			a[f.Name] = uint8(0x11 + i)
		case spec.U32:
			a[f.Name] = uint32(0x01020304 + i)
		case spec.Bool:
			a[f.Name] = i%2 == 0
		case spec.IPv4:
			a[f.Name] = [4]byte{10, 1, 2, byte(i)}
		case spec.AddrPort:
			a[f.Name] = spec.AP{IP: [4]byte{10, 9, 8, 7}, Port: 0x1234}
		case spec.MAC:
			a[f.Name] = [6]byte{1, 2, 3, 4, 5, 6}
		case spec.Date:
			a[f.Name] = spec.Civil{Y: 2024, M: 2, D: 29}
		case spec.DateTime:
			a[f.Name] = spec.CivilDT{Y: 2023, M: 5, D: 17, H: 14, Mi: 35, S: 52}
		case spec.SysDate:
			a[f.Name] = spec.Civil{Y: 24, M: 8, D: 9}
		case spec.SysTime:
			a[f.Name] = spec.HMS{H: 13, M: 47, S: 29}
		case spec.HHmm:
			a[f.Name] = spec.HM{H: 8, M: 30}
		case spec.PIN:
			a[f.Name] = uint32(7531)
		case spec.Version:
			a[f.Name] = uint16(0x0892)
		}
	}
	return a
}

// partC: dispatchers over all function codes x protocol ids x lengths.
func partC(r *vk.Run) int64 {
	var n int64
	reqs, reps := spec.RequestLayouts(), spec.ReplyLayouts()
	for code := 0; code < 256; code++ {
		for _, som := range []byte{0x17, 0x19, 0x00, 0x18} {
			for length := 0; length <= 128; length++ {
				if length != 64 && code%16 != 0 && length%21 != 0 {
					continue // lengths other than 64: every length for 16 codes, a stride for the rest
				}
				b := make([]byte, length)
				if length > 0 {
					b[0] = som
				}
				if length > 1 {
					b[1] = byte(code)
				}
				if length >= 8 {
					copy(b[4:], []byte{0x78, 0x37, 0x2a, 0x18})
				}
				for kind, tab := range map[string]map[byte][]spec.Field{"request": reqs, "reply": reps} {
					_, registered := tab[byte(code)]
					want := length == 64 && som == 0x17 && registered
					var got any
					var err error
					if p, msg, frame := vk.Guard(func() {
						if kind == "request" {
							got, err = messages.UnmarshalRequest(b)
						} else {
							got, err = messages.UnmarshalResponse(b)
						}
					}); p {
						r.Violation("C05/dispatcher/panic/"+frame, msg, "bytes", map[string]any{"bytes": vk.Hex(b)})
						continue
					}
					n++
					c := map[string]any{"bytes": vk.Hex(b), "kind": kind}
					switch {
					case want && err != nil:
						r.Violation("C05/dispatcher/rejects-registered-"+kind, fmt.Sprintf("code %02x: %v", code, err), "bytes", c)
					case !want && err == nil:
						why := "unknown-code"
						if length != 64 {
							why = "wrong-length"
						} else if som != 0x17 {
							why = "wrong-protocol-id"
						}
						r.Violation("C05/dispatcher/accepts-"+why+"-"+kind, fmt.Sprintf("len %d protocol id %02x code %02x accepted as %T", length, som, code, got), "bytes", c)
					case want:
						// the type returned must be the one registered for the code in the header: its own
						// encoding carries that code (the all-zero payload is not canonical, so only the
						// header is compared here; payload round trips are part A)
						re, merr := codec.Marshal(got)
						if merr != nil || len(re) != 64 || re[0] != 0x17 || re[1] != byte(code) {
							r.Violation("C05/dispatcher/wrong-type-for-code-"+kind, fmt.Sprintf("code %02x dispatched to %T, which re-encodes as %x (err=%v)", code, got, re, merr), "bytes", c)
						}
					}
				}
			}
		}
	}
	return n
}

// partE: batches. codec.UnmarshalArray decodes a batch of datagrams into a slice: element k is what
// Unmarshal makes of datagram k on its own - whatever the other datagrams of the batch are. For
// every message type: batches of two and three datagrams drawn from {two different valid encodings,
// the first with every byte after the 8-byte header set to 0xff, 0x00, 0x99} in every order; each
// element is compared with the single decode of its datagram (value, nil-ness of pointer fields,
// and no pointer shared between two elements).
func partE(r *vk.Run) int64 {
	var n int64
	for _, proto := range msgTypes {
		t := reflect.TypeOf(proto)
		var sl []slot
		slots(t, nil, &sl)
		mk := func(pick int) []byte {
			v := reflect.New(t).Elem()
			for i, s := range sl {
				a := alphabet(s.typ, true)
				if len(a) == 0 {
					return nil
				}
				v.FieldByIndex(s.index).Set(a[(i+pick)%len(a)])
			}
			b, err := codec.Marshal(v.Interface())
			if err != nil || len(b) != 64 {
				return nil
			}
			return b
		}
		a, b := mk(1), mk(2)
		if a == nil || b == nil {
			continue
		}
		pool := [][]byte{a, b}
		for _, fill := range []byte{0xff, 0x00, 0x99} {
			c := append([]byte{}, a...)
			for k := 8; k < 64; k++ {
				c[k] = fill
			}
			pool = append(pool, c)
		}
		// ... and the first encoding with only the bytes of its pointer-typed (optional) fields set to 0xff
		// and to 0x00: those fields alone become 'no value'
		for _, fill := range []byte{0xff, 0x00} {
			c := append([]byte{}, a...)
			touched := false
			for _, sf := range sl {
				if sf.typ.Kind() != reflect.Ptr {
					continue
				}
				var off int
				tag := t.FieldByIndex(sf.index).Tag.Get("uhppote")
				if _, err := fmt.Sscanf(tag[strings.Index(tag, "offset:")+7:], "%d", &off); err != nil || !strings.Contains(tag, "offset:") {
					continue
				}
				w := map[reflect.Type]int{reflect.TypeOf(&types.HHmm{}): 2, reflect.TypeOf(&types.Date{}): 4, reflect.TypeOf(&types.DateTime{}): 7}[sf.typ]
				for k := off; k < off+w && k < 64; k++ {
					c[k] = fill
					touched = true
				}
			}
			if touched {
				pool = append(pool, c)
			}
		}
		single := func(d []byte) (reflect.Value, error) {
			p := reflect.New(t)
			err := codec.Unmarshal(append([]byte{}, d...), p.Interface())
			return p.Elem(), err
		}
		var batches [][]int
		for i := range pool {
			for j := range pool {
				batches = append(batches, []int{i, j})
				if i < 2 || j < 2 {
					for k := range pool {
						batches = append(batches, []int{i, j, k})
					}
				}
			}
		}
		for _, ix := range batches {
			n++
			batch := [][]byte{}
			allOK := true
			want := []reflect.Value{}
			for _, i := range ix {
				batch = append(batch, append([]byte{}, pool[i]...))
				w, err := single(pool[i])
				allOK = allOK && err == nil
				want = append(want, w)
			}
			arr := reflect.New(reflect.SliceOf(t))
			var err error
			cs := map[string]any{"type": t.Name(), "batch": func() []string {
				out := []string{}
				for _, d := range batch {
					out = append(out, vk.Hex(d))
				}
				return out
			}()}
			if p, msg, frame := vk.Guard(func() { err = codec.UnmarshalArray(batch, arr.Interface()) }); p {
				r.Violation("C05/UnmarshalArray-panic/"+frame, t.Name()+": "+msg, "batch", cs)
				continue
			}
			if !allOK {
				continue // a datagram of the batch does not decode on its own: what the batch call does then is not judged
			}
			if err != nil || arr.Elem().Len() != len(batch) {
				r.Violation("C05/UnmarshalArray/rejects-decodable-batch", fmt.Sprintf("%s: every datagram decodes on its own; the batch gives err=%v, %d elements", t.Name(), err, arr.Elem().Len()), "batch", cs)
				continue
			}
			ptrs := map[uintptr]int{}
			for k := range batch {
				got := arr.Elem().Index(k)
				for _, s := range sl {
					g, w := got.FieldByIndex(s.index), want[k].FieldByIndex(s.index)
					if s.typ.Kind() == reflect.Ptr {
						if g.IsNil() != w.IsNil() {
							r.Violation("C05/UnmarshalArray/element-differs-from-single-decode/"+s.typ.String(), fmt.Sprintf("%s.%s of element %d: nil=%v in the batch, nil=%v decoded on its own", t.Name(), s.name, k, g.IsNil(), w.IsNil()), "batch", cs)
							continue
						}
						if !g.IsNil() {
							if prev, ok := ptrs[g.Pointer()]; ok && prev != k {
								r.Violation("C05/UnmarshalArray/elements-share-storage", fmt.Sprintf("%s.%s: elements %d and %d hold the same pointer", t.Name(), s.name, prev, k), "batch", cs)
							}
							ptrs[g.Pointer()] = k
						}
					}
					if !same(s.typ, w, g) {
						r.Violation("C05/UnmarshalArray/element-differs-from-single-decode/"+s.typ.String(), fmt.Sprintf("%s.%s of element %d: %s in the batch, %s decoded on its own", t.Name(), s.name, k, show(g), show(w)), "batch", cs)
					}
				}
			}
		}
	}
	return n
}

// partD: every message type the dispatchers hand out - whatever codes they know, found by asking
// them, not taken from the reference table - decodes only datagrams that carry its own function
// code and the protocol id: the type returned for code c, decoded directly through the codec from a
// 64-byte datagram with any other code (or another protocol id), must fail.
func partD(r *vk.Run) int64 {
	var n int64
	for kind, dispatch := range map[string]func([]byte) (any, error){
		"request": func(b []byte) (any, error) { return messages.UnmarshalRequest(b) },
		"reply":   func(b []byte) (any, error) { return messages.UnmarshalResponse(b) },
	} {
		for code := 0; code < 256; code++ {
			b := make([]byte, 64)
			b[0], b[1] = 0x17, byte(code)
			copy(b[4:], []byte{0x78, 0x37, 0x2a, 0x18})
			var got any
			var err error
			if p, _, _ := vk.Guard(func() { got, err = dispatch(b) }); p || err != nil || got == nil {
				continue // unknown to the dispatcher (judged in part C)
			}
			t := reflect.TypeOf(got)
			for t.Kind() == reflect.Ptr {
				t = t.Elem()
			}
			if t.Kind() != reflect.Struct {
				continue
			}
			for other := 0; other < 256; other++ {
				for _, som := range []byte{0x17, 0x19, 0x00} {
					if other == code && (som == 0x17 || (som == 0x19 && code == 0x20)) {
						continue
					}
					d := append([]byte{}, b...)
					d[0], d[1] = som, byte(other)
					v := reflect.New(t)
					var uerr error
					n++
					if p, msg, frame := vk.Guard(func() { uerr = codec.Unmarshal(d, v.Interface()) }); p {
						r.Violation("C05/dispatcher/panic/"+frame, msg, "bytes", map[string]any{"bytes": vk.Hex(d), "type": t.String()})
						continue
					}
					if uerr == nil {
						why := "another-function-code"
						if other == code {
							why = "wrong-protocol-id"
						}
						r.Violation("C05/message-type/decodes-"+why+"-"+kind, fmt.Sprintf("%s (the %s type for function code %02x) decodes a datagram with protocol id %02x and function code %02x", t, kind, code, som, other), "bytes", map[string]any{"bytes": vk.Hex(d), "type": t.String()})
					}
				}
			}
		}
	}
	return n
}

func quickZones(all []string) []string {
	pick := map[string]bool{}
	for _, z := range []string{"UTC", "Etc/GMT-14", "Etc/GMT+12", "Europe/London", "Europe/Berlin", "America/New_York", "America/Los_Angeles", "America/Santiago", "America/Havana", "America/Sao_Paulo",
		"America/Asuncion", "Atlantic/Azores", "Asia/Beirut", "Asia/Tehran", "Asia/Amman", "Asia/Damascus", "Africa/Cairo", "Pacific/Apia", "Pacific/Kiritimati", "America/Nuuk",
		"America/Scoresbysund", "Asia/Gaza", "America/Campo_Grande", "Asia/Kathmandu", "Asia/Kolkata", "Australia/Sydney", "Australia/Lord_Howe", "Pacific/Chatham", "Pacific/Auckland", "Africa/Johannesburg",
		"Asia/Tokyo", "Asia/Shanghai", "America/St_Johns", "America/Caracas", "Europe/Moscow", "Asia/Kabul", "Pacific/Marquesas", "Australia/Eucla", "Africa/Casablanca", "Europe/Lisbon"} {
		pick[z] = true
	}
	out := []string{}
	for _, z := range all {
		if pick[z] {
			out = append(out, z)
		}
	}
	return out
}

type workerOut struct {
	N          int64
	Violations []vk.WorkerViolation
}

func main() {
	r := vk.Start("C05", "exploration")
	if strings.HasPrefix(r.Worker, "zones:") {
		var n int64
		for _, z := range strings.Split(strings.TrimPrefix(r.Worker, "zones:"), ",") {
			loc, err := time.LoadLocation(z)
			if err != nil {
				continue
			}
			time.Local = loc
			n += partA(r, z, true)
		}
		b, _ := json.Marshal(workerOut{N: n, Violations: r.Export()})
		os.Stdout.Write(b)
		os.Exit(0)
	}
	if r.Replay != "" {
		_, raw, _ := vk.LoadReplay(r.Replay)
		fmt.Printf("replay case: %s\n(re-run by executing the enumeration family of that type/zone)\n", raw)
	}

	var distinct int64
	distinct += partA(r, "UTC", false)
	nb := partB(r)
	nc := partC(r)
	nd := partD(r)
	ne := partE(r)
	r.Count(nb + nc + nd + ne)
	distinct += nb + nc + nd + ne
	r.Add("batch_decode_cases", ne)
	r.Add("message_type_header_cases", nd)
	r.Add("unused_byte_cases", nb)
	r.Add("dispatcher_cases", nc)

	// zones
	var zones []string
	if f, err := os.Open(vk.Root + "/zones.txt"); err == nil {
		sc := bufio.NewScanner(f)
		for sc.Scan() {
			zones = append(zones, sc.Text())
		}
		f.Close()
	}
	if r.Quick() {
		zones = quickZones(zones)
	}
	nw := runtime.NumCPU()
	groups := make([][]string, nw)
	for i, z := range zones {
		groups[i%nw] = append(groups[i%nw], z)
	}
	var wg sync.WaitGroup
	var mu sync.Mutex
	for _, g := range groups {
		if len(g) == 0 {
			continue
		}
		wg.Add(1)
		go func(g []string) {
			defer wg.Done()
			cmd := exec.Command(os.Args[0], "--worker", "zones:"+strings.Join(g, ","), "--tier", r.Tier)
			var stdout, stderr bytes.Buffer
			cmd.Stdout, cmd.Stderr = &stdout, &stderr
			if err := cmd.Run(); err != nil {
				r.Machinery("zone worker failed: %v %s", err, stderr.String())
				return
			}
			var o workerOut
			if err := json.Unmarshal(stdout.Bytes(), &o); err != nil {
				r.Machinery("zone worker output unreadable: %v", err)
				return
			}
			mu.Lock()
			distinct += o.N
			mu.Unlock()
			r.Count(o.N)
			r.Import(o.Violations)
		}(g)
	}
	wg.Wait()
	r.Set("zones", len(zones))
	r.Distinct(distinct)
	r.Sample(map[string]any{"type": "PutCardRequest", "fields": "CardNumber=0x01020304 From=2024-02-29 To=9999-12-31 Door1..4 PIN=999999", "check": "Unmarshal(Marshal(v)) == v, UnmarshalAs likewise"})
	r.Sample(map[string]any{"type": "GetTimeResponse", "zone": "Asia/Tehran", "fields": "DateTime=<zero>", "check": "decodes back to the zero value"})
	r.Rule("(A) 65 message struct types: baseline + all-zero value + every field over its in-domain alphabet (all uint8, all 1441 HH:mm, 15 civil dates incl. the zero value, date-times incl. zero, ...) + all field pairs over boundary alphabets + every ordered pair of boundary values of one field as two consecutive round trips, through Unmarshal, UnmarshalAs and (types with pointer fields) Unmarshal into a receiver whose pointer fields all refer to one shared object, every decode from one reused 64-byte input buffer that is overwritten afterwards; date-bearing types repeated in every listed zone; (B) every uncovered byte x 255 values for 32 request + 31 reply layouts through the dispatchers; (C) 256 codes x 4 protocol ids x lengths 0..128 (all lengths for 16 codes, stride otherwise) through both dispatchers; (D) every message type either dispatcher returns for any of the 256 codes, decoded directly from datagrams carrying each of the 255 other codes and 3 protocol ids: must fail; (E) UnmarshalArray over batches of two and three datagrams (two valid encodings and three corrupted ones per type, every order): each element equals the single decode of its datagram and shares no pointer with another. distinct = cases generated (each a distinct value/byte string)")
	r.Assume("which bytes belong to a field comes from the hand-written layouts in spec/protocol.go")
	r.Assume("in-domain date-times are civil times that exist in the process zone (constructed with time.Date in that zone)")
	r.Finish()
}
