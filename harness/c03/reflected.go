package main

import (
	"fmt"
	"net"
	"net/netip"
	"reflect"
	"time"

	"github.com/uhppoted/uhppote-core/types"
	"github.com/uhppoted/uhppote-core/uhppote"
	"verif/drv"
	"verif/vk"
)

// Operations found by reflection. The scenarios above drive the 31 operations of the reference
// table through the real driver. Here every method of the client whose first parameter is a uint32
// controller id - whatever operations the library has - is called through a recording fake driver,
// on the three delivery paths, and answered with datagrams that pass as the addressed controller's
// (64 bytes, protocol id 0x17, its serial number) but carry a foreign function code, with a datagram
// of another controller, and with datagrams of 63 and 65 bytes. The expected function code is the
// one the operation itself put into its request. None of these may end in a reported result.

type reflectedOpCase struct {
	Op      string `json:"operation"`
	Path    string `json:"path"`
	Variant string `json:"reply"`
	Reply   string `json:"reply_hex"`
}

func sampleArg(t reflect.Type, alt int) reflect.Value {
	from, to := types.ToDate(2024, 1, 1), types.ToDate(2024, 12, 31)
	switch t {
	case reflect.TypeOf(types.Card{}):
		return reflect.ValueOf(types.Card{CardNumber: 8165538, From: from, To: to, Doors: map[uint8]uint8{1: 1, 2: 0, 3: 29, 4: 1}, PIN: 7531})
	case reflect.TypeOf(types.TimeProfile{}):
		return reflect.ValueOf(types.TimeProfile{ID: 29, LinkedProfileID: 3, From: from, To: to, Weekdays: types.Weekdays{time.Monday: true},
			Segments: types.Segments{1: {Start: types.NewHHmm(8, 30), End: types.NewHHmm(9, 45)}, 2: {}, 3: {}}})
	case reflect.TypeOf(types.Task{}):
		return reflect.ValueOf(types.Task{Task: types.EnableMoreCards, Door: 3, From: from, To: to, Weekdays: types.Weekdays{time.Tuesday: true}, Start: types.NewHHmm(7, 15), Cards: 2})
	case reflect.TypeOf(netip.AddrPort{}):
		return reflect.ValueOf(netip.MustParseAddrPort("192.168.1.100:60001"))
	case reflect.TypeOf(net.IP{}):
		return reflect.ValueOf(net.IPv4(192, 168, 1, 100+byte(alt)).To4())
	case reflect.TypeOf(time.Time{}):
		return reflect.ValueOf(time.Date(2024, 6, 15, 12, 34, 56, 0, time.UTC))
	}
	v := reflect.New(t).Elem()
	switch t.Kind() {
	case reflect.Uint8, reflect.Uint16, reflect.Uint32, reflect.Uint64, reflect.Uint:
		v.SetUint(uint64(1 + alt))
	case reflect.Int8, reflect.Int16, reflect.Int32, reflect.Int64, reflect.Int:
		v.SetInt(int64(1 + alt))
	case reflect.Bool:
		v.SetBool(true)
	case reflect.String:
		v.SetString("x")
	case reflect.Map:
		m := reflect.MakeMap(t)
		if t.Key().Kind() == reflect.Uint8 {
			for k := 1; k <= 4; k++ {
				m.SetMapIndex(reflect.ValueOf(uint8(k)).Convert(t.Key()), sampleArg(t.Elem(), 0))
			}
		}
		v.Set(m)
	case reflect.Slice:
		s := reflect.MakeSlice(t, 0, 2)
		if t.Elem().Kind() != reflect.Interface {
			s = reflect.Append(s, sampleArg(t.Elem(), alt))
		}
		v.Set(s)
	}
	return v
}

func runReflectedOps(r *vk.Run) {
	const serial = uint32(405419896)
	var evals, ops int64
	names := []string{}
	for _, path := range []string{"BroadcastTo", "SendUDP", "SendTCP"} {
		devices := []uhppote.Device{}
		if path != "BroadcastTo" {
			devices = append(devices, uhppote.Device{DeviceID: serial, Address: types.ControllerAddrFrom(netip.MustParseAddr("192.168.1.100"), 60000), Protocol: map[string]string{"SendUDP": "udp", "SendTCP": "tcp"}[path]})
		}
		var answer func(req []byte) [][]byte
		f := &drv.Fake{Script: func(c drv.Call) ([][]byte, error) {
			if answer == nil {
				return nil, nil
			}
			return answer(c.Request), nil
		}}
		u := uhppote.NewUHPPOTE(types.BindAddr{}, types.BroadcastAddr{}, types.ListenAddr{}, time.Second, devices, false)
		if !drv.Install(u, f) {
			r.Machinery("cannot install the fake driver")
			return
		}
		uv := reflect.ValueOf(u)
		for i := 0; i < uv.NumMethod(); i++ {
			m := uv.Type().Method(i)
			mt := uv.Method(i).Type()
			if mt.NumIn() < 1 || mt.In(0).Kind() != reflect.Uint32 || mt.NumOut() < 1 || mt.Out(mt.NumOut()-1) != reflect.TypeOf((*error)(nil)).Elem() {
				continue
			}
			args := []reflect.Value{reflect.ValueOf(serial).Convert(mt.In(0))}
			for k := 1; k < mt.NumIn(); k++ {
				if mt.IsVariadic() && k == mt.NumIn()-1 {
					if mt.In(k).Elem().Kind() == reflect.Uint32 { // passcodes; (card formats: none given = any)
						args = append(args, sampleArg(mt.In(k).Elem(), 0), sampleArg(mt.In(k).Elem(), 1))
					}
				} else {
					args = append(args, sampleArg(mt.In(k), 0))
				}
			}
			// learn the request the operation sends (answered with silence)
			answer = nil
			f.Reset()
			var learned []reflect.Value
			if p, _, _ := vk.Guard(func() { learned = uv.Method(i).Call(args) }); p || f.NumCalls() != 1 || len(f.Calls[0].Request) != 64 {
				continue // rejected its arguments or is not a one-request operation: not judged here
			}
			if err, _ := learned[len(learned)-1].Interface().(error); err == nil {
				continue // succeeds on silence: an operation controllers do not reply to (SetAddress) - it consumes no datagram
			}
			req := append([]byte{}, f.Calls[0].Request...)
			if path == "BroadcastTo" {
				names = append(names, m.Name)
				ops++
			}
			mk := func(code byte, ser uint32, n int) []byte {
				b := make([]byte, n)
				if n >= 8 {
					b[0], b[1] = 0x17, code
					b[4], b[5], b[6], b[7] = byte(ser), byte(ser>>8), byte(ser>>16), byte(ser>>24)
				}
				for k := 8; k < n && k < 12; k++ {
					b[k] = 1
				}
				return b
			}
			variants := map[string][]byte{
				"another-controller": mk(req[1], serial+1, 64),
				"63-bytes":           mk(req[1], serial, 63),
				"65-bytes":           mk(req[1], serial, 65),
				"wrong-protocol-id":  func() []byte { b := mk(req[1], serial, 64); b[0] = 0x18; return b }(),
			}
			for code := 0; code < 256; code++ {
				if byte(code) != req[1] {
					variants[fmt.Sprintf("function-code-%02x", code)] = mk(byte(code), serial, 64)
				}
			}
			for name, d := range variants {
				d := d
				answer = func([]byte) [][]byte { return [][]byte{append([]byte{}, d...)} }
				f.Reset()
				var outs []reflect.Value
				evals++
				c := reflectedOpCase{m.Name, path, name, vk.Hex(d)}
				if p, msg, frame := vk.Guard(func() { outs = uv.Method(i).Call(args) }); p {
					r.Violation("C03/panic/"+frame, fmt.Sprintf("%s panicked on %s: %s", m.Name, name, msg), "reflected-op", c)
					continue
				}
				if err, _ := outs[len(outs)-1].Interface().(error); err == nil {
					class := name
					if len(name) > 14 && name[:14] == "function-code-" {
						class = "wrong-function"
					}
					r.Violation("C03/"+map[string]string{"BroadcastTo": "broadcast", "SendUDP": "udp", "SendTCP": "tcp"}[path]+"/reported-a-result-from-"+class,
						fmt.Sprintf("%s(%d, ...) on the %s path returned without error when the only datagram that came back was %s (%x); its own request carries function code %02x", m.Name, serial, path, name, d, req[1]), "reflected-op", c)
				}
			}
		}
	}
	r.Count(evals)
	r.Set("reflected_operations", names)
	r.Set("reflected_operation_reply_cases", evals)
	_ = ops
}
