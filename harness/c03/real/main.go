// Engine E3 conformance replay for C03: the same datagram-class sequences the E1 exploration
// enumerates are played by real UDP/TCP "controllers" on the loopback interface against the
// UNMODIFIED driver, and the real outcome is compared with the outcome the model produced (which
// the E1 check has shown to equal the reference acceptor). Output: one JSON object on stdout.
package main

import (
	"encoding/binary"
	"encoding/json"
	"fmt"
	"net"
	"net/netip"
	"os"
	"sync"
	"time"

	"github.com/uhppoted/uhppote-core/types"
	"github.com/uhppoted/uhppote-core/uhppote"
	"verif/ops"
	"verif/spec"
)

const (
	serial  = uint32(405419896)
	timeout = 400 * time.Millisecond
	gap     = 25 * time.Millisecond
)

var classNames = []string{"silence", "valid", "len0", "len1", "len63", "len65", "len128", "len1024", "wrong-serial", "serial-0", "wrong-function", "protocol-00", "protocol-19", "malformed-field"}

func marked(op *spec.Op, k int) spec.Args {
	v := ops.BaselineReply(op)
	for _, f := range op.Reply {
		if (op.Name == "GetCardByID" && f.Name == "CardNumber") || (op.Name == "GetTimeProfile" && f.Name == "ProfileID") {
			continue
		}
		switch f.Enc {
		case spec.U32:
			v[f.Name] = v[f.Name].(uint32) + uint32(k+1)*0x00010001
			return v
		case spec.U8:
			v[f.Name] = v[f.Name].(uint8) + uint8(k+1)
			return v
		}
	}
	for _, f := range op.Reply {
		if f.Enc == spec.Bool {
			v[f.Name] = k%2 == 0
			return v
		}
	}
	return v
}

func build(op *spec.Op, path string, c, k int) []byte {
	d := spec.EncodeReply(op, serial, marked(op, k))
	fill := func(n int) []byte {
		b := make([]byte, n)
		for i := range b {
			b[i] = byte(0xa0 + k)
		}
		copy(b, d)
		return b
	}
	switch classNames[c] {
	case "valid":
		return d
	case "len0":
		if path == "tcp" {
			return nil
		}
		return []byte{}
	case "len1":
		return d[:1]
	case "len63":
		return d[:63]
	case "len65":
		return fill(65)
	case "len128":
		return fill(128)
	case "len1024":
		return fill(1024)
	case "wrong-serial":
		binary.LittleEndian.PutUint32(d[4:8], serial+1)
		return d
	case "serial-0":
		binary.LittleEndian.PutUint32(d[4:8], 0)
		return d
	case "wrong-function":
		d[1] ^= 0x02
		return d
	case "protocol-00":
		d[0] = 0x00
		return d
	case "protocol-19":
		d[0] = 0x19
		return d
	case "malformed-field":
		for _, f := range op.Reply {
			if f.Enc == spec.Bool {
				d[f.Off] = 0x02
				return d
			}
		}
		for _, f := range op.Reply {
			switch f.Enc {
			case spec.Date, spec.DateTime, spec.SysDate, spec.SysTime, spec.HHmm:
				d[f.Off] = 0xfa
				return d
			}
		}
	}
	return nil
}

// expectation of the model / reference acceptor: "value:<k>", "error", "timeout"
func expected(op *spec.Op, path string, seq []int, sent [][]byte) string {
	for i, d := range sent {
		if path == "broadcast" && (len(d) != 64 || binary.LittleEndian.Uint32(d[4:8]) != serial) {
			continue
		}
		cls := classNames[seq[i]]
		if cls == "valid" || (cls == "protocol-19" && op.Code == 0x20) {
			return fmt.Sprintf("value:%d", i)
		}
		return "error"
	}
	return "timeout"
}

type scenario struct {
	op   *spec.Op
	path string
	seq  []int
}

type outcome struct {
	Scenario string `json:"scenario"`
	Want     string `json:"model"`
	Got      string `json:"real"`
}

func runOnce(s scenario) (string, string, bool) {
	var sent [][]byte
	for k, c := range s.seq {
		d := build(s.op, s.path, c, k)
		if d == nil {
			return "", "", false
		}
		sent = append(sent, d)
	}
	want := expected(s.op, s.path, s.seq, sent)

	udp, err := net.ListenUDP("udp4", &net.UDPAddr{IP: net.IPv4(127, 0, 0, 1)})
	if err != nil {
		return want, "ENV:" + err.Error(), true
	}
	defer udp.Close()
	port := udp.LocalAddr().(*net.UDPAddr).Port
	tcp, err := net.Listen("tcp4", fmt.Sprintf("127.0.0.1:%d", port))
	if err != nil {
		return want, "ENV:" + err.Error(), true
	}
	defer tcp.Close()
	go func() {
		buf := make([]byte, 2048)
		n, from, err := udp.ReadFromUDP(buf)
		if err != nil || n != 64 {
			return
		}
		for _, d := range sent {
			udp.WriteToUDP(d, from)
			time.Sleep(gap)
		}
	}()
	go func() {
		conn, err := tcp.Accept()
		if err != nil {
			return
		}
		defer conn.Close()
		buf := make([]byte, 2048)
		if n, err := conn.Read(buf); err != nil || n != 64 {
			return
		}
		for _, d := range sent {
			conn.Write(d)
			time.Sleep(gap)
		}
		time.Sleep(timeout + 200*time.Millisecond) // keep the connection open: silence, not EOF
	}()

	lo := netip.MustParseAddr("127.0.0.1")
	devices := []uhppote.Device{}
	if s.path != "broadcast" {
		devices = append(devices, uhppote.Device{DeviceID: serial, Address: types.ControllerAddrFrom(lo, uint16(port)), Protocol: s.path})
	}
	u := uhppote.NewUHPPOTE(types.BindAddr{}, types.BroadcastAddrFrom(lo, uint16(port)), types.ListenAddr{}, timeout, devices, false)
	args := ops.EchoArgs(s.op, ops.BaselineReply(s.op))
	start := time.Now()
	o := ops.Invoke(u, s.op.Name, serial, args)
	took := time.Since(start)

	got := "error"
	switch {
	case o.Err == nil && !o.Nil:
		got = "value:?"
		for i, d := range sent {
			if len(d) != 64 {
				continue
			}
			if ex := spec.ExpectReply(s.op, serial, args, d); spec.Judge(ex, o).Class == "" {
				got = fmt.Sprintf("value:%d", i)
				break
			}
		}
	case o.Err != nil:
		if ne, ok := o.Err.(net.Error); ok && ne.Timeout() && took >= timeout-20*time.Millisecond {
			got = "timeout"
		}
	}
	return want, got, true
}

func main() {
	opsUnderTest := []string{"GetStatus", "GetCardByID", "PutCard"}
	var scenarios []scenario
	for _, name := range opsUnderTest {
		op := spec.OpByName(name)
		for _, path := range []string{"broadcast", "udp", "tcp"} {
			scenarios = append(scenarios, scenario{op, path, nil})
			for a := 1; a < len(classNames); a++ {
				scenarios = append(scenarios, scenario{op, path, []int{a}})
				for b := 1; b < len(classNames); b++ {
					scenarios = append(scenarios, scenario{op, path, []int{a, b}})
				}
			}
		}
	}
	var mu sync.Mutex
	var replayed, agreed, skipped int
	var divergences []outcome
	var wg sync.WaitGroup
	sem := make(chan struct{}, 48)
	for _, s := range scenarios {
		s := s
		wg.Add(1)
		sem <- struct{}{}
		go func() {
			defer wg.Done()
			defer func() { <-sem }()
			var want, got string
			for attempt := 0; attempt < 5; attempt++ {
				var ok bool
				want, got, ok = runOnce(s)
				if !ok {
					mu.Lock()
					skipped++
					mu.Unlock()
					return
				}
				if want == got {
					break
				}
			}
			mu.Lock()
			defer mu.Unlock()
			replayed++
			if want == got {
				agreed++
			} else {
				names := []string{}
				for _, c := range s.seq {
					names = append(names, classNames[c])
				}
				divergences = append(divergences, outcome{fmt.Sprintf("%s/%s/%v", s.op.Name, s.path, names), want, got})
			}
		}()
	}
	wg.Wait()
	json.NewEncoder(os.Stdout).Encode(map[string]any{"replayed": replayed, "agreed": agreed, "skipped": skipped, "divergences": divergences})
}
