// C03 — only a well-formed reply from the addressed controller is ever accepted.
//
// Engine E1: the real uhppote package (API -> sendto -> ut0311 driver) runs on the simulated
// network; for every operation and delivery path the environment chooses, datagram by datagram,
// which class of datagram the "controller" sends next (vs.Choose), and the explorer enumerates
// every such sequence up to the length bound. Oracle: spec acceptor (which datagram decides) +
// spec.ExpectReply (what the deciding datagram means) + exact virtual return time.
package main

import (
	"encoding/binary"
	"fmt"
	"net/netip"
	"strings"
	"time"

	"github.com/uhppoted/uhppote-core/types"
	"github.com/uhppoted/uhppote-core/uhppote"
	"github.com/uhppoted/uhppote-core/verifshim/vs"
	"verif/mc/e1"
	"verif/mc/farm"
	"verif/ops"
	"verif/spec"
	"verif/vk"
)

const (
	serial   = uint32(405419896)
	T        = time.Second
	ctrlAddr = "192.168.1.100:60000"
)

var classNames = []string{"silence", "valid", "len0", "len1", "len63", "len65", "len128", "len1024", "wrong-serial", "serial-0", "wrong-function", "function-ff", "protocol-00", "protocol-19", "malformed-field", "event-from-S", "no-value-and-malformed", "lenN"}

// nRegular: the classes a regular scenario draws from; "lenN" (any length 0..1100 but 64, well-formed
// 64-byte prefix) is only used by the length sweep.
var nRegular = len(classNames) - 1

// marked returns reply values for the k-th datagram of a sequence: distinguishable from every other
// datagram of the sequence.
func marked(op *spec.Op, k int) spec.Args {
	v := ops.BaselineReply(op)
	for _, f := range op.Reply {
		if (op.Name == "GetCardByID" && f.Name == "CardNumber") || (op.Name == "GetTimeProfile" && f.Name == "ProfileID") {
			continue
		}
		switch f.Enc {
		case spec.U32:
			v[f.Name] = v[f.Name].(uint32) + uint32(k+1)*0x00010001
			return v
		case spec.U8:
			v[f.Name] = v[f.Name].(uint8) + uint8(k+1)
			return v
		}
	}
	for _, f := range op.Reply {
		if f.Enc == spec.Bool {
			v[f.Name] = k%2 == 0
			return v
		}
	}
	return v
}

// build returns the datagram of class c (index into classNames) at position k, or nil if the class
// does not apply to this operation/path.
func build(op *spec.Op, path string, c, k int) []byte {
	d := spec.EncodeReply(op, serial, marked(op, k))
	fill := func(n int) []byte {
		b := make([]byte, n)
		for i := range b {
			b[i] = byte(0xa0 + k)
		}
		copy(b, d)
		return b
	}
	switch classNames[c] {
	case "valid":
		return d
	case "len0":
		if path == "tcp" {
			return nil
		}
		return []byte{}
	case "len1":
		return d[:1]
	case "len63":
		return d[:63]
	case "len65":
		return fill(65)
	case "len128":
		return fill(128)
	case "len1024":
		return fill(1024)
	case "wrong-serial":
		binary.LittleEndian.PutUint32(d[4:8], serial+1)
		return d
	case "serial-0":
		binary.LittleEndian.PutUint32(d[4:8], 0)
		return d
	case "wrong-function":
		d[1] ^= 0x02
		return d
	case "function-ff": // beyond every function code the protocol defines
		d[1] = 0xff
		return d
	case "no-value-and-malformed":
		// the reply's "no value" sentinel (profile id 0, card number 0, event index 0) together with a
		// malformed field elsewhere in the record: malformed is malformed - the call fails, it does not
		// report "nothing there"
		var sentinel string
		switch op.Name {
		case "GetTimeProfile":
			sentinel = "ProfileID"
		case "GetCardByID", "GetCardByIndex":
			sentinel = "CardNumber"
		case "GetEvent":
			sentinel = "Index"
		default:
			return nil
		}
		done := false
		for _, f := range op.Reply {
			if f.Name == sentinel {
				for k := 0; k < f.Enc.Width(); k++ {
					d[f.Off+k] = 0
				}
			}
		}
		for _, f := range op.Reply {
			if f.Name == sentinel || done {
				continue
			}
			switch f.Enc {
			case spec.Date, spec.DateTime, spec.HHmm:
				d[f.Off] = 0xfa
				done = true
			case spec.Bool:
				d[f.Off] = 0x02
				done = true
			}
		}
		if !done {
			return nil
		}
		return d
	case "event-from-S": // a well-formed status / event datagram of the addressed controller (function code 0x20)
		if op.Code == 0x20 {
			return nil
		}
		st := spec.OpByName("GetStatus")
		return spec.EncodeReply(st, serial, ops.BaselineReply(st))
	case "protocol-00":
		d[0] = 0x00
		return d
	case "protocol-19":
		d[0] = 0x19
		return d
	case "malformed-field":
		for _, f := range op.Reply {
			if f.Enc == spec.Bool {
				d[f.Off] = 0x02
				return d
			}
		}
		for _, f := range op.Reply {
			switch f.Enc {
			case spec.Date, spec.DateTime, spec.SysDate, spec.SysTime, spec.HHmm:
				if f.Enc == spec.Date || f.Enc == spec.DateTime {
					// a non-decimal nibble in a date is an error, not a zero value, only for BCD digits
				}
				d[f.Off] = 0xfa
				return d
			}
		}
		return nil
	}
	return nil
}

type observation struct {
	seq      []int
	sent     [][]byte
	obs      spec.Observed
	returned int64
	reads    int
	packets  int
	note     string
}

// debugClients: clients are built with debug = true (the driver then prints what it sends and
// receives; output goes to a discarded stdout). Set per scenario by its body.
var debugClients = false

// bindPort: the clients of the scenario bind a fixed local port (0 = ephemeral). Set by the body.
var bindPort uint16 = 0

// listenPort: the client's listen address is 0.0.0.0:listenPort (0 = none configured); no listener
// runs - the address is only configured. Set by the body.
var listenPort uint16 = 0

func client(path string) uhppote.IUHPPOTE {
	devices := []uhppote.Device{}
	switch path {
	case "udp":
		devices = append(devices, uhppote.Device{DeviceID: serial, Address: types.ControllerAddrFrom(netip.MustParseAddr("192.168.1.100"), 60000), Protocol: "udp"})
	case "tcp":
		devices = append(devices, uhppote.Device{DeviceID: serial, Address: types.ControllerAddrFrom(netip.MustParseAddr("192.168.1.100"), 60000), Protocol: "tcp"})
	}
	// an explicit broadcast address: the default one is C06's business
	bind := types.BindAddr{}
	if bindPort != 0 {
		bind = types.BindAddrFrom(netip.MustParseAddr("0.0.0.0"), bindPort)
	}
	listen := types.ListenAddr{}
	if listenPort != 0 {
		listen = types.ListenAddrFrom(netip.MustParseAddr("0.0.0.0"), listenPort)
	}
	return uhppote.NewUHPPOTE(bind, types.BroadcastAddrFrom(netip.MustParseAddr("192.168.1.255"), 60000), listen, T, devices, debugClients)
}

func scenario(op *spec.Op, path string, maxLen int) e1.Scenario {
	return scenarioX(op, path, maxLen, false)
}

func burstScenario(op *spec.Op, path string, maxLen int) e1.Scenario {
	sc := scenarioY(op, path, maxLen, false, true)
	sc.Name += "/burst"
	return sc
}

// scenarioX with lengths=true: the first datagram has every length 0..1100 except 64 (its first 64
// bytes a well-formed reply), the second is well-formed.
func scenarioX(op *spec.Op, path string, maxLen int, lengths bool) e1.Scenario {
	return scenarioY(op, path, maxLen, lengths, false)
}

func scenarioY(op *spec.Op, path string, maxLen int, lengths bool, burst bool) e1.Scenario {
	return scenarioZ(op, path, maxLen, lengths, burst, 0)
}

// preludes: calls the same client made before the judged one, each answered with a well-formed reply
// (or with silence). What a controller said earlier - its firmware version, a v6.62 status with
// protocol id 0x19, nothing at all - does not change which datagrams the next call accepts.
var preludes = []string{"GetDevice/v6.62", "GetDevice/v6.99", "GetDevice/v8.92", "GetDevice/v0.00", "GetDevices/v6.62", "GetStatus/0x19", "GetTime/silence", "GetStatus/0x19+GetDevice/v6.62"}

func preludeScenario(op *spec.Op, path string, maxLen int, prelude string) e1.Scenario {
	sc := scenarioP(op, path, maxLen, false, false, 0, prelude)
	sc.Name += "/after:" + prelude
	return sc
}

// relatedSerialsMode: the first datagram is a well-formed reply of the right kind from ANOTHER controller
// whose serial number is related to the addressed one (one bit or one byte different, bytes swapped,
// truncated, shifted ...); the second is S's own reply. Another controller's reply is never S's.
const relatedSerialsMode = "@related-serial-numbers"

var wrongSerialClass = func() int {
	for i, c := range classNames {
		if c == "wrong-serial" {
			return i
		}
	}
	panic("no wrong-serial class")
}()

func relatedSerials() []uint32 {
	S := serial
	out := []uint32{}
	seen := map[uint32]bool{S: true}
	add := func(v uint32) {
		if !seen[v] {
			seen[v] = true
			out = append(out, v)
		}
	}
	for b := 0; b < 32; b++ {
		add(S ^ 1<<b)
	}
	for k := 0; k < 4; k++ {
		add(S ^ 0xff<<(8*k))
		add(S &^ (0xff << (8 * k)))
		add(S | 0xff<<(8*k))
	}
	add(S>>24 | S>>8&0xff00 | S<<8&0xff0000 | S<<24) // byte order reversed
	add(S>>16 | S<<16)
	add(S >> 8)
	add(S << 8)
	add(S & 0xffff)
	add(S &^ 0xffff)
	add(^S)
	add(-S)
	add(S - 1)
	add(S + 0x01000000)
	add(S % 100000000)
	return out
}

func scenarioZ(op *spec.Op, path string, maxLen int, lengths bool, burst bool, port uint16) e1.Scenario {
	return scenarioP(op, path, maxLen, lengths, burst, port, "")
}

func scenarioP(op *spec.Op, path string, maxLen int, lengths bool, burst bool, port uint16, prelude string) e1.Scenario {
	inPrelude := false
	var o *observation
	args := ops.EchoArgs(op, ops.BaselineReply(op))
	name := fmt.Sprintf("%s/%s/len<=%d", op.Name, path, maxLen)
	if lengths {
		name = fmt.Sprintf("%s/%s/every-length-then-valid", op.Name, path)
	}
	if lengths && prelude == relatedSerialsMode {
		name = fmt.Sprintf("%s/%s/related-serial-number-then-valid", op.Name, path)
	}

	body := func() {
		debugClients = burst || lengths
		bindPort = port
		listenPort = 0
		if strings.Contains(prelude, "listen=bind") {
			listenPort = port
		}
		o = &observation{}
		cur := o
		ctrl := &farm.Controller{Addr: ctrlAddr}
		ctrl.Respond = func(proto string, request []byte, from string) []farm.Reply {
			replies := []farm.Reply{}
			if inPrelude {
				// a well-formed reply to whatever the prelude asked (firmware version / protocol id per prelude)
				for i := range spec.Ops {
					p := &spec.Ops[i]
					if p.Code != request[1] || p.NoReply || strings.Contains(prelude, p.Name+"/silence") {
						continue
					}
					vals := ops.BaselineReply(p)
					for _, part := range strings.Split(prelude, "+") {
						if strings.HasPrefix(part, "GetDevice") && request[1] == 0x94 {
							var hi, lo int
							fmt.Sscanf(part[strings.Index(part, "/v")+2:], "%d.%d", &hi, &lo)
							vals["Version"] = uint16(hi/10<<12 | hi%10<<8 | lo/10<<4 | lo%10)
						}
					}
					d := spec.EncodeReply(p, serial, vals)
					if request[1] == 0x20 && strings.Contains(prelude, "GetStatus/0x19") {
						d[0] = 0x19
					}
					return []farm.Reply{{Delay: T / 100, Data: d}}
				}
				return nil
			}
			if lengths && prelude == relatedSerialsMode {
				// a well-formed reply from a controller whose serial number is related to S, then S's own
				rs := relatedSerials()
				sn := rs[vs.Choose(len(rs), "related-serial-number")]
				d := spec.EncodeReply(op, serial, marked(op, 0))
				binary.LittleEndian.PutUint32(d[4:8], sn)
				v := spec.EncodeReply(op, serial, marked(op, 1))
				cur.seq = []int{wrongSerialClass, 1}
				cur.sent = [][]byte{d, v}
				cur.note = fmt.Sprintf("first datagram carries serial number %d (0x%08x), asked %d (0x%08x)", sn, sn, serial, serial)
				return []farm.Reply{{Delay: T / 10, Data: d}, {Delay: 2 * T / 10, Data: v}}
			}
			if lengths {
				n := vs.Choose(1100, "datagram-length")
				if n >= 64 {
					n++
				}
				if n == 0 && path == "tcp" {
					n = 1
				}
				d := spec.EncodeReply(op, serial, marked(op, 0))
				if n < 64 {
					d = d[:n]
				} else {
					d = append(d, make([]byte, n-64)...)
				}
				v := spec.EncodeReply(op, serial, marked(op, 1))
				cur.seq = []int{len(classNames) - 1, 1}
				cur.sent = [][]byte{d, v}
				return []farm.Reply{{Delay: T / 10, Data: d}, {Delay: 2 * T / 10, Data: v}}
			}
			for k := 0; k < maxLen; k++ {
				c := vs.Choose(nRegular, "datagram-class")
				if c == 0 {
					break
				}
				d := build(op, path, c, k)
				if d == nil {
					c = 0
					break
				}
				cur.seq = append(cur.seq, c)
				cur.sent = append(cur.sent, d)
				at := time.Duration(k+1) * T / 10
				if burst {
					at = T / 10
				}
				replies = append(replies, farm.Reply{Delay: at, Data: d})
			}
			return replies
		}
		vs.Net().Env = &farm.Farm{Controllers: []*farm.Controller{ctrl}}
		u := client(path)
		if prelude != "" && prelude != "listen=bind" && prelude != relatedSerialsMode {
			inPrelude = true
			for _, part := range strings.Split(prelude, "+") {
				name := part[:strings.Index(part, "/")]
				if name == "GetDevices" {
					ops.InvokeGetDevices(u)
				} else {
					p := spec.OpByName(name)
					ops.Invoke(u, name, serial, ops.EchoArgs(p, ops.BaselineReply(p)))
				}
			}
			inPrelude = false
		}
		base, reads0, packets0 := vs.NowNs(), vs.Net().ReadOps, len(vs.Net().Packets)
		cur.obs = ops.Invoke(u, op.Name, serial, args)
		cur.returned = vs.NowNs() - base
		cur.reads = vs.Net().ReadOps - reads0
		cur.packets = len(vs.Net().Packets) - packets0
	}

	check := func(e *vs.Exec) (string, []e1.Viol) {
		viols := e1.Generic(e)
		if e.Abort != "" {
			return e.Abort, viols
		}
		label := fmt.Sprint(o.seq)
		add := func(key, what string) {
			if o.note != "" {
				what += "; " + o.note
			}
			viols = append(viols, e1.Viol{Key: path + "/" + key, What: fmt.Sprintf("%s; datagram classes %v", what, names(o.seq))})
		}
		if open := vs.Net().OpenSockets(); len(open) > 0 {
			add("socket-left-open", fmt.Sprint(open))
		}
		if op.NoReply {
			// SetAddress: succeeds once sent, never consumes a datagram
			if o.obs.Err != nil {
				add("set-address-failed", fmt.Sprintf("error %v", o.obs.Err))
			}
			if o.reads != 0 {
				add("set-address-read", fmt.Sprintf("%d read operations on the socket", o.reads))
			}
			return label + " ok", viols
		}
		// which datagram decides
		decider := -1
		for i, d := range o.sent {
			if path == "broadcast" && (len(d) != 64 || binary.LittleEndian.Uint32(d[4:8]) != serial) {
				continue
			}
			decider = i
			break
		}
		if decider < 0 {
			if o.obs.Err == nil {
				add("result-without-acceptable-datagram", fmt.Sprintf("returned %v", o.obs.Fields))
			} else if o.returned != int64(T) {
				add("timeout-not-at-deadline", fmt.Sprintf("failed at %v, deadline %v (%v)", time.Duration(o.returned), T, o.obs.Err))
			}
			return label + " timeout", viols
		}
		d := o.sent[decider]
		cls := classNames[o.seq[decider]]
		at := int64(decider+1) * int64(T) / 10
		if burst {
			at = int64(T) / 10
		}
		valid := cls == "valid" || (cls == "protocol-19" && op.Code == 0x20)
		if !valid {
			if o.obs.Err == nil {
				add("accepted-"+cls, fmt.Sprintf("datagram %d (%s) must make the call fail, returned %v", decider, cls, o.obs.Fields))
			}
			return label + " error", viols
		}
		ex := spec.ExpectReply(op, serial, args, d)
		if op.Name == "GetDevice" {
			ip := ex.Fields["IpAddress"].([4]byte)
			ex.Fields["Address"] = netip.AddrPortFrom(netip.AddrFrom4(ip), 60000)
			ex.Fields["Name"] = ""
		}
		if v := spec.Judge(ex, o.obs); v.Class != "" {
			add("deciding-datagram-"+v.Class, fmt.Sprintf("datagram %d should decide: %s", decider, v.Detail))
		} else if o.returned != at {
			add("wrong-return-time", fmt.Sprintf("returned at %v, deciding datagram arrived at %v", time.Duration(o.returned), time.Duration(at)))
		}
		return label + " value", viols
	}
	return e1.Scenario{Name: name, Bound: 0, Body: body, Check: check}
}

func names(seq []int) []string {
	out := []string{}
	for _, c := range seq {
		out = append(out, classNames[c])
	}
	return out
}

// budget is the wall-clock allowance of one worker process: generous multiples of the measured
// run time; running out of it yields exhaustive:false, never a violation.
func budget(r *vk.Run) time.Duration {
	if r.Thorough() {
		return 25 * time.Minute
	}
	return 4 * time.Minute
}

func main() {
	r := vk.Start("C03", "model_checking")
	if r.Worker == "" && r.Replay == "" {
		runReflectedOps(r)
	}
	scenarios := []e1.Scenario{}
	long, short := 4, 3
	if r.Thorough() {
		long, short = 5, 4
	}
	for i := range spec.Ops {
		op := &spec.Ops[i]
		if op.Broadcast {
			continue
		}
		for _, path := range []string{"broadcast", "udp", "tcp"} {
			n := short
			switch op.Name {
			case "GetStatus", "GetCardByID", "PutCard":
				n = long
			}
			scenarios = append(scenarios, scenario(op, path, n))
		}
	}
	for _, name := range []string{"GetStatus", "GetCardByID", "PutCard"} {
		// (not TCP: datagrams arriving together on a stream are one longer read, not a sequence)
		for _, path := range []string{"broadcast", "udp"} {
			scenarios = append(scenarios, burstScenario(spec.OpByName(name), path, 3))
		}
	}
	// a client whose (configured, not running) listen address shares its port with the fixed bind port
	for _, name := range []string{"GetTime", "GetCardByID", "GetStatus"} {
		for _, path := range []string{"broadcast", "udp", "tcp"} {
			sc := scenarioP(spec.OpByName(name), path, 2, false, false, 60001, "listen=bind")
			sc.Name += "/bind=60001/listen-address-on-the-same-port"
			scenarios = append(scenarios, sc)
		}
	}
	// what the controller said in earlier calls of the same client
	for _, pre := range preludes {
		for _, name := range []string{"GetTime", "GetCardByID"} {
			for _, path := range []string{"broadcast", "udp", "tcp"} {
				scenarios = append(scenarios, preludeScenario(spec.OpByName(name), path, 2, pre))
			}
		}
	}
	// the same sequences through a client with a fixed bind port (the driver takes another branch)
	for _, name := range []string{"GetStatus", "GetCardByID", "PutCard"} {
		for _, path := range []string{"broadcast", "udp", "tcp"} {
			sc := scenarioZ(spec.OpByName(name), path, 3, false, false, 60001)
			sc.Name += "/bind=60001"
			scenarios = append(scenarios, sc)
		}
	}
	sweep := []string{"GetStatus"}
	if r.Thorough() {
		sweep = []string{"GetStatus", "GetCardByID", "PutCard", "GetTimeProfile", "GetEvent"}
	}
	{
		for _, name := range sweep {
			for _, path := range []string{"broadcast", "udp", "tcp"} {
				scenarios = append(scenarios, scenarioX(spec.OpByName(name), path, 2, true))
			}
		}
		for _, name := range []string{"GetStatus", "OpenDoor", "PutCard"} {
			for _, path := range []string{"broadcast", "udp", "tcp"} {
				scenarios = append(scenarios, scenarioP(spec.OpByName(name), path, 2, true, false, 0, relatedSerialsMode))
			}
		}
	}
	if r.Thorough() {
		e1.PerScenario = 6 * time.Minute
	}
	e1.RunAll(r, scenarios, budget(r))
	if r.Worker == "" && r.Replay == "" {
		e1.Conformance(r)
	}
	r.Rule("for each of the 31 directed operations x {broadcast, connected UDP, TCP}: every sequence of datagram classes " + fmt.Sprint(classNames[1:nRegular]) + fmt.Sprintf(" up to length %d (%d for GetStatus, GetCardByID, PutCard), chosen datagram by datagram by the environment, arriving 0.1 T apart (and, for those three operations, every sequence up to length 3 arriving in one instant on the two UDP paths, through a client built with debug = true, as is the client of the length sweep); for those three operations every sequence up to length 3 also through a client with a fixed bind port; for GetStatus (thorough: 5 operations) x 3 paths a first datagram of every length 0..1100 but 64 (well-formed 64-byte prefix) followed by a well-formed one;", short, long) + " distinct = distinct (sequence, outcome-kind) labels observed")
	r.Assume("simulated network vs/net.go models UDP/TCP delivery, deadlines and buffer truncation; its fidelity is validated on the loopback by the E3 replays where registered")
	r.Assume("reference acceptor and decoder in /verif/spec")
	r.Finish()
}
