// C11 — discovery returns exactly the controllers that answered, despite network noise.
//
// Engine E1: GetDevices on the real API -> broadcast -> ut0311.Broadcast stack (reader goroutine +
// sleeping caller) over the simulated network; the environment chooses how many datagrams arrive,
// of which class, and when (before / just before / just after the timeout); every such sequence
// within the bounds is explored under all interleavings within the preemption bound. A driver-level
// complement sweeps one reply field by field through the result mapping with a scripted driver.
package main

import (
	"fmt"
	"net/netip"
	"os"
	"sort"
	"time"

	"github.com/uhppoted/uhppote-core/types"
	"github.com/uhppoted/uhppote-core/uhppote"
	"github.com/uhppoted/uhppote-core/verifshim/vs"
	"verif/drv"
	"verif/mc/e1"
	"verif/mc/farm"
	"verif/ops"
	"verif/spec"
	"verif/vk"
)

const (
	T   = time.Second
	eps = time.Millisecond
	sA  = uint32(405419896)
	sB  = uint32(303986753)
)

var classes = []string{"valid-A", "valid-B", "duplicate-A", "len-63", "len-65", "len-1100", "len-6", "wrong-protocol", "wrong-function", "function-ff", "non-bcd-date", "calendar-invalid-date",
	// a well-formed reply that reaches the client's port over IPv6 (the discovery socket, opened on the
	// wildcard address, is dual-stack): received like any other
	"valid-A-over-ipv6",
	// an empty datagram (a successful zero-byte read): malformed like any other wrong length
	"len-0",
	// a well-formed reply whose every field is zero (serial number 0, zero addresses, MAC, version and
	// date): byte for byte the get-devices request itself - and still a reply like any other
	"valid-all-zero"}

// debugClient: the client of the scenario is built with debug = true (set by the scenario body)
var debugClient = false
var times = []time.Duration{T / 10, T / 2, T - eps, T, T + eps}

var devOp = spec.OpByName("GetDevices")

func reply(class string, k int) []byte {
	serial := sA
	vals := ops.BaselineReply(devOp)
	if class == "valid-B" {
		serial = sB
		vals["IpAddress"] = [4]byte{192, 168, 1, 101}
		vals["Version"] = uint16(0x0662)
	}
	if class != "duplicate-A" && class != "valid-A" && class != "valid-B" && class != "valid-A-over-ipv6" && class != "valid-all-zero" {
		// make malformed datagrams distinguishable from the valid ones
		vals["Gateway"] = [4]byte{10, 0, 0, byte(k + 1)}
	}
	d := spec.EncodeReply(devOp, serial, vals)
	dateOff := 28
	switch class {
	case "len-63":
		d = d[:63]
	case "len-6":
		d = d[:6]
	case "len-0":
		d = d[:0]
	case "valid-all-zero":
		d = make([]byte, 64)
		d[0], d[1] = 0x17, 0x94
	case "function-ff":
		d[1] = 0xff
	case "len-65": // a well-formed reply followed by one more byte: too long, whatever its first 64 bytes say
		d = append(d, 0x00)
	case "len-1100":
		d = append(d, make([]byte, 1100-64)...)
	case "wrong-protocol":
		d[0] = 0x18
	case "wrong-function":
		d[1] = 0x92
	case "non-bcd-date":
		d[dateOff+2] = 0x1c
	case "calendar-invalid-date":
		d[dateOff+2], d[dateOff+3] = 0x02, 0x30
	}
	return d
}

type arrival struct {
	class string
	at    time.Duration
	data  []byte
	order int
}

func scenario(name string, n int, fixedTimes []time.Duration, bcastPort uint16, bound int) e1.Scenario {
	return scenarioD(name, n, fixedTimes, bcastPort, bound, false)
}

func scenarioD(name string, n int, fixedTimes []time.Duration, bcastPort uint16, bound int, debug bool) e1.Scenario {
	var arrivals []arrival
	var got []map[string]any
	var gotErr error
	body := func() {
		arrivals = nil
		got, gotErr = nil, nil
		cur := &arrivals
		ctrl := &farm.Controller{Addr: fmt.Sprintf("192.168.1.100:%d", map[bool]uint16{true: 60000, false: bcastPort}[bcastPort == 0])}
		ctrl.Respond = func(proto string, req []byte, from string) []farm.Reply {
			out := []farm.Reply{}
			for k := 0; k < n; k++ {
				c := vs.Choose(len(classes), "class")
				at := T / 10
				if fixedTimes != nil {
					at = fixedTimes[k]
				} else {
					at = times[vs.Choose(len(times), "arrival-time")]
				}
				d := reply(classes[c], k)
				*cur = append(*cur, arrival{classes[c], at, d, k})
				src := ""
				if classes[c] == "valid-A-over-ipv6" {
					src = "[fe80::c0a8:164]:60000"
				}
				out = append(out, farm.Reply{Delay: at, Data: d, Src: src})
			}
			return out
		}
		vs.Net().Env = &farm.Farm{Controllers: []*farm.Controller{ctrl}}
		bcast := types.BroadcastAddr{}
		if bcastPort != 0 {
			bcast = types.BroadcastAddrFrom(netip.MustParseAddr("192.168.1.255"), bcastPort)
		}
		devices := []uhppote.Device{{Name: "Bravo", DeviceID: sB, Address: types.ControllerAddrFrom(netip.MustParseAddr("192.168.1.101"), 60000), Protocol: "udp"}}
		u := uhppote.NewUHPPOTE(types.BindAddr{}, bcast, types.ListenAddr{}, T, devices, debug)
		got, gotErr = ops.InvokeGetDevices(u)
	}
	check := func(e *vs.Exec) (string, []e1.Viol) {
		viols := e1.Generic(e)
		for _, r := range e.Races {
			viols = append(viols, e1.Viol{Key: "race", What: "data race: " + r})
		}
		if e.Abort != "" {
			return e.Abort, viols
		}
		desc := []string{}
		for _, a := range arrivals {
			desc = append(desc, fmt.Sprintf("%s@%v", a.class, a.at))
		}
		add := func(key, what string) {
			viols = append(viols, e1.Viol{Key: key, What: fmt.Sprintf("%s (datagrams %v, broadcast port %d)", what, desc, bcastPort)})
		}
		if gotErr != nil {
			add("discovery-failed", fmt.Sprintf("GetDevices returned error %v", gotErr))
			return "error", viols
		}
		port := uint16(60000)
		if bcastPort != 0 {
			port = bcastPort
		}
		// reference: well-formed replies that arrived before T, in arrival order
		arr := append([]arrival{}, arrivals...)
		sort.SliceStable(arr, func(i, j int) bool { return arr[i].at < arr[j].at })
		type want struct {
			ex       spec.Expect
			optional bool
			class    string
		}
		var wants []want
		for _, a := range arr {
			if a.at > T {
				continue
			}
			switch a.class {
			case "valid-A", "valid-B", "duplicate-A", "calendar-invalid-date", "valid-A-over-ipv6", "valid-all-zero":
				serial := sA
				nameWant := ""
				if a.class == "valid-all-zero" {
					serial = 0
				}
				if a.class == "valid-B" {
					serial, nameWant = sB, "Bravo"
				}
				ex := spec.ExpectReply(devOp, serial, nil, a.data)
				ip := ex.Fields["IpAddress"].([4]byte)
				ex.Fields["Address"] = netip.AddrPortFrom(netip.AddrFrom4(ip), port)
				ex.Fields["Name"] = nameWant
				// a reply landing in the very instant of the timeout may or may not make it
				wants = append(wants, want{ex, a.class == "calendar-invalid-date" || a.at == T, a.class})
			}
		}
		// match got against wants, allowing optional entries to be absent
		gi := 0
		for _, w := range wants {
			if gi < len(got) {
				if v := spec.Judge(w.ex, spec.Observed{Fields: got[gi]}); v.Class == "" {
					gi++
					continue
				} else if !w.optional {
					add("wrong-entry", fmt.Sprintf("entry %d is not the decoding of the %s reply expected there: %s", gi, w.class, v.Detail))
					return "mismatch", viols
				}
				continue
			}
			if !w.optional {
				add("missing-entry", fmt.Sprintf("%d entries returned, a %s reply that arrived before the timeout is missing", len(got), w.class))
				return "mismatch", viols
			}
		}
		if gi < len(got) {
			add("extra-entry", fmt.Sprintf("%d entries returned, only %d well-formed replies arrived before the timeout", len(got), gi))
		}
		if open := vs.Net().OpenSockets(); len(open) > 0 {
			add("socket-leak", fmt.Sprint(open))
		}
		return fmt.Sprintf("entries=%d of %d datagrams", len(got), len(arrivals)), viols
	}
	return e1.Scenario{Name: name, Bound: bound, Body: body, Check: check}
}

// twoDiscoveries: two GetDevices calls overlap on one client (ephemeral bind port, so neither waits
// for the other). The first gets two replies early in its window; the second starts at 0.3 T and
// gets `burst` replies from as many other controllers in the very instant the first call's window
// ends. Each call must return exactly the controllers that answered ITS request, in order.
func twoDiscoveries(burst int, bound int) e1.Scenario {
	var gotA, gotB []map[string]any
	var errA, errB error
	mk := func(serial uint32, k int) []byte {
		vals := ops.BaselineReply(devOp)
		vals["IpAddress"] = [4]byte{10, byte(serial >> 16), byte(serial >> 8), byte(serial)}
		vals["Version"] = uint16(0x0600 + k%200)
		return spec.EncodeReply(devOp, serial, vals)
	}
	body := func() {
		gotA, gotB, errA, errB = nil, nil, nil, nil
		calls := 0
		ctrl := &farm.Controller{Addr: "192.168.1.100:60000"}
		ctrl.Respond = func(proto string, req []byte, from string) []farm.Reply {
			calls++
			out := []farm.Reply{}
			if calls == 1 {
				for k := 0; k < 2; k++ {
					out = append(out, farm.Reply{Delay: time.Duration(k+1) * T / 10, Data: mk(uint32(101+k), k)})
				}
				return out
			}
			for k := 0; k < burst; k++ {
				out = append(out, farm.Reply{Delay: 7 * T / 10, Data: mk(uint32(2001+k), k)}) // 0.3 T + 0.7 T = the first call's deadline
			}
			return out
		}
		vs.Net().Env = &farm.Farm{Controllers: []*farm.Controller{ctrl}}
		u := uhppote.NewUHPPOTE(types.BindAddr{}, types.BroadcastAddr{}, types.ListenAddr{}, T, nil, false)
		var wg vs.WaitGroup
		wg.Add(1)
		vs.GoNamed("second-discovery", func() {
			defer wg.Done()
			vs.Sleep(3 * T / 10)
			gotB, errB = ops.InvokeGetDevices(u)
		})
		gotA, errA = ops.InvokeGetDevices(u)
		wg.Wait()
	}
	check := func(e *vs.Exec) (string, []e1.Viol) {
		viols := e1.Generic(e)
		for _, r := range e.Races {
			viols = append(viols, e1.Viol{Key: "race", What: "data race: " + r})
		}
		if e.Abort != "" {
			return e.Abort, viols
		}
		judge := func(name string, got []map[string]any, err error, first uint32, n int, optionalTail bool) {
			if err != nil {
				viols = append(viols, e1.Viol{Key: "overlapping/" + name + "/failed", What: fmt.Sprint(err)})
				return
			}
			if len(got) != n && !(optionalTail && len(got) <= n) {
				viols = append(viols, e1.Viol{Key: "overlapping/" + name + "/entry-count", What: fmt.Sprintf("%d entries, %d controllers answered this call", len(got), n)})
				return
			}
			for i, g := range got {
				ex := spec.ExpectReply(devOp, first+uint32(i), nil, mk(first+uint32(i), i))
				ip := ex.Fields["IpAddress"].([4]byte)
				ex.Fields["Address"] = netip.AddrPortFrom(netip.AddrFrom4(ip), 60000)
				ex.Fields["Name"] = ""
				if v := spec.Judge(ex, spec.Observed{Fields: g}); v.Class != "" {
					viols = append(viols, e1.Viol{Key: "overlapping/" + name + "/wrong-entry", What: fmt.Sprintf("entry %d is not the decoding of reply %d to this call (another discovery was running on the same client): %s", i, i, v.Detail)})
					return
				}
			}
		}
		judge("first", gotA, errA, 101, 2, false)
		judge("second", gotB, errB, 2001, burst, false)
		if open := vs.Net().OpenSockets(); len(open) > 0 {
			viols = append(viols, e1.Viol{Key: "socket-leak", What: fmt.Sprint(open)})
		}
		if os.Getenv("C11_DEBUG") != "" {
			ser := []any{}
			for _, g := range gotA {
				ser = append(ser, g["SerialNumber"])
			}
			return fmt.Sprintf("overlapping discoveries %d+%d A=%v", len(gotA), len(gotB), ser), viols
		}
		return fmt.Sprintf("overlapping discoveries %d+%d", len(gotA), len(gotB)), viols
	}
	return e1.Scenario{Name: fmt.Sprintf("two-discoveries/burst=%d", burst), Bound: bound, Body: body, Check: check, Opt: vs.Options{Horizon: 8000}}
}

// driver-level complement: one reply swept field by field through the GetDevices result mapping
func mappingSweep(r *vk.Run) {
	var n int64
	for _, cfg := range []struct {
		port   uint16
		name   string
		ipless uint16 // a broadcast "address" that has a port but no IP: none is configured, the default port applies
	}{{0, "", 0}, {60005, "Alpha", 0}, {0, "Alpha", 54321}, {0, "", 60005}} {
		var cur []byte
		f := &drv.Fake{Script: func(drv.Call) ([][]byte, error) { return [][]byte{cur, cur[:10], cur}, nil }}
		bcast := types.BroadcastAddr{}
		port := uint16(60000)
		if cfg.port != 0 {
			bcast = types.BroadcastAddrFrom(netip.MustParseAddr("192.168.1.255"), cfg.port)
			port = cfg.port
		}
		if cfg.ipless != 0 {
			bcast = types.BroadcastAddrFrom(netip.Addr{}, cfg.ipless)
		}
		devices := []uhppote.Device{}
		if cfg.name != "" {
			devices = append(devices, uhppote.Device{Name: cfg.name, DeviceID: sA})
		}
		u := uhppote.NewUHPPOTE(types.BindAddr{}, bcast, types.ListenAddr{}, T, devices, false)
		drv.Install(u, f)
		base := spec.EncodeReply(devOp, sA, ops.BaselineReply(devOp))
		try := func(d []byte) {
			n++
			cur = d
			list, err := ops.InvokeGetDevices(u)
			ex := spec.ExpectReply(devOp, sA, nil, d)
			ip := ex.Fields["IpAddress"].([4]byte)
			ex.Fields["Address"] = netip.AddrPortFrom(netip.AddrFrom4(ip), port)
			ex.Fields["Name"] = cfg.name
			c := map[string]any{"reply": vk.Hex(d), "broadcast_port": cfg.port, "name": cfg.name, "broadcast_address_without_ip_port": cfg.ipless}
			switch {
			case err != nil:
				r.Violation("C11/mapping/discovery-failed", fmt.Sprint(err), "mapping", c)
			case ex.AnyOut && len(list) == 0:
			case len(list) != 2:
				r.Violation("C11/mapping/entry-count", fmt.Sprintf("%d entries for the same valid reply delivered twice around a truncated datagram", len(list)), "mapping", c)
			default:
				for i := range list {
					if v := spec.Judge(ex, spec.Observed{Fields: list[i]}); v.Class != "" {
						r.Violation("C11/mapping/"+v.Field+"/"+v.Class, v.Detail, "mapping", c)
					}
				}
			}
		}
		try(base)
		for off := 8; off < 28; off++ { // address, mask, gateway, MAC, version: every byte value
			for v := 0; v < 256; v++ {
				d := append([]byte{}, base...)
				d[off] = byte(v)
				try(d)
			}
		}
		for v := 0; v < 65536; v++ { // all versions; all (MM,DD) date byte pairs; all year byte pairs
			d := append([]byte{}, base...)
			d[26], d[27] = byte(v>>8), byte(v)
			try(d)
			d = append([]byte{}, base...)
			d[30], d[31] = byte(v>>8), byte(v)
			try(d)
			d = append([]byte{}, base...)
			d[28], d[29] = byte(v>>8), byte(v)
			try(d)
		}
		for off := 4; off < 8; off++ { // serial number bytes (the name lookup must follow)
			for v := 0; v < 256; v++ {
				d := append([]byte{}, base...)
				d[off] = byte(v)
				n++
				cur = d
				list, err := ops.InvokeGetDevices(u)
				if err != nil || len(list) != 2 {
					r.Violation("C11/mapping/serial-sweep", fmt.Sprintf("err=%v entries=%d", err, len(list)), "mapping", map[string]any{"reply": vk.Hex(d)})
					continue
				}
				wantName := ""
				if d[4] == base[4] && d[5] == base[5] && d[6] == base[6] && d[7] == base[7] {
					wantName = cfg.name
				}
				if list[0]["Name"] != wantName {
					r.Violation("C11/mapping/Name/wrong-value", fmt.Sprintf("name %q for serial bytes %x, want %q", list[0]["Name"], d[4:8], wantName), "mapping", map[string]any{"reply": vk.Hex(d)})
				}
			}
		}
	}
	// name lookup matrix: nine controllers configured under boundary serial numbers (0 and 0xffffffff
	// included), each with a name of its own; replies carrying every serial number of a 32-bit boundary
	// alphabet - the entry's name is the name configured for exactly that serial number, else empty
	{
		ids := []uint32{0, 1, 2, 255, 256, 0x00ffffff, 0x01000000, sA, 0xffffffff}
		names := map[uint32]string{}
		devices := []uhppote.Device{}
		for i, id := range ids {
			names[id] = fmt.Sprintf("ctrl-%d", i)
			devices = append(devices, uhppote.Device{Name: names[id], DeviceID: id})
		}
		var cur []byte
		f := &drv.Fake{Script: func(drv.Call) ([][]byte, error) { return [][]byte{cur}, nil }}
		u := uhppote.NewUHPPOTE(types.BindAddr{}, types.BroadcastAddr{}, types.ListenAddr{}, T, devices, false)
		drv.Install(u, f)
		serials := append([]uint32{}, ids...)
		for i := 0; i < 32; i++ {
			serials = append(serials, 1<<uint(i), ^(uint32(1) << uint(i)))
		}
		serials = append(serials, sB, sA+1, sA-1, 0xfffffffe, 0x7fffffff, 0x80000000, 65535, 65536)
		for _, serial := range serials {
			n++
			cur = spec.EncodeReply(devOp, serial, ops.BaselineReply(devOp))
			list, err := ops.InvokeGetDevices(u)
			c := map[string]any{"reply": vk.Hex(cur), "configured": names}
			if err != nil || len(list) != 1 {
				r.Violation("C11/mapping/name-matrix/entry-count", fmt.Sprintf("one well-formed reply with serial number %d: err=%v entries=%d", serial, err, len(list)), "mapping", c)
				continue
			}
			if got := list[0]["Name"]; got != names[serial] {
				r.Violation("C11/mapping/Name/wrong-value", fmt.Sprintf("name %q for the reply with serial number %d, the controller configured under that number is named %q", got, serial, names[serial]), "mapping", c)
			}
		}
	}
	r.Count(n)
	r.Add("mapping_sweep_cases", n)
}

// budget is the wall-clock allowance of one worker process: generous multiples of the measured
// run time; running out of it yields exhaustive:false, never a violation.
func budget(r *vk.Run) time.Duration {
	if r.Thorough() {
		return 25 * time.Minute
	}
	return 4 * time.Minute
}

func main() {
	r := vk.Start("C11", "model_checking")
	scenarios := []e1.Scenario{}
	for _, port := range []uint16{0, 60005} {
		for n := 0; n <= 2; n++ {
			scenarios = append(scenarios, scenario(fmt.Sprintf("discovery/n=%d/any-time/bcast=%d", n, port), n, nil, port, 2))
		}
		scenarios = append(scenarios, scenarioD(fmt.Sprintf("discovery/n=2/times=0.1T,0.5T/bcast=%d/debug-client", port), 2, []time.Duration{T / 10, T / 2}, port, 1, true))
		scenarios = append(scenarios, scenario(fmt.Sprintf("discovery/n=3/times=0.1T,0.5T,T-e/bcast=%d", port), 3, []time.Duration{T / 10, T / 2, T - eps}, port, 2))
		scenarios = append(scenarios, scenario(fmt.Sprintf("discovery/n=3/times=T-e,0.5T,T+e/bcast=%d", port), 3, []time.Duration{T - eps, T / 2, T + eps}, port, 1))
		if r.Thorough() {
			scenarios = append(scenarios, scenario(fmt.Sprintf("discovery/n=3/any-time/bcast=%d", port), 3, nil, port, 1))
			scenarios = append(scenarios, scenario(fmt.Sprintf("discovery/n=4/times=0.1T,T-e,T,T+e/bcast=%d", port), 4, []time.Duration{T / 10, T - eps, T, T + eps}, port, 1))
			scenarios = append(scenarios, scenario(fmt.Sprintf("discovery/n=3/same-instant/bcast=%d", port), 3, []time.Duration{T / 2, T / 2, T / 2}, port, 2))
			scenarios = append(scenarios, scenario(fmt.Sprintf("discovery/n=4/times=0.1T,0.5T,0.5T,T-e/bcast=%d", port), 4, []time.Duration{T / 10, T / 2, T / 2, T - eps}, port, 1))
		}
	}
	// overlapping discoveries on one client, the second one with more replies than any plausible
	// buffer pool holds
	{
		// more replies in one window than any plausible queue holds: 1100 controllers answer
		big := twoDiscoveries(1100, 0)
		big.Name += "/default-schedule"
		big.DefaultOnly = true
		big.Opt.Horizon = 20000
		scenarios = append(scenarios, big)
	}
	for _, burst := range []int{3, 40} {
		sc := twoDiscoveries(burst, 1)
		if burst > 10 {
			sc.Shards = 4
		}
		scenarios = append(scenarios, sc)
	}
	if r.Thorough() {
		e1.PerScenario = 6 * time.Minute
	}
	e1.RunAll(r, scenarios, budget(r))
	if r.Worker == "" && r.Replay == "" {
		e1.Conformance(r)
	}
	if r.Worker == "" && r.Replay == "" {
		vs.Run(nil, nil, vs.Options{}, func() { mappingSweep(r) })
	}
	r.Rule("every sequence of 0..2 datagrams over 15 classes (valid A/B, duplicate, the all-zero reply (byte for byte the request itself), a valid reply arriving over IPv6, an empty datagram, 6 and 63 bytes, 65 and 1100 bytes with a well-formed 64-byte prefix, wrong protocol id, wrong function code, function code 0xff, non-BCD and calendar-invalid date), every 2-datagram sequence also through a client built with debug = true, x 5 arrival times (0.1T, 0.5T, T-e, T, T+e), every 3-datagram class sequence at two fixed time patterns (thorough: also every 3-datagram sequence at every arrival-time combination, simultaneous arrivals and 4 datagrams at two time patterns), broadcast address unset / port 60005, each under all interleavings of the reader goroutine and the sleeping caller within the preemption bound; two overlapping GetDevices calls on one client, the second receiving 3 / 40 replies in the instant the first one's window ends (<= 1 preemption), and 1100 replies on the default schedule; plus a driver-level sweep of one reply through the result mapping (every byte value of address/mask/gateway/MAC/version/serial, all 65536 version, year and month-day byte pairs) x {unnamed + default port, named + port 60005, broadcast address with a port but no IP (= none configured)}. distinct = distinct (entries, datagrams) labels")
	r.Assume("a reply with a calendar-invalid BCD date may be dropped or reported with the zero date (the property lists only non-BCD dates as malformed)")
	r.Finish()
}
