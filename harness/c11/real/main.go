// Engine E3 conformance replay for C11: discovery against real UDP responders on the loopback
// interface. Every sequence of <= 2 datagram classes, each arriving early (0.1T) or mid-window
// (0.5T) — timing-robust instants only — is answered by a real socket to the UNMODIFIED driver, and
// the GetDevices result is compared with what the model produced (= the reference list).
package main

import (
	"encoding/json"
	"fmt"
	"net"
	"net/netip"
	"os"
	"sync"
	"time"

	"github.com/uhppoted/uhppote-core/types"
	"github.com/uhppoted/uhppote-core/uhppote"
	"verif/ops"
	"verif/spec"
)

const (
	T  = 400 * time.Millisecond
	sA = uint32(405419896)
	sB = uint32(303986753)
)

var classes = []string{"valid-A", "valid-B", "duplicate-A", "wrong-length", "wrong-protocol", "wrong-function", "non-bcd-date"}
var devOp = spec.OpByName("GetDevices")

func reply(class string, k int) []byte {
	serial := sA
	vals := ops.BaselineReply(devOp)
	if class == "valid-B" {
		serial = sB
		vals["IpAddress"] = [4]byte{192, 168, 1, 101}
		vals["Version"] = uint16(0x0662)
	}
	if class != "duplicate-A" && class != "valid-A" && class != "valid-B" {
		vals["Gateway"] = [4]byte{10, 0, 0, byte(k + 1)}
	}
	d := spec.EncodeReply(devOp, serial, vals)
	switch class {
	case "wrong-length":
		d = d[:63]
	case "wrong-protocol":
		d[0] = 0x18
	case "wrong-function":
		d[1] = 0x92
	case "non-bcd-date":
		d[30] = 0x1c
	}
	return d
}

type arrival struct {
	class string
	at    time.Duration
}

func one(seq []arrival) string {
	udp, err := net.ListenUDP("udp4", &net.UDPAddr{IP: net.IPv4(127, 0, 0, 1)})
	if err != nil {
		return "ENV"
	}
	defer udp.Close()
	port := udp.LocalAddr().(*net.UDPAddr).Port
	go func() {
		buf := make([]byte, 2048)
		n, from, err := udp.ReadFromUDP(buf)
		if err != nil || n != 64 {
			return
		}
		start := time.Now()
		for k, a := range seq {
			if d := a.at - time.Since(start); d > 0 {
				time.Sleep(d)
			}
			udp.WriteToUDP(reply(a.class, k), from)
		}
	}()
	lo := netip.MustParseAddr("127.0.0.1")
	devices := []uhppote.Device{{Name: "Bravo", DeviceID: sB, Address: types.ControllerAddrFrom(netip.MustParseAddr("192.168.1.101"), 60000), Protocol: "udp"}}
	u := uhppote.NewUHPPOTE(types.BindAddr{}, types.BroadcastAddrFrom(lo, uint16(port)), types.ListenAddr{}, T, devices, false)
	got, err := ops.InvokeGetDevices(u)
	if err != nil {
		return "error: " + err.Error()
	}
	gi := 0
	for k, a := range seq {
		switch a.class {
		case "valid-A", "valid-B", "duplicate-A":
			serial, name := sA, ""
			if a.class == "valid-B" {
				serial, name = sB, "Bravo"
			}
			ex := spec.ExpectReply(devOp, serial, nil, reply(a.class, k))
			ip := ex.Fields["IpAddress"].([4]byte)
			ex.Fields["Address"] = netip.AddrPortFrom(netip.AddrFrom4(ip), uint16(port))
			ex.Fields["Name"] = name
			if gi >= len(got) {
				return fmt.Sprintf("%d entries, model has more", len(got))
			}
			if v := spec.Judge(ex, spec.Observed{Fields: got[gi]}); v.Class != "" {
				return fmt.Sprintf("entry %d: %s", gi, v.Detail)
			}
			gi++
		}
	}
	if gi != len(got) {
		return fmt.Sprintf("%d entries, model has %d", len(got), gi)
	}
	return ""
}

func main() {
	var scs [][]arrival
	scs = append(scs, nil)
	for _, a := range classes {
		for _, ta := range []time.Duration{T / 10, T / 2} {
			scs = append(scs, []arrival{{a, ta}})
			for _, b := range classes {
				scs = append(scs, []arrival{{a, ta}, {b, T / 2}})
			}
		}
	}
	var mu sync.Mutex
	replayed, agreed, skipped := 0, 0, 0
	var divergences []map[string]string
	var wg sync.WaitGroup
	sem := make(chan struct{}, 32)
	for _, s := range scs {
		s := s
		wg.Add(1)
		sem <- struct{}{}
		go func() {
			defer wg.Done()
			defer func() { <-sem }()
			res := ""
			for attempt := 0; attempt < 5; attempt++ {
				if res = one(s); res == "" || res == "ENV" {
					break
				}
			}
			mu.Lock()
			defer mu.Unlock()
			if res == "ENV" {
				skipped++
				return
			}
			replayed++
			if res == "" {
				agreed++
			} else {
				divergences = append(divergences, map[string]string{"scenario": fmt.Sprint(s), "real": res})
			}
		}()
	}
	wg.Wait()
	json.NewEncoder(os.Stdout).Encode(map[string]any{"replayed": replayed, "agreed": agreed, "skipped": skipped, "divergences": divergences})
}
