package main

import (
	"bytes"
	"encoding/json"
	"fmt"
	"math/big"
	"strconv"
	"strings"
	"sync/atomic"
	"time"

	"github.com/uhppoted/uhppote-core/types"
	"verif/spec"
	"verif/vk"
)

// ---------------------------------------------------------------- private calendar (proleptic Gregorian)

func leap(y int) bool { return y%4 == 0 && (y%100 != 0 || y%400 == 0) }

func daysIn(y, m int) int {
	switch m {
	case 1, 3, 5, 7, 8, 10, 12:
		return 31
	case 4, 6, 9, 11:
		return 30
	case 2:
		if leap(y) {
			return 29
		}
		return 28
	}
	return 0
}

func validDate(y, m, d int) bool { return y >= 1 && y <= 9999 && d >= 1 && d <= daysIn(y, m) }

// ---------------------------------------------------------------- dates

type dateCase struct {
	Y    int  `json:"y"`
	M    int  `json:"m"`
	D    int  `json:"d"`
	Zero bool `json:"zero,omitempty"`
}

func mkDate(y, m, d int) types.Date {
	if y == 0 && m == 0 && d == 0 {
		return types.Date{}
	}
	return types.Date(time.Date(y, time.Month(m), d, 0, 0, 0, 0, time.Local))
}

// semantic equality of a Date: (y, m, d) and zero-ness.
func dateIs(got types.Date, y, m, d int) bool {
	if y == 0 && m == 0 && d == 0 {
		return time.Time(got).IsZero()
	}
	gy, gm, gd := time.Time(got).Date()
	return !time.Time(got).IsZero() && gy == y && int(gm) == m && gd == d
}

func dateText(d types.Date) string {
	if time.Time(d).IsZero() {
		return "(zero date)"
	}
	y, m, dd := time.Time(d).Date()
	return fmt.Sprintf("%04d-%02d-%02d", y, int(m), dd)
}

func checkDate(x dateCase) {
	if x.Zero {
		got, enc, f := roundTrip("Date", types.Date{})
		if f != nil {
			violation(f.key, f.what, "date", x)
		} else if !time.Time(got).IsZero() {
			R.Violation("C14/Date/json-roundtrip-differs", fmt.Sprintf("zero Date -> %s -> %s", enc, dateText(got)), "date", x)
		}
		return
	}
	v := mkDate(x.Y, x.M, x.D)
	got, enc, f := roundTrip("Date", v)
	if f != nil {
		violation(f.key, f.what, "date", x)
	} else if !dateIs(got, x.Y, x.M, x.D) {
		R.Violation("C14/Date/json-roundtrip-differs", fmt.Sprintf("Date %04d-%02d-%02d -> %s -> %s", x.Y, x.M, x.D, enc, dateText(got)), "date", x)
	}

	var s string
	var p types.Date
	var err error
	if pn, msg, frame := vk.Guard(func() { s = v.String(); p, err = types.ParseDate(s) }); pn {
		panicked("ParseDate", s, msg, frame, "date", x)
	} else if err != nil {
		R.Violation("C14/ParseDate/rejects-own-text", fmt.Sprintf("ParseDate(Date.String()) = ParseDate(%q) = error %v", s, err), "date", x)
	} else if !dateIs(p, x.Y, x.M, x.D) {
		R.Violation("C14/Date/text-roundtrip-differs", fmt.Sprintf("Date %04d-%02d-%02d -> %q -> %s", x.Y, x.M, x.D, s, dateText(p)), "date", x)
	}
}

// refDateText: "yyyy-mm-dd". Must-accept: a calendar day 0001-01-02 ... 9999-12-31. Must-reject:
// a strict-shaped text naming a day that does not exist, and text of any other shape. Left open:
// year 0000, 0001-01-01 (the zero value's own civil date), and a strict text wrapped in blanks.
func refDateText(s string) (y, m, d int, v spec.TxtVerdict, class string) {
	strict := func(s string) bool {
		if len(s) != 10 || s[4] != '-' || s[7] != '-' {
			return false
		}
		for _, i := range []int{0, 1, 2, 3, 5, 6, 8, 9} {
			if s[i] < '0' || s[i] > '9' {
				return false
			}
		}
		return true
	}
	if !strict(s) {
		if t := strings.TrimSpace(s); t != s && strict(t) {
			return 0, 0, 0, spec.TxtFree, ""
		}
		return 0, 0, 0, spec.TxtReject, "malformed-text"
	}
	y, _ = strconv.Atoi(s[0:4])
	m, _ = strconv.Atoi(s[5:7])
	d, _ = strconv.Atoi(s[8:10])
	switch {
	case y == 0:
		return y, m, d, spec.TxtFree, ""
	case y == 1 && m == 1 && d == 1:
		return y, m, d, spec.TxtFree, ""
	case validDate(y, m, d):
		return y, m, d, spec.TxtAccept, ""
	}
	return y, m, d, spec.TxtReject, "impossible-date"
}

func checkDateText(s, via string) {
	c := textCase{s, via}
	y, m, d, verdict, class := refDateText(s)
	var got types.Date
	var err error
	siteName := "ParseDate"
	if via == "json" {
		siteName = "Date.UnmarshalJSON"
		if s == "" { // the JSON form of the zero date
			y, m, d, verdict = 0, 0, 0, spec.TxtAccept
		}
		b, _ := json.Marshal(s)
		if pn, msg, frame := vk.Guard(func() { err = json.Unmarshal(b, &got) }); pn {
			panicked(siteName, s, msg, frame, "date-text", c)
			return
		}
	} else {
		if s == "" { // String() of the zero date; ParseDate documents an error — left open
			verdict = spec.TxtFree
		}
		if pn, msg, frame := vk.Guard(func() { got, err = types.ParseDate(s) }); pn {
			panicked(siteName, s, msg, frame, "date-text", c)
			return
		}
	}
	want := fmt.Sprintf("%04d-%02d-%02d", y, m, d)
	judgeText(siteName, verdict, err, err == nil && dateIs(got, y, m, d), "valid-date", class, s, dateText(got), want, "date-text", c)
}

func runDates() {
	// accept side: every day 0001-01-02 ... 9999-12-31 (both tiers) + the zero value
	checkDate(dateCase{Zero: true})
	var n atomic.Int64
	vk.Parallel(9999, func(i int) {
		y := i + 1
		var k int64
		for m := 1; m <= 12; m++ {
			for d := 1; d <= daysIn(y, m); d++ {
				if y == 1 && m == 1 && d == 1 {
					continue
				}
				checkDate(dateCase{Y: y, M: m, D: d})
				k++
			}
		}
		n.Add(k)
	})
	family("date/accept(json+text roundtrip, every day 0001-01-02..9999-12-31 + zero)", 2*n.Load()+1, n.Load()+1)
	R.Sample(map[string]any{"family": "date/accept", "value": "2024-02-29", "json": `"2024-02-29"`, "expected": "decodes to 2024-02-29"})

	// reject side (a): yyyy-mm-dd over all (mm, dd) in 00..99 x 00..99 for six years
	years := []int{1, 1900, 2000, 2023, 2024, 9999}
	var k int64
	vk.Parallel(len(years)*100, func(i int) {
		y, m := years[i/100], i%100
		for d := 0; d < 100; d++ {
			s := fmt.Sprintf("%04d-%02d-%02d", y, m, d)
			checkDateText(s, "ParseDate")
			checkDateText(s, "json")
		}
	})
	k = int64(len(years) * 100 * 100)
	family("date/text(yyyy-mm-dd, all mm,dd in 00..99 x 6 years, ParseDate + JSON)", 2*k, k)
	R.Sample(map[string]any{"family": "date/text", "input": "2023-02-29", "reference": "must-reject (impossible date)"})

	// reject side (b): single-character corruptions of valid dates
	bases := []string{"2024-02-29", "1999-12-31", "0001-01-02", "9999-12-31", "2023-06-15"}
	seen := map[string]bool{}
	all := []string{"", " ", "-", "--", "2024", "2024-02", "20240229", "2024/02/29", "29-02-2024", "2024-2-29", "2024-02-9", "24-02-29", "12024-02-29"}
	for _, s := range all {
		seen[s] = true
	}
	for _, b := range bases {
		for _, s := range corruptions(b, "0123456789- x/.T") {
			if !seen[s] {
				seen[s] = true
				all = append(all, s)
			}
		}
	}
	vk.Parallel(len(all), func(i int) {
		checkDateText(all[i], "ParseDate")
		checkDateText(all[i], "json")
	})
	family("date/text(single-character corruptions of 5 valid dates + odd shapes)", 2*int64(len(all)), int64(len(all)))
}

// ---------------------------------------------------------------- HH:mm

type hhmmCase struct {
	H int `json:"h"`
	M int `json:"m"`
}

func checkHHmm(h, m int) {
	c := hhmmCase{h, m}
	v := types.NewHHmm(h, m)
	got, enc, f := roundTrip("HHmm", v)
	if f != nil {
		violation(f.key, f.what, "hhmm", c)
	} else if got != v {
		R.Violation("C14/HHmm/json-roundtrip-differs", fmt.Sprintf("HHmm %02d:%02d -> %s -> %+v", h, m, enc, got), "hhmm", c)
	}
	var s string
	var p *types.HHmm
	var err error
	if pn, msg, frame := vk.Guard(func() { s = v.String(); p, err = types.HHmmFromString(s) }); pn {
		panicked("HHmmFromString", s, msg, frame, "hhmm", c)
	} else if err != nil || p == nil {
		R.Violation("C14/HHmmFromString/rejects-own-text", fmt.Sprintf("HHmmFromString(HHmm.String()) = HHmmFromString(%q) = %v, %v", s, p, err), "hhmm", c)
	} else if *p != v {
		R.Violation("C14/HHmm/text-roundtrip-differs", fmt.Sprintf("HHmm %02d:%02d -> %q -> %+v", h, m, s, *p), "hhmm", c)
	}
}

func checkHHmmText(s, via string) {
	c := textCase{s, via}
	h, m, ok := spec.HHmmTextParse(s)
	verdict := spec.TxtReject
	if ok {
		verdict = spec.TxtAccept
	}
	class := spec.HHmmTextRejectClass(s)
	var got types.HHmm
	var err error
	siteName := "HHmmFromString"
	if via == "json" {
		siteName = "HHmm.UnmarshalJSON"
		b, _ := json.Marshal(s)
		if pn, msg, frame := vk.Guard(func() { err = json.Unmarshal(b, &got) }); pn {
			panicked(siteName, s, msg, frame, "hhmm-text", c)
			return
		}
	} else {
		var p *types.HHmm
		if pn, msg, frame := vk.Guard(func() { p, err = types.HHmmFromString(s) }); pn {
			panicked(siteName, s, msg, frame, "hhmm-text", c)
			return
		}
		if err == nil && p == nil {
			R.Violation("C14/HHmmFromString/nil-without-error", fmt.Sprintf("HHmmFromString(%q) = nil, nil", s), "hhmm-text", c)
			return
		}
		if p != nil {
			got = *p
		}
	}
	judgeText(siteName, verdict, err, err == nil && got == types.NewHHmm(h, m), "valid-time", class, s, fmt.Sprintf("%+v", got), fmt.Sprintf("%02d:%02d", h, m), "hhmm-text", c)
}

func runHHmm() {
	n := int64(0)
	for h := 0; h <= 24; h++ {
		for m := 0; m <= 59; m++ {
			if spec.HHmmTextInDomain(h, m) {
				checkHHmm(h, m)
				n++
			}
		}
	}
	family("hhmm/accept(json+text roundtrip, all 1441 values)", 2*n, n)

	// every dd:dd
	for h := 0; h < 100; h++ { // sequential: the first case recorded per finding is the simplest one
		for m := 0; m < 100; m++ {
			s := fmt.Sprintf("%02d:%02d", h, m)
			checkHHmmText(s, "HHmmFromString")
			checkHHmmText(s, "json")
		}
	}
	family("hhmm/text(every dd:dd, HHmmFromString + JSON)", 20000, 10000)
	R.Sample(map[string]any{"family": "hhmm/text", "input": "23:60", "reference": "must-reject (minute above 59)"})
	R.Sample(map[string]any{"family": "hhmm/text", "input": "24:00", "reference": "must-accept 24:00"})

	// every string of length <= 5 (quick) / 6 (thorough) over {0,1,2,5,6,9,:}
	maxLen := 5
	if R.Thorough() {
		maxLen = 6
	}
	list := []string{}
	allStrings("012569:", maxLen, func(s string) { list = append(list, s) })
	vk.Parallel(len(list), func(i int) {
		checkHHmmText(list[i], "HHmmFromString")
		checkHHmmText(list[i], "json")
	})
	family(fmt.Sprintf("hhmm/text(every string of length 0..%d over {0,1,2,5,6,9,':'})", maxLen), 2*int64(len(list)), int64(len(list)))
}

// ---------------------------------------------------------------- PIN

func checkPIN(p uint32) {
	c := uintCase{p}
	got, enc, f := roundTrip("PIN", types.PIN(p))
	if f != nil {
		violation(f.key, f.what, "pin", c)
	} else if uint32(got) != p {
		R.Violation("C14/PIN/json-roundtrip-differs", fmt.Sprintf("PIN %d -> %s -> %d", p, enc, uint32(got)), "pin", c)
	}
}

func checkPINText(s string) {
	c := textCase{S: s}
	want, verdict := spec.TxtPIN(s)
	class := "non-digit-text"
	if len(s) > 6 && strings.Trim(s, "0123456789") == "" {
		class = "more-than-six-digits"
	}
	var got types.PIN
	var err error
	b, _ := json.Marshal(s)
	if pn, msg, frame := vk.Guard(func() { err = json.Unmarshal(b, &got) }); pn {
		panicked("PIN.UnmarshalJSON", s, msg, frame, "pin-text", c)
		return
	}
	judgeText("PIN.UnmarshalJSON", verdict, err, err == nil && uint32(got) == want, "valid-pin", class, s, fmt.Sprint(uint32(got)), fmt.Sprint(want), "pin-text", c)
}

func runPINs() {
	vk.Parallel(1000, func(i int) {
		for p := i * 1000; p < (i+1)*1000; p++ {
			checkPIN(uint32(p))
		}
	})
	family("pin/accept(json roundtrip, every PIN 0..999999)", 1000000, 1000000)

	list := []string{}
	allStrings("09x-", 8, func(s string) { list = append(list, s) })
	// all-digit lengths 1..8 of a non-zero-leading pattern, and the boundary numbers
	for _, s := range []string{"1", "12", "123", "1234", "12345", "123456", "1234567", "12345678", "999999", "1000000", "4294967295", "4294967296", "18446744073709551616", " 1", "1 ", "+1", "1.0", "1e3", "0x10"} {
		list = append(list, s)
	}
	// numbers congruent to a valid PIN modulo 2^32 / 2^64 / 10^7..10^20 (wrapping accumulators, parsers
	// that keep the last digits)
	for _, v := range []int64{0, 1, 7531, 999999} {
		b := big.NewInt(v)
		for _, bits := range []uint{32, 63, 64, 65} {
			list = append(list, new(big.Int).Add(b, new(big.Int).Lsh(big.NewInt(1), bits)).String())
		}
		list = append(list, fmt.Sprintf("1%06d", v), fmt.Sprintf("1%019d", v), fmt.Sprintf("1%039d", v))
	}
	vk.Parallel(len(list), func(i int) { checkPINText(list[i]) })
	family("pin/text(every string of length 0..8 over {0,9,'x','-'} + boundary numbers)", int64(len(list)), int64(len(list)))
	R.Sample(map[string]any{"family": "pin/text", "input": "9999999", "reference": "must-reject (more than six digits)"})
}

// ---------------------------------------------------------------- task types

func checkTaskType(code int) {
	c := uintCase{uint32(code)}
	v := types.TaskType(code)
	got, enc, f := roundTrip("TaskType", v)
	if f != nil {
		violation(f.key, f.what, "tasktype", c)
	} else if got != v {
		R.Violation("C14/TaskType/json-roundtrip-differs", fmt.Sprintf("TaskType %d -> %s -> %d", code, enc, int(got)), "tasktype", c)
	}
	// String() -> UnmarshalTSV
	var s string
	var out any
	var err error
	if pn, msg, frame := vk.Guard(func() { s = v.String(); var tt types.TaskType; out, err = tt.UnmarshalTSV(s) }); pn {
		panicked("TaskType.UnmarshalTSV", s, msg, frame, "tasktype", c)
	} else if err != nil {
		R.Violation("C14/TaskType.UnmarshalTSV/rejects-own-text", fmt.Sprintf("UnmarshalTSV(TaskType(%d).String()) = UnmarshalTSV(%q) = error %v", code, s, err), "tasktype", c)
	} else if t, ok := out.(types.TaskType); !ok || t != v {
		R.Violation("C14/TaskType/text-roundtrip-differs", fmt.Sprintf("TaskType %d -> %q -> %v", code, s, out), "tasktype", c)
	}
}

func decodeTaskType(raw []byte, text, via string) (got types.TaskType, err error, pn bool, msg, frame string) {
	if via == "tsv" {
		var out any
		pn, msg, frame = vk.Guard(func() { var tt types.TaskType; out, err = tt.UnmarshalTSV(text) })
		if !pn && err == nil {
			t, ok := out.(types.TaskType)
			if !ok {
				err = fmt.Errorf("UnmarshalTSV returned %T(%v) instead of a TaskType", out, out)
			}
			got = t
		}
		return
	}
	got = types.TaskType(-1)
	pn, msg, frame = vk.Guard(func() { err = json.Unmarshal(raw, &got) })
	return
}

// name spelled as text: via "json" (a JSON string) or "tsv" (UnmarshalTSV). ASCII only.
func checkTaskTypeText(s, via string) {
	c := textCase{s, via}
	code, verdict := spec.TxtTaskName(s)
	siteName := "TaskType.UnmarshalJSON"
	if via == "tsv" {
		siteName = "TaskType.UnmarshalTSV"
	}
	raw, _ := json.Marshal(s)
	got, err, pn, msg, frame := decodeTaskType(raw, s, via)
	if pn {
		panicked(siteName, s, msg, frame, "tasktype-text", c)
		return
	}
	judgeText(siteName, verdict, err, err == nil && int(got) == code, "task-name", "unknown-task-name", s, fmt.Sprint(int(got)), fmt.Sprint(code), "tasktype-text", c)
}

// number: via "json" (a bare JSON number) or "tsv".
func checkTaskTypeNumber(s, via string) {
	c := textCase{s, via}
	n, e := strconv.Atoi(s)
	if e != nil { // all-digit text too large for an int: certainly not 1..13
		n = 1 << 30
	}
	code, verdict := spec.TxtTaskNumber(n)
	siteName := "TaskType.UnmarshalJSON"
	if via == "tsv" {
		siteName = "TaskType.UnmarshalTSV"
	}
	got, err, pn, msg, frame := decodeTaskType([]byte(s), s, via)
	if pn {
		panicked(siteName, s, msg, frame, "tasktype-number", c)
		return
	}
	judgeText(siteName, verdict, err, err == nil && int(got) == code, "task-number", "task-number-outside-1..13", s, fmt.Sprint(int(got)), fmt.Sprint(code), "tasktype-number", c)
}

func runTaskTypes() {
	var n int64
	for code := 0; code <= 12; code++ {
		checkTaskType(code)
		n += 2
	}
	// spellings: original (upper case), lower case, mixed case, space-stripped, space-padded
	spell := map[string]bool{}
	for _, name := range spec.TxtTaskNames {
		mixed := []byte(strings.ToLower(name))
		for i := 0; i < len(mixed); i += 2 {
			if mixed[i] >= 'a' && mixed[i] <= 'z' {
				mixed[i] -= 'a' - 'A'
			}
		}
		for _, s := range []string{
			name, strings.ToLower(name), string(mixed),
			strings.ReplaceAll(name, " ", ""), strings.ReplaceAll(strings.ToLower(name), " ", ""),
			"  " + strings.ReplaceAll(name, " ", "   ") + " ",
		} {
			spell[s] = true
		}
	}
	for s := range spell {
		checkTaskTypeText(s, "json")
		checkTaskTypeText(s, "tsv")
		n += 2
	}
	for k := 1; k <= 13; k++ {
		checkTaskTypeNumber(strconv.Itoa(k), "json")
		checkTaskTypeNumber(strconv.Itoa(k), "tsv")
		n += 2
	}
	family("tasktype/accept(13 types: json roundtrip, String->TSV, 6 spellings and number 1..13 via JSON and TSV)", n, 13+int64(len(spell))+13)
	R.Sample(map[string]any{"family": "tasktype/accept", "input": "enablecard,nopassword", "reference": "must-accept code 5"})

	// reject side: numbers 0..20 outside 1..13 (and a few large ones)
	var k int64
	rejectNumbers := []string{"0", "14", "15", "16", "17", "18", "19", "20", "99", "256", "4294967297", "99999999999999999999"}
	// numbers that are congruent to a valid code modulo a power of two or ten (an accumulator that
	// wraps, or a parser that keeps only the last digits, turns them into valid codes)
	for v := 1; v <= 13; v++ {
		b := new(big.Int).SetInt64(int64(v))
		for _, bits := range []uint{8, 16, 31, 32, 63, 64, 65, 128} {
			rejectNumbers = append(rejectNumbers, new(big.Int).Add(b, new(big.Int).Lsh(big.NewInt(1), bits)).String())
		}
		rejectNumbers = append(rejectNumbers, new(big.Int).Add(b, new(big.Int).Lsh(big.NewInt(3), 64)).String(),
			fmt.Sprintf("1%039d", v), fmt.Sprintf("1%019d", v), fmt.Sprintf("1%02d", v))
	}
	for _, s := range rejectNumbers {
		checkTaskTypeNumber(s, "json")
		checkTaskTypeNumber(s, "tsv")
		k++
	}
	family("tasktype/number(0, 14..20, large numbers and every valid code + 2^8/16/31/32/63/64/65/128, + 3*2^64, 10^2/19/39 + code, via JSON and TSV)", 2*k, k)

	// reject side: every single-character corruption of every name (ASCII alphabet)
	list := []string{"", " ", "x", "DOOR", "CONTROL", "ENABLE", "UNLOCK", "LOCK DOORS", "UNKNOWN TASK", "CONTROL DOOR UNLOCK DOOR"}
	seen := map[string]bool{}
	for _, s := range list {
		seen[s] = true
	}
	for _, name := range spec.TxtTaskNames {
		for _, s := range corruptions(name, "AZx 0-") {
			if !seen[s] {
				seen[s] = true
				list = append(list, s)
			}
		}
	}
	vk.Parallel(len(list), func(i int) {
		checkTaskTypeText(list[i], "json")
		checkTaskTypeText(list[i], "tsv")
	})
	family("tasktype/text(every single-character corruption of the 13 names over {A,Z,x,' ',0,-}, JSON + TSV)", 2*int64(len(list)), int64(len(list)))
	R.Sample(map[string]any{"family": "tasktype/text", "input": "LOCK DOOx", "reference": "must-reject (letters spell no task)"})
}

// ---------------------------------------------------------------- control states

func checkControlState(code int) {
	c := uintCase{uint32(code)}
	v := types.ControlState(code)
	got, enc, f := roundTrip("ControlState", v)
	if f != nil {
		violation(f.key, f.what, "controlstate", c)
	} else if got != v {
		R.Violation("C14/ControlState/json-roundtrip-differs", fmt.Sprintf("ControlState %d -> %s -> %d", code, enc, int(got)), "controlstate", c)
	}
}

func checkControlStateText(s string) {
	c := textCase{S: s}
	code, verdict := spec.TxtControlState(s)
	got := types.ControlState(-1)
	var err error
	b, _ := json.Marshal(s)
	if pn, msg, frame := vk.Guard(func() { err = json.Unmarshal(b, &got) }); pn {
		panicked("ControlState.UnmarshalJSON", s, msg, frame, "controlstate-text", c)
		return
	}
	judgeText("ControlState.UnmarshalJSON", verdict, err, err == nil && int(got) == code, "control-state", "unknown-control-state", s, fmt.Sprint(int(got)), fmt.Sprint(code), "controlstate-text", c)
}

func runControlStates() {
	for code := 1; code <= 3; code++ {
		checkControlState(code)
		checkControlStateText(spec.TxtControlStateNames[code])
	}
	family("controlstate/accept(3 states: json roundtrip + name)", 6, 3)

	list := []string{"", " ", "unknown", "open", "closed", "normally", "normally  open", "0", "1", "2", "3", "4"}
	seen := map[string]bool{}
	for _, s := range list {
		seen[s] = true
	}
	for code := 1; code <= 3; code++ {
		for _, s := range corruptions(spec.TxtControlStateNames[code], "azX 0-") {
			if !seen[s] {
				seen[s] = true
				list = append(list, s)
			}
		}
	}
	for _, s := range list {
		checkControlStateText(s)
	}
	family("controlstate/text(every single-character corruption of the 3 names over {a,z,X,' ',0,-})", int64(len(list)), int64(len(list)))
	R.Sample(map[string]any{"family": "controlstate/text", "input": "normally opened", "reference": "must-reject (unknown control state)"})
}

// ---------------------------------------------------------------- version, MAC

func checkVersion(v uint16) {
	c := uintCase{uint32(v)}
	got, enc, f := roundTrip("Version", types.Version(v))
	if f != nil {
		violation(f.key, f.what, "version", c)
	} else if uint16(got) != v {
		R.Violation("C14/Version/json-roundtrip-differs", fmt.Sprintf("Version 0x%04x -> %s -> 0x%04x", v, enc, uint16(got)), "version", c)
	}
}

type macCase struct {
	B [6]int `json:"bytes"`
}

func checkMAC(x macCase) {
	v := make(types.MacAddress, 6)
	for i := range v {
		v[i] = byte(x.B[i])
	}
	got, enc, f := roundTrip("MacAddress", v)
	if f != nil {
		violation(f.key, f.what, "mac", x)
	} else if !bytes.Equal(got, v) {
		R.Violation("C14/MacAddress/json-roundtrip-differs", fmt.Sprintf("MAC %x -> %s -> %x", []byte(v), enc, []byte(got)), "mac", x)
	}
}

func runVersionsAndMACs() {
	vk.Parallel(256, func(hi int) {
		for lo := 0; lo < 256; lo++ {
			checkVersion(uint16(hi<<8 | lo))
		}
	})
	family("version/accept(json roundtrip, all 65536)", 65536, 65536)

	base := [6]int{0x00, 0x12, 0x23, 0x34, 0x45, 0x56}
	var n int64
	for pos := 0; pos < 6; pos++ {
		for v := 0; v < 256; v++ {
			x := macCase{base}
			x.B[pos] = v
			checkMAC(x)
			n++
		}
	}
	checkMAC(macCase{[6]int{0, 0, 0, 0, 0, 0}})
	checkMAC(macCase{[6]int{255, 255, 255, 255, 255, 255}})
	family("mac/accept(json roundtrip, every value of every byte position + all-zero + all-ones)", n+2, n+2-6+1)
}

// ---------------------------------------------------------------- system time, card format

type hmsCase struct {
	H int `json:"h"`
	M int `json:"m"`
	S int `json:"s"`
}

func checkSystemTime(h, m, s int) {
	c := hmsCase{h, m, s}
	v := types.SystemTime(time.Date(0, 1, 1, h, m, s, 0, time.Local))
	var text string
	var p *types.SystemTime
	var err error
	if pn, msg, frame := vk.Guard(func() { text = v.String(); p, err = types.TimeFromString(text) }); pn {
		panicked("TimeFromString", text, msg, frame, "systemtime", c)
	} else if err != nil || p == nil {
		R.Violation("C14/TimeFromString/rejects-own-text", fmt.Sprintf("TimeFromString(SystemTime.String()) = TimeFromString(%q) = %v, %v", text, p, err), "systemtime", c)
	} else if gh, gm, gs := time.Time(*p).Clock(); gh != h || gm != m || gs != s {
		R.Violation("C14/SystemTime/text-roundtrip-differs", fmt.Sprintf("SystemTime %02d:%02d:%02d -> %q -> %02d:%02d:%02d", h, m, s, text, gh, gm, gs), "systemtime", c)
	}
}

func checkSystemTimeText(s string) {
	c := textCase{S: s}
	h, m, sec, verdict := spec.TxtHMS(s)
	var p *types.SystemTime
	var err error
	if pn, msg, frame := vk.Guard(func() { p, err = types.TimeFromString(s) }); pn {
		panicked("TimeFromString", s, msg, frame, "systemtime-text", c)
		return
	}
	same := false
	gotText := "nil"
	if err == nil && p != nil {
		gh, gm, gs := time.Time(*p).Clock()
		same = gh == h && gm == m && gs == sec
		gotText = fmt.Sprintf("%02d:%02d:%02d", gh, gm, gs)
	}
	judgeText("TimeFromString", verdict, err, same, "valid-time", "time-out-of-range", s, gotText, fmt.Sprintf("%02d:%02d:%02d", h, m, sec), "systemtime-text", c)
}

func checkCardFormat(code int) {
	c := uintCase{uint32(code)}
	v := types.CardFormat(code)
	var text string
	var got types.CardFormat
	var err error
	if pn, msg, frame := vk.Guard(func() { text = v.String(); got, err = types.CardFormatFromString(text) }); pn {
		panicked("CardFormatFromString", text, msg, frame, "cardformat", c)
	} else if err != nil {
		R.Violation("C14/CardFormatFromString/rejects-own-text", fmt.Sprintf("CardFormatFromString(%q) = error %v", text, err), "cardformat", c)
	} else if got != v {
		R.Violation("C14/CardFormat/text-roundtrip-differs", fmt.Sprintf("CardFormat %d -> %q -> %d", code, text, int(got)), "cardformat", c)
	}
}

func runSystemTimesAndCardFormats() {
	vk.Parallel(24, func(h int) {
		for m := 0; m < 60; m++ {
			for s := 0; s < 60; s++ {
				checkSystemTime(h, m, s)
			}
		}
	})
	family("systemtime/accept(String->TimeFromString, all 86400 times)", 86400, 86400)

	vk.Parallel(100, func(h int) {
		for m := 0; m < 100; m++ {
			for s := 0; s < 100; s++ {
				checkSystemTimeText(fmt.Sprintf("%02d:%02d:%02d", h, m, s))
			}
		}
	})
	extra := []string{"", ":", "::", "12:00", "1:00:00", "12:0:00", "12:00:0", "120000", "12:00:00 ", " 12:00:00", "12:00:00.5", "xx:00:00", "-1:00:00"}
	for _, s := range extra { // shapes other than dd:dd:dd are unconstrained: executed for panics only
		checkSystemTimeText(s)
	}
	family("systemtime/text(every dd:dd:dd + odd shapes)", 1000000+int64(len(extra)), 1000000+int64(len(extra)))
	R.Sample(map[string]any{"family": "systemtime/text", "input": "23:60:00", "reference": "must-reject (minute above 59)"})

	checkCardFormat(0)
	checkCardFormat(1)
	// the reject side of card-format text is unconstrained (round trip only): execute a few for panics
	for _, s := range []string{"", "any", "ANY", "Wiegand-26", "wiegand 26", "wiegand26", "Wiegand-34", "x"} {
		s := s
		if pn, msg, frame := vk.Guard(func() { types.CardFormatFromString(s) }); pn {
			panicked("CardFormatFromString", s, msg, frame, "cardformat", uintCase{0})
		}
		unconstrained.Add(1)
	}
	family("cardformat/accept(String->CardFormatFromString, both formats; 8 free texts for panics)", 10, 2)
}

func runScalars() {
	runDates()
	runHHmm()
	runPINs()
	runTaskTypes()
	runControlStates()
	runVersionsAndMACs()
	runSystemTimesAndCardFormats()
}
