package main

import (
	"encoding/json"
	"fmt"
	"net/netip"
	"strconv"
	"sync/atomic"

	"github.com/uhppoted/uhppote-core/types"
	"verif/spec"
	"verif/vk"
)

// The four address roles and their port rules (property text): bind may not use port 60000
// (default 0), listen neither 0 nor 60000 (port mandatory), broadcast and controller not 0
// (default 60000). The grammar itself belongs to C15; this check only judges the JSON round trip
// of in-domain values and the rejection of text that violates a port rule, names an octet/port
// outside its range, or contains no dotted quad at all. Everything else is unconstrained.

var addrRoles = []string{"bind", "broadcast", "listen", "controller"}

func portAllowed(role string, port int) bool {
	switch role {
	case "bind":
		return port != 60000
	case "listen":
		return port != 0 && port != 60000
	}
	return port != 0
}

func defaultPort(role string) (int, bool) {
	switch role {
	case "bind":
		return 0, true
	case "listen":
		return 0, false
	}
	return 60000, true
}

type addrCase struct {
	Role string `json:"role"`
	IP   [4]int `json:"ip"`
	Port int    `json:"port"`
}

type addrTextCase struct {
	Role string `json:"role"`
	S    string `json:"s"`
}

func mkAddrPort(ip [4]int, port int) netip.AddrPort {
	return netip.AddrPortFrom(netip.AddrFrom4([4]byte{byte(ip[0]), byte(ip[1]), byte(ip[2]), byte(ip[3])}), uint16(port))
}

func sameAddrPort(got, want netip.AddrPort) bool {
	return got.Addr().Unmap() == want.Addr() && got.Port() == want.Port()
}

// accept side: JSON round trip of an in-domain address of the role.
func checkAddr(x addrCase) {
	ap := mkAddrPort(x.IP, x.Port)
	var got netip.AddrPort
	var enc []byte
	var f *failure
	typ := ""
	switch x.Role {
	case "bind":
		typ = "BindAddr"
		var g types.BindAddr
		g, enc, f = roundTrip(typ, types.BindAddr{AddrPort: ap})
		got = g.AddrPort
	case "broadcast":
		typ = "BroadcastAddr"
		var g types.BroadcastAddr
		g, enc, f = roundTrip(typ, types.BroadcastAddr{AddrPort: ap})
		got = g.AddrPort
	case "listen":
		typ = "ListenAddr"
		var g types.ListenAddr
		g, enc, f = roundTrip(typ, types.ListenAddr{AddrPort: ap})
		got = g.AddrPort
	case "controller":
		typ = "ControllerAddr"
		var g types.ControllerAddr
		g, enc, f = roundTrip(typ, types.ControllerAddr{AddrPort: ap})
		got = g.AddrPort
	default:
		R.Machinery("unknown address role %q", x.Role)
		return
	}
	if f != nil {
		violation(f.key, f.what, "addr", x)
	} else if !sameAddrPort(got, ap) {
		R.Violation("C14/"+typ+"/json-roundtrip-differs", fmt.Sprintf("%s %v -> %s -> %v", typ, ap, enc, got), "addr", x)
	}
}

// strictAddr: d{1,3}.d{1,3}.d{1,3}.d{1,3}[:d{1,5}] and nothing else; returns the raw numbers.
func strictAddr(s string) (oct [4]int, port int, hasPort, leadingZero, ok bool) {
	i := 0
	num := func(max int) (int, bool) {
		j := i
		for j < len(s) && j-i < max && s[j] >= '0' && s[j] <= '9' {
			j++
		}
		if j == i {
			return 0, false
		}
		if j-i > 1 && s[i] == '0' {
			leadingZero = true
		}
		v, _ := strconv.Atoi(s[i:j])
		i = j
		return v, true
	}
	for g := 0; g < 4; g++ {
		v, k := num(3)
		if !k {
			return oct, 0, false, false, false
		}
		oct[g] = v
		if g < 3 {
			if i >= len(s) || s[i] != '.' {
				return oct, 0, false, false, false
			}
			i++
		}
	}
	if i == len(s) {
		return oct, 0, false, leadingZero, true
	}
	if s[i] != ':' {
		return oct, 0, false, false, false
	}
	i++
	v, k := num(5)
	if !k || i != len(s) {
		return oct, 0, false, false, false
	}
	return oct, v, true, leadingZero, true
}

// containsQuad: does any substring look like d{1,3}.d{1,3}.d{1,3}.d{1,3} ?
func containsQuad(s string) bool {
	digit := func(i int) bool { return i < len(s) && s[i] >= '0' && s[i] <= '9' }
	for start := 0; start < len(s); start++ {
		i, ok := start, true
		for g := 0; g < 4 && ok; g++ {
			run := 0
			for digit(i + run) {
				run++
			}
			switch {
			case run == 0:
				ok = false
			case g == 3:
				// last group: any prefix of the run will do
			case run > 3:
				ok = false
			default:
				i += run
				if i < len(s) && s[i] == '.' {
					i++
				} else {
					ok = false
				}
			}
		}
		if ok {
			return true
		}
	}
	return false
}

func refAddrText(role, s string) (ap netip.AddrPort, v spec.TxtVerdict, class string) {
	oct, port, hasPort, lz, ok := strictAddr(s)
	if !ok {
		if !containsQuad(s) {
			return ap, spec.TxtReject, "text-without-address"
		}
		return ap, spec.TxtFree, ""
	}
	for _, o := range oct {
		if o > 255 {
			return ap, spec.TxtReject, "octet-above-255"
		}
	}
	if hasPort && port > 65535 {
		return ap, spec.TxtReject, "port-above-65535"
	}
	if lz {
		return ap, spec.TxtFree, ""
	}
	if !hasPort {
		p, has := defaultPort(role)
		if !has {
			return ap, spec.TxtReject, "address-without-port"
		}
		return mkAddrPort(oct, p), spec.TxtAccept, ""
	}
	if !portAllowed(role, port) {
		return ap, spec.TxtReject, "port-" + strconv.Itoa(port)
	}
	return mkAddrPort(oct, port), spec.TxtAccept, ""
}

func checkAddrText(x addrTextCase) {
	want, verdict, class := refAddrText(x.Role, x.S)
	b, _ := json.Marshal(x.S)
	var got netip.AddrPort
	var err error
	siteName := ""
	var pn bool
	var msg, frame string
	switch x.Role {
	case "bind":
		siteName = "BindAddr.UnmarshalJSON"
		var g types.BindAddr
		pn, msg, frame = vk.Guard(func() { err = json.Unmarshal(b, &g) })
		got = g.AddrPort
	case "broadcast":
		siteName = "BroadcastAddr.UnmarshalJSON"
		var g types.BroadcastAddr
		pn, msg, frame = vk.Guard(func() { err = json.Unmarshal(b, &g) })
		got = g.AddrPort
	case "listen":
		siteName = "ListenAddr.UnmarshalJSON"
		var g types.ListenAddr
		pn, msg, frame = vk.Guard(func() { err = json.Unmarshal(b, &g) })
		got = g.AddrPort
	case "controller":
		siteName = "ControllerAddr.UnmarshalJSON"
		var g types.ControllerAddr
		pn, msg, frame = vk.Guard(func() { err = json.Unmarshal(b, &g) })
		got = g.AddrPort
	default:
		R.Machinery("unknown address role %q", x.Role)
		return
	}
	if pn {
		panicked(siteName, x.S, msg, frame, "addr-text", x)
		return
	}
	judgeText(siteName, verdict, err, err == nil && sameAddrPort(got, want), "valid-address", class, x.S, got.String(), want.String(), "addr-text", x)
}

func runAddresses() {
	ips := [][4]int{{192, 168, 1, 100}, {0, 0, 0, 0}, {127, 0, 0, 1}, {10, 0, 0, 1}, {255, 255, 255, 255}}
	var acc, rej atomic.Int64
	// every port 0..65535: thorough with all 5 addresses, quick with the first address (and the
	// other four at the boundary ports)
	boundary := map[int]bool{0: true, 1: true, 9: true, 10: true, 80: true, 999: true, 1000: true, 9999: true, 10000: true, 59999: true, 60000: true, 60001: true, 65534: true, 65535: true}
	vk.Parallel(65536, func(port int) {
		for _, role := range addrRoles {
			for i, ip := range ips {
				if i > 0 && R.Quick() && !boundary[port] {
					continue
				}
				if portAllowed(role, port) {
					checkAddr(addrCase{role, ip, port})
					acc.Add(1)
				} else {
					checkAddrText(addrTextCase{role, fmt.Sprintf("%d.%d.%d.%d:%d", ip[0], ip[1], ip[2], ip[3], port)})
					rej.Add(1)
				}
			}
		}
	})
	family("addr/accept(json roundtrip: 4 roles x every port the role allows x 5 addresses (quick: 1 address, 5 at 14 boundary ports))", acc.Load(), acc.Load())
	family("addr/text(4 roles x 5 addresses x the ports the role forbids)", rej.Load(), rej.Load())
	R.Sample(map[string]any{"family": "addr/text", "role": "bind", "input": "192.168.1.100:60000", "reference": "must-reject (bind may not use port 60000)"})

	texts := []string{"", " ", "x", "localhost", "localhost:60001", "1.2.3", "1.2.3:60001", ":60001", "60001", "1.2.3.", "...", "a.b.c.d", "a.b.c.d:60001",
		"256.1.1.1", "1.2.3.256", "1.2.3.256:60001", "999.999.999.999", "300.300.300.300:60001", "1.2.3.4:65536", "1.2.3.4:99999", "[::1]:60001", "::1",
		// unconstrained shapes (executed for panics only)
		"1.2.3.4:", "1.2.3.4:x", " 1.2.3.4", "1.2.3.4 ", "01.2.3.4", "1.2.3.4:080", "1.2.3.4.5", "::ffff:1.2.3.4", "1.2.3.4:123456", "1234.1.1.1"}
	for _, ip := range ips {
		texts = append(texts, fmt.Sprintf("%d.%d.%d.%d", ip[0], ip[1], ip[2], ip[3]))
	}
	var n int64
	for _, role := range addrRoles {
		for _, s := range texts {
			checkAddrText(addrTextCase{role, s})
			n++
		}
	}
	family("addr/text(4 roles x bare addresses (default / mandatory port), out-of-range octets and ports, text without an address)", n, n)
}
