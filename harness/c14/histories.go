package main

// Histories: decoding must be a function of the text alone. Every value family below is decoded
// pairwise, one document directly after the other, FROM THE SAME REUSED INPUT BUFFER (the second
// document overwrites the first in place, as a stream decoder or a caller with a receive buffer
// does) and after the result of the first decode has been scribbled over. A decoder that keeps
// state between calls - a memo keyed by (a lossy function of) the value, a retained slice of its
// input, a pooled scratch structure, a result that shares storage with a cache - shows up as a
// second result that differs from what the same text decodes to on its own.

import (
	"bytes"
	"encoding/json"
	"fmt"
	"net"
	"net/netip"
	"reflect"
	"time"

	"github.com/uhppoted/uhppote-core/types"
	"verif/vk"
)

type historyCase struct {
	Type   string `json:"type"`
	First  string `json:"first"`
	Second string `json:"second"`
	Via    string `json:"via"`
}

var reuse = make([]byte, 0, 1<<16)

// load puts doc into the shared buffer, overwriting whatever the previous decode was given.
func load(doc []byte) []byte {
	for i := range reuse[:cap(reuse)][:len(doc)+8] {
		reuse[:cap(reuse)][i] = ' '
	}
	reuse = reuse[:len(doc)]
	copy(reuse, doc)
	return reuse
}

// canon renders a decoded value through its own MarshalJSON (deterministic) - the API-visible content.
func canon(v any) string {
	b, err := json.Marshal(v)
	if err != nil {
		return "marshal error: " + err.Error()
	}
	return string(b)
}

// scribble overwrites everything reachable and mutable in *p (maps cleared and refilled with junk,
// slices overwritten, scalars changed): a later decode must not be affected by it.
func scribble(v reflect.Value) {
	switch v.Kind() {
	case reflect.Ptr:
		if !v.IsNil() {
			scribble(v.Elem())
		}
	case reflect.Map:
		if v.IsNil() {
			return
		}
		for _, k := range v.MapKeys() {
			e := reflect.New(v.Type().Elem()).Elem()
			e.Set(v.MapIndex(k))
			scribble(e)
			v.SetMapIndex(k, e)
		}
	case reflect.Slice:
		for i := 0; i < v.Len(); i++ {
			scribble(v.Index(i))
		}
	case reflect.Struct:
		if v.Type() == reflect.TypeOf(time.Time{}) {
			if v.CanSet() {
				v.Set(reflect.ValueOf(v.Interface().(time.Time).Add(26*time.Hour + 61*time.Minute)))
			}
			return
		}
		for i := 0; i < v.NumField(); i++ {
			if v.Field(i).CanSet() {
				scribble(v.Field(i))
			}
		}
	case reflect.Bool:
		if v.CanSet() {
			v.SetBool(!v.Bool())
		}
	case reflect.Int, reflect.Int8, reflect.Int16, reflect.Int32, reflect.Int64:
		if v.CanSet() {
			v.SetInt(v.Int() ^ 5)
		}
	case reflect.Uint, reflect.Uint8, reflect.Uint16, reflect.Uint32, reflect.Uint64:
		if v.CanSet() {
			v.SetUint(v.Uint() ^ 5)
		}
	case reflect.String:
		if v.CanSet() {
			v.SetString(v.String() + "~")
		}
	}
}

// pairHistories decodes every ordered pair of docs (JSON texts of in-domain values of type T).
func pairHistories[T any](typ string, docs [][]byte) int64 {
	// what each text decodes to on its own (first use of a fresh buffer, nothing decoded before it
	// in this pairing): established once per text, and itself covered by the round-trip families
	alone := make([]string, len(docs))
	for i, d := range docs {
		var x T
		if err := json.Unmarshal(append([]byte{}, d...), &x); err != nil {
			alone[i] = "error: " + err.Error()
		} else {
			alone[i] = canon(x)
		}
	}
	var n int64
	for i := range docs {
		for j := range docs {
			n++
			c := historyCase{typ, string(docs[i]), string(docs[j]), "json.Unmarshal from one reused buffer"}
			var first, second T
			var e1, e2 error
			if p, msg, frame := vk.Guard(func() {
				e1 = json.Unmarshal(load(docs[i]), &first)
				scribble(reflect.ValueOf(&first))
				e2 = json.Unmarshal(load(docs[j]), &second)
			}); p {
				violation("C14/"+site(frame, typ+".UnmarshalJSON")+"/history/panic", func() string {
					return fmt.Sprintf("decoding %s and then %s (same input buffer) panicked: %s", docs[i], docs[j], msg)
				}, "history", c)
				continue
			}
			_ = e1
			got := ""
			if e2 != nil {
				got = "error: " + e2.Error()
			} else {
				got = canon(second)
			}
			if got != alone[j] {
				violation("C14/"+typ+".UnmarshalJSON/history/result-depends-on-previous-decode", func() string {
					return fmt.Sprintf("json.Unmarshal(%s) into a fresh %s gives %s on its own, but %s directly after decoding %s from the same (reused) input buffer", docs[j], typ, alone[j], got, docs[i])
				}, "history", c)
			}
		}
	}
	return n
}

func docsOf[T any](vals []T) [][]byte {
	out := [][]byte{}
	seen := map[string]bool{}
	for _, v := range vals {
		b, err := json.Marshal(v)
		if err != nil || seen[string(b)] {
			continue
		}
		seen[string(b)] = true
		out = append(out, b)
	}
	return out
}

func quoted(ss ...string) [][]byte {
	out := [][]byte{}
	for _, s := range ss {
		b, _ := json.Marshal(s)
		out = append(out, b)
	}
	return out
}

func runHistories() {
	var n int64
	// dates: every ordered pair over all days of a 15-month window (year end, leap day) + far years
	dates := []types.Date{}
	for d := time.Date(2023, 12, 1, 12, 0, 0, 0, time.UTC); d.Before(time.Date(2025, 3, 1, 0, 0, 0, 0, time.UTC)); d = d.AddDate(0, 0, 1) {
		dates = append(dates, types.ToDate(d.Year(), d.Month(), d.Day()))
	}
	for _, y := range []int{1, 999, 1899, 1900, 2000, 2262, 2263, 2300, 2301, 9999} {
		for _, md := range [][2]int{{1, 2}, {2, 28}, {9, 2}, {9, 8}, {12, 31}} {
			dates = append(dates, types.ToDate(y, time.Month(md[0]), md[1]))
		}
	}
	n += pairHistories[types.Date]("Date", docsOf(dates))
	n += spellings[types.Date]("Date", docsOf(dates))

	hhmm := []types.HHmm{}
	for h := 0; h <= 24; h++ {
		for _, m := range []int{0, 1, 29, 30, 59} {
			if h == 24 && m != 0 {
				continue
			}
			hhmm = append(hhmm, types.NewHHmm(h, m))
		}
	}
	n += pairHistories[types.HHmm]("HHmm", docsOf(hhmm))
	n += spellings[types.HHmm]("HHmm", docsOf(hhmm))

	// task types: every name in upper and lower case, every number
	tt := [][]byte{}
	for code := 0; code <= 12; code++ {
		name := types.TaskType(code).String()
		tt = append(tt, quoted(name, lower(name))...)
		tt = append(tt, []byte(fmt.Sprint(code+1)))
	}
	n += pairHistories[types.TaskType]("TaskType", tt)
	n += spellings[types.TaskType]("TaskType", tt)

	n += pairHistories[types.ControlState]("ControlState", docsOf([]types.ControlState{1, 2, 3}))
	n += spellings[types.ControlState]("ControlState", docsOf([]types.ControlState{1, 2, 3}))
	n += pairHistories[types.PIN]("PIN", docsOf([]types.PIN{0, 1, 9, 10, 7531, 99999, 100000, 999999}))
	n += spellings[types.PIN]("PIN", docsOf([]types.PIN{0, 1, 9, 10, 7531, 99999, 100000, 999999}))
	n += pairHistories[types.Version]("Version", docsOf([]types.Version{0x0000, 0x0662, 0x0892, 0x1000, 0x9999, 0xffff}))
	n += spellings[types.Version]("Version", docsOf([]types.Version{0x0000, 0x0662, 0x0892, 0x1000, 0x9999, 0xffff}))
	n += pairHistories[types.MacAddress]("MacAddress", docsOf([]types.MacAddress{
		types.MacAddress(net.HardwareAddr{0, 0x66, 0x19, 0x39, 0x55, 0x2d}), types.MacAddress(net.HardwareAddr{0xff, 0xfe, 0xfd, 0xfc, 0xfb, 0xfa}), types.MacAddress(net.HardwareAddr{1, 2, 3, 4, 5, 6})}))

	ap := func(s string) netip.AddrPort { return netip.MustParseAddrPort(s) }
	addrs := []string{"192.168.1.100:60001", "192.168.1.100:12345", "10.0.0.1:60001", "10.0.0.10:1", "1.2.3.4:65535"}
	{
		b, bc, l, c := []types.BindAddr{}, []types.BroadcastAddr{}, []types.ListenAddr{}, []types.ControllerAddr{}
		for _, a := range addrs {
			b = append(b, types.BindAddrFrom(ap(a).Addr(), ap(a).Port()))
			bc = append(bc, types.BroadcastAddrFrom(ap(a).Addr(), ap(a).Port()))
			l = append(l, types.ListenAddrFrom(ap(a).Addr(), ap(a).Port()))
			c = append(c, types.ControllerAddrFrom(ap(a).Addr(), ap(a).Port()))
		}
		b = append(b, types.BindAddrFrom(ap(addrs[0]).Addr(), 0))
		bc = append(bc, types.BroadcastAddrFrom(ap(addrs[0]).Addr(), 60000))
		c = append(c, types.ControllerAddrFrom(ap(addrs[0]).Addr(), 60000))
		n += pairHistories[types.BindAddr]("BindAddr", docsOf(b))
		n += spellings[types.BindAddr]("BindAddr", docsOf(b))
		n += pairHistories[types.BroadcastAddr]("BroadcastAddr", docsOf(bc))
		n += spellings[types.BroadcastAddr]("BroadcastAddr", docsOf(bc))
		n += pairHistories[types.ListenAddr]("ListenAddr", docsOf(l))
		n += spellings[types.ListenAddr]("ListenAddr", docsOf(l))
		n += pairHistories[types.ControllerAddr]("ControllerAddr", docsOf(c))
		n += spellings[types.ControllerAddr]("ControllerAddr", docsOf(c))
	}

	days := func(d ...time.Weekday) types.Weekdays {
		w := types.Weekdays{}
		for _, x := range d {
			w[x] = true
		}
		return w
	}
	wk := []types.Weekdays{days(), days(time.Monday), days(time.Sunday), days(time.Monday, time.Wednesday, time.Friday), days(time.Tuesday, time.Thursday, time.Saturday),
		days(time.Monday, time.Tuesday, time.Wednesday, time.Thursday, time.Friday, time.Saturday, time.Sunday)}
	n += pairHistories[types.Weekdays]("Weekdays", docsOf(wk))
	n += spellings[types.Weekdays]("Weekdays", docsOf(wk))

	seg := func(v ...int) types.Segments {
		s := types.Segments{}
		for i := 0; i+3 < len(v); i += 4 {
			s[uint8(i/4+1)] = types.Segment{Start: types.NewHHmm(v[i], v[i+1]), End: types.NewHHmm(v[i+2], v[i+3])}
		}
		return s
	}
	sg := []types.Segments{seg(8, 30, 9, 45, 0, 0, 0, 0, 14, 0, 17, 0), seg(0, 0, 24, 0, 0, 0, 0, 0, 0, 0, 0, 0), seg(9, 0, 9, 0, 10, 15, 11, 15, 23, 59, 24, 0), seg(0, 0, 0, 0, 0, 0, 0, 0, 0, 0, 0, 0)}
	n += pairHistories[types.Segments]("Segments", docsOf(sg))
	n += spellings[types.Segments]("Segments", docsOf(sg))

	cards := []types.Card{
		{CardNumber: 8165538, From: types.ToDate(2024, 1, 1), To: types.ToDate(2024, 12, 31), Doors: map[uint8]uint8{1: 1, 2: 0, 3: 29, 4: 1}, PIN: 7531},
		{CardNumber: 8165539, From: types.ToDate(2023, 12, 28), To: types.ToDate(2025, 1, 3), Doors: map[uint8]uint8{1: 0, 2: 1, 3: 0, 4: 0}},
		{CardNumber: 1, From: types.ToDate(2000, 2, 29), To: types.ToDate(2000, 3, 1), Doors: map[uint8]uint8{1: 255, 2: 254, 3: 2, 4: 0}, PIN: 999999},
	}
	cardDocs := docsOf(cards)
	// partial documents (omitted doors / PIN): what they decode to must not depend on the previous card
	cardDocs = append(cardDocs, []byte(`{"card-number":8165540,"start-date":"2024-02-01","end-date":"2024-11-30","doors":{"2":1}}`),
		[]byte(`{"card-number":8165541,"start-date":"2024-02-01","end-date":"2024-11-30","doors":{}}`))
	n += pairHistories[types.Card]("Card", cardDocs)
	n += spellings[types.Card]("Card", cardDocs)

	profiles := []types.TimeProfile{
		{ID: 29, LinkedProfileID: 3, From: types.ToDate(2024, 1, 1), To: types.ToDate(2024, 12, 31), Weekdays: wk[3], Segments: sg[0]},
		{ID: 2, From: types.ToDate(2023, 12, 31), To: types.ToDate(2025, 1, 6), Weekdays: wk[4], Segments: sg[2]},
		{ID: 254, LinkedProfileID: 253, From: types.ToDate(2024, 12, 26), To: types.ToDate(2025, 1, 1), Weekdays: wk[5], Segments: sg[1]},
	}
	profDocs := docsOf(profiles)
	profDocs = append(profDocs, []byte(`{"id":30,"start-date":"2024-03-01","end-date":"2024-03-31","weekdays":"Monday","segments":[{"start":"10:00","end":"11:00"}]}`),
		[]byte(`{"id":31,"start-date":"2024-03-01","end-date":"2024-03-31"}`))
	n += pairHistories[types.TimeProfile]("TimeProfile", profDocs)
	n += spellings[types.TimeProfile]("TimeProfile", profDocs)

	tasks := []types.Task{}
	for code := 0; code <= 12; code++ {
		tasks = append(tasks, types.Task{Task: types.TaskType(code), Door: uint8(code%4 + 1), From: types.ToDate(2024, 1, 1+code), To: types.ToDate(2024, 12, 31-code), Weekdays: wk[code%len(wk)], Start: types.NewHHmm(code, 59-code), Cards: uint8(code)})
	}
	n += pairHistories[types.Task]("Task", docsOf(tasks))
	n += spellings[types.Task]("Task", docsOf(tasks))

	dts := []types.DateTime{}
	for _, t := range []time.Time{time.Date(2024, 3, 10, 1, 59, 59, 0, time.Local), time.Date(2024, 12, 31, 23, 59, 59, 0, time.Local), time.Date(2025, 1, 6, 0, 0, 0, 0, time.Local), time.Date(2024, 12, 31, 0, 0, 0, 0, time.Local), time.Date(1999, 12, 31, 12, 0, 0, 0, time.Local), time.Date(2000, 1, 1, 12, 0, 0, 0, time.Local)} {
		dts = append(dts, types.DateTime(t))
	}
	n += pairHistories[types.DateTime]("DateTime", docsOf(dts))
	n += spellings[types.DateTime]("DateTime", docsOf(dts))

	// text parsers that hand out pointers: the result of one call is overwritten, then the same and
	// other texts are parsed again
	texts := []string{"00:00", "08:30", "08:31", "17:00", "23:59", "24:00"}
	for _, a := range texts {
		for _, b := range texts {
			n++
			c := historyCase{"HHmm", a, b, "HHmmFromString, first result overwritten through the returned pointer"}
			var first, second *types.HHmm
			var e1, e2 error
			if p, msg, frame := vk.Guard(func() {
				first, e1 = types.HHmmFromString(a)
				if e1 == nil && first != nil {
					*first = types.NewHHmm(13, 13)
				}
				second, e2 = types.HHmmFromString(b)
			}); p {
				violation("C14/"+site(frame, "HHmmFromString")+"/history/panic", func() string { return msg }, "history", c)
				continue
			}
			if e2 != nil || second == nil || second.String() != b {
				got := "<nil>"
				if second != nil {
					got = second.String()
				}
				violation("C14/HHmmFromString/history/result-depends-on-previous-call", func() string {
					return fmt.Sprintf("HHmmFromString(%q) = %s (err %v) after the result of HHmmFromString(%q) was overwritten by the caller", b, got, e2, a)
				}, "history", c)
			}
			if first != nil && second != nil && first == second {
				violation("C14/HHmmFromString/history/returns-shared-storage", func() string {
					return fmt.Sprintf("HHmmFromString(%q) and HHmmFromString(%q) returned the same pointer", a, b)
				}, "history", c)
			}
		}
	}
	// ParseDate over the year-end window, consecutive calls
	for i := range dates[:457] {
		for j := range dates[:457] {
			if d := i - j; d < -40 || d > 40 {
				continue
			}
			n++
			a, b := dates[i].String(), dates[j].String()
			var got types.Date
			var err error
			if p, msg, frame := vk.Guard(func() { types.ParseDate(a); got, err = types.ParseDate(b) }); p {
				violation("C14/"+site(frame, "ParseDate")+"/history/panic", func() string { return msg }, "history", historyCase{"Date", a, b, "ParseDate"})
				continue
			}
			if err != nil || got.String() != b {
				violation("C14/ParseDate/history/result-depends-on-previous-call", func() string {
					return fmt.Sprintf("ParseDate(%q) = %v (err %v) directly after ParseDate(%q)", b, got, err, a)
				}, "history", historyCase{"Date", a, b, "ParseDate"})
			}
		}
	}
	family("histories/pairs-from-one-reused-buffer", n, n)
	_ = bytes.Equal
}

func lower(s string) string {
	b := []byte(s)
	for i, c := range b {
		if c >= 'A' && c <= 'Z' {
			b[i] = c + 32
		}
	}
	return string(b)
}

// escapeStrings re-spells a JSON document: every character inside every string literal (keys and
// values) is written as a \uXXXX escape. The document denotes the same value.
func escapeStrings(doc []byte) []byte {
	out := []byte{}
	in := false
	for i := 0; i < len(doc); i++ {
		c := doc[i]
		switch {
		case c == '"':
			in = !in
			out = append(out, c)
		case in && c == '\\' && i+1 < len(doc):
			out = append(out, c, doc[i+1]) // keep existing escapes as they are
			i++
		case in && c < 0x80:
			out = append(out, []byte(fmt.Sprintf("\\u%04x", c))...)
		default:
			out = append(out, c)
		}
	}
	return out
}

// spellings: a document must decode to the same value however JSON spells it - with every string
// escaped, and with insignificant white space around and inside it.
func spellings[T any](typ string, docs [][]byte) int64 {
	var n int64
	for _, d := range docs {
		var plain T
		if err := json.Unmarshal(append([]byte{}, d...), &plain); err != nil {
			continue // reject-side documents are judged elsewhere
		}
		want := canon(plain)
		variants := [][]byte{escapeStrings(d), append(append([]byte(" \n\t"), d...), " \r\n"...)}
		if len(d) > 0 && (d[0] == '{' || d[0] == '[') {
			variants = append(variants, respace(d))
		}
		for _, v := range variants {
			n++
			var got T
			var err error
			c := historyCase{typ, string(d), string(v), "re-spelled JSON"}
			if p, msg, frame := vk.Guard(func() { err = json.Unmarshal(v, &got) }); p {
				violation("C14/"+site(frame, typ+".UnmarshalJSON")+"/spelling/panic", func() string { return fmt.Sprintf("json.Unmarshal(%s) panicked: %s", v, msg) }, "history", c)
				continue
			}
			// C14 promises the round trip of the library's OWN encoding and that nothing decodes to a
			// different value; it does not promise that every other JSON spelling of a valid value is
			// accepted (TaskType, for one, matches its names on the raw text and rejects escaped
			// spellings). So: rejected or equal, never different.
			if err == nil && canon(got) != want {
				violation("C14/"+typ+".UnmarshalJSON/spelling/different-value-for-equivalent-json", func() string {
					return fmt.Sprintf("%s decodes to %s but the equivalent document %s decodes to %s", d, want, v, canon(got))
				}, "history", c)
			}
		}
	}
	return n
}

// respace inserts insignificant white space around every structural ':' and ',' (outside strings).
func respace(doc []byte) []byte {
	out := []byte{}
	in := false
	for i := 0; i < len(doc); i++ {
		c := doc[i]
		switch {
		case c == '"':
			in = !in
			out = append(out, c)
		case in && c == '\\' && i+1 < len(doc):
			out = append(out, c, doc[i+1])
			i++
		case !in && c == ':':
			out = append(out, ' ', ':', ' ')
		case !in && c == ',':
			out = append(out, ' ', ',', '\n', ' ')
		default:
			out = append(out, c)
		}
	}
	return out
}
