package main

import (
	"fmt"
	"sync/atomic"
	"time"

	"github.com/uhppoted/uhppote-core/types"
	"verif/spec"
	"verif/vk"
)

// ---------------------------------------------------------------- weekdays

// Shape is indexed by time.Weekday (0 = Sunday): 0 key absent, 1 false, 2 true. Nil = nil map.
type weekdaysCase struct {
	Shape [7]int `json:"shape"`
	Nil   bool   `json:"nil,omitempty"`
}

func (x weekdaysCase) build() types.Weekdays {
	if x.Nil {
		return nil
	}
	w := types.Weekdays{}
	for d := 0; d < 7; d++ {
		switch x.Shape[d] {
		case 1:
			w[time.Weekday(d)] = false
		case 2:
			w[time.Weekday(d)] = true
		}
	}
	return w
}

// semantic equality: per protocol key, a missing key equals false; nil equals empty.
func weekdaysEq(a, b types.Weekdays) bool {
	for d := time.Sunday; d <= time.Saturday; d++ {
		if a[d] != b[d] {
			return false
		}
	}
	return true
}

func checkWeekdays(x weekdaysCase) {
	v := x.build()
	got, enc, f := roundTrip("Weekdays", v)
	if f != nil {
		violation(f.key, f.what, "weekdays", x)
	} else if !weekdaysEq(got, v) {
		R.Violation("C14/Weekdays/json-roundtrip-differs", fmt.Sprintf("Weekdays %v -> %s -> %v", map[time.Weekday]bool(v), enc, map[time.Weekday]bool(got)), "weekdays", x)
	}
}

func runWeekdays() {
	checkWeekdays(weekdaysCase{Nil: true})
	n := 1
	for i := 0; i < 7; i++ {
		n *= 3
	}
	// ordered simplest-first: shape index 0 = every key absent
	for i := 0; i < n; i++ {
		var x weekdaysCase
		for d, k := 0, i; d < 7; d, k = d+1, k/3 {
			x.Shape[d] = k % 3
		}
		checkWeekdays(x)
	}
	family("weekdays/accept(json roundtrip into a nil map, all 3^7 absent/false/true shapes + nil)", int64(n)+1, int64(n)+1)
	R.Sample(map[string]any{"family": "weekdays/accept", "value": "{Monday:true, Tuesday:false}", "json": `"Monday"`, "expected": "Monday only"})
}

// ---------------------------------------------------------------- segments

// Segs[i] = {start h, start m, end h, end m} for key i+1 (keys form a prefix of 1, 2, 3: the JSON
// form is positional). Nil = nil map.
type segmentsCase struct {
	Segs [][4]int `json:"segments"`
	Nil  bool     `json:"nil,omitempty"`
}

func (x segmentsCase) build() types.Segments {
	if x.Nil {
		return nil
	}
	s := types.Segments{}
	for i, t := range x.Segs {
		s[uint8(i+1)] = types.Segment{Start: types.NewHHmm(t[0], t[1]), End: types.NewHHmm(t[2], t[3])}
	}
	return s
}

// semantic equality: keys 1..3, a missing key equals the zero segment (00:00-00:00).
func segmentsEq(a, b types.Segments) bool {
	for id := uint8(1); id <= 3; id++ {
		if a[id] != b[id] {
			return false
		}
	}
	return true
}

func checkSegments(x segmentsCase) {
	v := x.build()
	got, enc, f := roundTrip("Segments", v)
	if f != nil {
		violation(f.key, f.what, "segments", x)
	} else if !segmentsEq(got, v) {
		R.Violation("C14/Segments/json-roundtrip-differs", fmt.Sprintf("Segments %+v -> %s -> %+v", map[uint8]types.Segment(v), enc, map[uint8]types.Segment(got)), "segments", x)
	}
}

var allTimes = func() [][2]int {
	out := [][2]int{}
	for h := 0; h <= 24; h++ {
		for m := 0; m <= 59; m++ {
			if spec.HHmmTextInDomain(h, m) {
				out = append(out, [2]int{h, m})
			}
		}
	}
	return out
}()

func runSegments() {
	// boundary segments everywhere: 0..3 segments, each from a 5-element boundary set
	B := [][4]int{{0, 0, 0, 0}, {0, 0, 24, 0}, {8, 30, 17, 45}, {23, 59, 24, 0}, {24, 0, 0, 1}}
	checkSegments(segmentsCase{Nil: true})
	checkSegments(segmentsCase{Segs: [][4]int{}})
	var n int64 = 2
	for _, a := range B {
		checkSegments(segmentsCase{Segs: [][4]int{a}})
		n++
	}
	for _, a := range B {
		for _, b := range B {
			checkSegments(segmentsCase{Segs: [][4]int{a, b}})
			n++
		}
	}
	for _, a := range B {
		for _, b := range B {
			for _, c := range B {
				checkSegments(segmentsCase{Segs: [][4]int{a, b, c}})
				n++
			}
		}
	}
	family("segments/accept(json roundtrip into a nil map: nil, empty, every 1..3-prefix over 5 boundary segments)", n, n)

	fill := [][4]int{{8, 30, 11, 30}, {13, 0, 17, 45}}
	{
		// every start x 8 boundary ends and 8 boundary starts x every end, in each position
		edge := [][2]int{{0, 0}, {0, 1}, {0, 59}, {9, 9}, {12, 0}, {19, 59}, {23, 59}, {24, 0}}
		seen := map[[5]int]bool{}
		list := []segmentsCase{}
		for pos := 1; pos <= 3; pos++ {
			add := func(a, b [2]int) {
				k := [5]int{pos, a[0], a[1], b[0], b[1]}
				if !seen[k] {
					seen[k] = true
					segs := append([][4]int{}, fill[:pos-1]...)
					list = append(list, segmentsCase{Segs: append(segs, [4]int{a[0], a[1], b[0], b[1]})})
				}
			}
			for _, a := range allTimes {
				for _, b := range edge {
					add(a, b)
					add(b, a)
				}
			}
		}
		vk.Parallel(len(list), func(i int) { checkSegments(list[i]) })
		family("segments/accept(every start x 8 boundary ends and 8 boundary starts x every end, positions 1..3)", int64(len(list)), int64(len(list)))
	}
	if R.Thorough() {
		// thorough: all 1441 x 1441 (start, end) pairs in position 1
		var k atomic.Int64
		vk.Parallel(len(allTimes), func(i int) {
			a := allTimes[i]
			for _, b := range allTimes {
				checkSegments(segmentsCase{Segs: [][4]int{{a[0], a[1], b[0], b[1]}}})
			}
			k.Add(int64(len(allTimes)))
		})
		family("segments/accept(all 1441x1441 start/end pairs in position 1)", k.Load(), k.Load()-int64(16*1441-64)) // minus the pairs already in the boundary family
	}
	R.Sample(map[string]any{"family": "segments/accept", "value": "{1: 08:30-17:45}", "json": `[{"start":"08:30","end":"17:45"}]`, "expected": "decodes into a nil Segments as {1: 08:30-17:45}"})
}

// ---------------------------------------------------------------- field alphabets (baseline first)

var dateAlphabet = [][3]int{{2024, 1, 1}, {1, 1, 2}, {1999, 12, 31}, {2000, 2, 29}, {2023, 10, 15}, {9999, 12, 31}, {0, 0, 0}}

var weekdayAlphabet = []weekdaysCase{
	{Shape: [7]int{2, 2, 2, 2, 2, 2, 2}},
	{Nil: true},
	{Shape: [7]int{0, 0, 0, 0, 0, 0, 0}},
	{Shape: [7]int{1, 1, 1, 1, 1, 1, 1}},
	{Shape: [7]int{0, 2, 0, 0, 0, 0, 0}},
	{Shape: [7]int{2, 0, 0, 0, 0, 0, 2}},
	{Shape: [7]int{1, 2, 2, 2, 2, 2, 1}},
	{Shape: [7]int{2, 1, 0, 1, 0, 1, 0}},
}

var segmentAlphabet = []segmentsCase{
	{Segs: [][4]int{{8, 30, 11, 30}, {13, 0, 17, 45}, {19, 0, 24, 0}}},
	{Nil: true},
	{Segs: [][4]int{}},
	{Segs: [][4]int{{0, 0, 24, 0}}},
	{Segs: [][4]int{{0, 1, 23, 59}, {12, 0, 12, 0}}},
	{Segs: [][4]int{{0, 0, 0, 0}, {0, 0, 0, 0}, {0, 0, 0, 0}}},
	{Segs: [][4]int{{23, 59, 24, 0}, {0, 0, 0, 1}, {24, 0, 0, 0}}},
}

var timeAlphabet = [][2]int{{8, 30}, {0, 0}, {0, 1}, {12, 0}, {23, 59}, {24, 0}}

var byteAlphabet = []int{1, 0, 2, 29, 127, 128, 254, 255}

// ---------------------------------------------------------------- card

type cardCase struct {
	Number   uint32 `json:"number"`
	From     [3]int `json:"from"`
	To       [3]int `json:"to"`
	Doors    [4]int `json:"doors"` // -1 = key absent
	DoorsNil bool   `json:"doors-nil,omitempty"`
	PIN      uint32 `json:"pin"`
}

func (x cardCase) build() types.Card {
	c := types.Card{CardNumber: x.Number, From: mkDate(x.From[0], x.From[1], x.From[2]), To: mkDate(x.To[0], x.To[1], x.To[2]), PIN: types.PIN(x.PIN)}
	if !x.DoorsNil {
		c.Doors = map[uint8]uint8{}
		for i, v := range x.Doors {
			if v >= 0 {
				c.Doors[uint8(i+1)] = uint8(v)
			}
		}
	}
	return c
}

func isZeroDate(d [3]int) bool { return d == [3]int{0, 0, 0} }

func checkCard(x cardCase) {
	v := x.build()
	got, enc, f := roundTrip("Card", v)
	// A card is in-domain when both dates are calendar days (PutCard's argument): the zero date
	// encodes as "" which Card.UnmarshalJSON documents as an error — left open (no panic required).
	if isZeroDate(x.From) || isZeroDate(x.To) {
		unconstrained.Add(1)
		if f != nil && f.key != "C14/Card.UnmarshalJSON/rejects-own-encoding" {
			violation(f.key, f.what, "card", x)
		}
		return
	}
	if f != nil {
		violation(f.key, f.what, "card", x)
		return
	}
	ok := got.CardNumber == x.Number && dateIs(got.From, x.From[0], x.From[1], x.From[2]) && dateIs(got.To, x.To[0], x.To[1], x.To[2]) && uint32(got.PIN) == x.PIN
	for i := uint8(1); i <= 4; i++ { // a missing door key equals 0
		ok = ok && got.Doors[i] == v.Doors[i]
	}
	if !ok {
		R.Violation("C14/Card/json-roundtrip-differs", fmt.Sprintf("Card %+v -> %s -> %+v", v, enc, got), "card", x)
	}
}

func runCards() {
	numbers := []uint32{8165538, 0, 1, 0x00ffffff, 0x01020304, 0x04030201, 4294967295}
	doors := []int{1, -1, 0, 2, 29, 254, 255}
	pins := []uint32{7531, 0, 1, 99999, 100000, 999999}
	sizes := []int{len(numbers), len(dateAlphabet), len(dateAlphabet), len(doors), len(doors), len(doors), len(doors), 2, len(pins)}
	mk := func(ix []int) cardCase {
		return cardCase{
			Number: numbers[ix[0]], From: dateAlphabet[ix[1]], To: dateAlphabet[ix[2]],
			Doors: [4]int{doors[ix[3]], doors[ix[4]], doors[ix[5]], doors[ix[6]]}, DoorsNil: ix[7] == 1, PIN: pins[ix[8]],
		}
	}
	seen := map[string]bool{}
	var n int64
	run := func(ix []int) {
		k := fmt.Sprint(ix)
		if !seen[k] {
			seen[k] = true
			n++
			checkCard(mk(ix))
		}
	}
	allPairs(sizes, run)
	// the four doors in full product
	for a := range doors {
		for b := range doors {
			for c := range doors {
				for d := range doors {
					run([]int{0, 0, 0, a, b, c, d, 0, 0})
				}
			}
		}
	}
	family("card/accept(json roundtrip: all pairs over 9 field alphabets + full product of the 4 door alphabets)", n, n)
	R.Sample(map[string]any{"family": "card/accept", "value": "card 8165538 2024-01-01..2024-01-01 doors {1:1,2:absent,3:1,4:1} no PIN", "expected": "door 2 decodes as 0, PIN as 0"})
}

// ---------------------------------------------------------------- time profile

type profileCase struct {
	ID       int          `json:"id"`
	Linked   int          `json:"linked"`
	From     [3]int       `json:"from"`
	To       [3]int       `json:"to"`
	Weekdays weekdaysCase `json:"weekdays"`
	Segments segmentsCase `json:"segments"`
}

func checkProfile(x profileCase) {
	v := types.TimeProfile{
		ID: uint8(x.ID), LinkedProfileID: uint8(x.Linked),
		From: mkDate(x.From[0], x.From[1], x.From[2]), To: mkDate(x.To[0], x.To[1], x.To[2]),
		Weekdays: x.Weekdays.build(), Segments: x.Segments.build(),
	}
	got, enc, f := roundTrip("TimeProfile", v)
	if f != nil {
		violation(f.key, f.what, "profile", x)
		return
	}
	ok := got.ID == v.ID && got.LinkedProfileID == v.LinkedProfileID &&
		dateIs(got.From, x.From[0], x.From[1], x.From[2]) && dateIs(got.To, x.To[0], x.To[1], x.To[2]) &&
		weekdaysEq(got.Weekdays, v.Weekdays) && segmentsEq(got.Segments, v.Segments)
	if !ok {
		R.Violation("C14/TimeProfile/json-roundtrip-differs", fmt.Sprintf("TimeProfile %+v -> %s -> %+v", v, enc, got), "profile", x)
	}
}

func runProfiles() {
	sizes := []int{len(byteAlphabet), len(byteAlphabet), len(dateAlphabet), len(dateAlphabet), len(weekdayAlphabet), len(segmentAlphabet)}
	n := allPairs(sizes, func(ix []int) {
		checkProfile(profileCase{
			ID: byteAlphabet[ix[0]], Linked: byteAlphabet[ix[1]], From: dateAlphabet[ix[2]], To: dateAlphabet[ix[3]],
			Weekdays: weekdayAlphabet[ix[4]], Segments: segmentAlphabet[ix[5]],
		})
	})
	family("profile/accept(json roundtrip: all pairs over 6 field alphabets incl. zero dates, nil/empty maps)", n, n)
}

// ---------------------------------------------------------------- task

type taskCase struct {
	Task     int          `json:"task"`
	Door     int          `json:"door"`
	From     [3]int       `json:"from"`
	To       [3]int       `json:"to"`
	Weekdays weekdaysCase `json:"weekdays"`
	Start    [2]int       `json:"start"`
	Cards    int          `json:"cards"`
}

func checkTask(x taskCase) {
	v := types.Task{
		Task: types.TaskType(x.Task), Door: uint8(x.Door),
		From: mkDate(x.From[0], x.From[1], x.From[2]), To: mkDate(x.To[0], x.To[1], x.To[2]),
		Weekdays: x.Weekdays.build(), Start: types.NewHHmm(x.Start[0], x.Start[1]), Cards: uint8(x.Cards),
	}
	got, enc, f := roundTrip("Task", v)
	if f != nil {
		violation(f.key, f.what, "task", x)
		return
	}
	ok := got.Task == v.Task && got.Door == v.Door &&
		dateIs(got.From, x.From[0], x.From[1], x.From[2]) && dateIs(got.To, x.To[0], x.To[1], x.To[2]) &&
		weekdaysEq(got.Weekdays, v.Weekdays) && got.Start == v.Start && got.Cards == v.Cards
	if !ok {
		R.Violation("C14/Task/json-roundtrip-differs", fmt.Sprintf("Task %+v -> %s -> %+v", v, enc, got), "task", x)
	}
}

func runTasks() {
	taskTypes := []int{8, 0, 1, 2, 3, 4, 5, 6, 7, 9, 10, 11, 12}
	sizes := []int{len(taskTypes), len(byteAlphabet), len(dateAlphabet), len(dateAlphabet), len(weekdayAlphabet), len(timeAlphabet), len(byteAlphabet)}
	n := allPairs(sizes, func(ix []int) {
		checkTask(taskCase{
			Task: taskTypes[ix[0]], Door: byteAlphabet[ix[1]], From: dateAlphabet[ix[2]], To: dateAlphabet[ix[3]],
			Weekdays: weekdayAlphabet[ix[4]], Start: timeAlphabet[ix[5]], Cards: byteAlphabet[ix[6]],
		})
	})
	family("task/accept(json roundtrip: all pairs over 7 field alphabets, all 13 task types)", n, n)
}

// allTriples: the first tuple, then every triple of fields over their alphabets with the other
// fields at their first value.
func allTriples(sizes []int, fn func(ix []int)) int64 {
	seen := map[string]bool{}
	var n int64
	ix := make([]int, len(sizes))
	for a := 0; a < len(sizes); a++ {
		for b := a + 1; b < len(sizes); b++ {
			for c := b + 1; c < len(sizes); c++ {
				for i := 0; i < sizes[a]; i++ {
					for j := 0; j < sizes[b]; j++ {
						for k := 0; k < sizes[c]; k++ {
							for x := range ix {
								ix[x] = 0
							}
							ix[a], ix[b], ix[c] = i, j, k
							key := fmt.Sprint(ix)
							if !seen[key] {
								seen[key] = true
								n++
								fn(append([]int{}, ix...))
							}
						}
					}
				}
			}
		}
	}
	return n
}

// runRelations: fields that could be validated against each other. All triples over the field
// alphabets of task and time profile, and the relation between a date range and the weekday set:
// every range of 0..14 days starting on each day of one week x 17 weekday sets (none, all, each
// single day, all but each day) - whatever the relation, the library's own encoding decodes back.
func runRelations() {
	taskTypes := []int{8, 0, 1, 12}
	ts := []int{len(taskTypes), 3, len(dateAlphabet), len(dateAlphabet), len(weekdayAlphabet), len(timeAlphabet), 3}
	n := allTriples(ts, func(ix []int) {
		checkTask(taskCase{Task: taskTypes[ix[0]], Door: byteAlphabet[ix[1]], From: dateAlphabet[ix[2]], To: dateAlphabet[ix[3]],
			Weekdays: weekdayAlphabet[ix[4]], Start: timeAlphabet[ix[5]], Cards: byteAlphabet[ix[6]]})
	})
	ps := []int{3, 3, len(dateAlphabet), len(dateAlphabet), len(weekdayAlphabet), len(segmentAlphabet)}
	n += allTriples(ps, func(ix []int) {
		checkProfile(profileCase{ID: byteAlphabet[ix[0]], Linked: byteAlphabet[ix[1]], From: dateAlphabet[ix[2]], To: dateAlphabet[ix[3]],
			Weekdays: weekdayAlphabet[ix[4]], Segments: segmentAlphabet[ix[5]]})
	})
	sets := []weekdaysCase{{Shape: [7]int{}}, {Shape: [7]int{2, 2, 2, 2, 2, 2, 2}}}
	for d := 0; d < 7; d++ {
		one, but := weekdaysCase{}, weekdaysCase{Shape: [7]int{2, 2, 2, 2, 2, 2, 2}}
		one.Shape[d], but.Shape[d] = 2, 1
		sets = append(sets, one, but)
	}
	for start := 0; start < 7; start++ {
		for length := -1; length <= 14; length++ {
			f := time.Date(2024, 1, 1+start, 12, 0, 0, 0, time.UTC)
			t := f.AddDate(0, 0, length)
			from, to := [3]int{f.Year(), int(f.Month()), f.Day()}, [3]int{t.Year(), int(t.Month()), t.Day()}
			for _, w := range sets {
				checkTask(taskCase{Task: 8, Door: 3, From: from, To: to, Weekdays: w, Start: [2]int{8, 30}, Cards: 2})
				checkProfile(profileCase{ID: 29, Linked: 3, From: from, To: to, Weekdays: w, Segments: segmentAlphabet[0]})
				n += 2
			}
		}
	}
	family("task+profile/accept(json roundtrip: all triples over the field alphabets; date ranges of -1..14 days x 16 weekday sets)", n, n)
}

func runComposites() {
	runRelations()
	runWeekdays()
	runSegments()
	runCards()
	runProfiles()
	runTasks()
}
