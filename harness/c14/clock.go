package main

// Clock independence. What a text means does not depend on the day it is parsed on. The library is
// built with the engine-E1 instrumentation, which puts time.Now() on a virtual clock; every parser
// family below is run on several virtual "todays" - an ordinary day, the days the process zone's
// clocks go forward and back, the last day of a year - in two process zones, and must give the same
// answers every time.

import (
	"encoding/json"
	"fmt"
	"sort"
	"time"

	"github.com/uhppoted/uhppote-core/types"
	"github.com/uhppoted/uhppote-core/verifshim/vs"
	"verif/vk"
)

type clockCase struct {
	Zone  string `json:"zone"`
	Today string `json:"today"`
	Input string `json:"input"`
	Site  string `json:"site"`
}

func clockInputs() map[string][]string {
	in := map[string][]string{}
	for h := 0; h < 24; h++ {
		for _, ms := range []string{"00:00", "00:01", "29:59", "30:00", "59:59"} {
			in["TimeFromString"] = append(in["TimeFromString"], fmt.Sprintf("%02d:%s", h, ms))
		}
		for _, m := range []int{0, 1, 30, 59} {
			in["HHmmFromString"] = append(in["HHmmFromString"], fmt.Sprintf("%02d:%02d", h, m))
		}
	}
	in["TimeFromString"] = append(in["TimeFromString"], "24:00:00", "12:60:00", "12:00:60", "12:00", "", "2:00:00")
	in["HHmmFromString"] = append(in["HHmmFromString"], "24:00", "24:01", "12:60", "", "1:00")
	for _, d := range []string{"2024-03-10", "2024-11-03", "2024-12-31", "2025-01-01", "2024-02-29", "2023-02-29", "0001-01-02", "9999-12-31", "2024-9-08", ""} {
		in["ParseDate"] = append(in["ParseDate"], d)
		in["Date.UnmarshalJSON"] = append(in["Date.UnmarshalJSON"], d)
	}
	for _, d := range []string{"2024-03-10 02:30:00", "2024-03-10 03:30:00", "2024-11-03 01:30:00", "2024-12-31 23:59:59", "2024-06-15 12:34:56 UTC", "2024-06-15 12:34:56"} {
		in["DateTime.UnmarshalJSON"] = append(in["DateTime.UnmarshalJSON"], d)
	}
	for _, h := range []string{"08:30", "00:00", "24:00", "12:60"} {
		in["HHmm.UnmarshalJSON"] = append(in["HHmm.UnmarshalJSON"], h)
	}
	return in
}

func clockEval(site, input string) string {
	switch site {
	case "TimeFromString":
		t, err := types.TimeFromString(input)
		if err != nil || t == nil {
			return "error"
		}
		return t.String()
	case "HHmmFromString":
		t, err := types.HHmmFromString(input)
		if err != nil || t == nil {
			return "error"
		}
		return t.String()
	case "ParseDate":
		d, err := types.ParseDate(input)
		if err != nil {
			return "error"
		}
		return d.String()
	case "Date.UnmarshalJSON":
		var d types.Date
		b, _ := json.Marshal(input)
		if err := json.Unmarshal(b, &d); err != nil {
			return "error"
		}
		return d.String()
	case "DateTime.UnmarshalJSON":
		var d types.DateTime
		b, _ := json.Marshal(input)
		if err := json.Unmarshal(b, &d); err != nil {
			return "error"
		}
		return time.Time(d).Format("2006-01-02 15:04:05")
	case "HHmm.UnmarshalJSON":
		var h types.HHmm
		b, _ := json.Marshal(input)
		if err := json.Unmarshal(b, &h); err != nil {
			return "error"
		}
		return h.String()
	}
	return "?"
}

func runClockIndependence() {
	saved := time.Local
	defer func() { time.Local = saved }()
	inputs := clockInputs()
	sites := []string{}
	for s := range inputs {
		sites = append(sites, s)
	}
	sort.Strings(sites)
	var n int64
	for _, zone := range []string{"America/New_York", "Australia/Lord_Howe", "UTC"} {
		loc, err := time.LoadLocation(zone)
		if err != nil {
			continue
		}
		time.Local = loc
		// the virtual clock starts at 2023-11-14T22:13:20Z; "todays" as offsets from there
		todays := []time.Time{time.Date(2023, 11, 15, 12, 0, 0, 0, loc)}
		at := time.Date(2024, 1, 1, 12, 0, 0, 0, loc)
		for k := 0; k < 2; k++ {
			if _, end := at.ZoneBounds(); !end.IsZero() {
				y, m, d := end.Add(-time.Second).In(loc).Date()
				todays = append(todays, time.Date(y, m, d, 0, 0, 1, 0, loc), time.Date(y, m, d, 23, 59, 58, 0, loc))
				at = end.Add(48 * time.Hour)
			}
		}
		todays = append(todays, time.Date(2024, 12, 31, 23, 59, 59, 0, loc), time.Date(2025, 1, 1, 0, 0, 0, 0, loc))
		var base map[string]string
		for ti, today := range todays {
			got := map[string]string{}
			e := vs.Run(nil, nil, vs.Options{Horizon: 100}, func() {
				vs.Sleep(today.Sub(vs.Now()))
				for _, site := range sites {
					for _, in := range inputs[site] {
						got[site+"|"+in] = clockEval(site, in)
					}
				}
			})
			if e.Abort != "" {
				if e.Abort == "PANIC" {
					R.Violation("C14/clock/panic", fmt.Sprintf("parsing on virtual day %s in zone %s panicked: %s", today.Format("2006-01-02 15:04:05"), zone, e.AbortMsg), "clock", clockCase{zone, today.Format(time.RFC3339), "", ""})
				} else {
					R.Machinery("clock independence run aborted: %s %s", e.Abort, e.AbortMsg)
				}
				continue
			}
			n += int64(len(got))
			if ti == 0 {
				base = got
				continue
			}
			keys := []string{}
			for k := range got {
				keys = append(keys, k)
			}
			sort.Strings(keys)
			for _, k := range keys {
				if got[k] != base[k] {
					var site, in string
					for i := 0; i < len(k); i++ {
						if k[i] == '|' {
							site, in = k[:i], k[i+1:]
							break
						}
					}
					R.Violation("C14/"+site+"/depends-on-current-date", fmt.Sprintf("%s(%q) = %s when today is %s, but %s when today is %s (process zone %s)", site, in, got[k], today.Format("2006-01-02 15:04:05 MST"), base[k], todays[0].Format("2006-01-02"), zone),
						"clock", clockCase{zone, today.Format(time.RFC3339), in, site})
				}
			}
		}
	}
	family("clock-independence(6 parser entry points x their inputs x 6 virtual todays x 3 process zones)", n, n)
	_ = vk.Hex
}
