package main

import (
	"bufio"
	"bytes"
	"encoding/json"
	"fmt"
	"os"
	"os/exec"
	"path/filepath"
	"runtime"
	"sort"
	"strconv"
	"strings"
	"sync"
	"time"
	_ "time/tzdata"

	"github.com/uhppoted/uhppote-core/types"
	"verif/spec"
	"verif/vk"
)

// Date-times: the JSON form is "yyyy-mm-dd HH:MM:SS <zone abbreviation of time.Local>", so the
// round trip depends on the process time zone. time.Local is process-global: zones are spread over
// child processes of this binary (--worker k/n), each handling the zones k, k+n, ... one at a time.
//
// Per zone the enumerated instants are (sorted, de-duplicated):
//   - every offset/abbreviation transition T in 1800-01-01 ... 2101-01-01 (found by probing
//     (abbreviation, offset) every hour and bisecting each change to the second):
//     the UTC day of T and the days before and after it in 15-minute (quick) / 5-minute (thorough)
//     steps, plus T-1s, T, T+1s and the same three shifted by +-(offset change);
//   - every whole hour of 2024 (8784 instants);
//   - years 1, 1800, 1970, 9999: every hour and 23:59:59 of Jan 1, Jan 2, Jun 30, Jul 1, Dec 30, Dec 31.
//
// Oracle: the decoded value has the same civil fields and the same instant; if only the instant
// differs, the decoded instant is accepted when it shows the identical civil fields AND the
// identical abbreviation in the zone (the JSON text cannot tell those two apart).

var quickZones = []string{
	"UTC", "Asia/Tehran", "Asia/Kathmandu", "Asia/Kabul", "Australia/Eucla", "Pacific/Chatham", "Pacific/Marquesas",
	"Australia/Lord_Howe", "Asia/Yangon", "Africa/Johannesburg", "America/Santiago", "Europe/London", "America/New_York",
	"Australia/Sydney", "America/Havana", "Pacific/Apia", "Atlantic/Azores", "America/Sao_Paulo", "Europe/Volgograd",
	"Asia/Pyongyang", "Africa/Maseru", "Asia/Kolkata", "Asia/Colombo", "America/St_Johns", "America/Caracas",
	"Europe/Dublin", "Europe/Moscow", "Asia/Jerusalem", "Africa/Casablanca", "Antarctica/Troll", "Pacific/Kiritimati",
	"Pacific/Kwajalein", "Asia/Seoul", "Europe/Amsterdam", "America/Los_Angeles", "Asia/Tokyo", "Etc/GMT+12", "Etc/GMT-14",
	"Africa/Monrovia", "America/Nuuk", "Europe/Lisbon", "Pacific/Guam",
}

type dtCase struct {
	Zone string `json:"zone"`
	Unix int64  `json:"unix"`
}

type workerResult struct {
	Evaluations int64                `json:"evaluations"`
	Distinct    int64                `json:"distinct"`
	Ambiguous   int64                `json:"ambiguous"`
	Zones       int                  `json:"zones"`
	Transitions int64                `json:"transitions"`
	Violations  []vk.WorkerViolation `json:"violations"`
	Machinery   []string             `json:"machinery"`
	Samples     []any                `json:"samples"`
}

// fixedZones: process zones that are not IANA zones - time.FixedZone with a name of the
// application's choosing (spelled "fixed|<name>|<seconds east>"). The JSON form carries that name;
// whatever it looks like, the library's own encoding must decode, to the same instant.
var fixedZones = []string{"fixed|UTC+3|10800", "fixed|GMT+03:00|10800", "fixed|Office Time|3600", "fixed|utc|0", "fixed|local|-18000", "fixed|X|7200", "fixed|Zone 51|-12600", "fixed|EST5EDT|-18000", "fixed|Europe/Berlin|3600", "fixed|+03|10800", "fixed|UTC-03:30|-12600", "fixed|\u6771\u4eac|32400",
	// names with characters that JSON and Go quote differently (controls, DEL, non-printable and invalid UTF-8), quotes, backslashes
	"fixed|A\aB|3600", "fixed|A\x01B|3600", "fixed|A\x7fB|3600", "fixed|A\vB|-3600", "fixed|\U000e0001|7200", "fixed|A\"B|3600", "fixed|A\\B|3600", "fixed|A\xffB|3600", "fixed|A\tB|3600", "fixed|<A&B>|3600", "fixed|\u2028|3600"}

func loadZone(name string) (*time.Location, error) {
	if strings.HasPrefix(name, "fixed|") {
		parts := strings.Split(name, "|")
		if len(parts) != 3 {
			return nil, fmt.Errorf("bad fixed zone %q", name)
		}
		off, err := strconv.Atoi(parts[2])
		if err != nil {
			return nil, err
		}
		return time.FixedZone(parts[1], off), nil
	}
	return time.LoadLocation(name)
}

func zoneList() ([]string, error) {
	zones := append(append([]string{}, quickZones...), fixedZones...)
	if R.Quick() {
		return zones, nil
	}
	seen := map[string]bool{}
	for _, z := range zones {
		seen[z] = true
	}
	f, err := os.Open(filepath.Join(vk.Root, "zones.txt"))
	if err != nil {
		return nil, err
	}
	defer f.Close()
	sc := bufio.NewScanner(f)
	for sc.Scan() {
		z := strings.TrimSpace(sc.Text())
		if z != "" && !seen[z] {
			seen[z] = true
			zones = append(zones, z)
		}
	}
	return zones, sc.Err()
}

// ---------------------------------------------------------------- parent side

type dtWorkers struct {
	wg      sync.WaitGroup
	mu      sync.Mutex
	results []*workerResult
	n       int
}

func startDateTimeWorkers() *dtWorkers {
	n := runtime.GOMAXPROCS(0)
	if n > 16 {
		n = 16
	}
	w := &dtWorkers{n: n, results: make([]*workerResult, n)}
	for k := 0; k < n; k++ {
		w.wg.Add(1)
		go func(k int) {
			defer w.wg.Done()
			cmd := exec.Command(os.Args[0], "--tier", R.Tier, "--worker", fmt.Sprintf("%d/%d", k, n))
			var out bytes.Buffer
			cmd.Stdout = &out
			cmd.Stderr = os.Stderr
			if err := cmd.Run(); err != nil {
				R.Machinery("date-time worker %d/%d failed: %v", k, n, err)
				return
			}
			var res workerResult
			if err := json.Unmarshal(out.Bytes(), &res); err != nil {
				R.Machinery("date-time worker %d/%d printed no result: %v", k, n, err)
				return
			}
			w.results[k] = &res
		}(k)
	}
	return w
}

func (w *dtWorkers) wait() {
	w.wg.Wait()
	var ev, di, amb, tr int64
	zones := 0
	for _, res := range w.results { // in worker order: deterministic choice of the recorded case
		if res == nil {
			continue
		}
		ev += res.Evaluations
		di += res.Distinct
		amb += res.Ambiguous
		tr += res.Transitions
		zones += res.Zones
		for _, m := range res.Machinery {
			R.Machinery("%s", m)
		}
		R.Import(res.Violations)
		for _, s := range res.Samples {
			R.Sample(s)
		}
	}
	family("datetime/accept(json roundtrip per process time zone)", ev, di)
	R.Set("datetime_zones", zones)
	R.Set("datetime_transitions_1800_2100", tr)
	R.Set("datetime_same_abbreviation_overlaps_accepted", amb)
	if want, _ := zoneList(); zones != len(want) {
		R.Machinery("date-time workers covered %d zones, expected %d", zones, len(want))
	}
}

// ---------------------------------------------------------------- worker side

func workerMain() {
	var res workerResult
	parts := strings.Split(R.Worker, "/")
	if len(parts) != 2 {
		fmt.Fprintf(os.Stderr, "bad worker spec %q\n", R.Worker)
		os.Exit(2)
	}
	k, _ := strconv.Atoi(parts[0])
	n, _ := strconv.Atoi(parts[1])
	zones, err := zoneList()
	if err != nil || n < 1 {
		fmt.Fprintf(os.Stderr, "worker: cannot read the zone list: %v\n", err)
		os.Exit(2)
	}
	for i := k; i < len(zones); i += n {
		loc, err := loadZone(zones[i])
		if err != nil {
			res.Machinery = append(res.Machinery, fmt.Sprintf("cannot load zone %s: %v", zones[i], err))
			continue
		}
		runZone(zones[i], loc, &res)
		res.Zones++
	}
	time.Local = time.UTC
	res.Violations = R.Export()
	b, _ := json.Marshal(res)
	os.Stdout.Write(append(b, '\n'))
	os.Exit(0)
}

const zeroUnix = -62135596800 // 0001-01-01 00:00:00 UTC, the zero DateTime

// zoneInstants builds the enumerated instants of one zone.
func zoneInstants(zone string, loc *time.Location, res *workerResult) []int64 {
	lo := time.Date(1800, 1, 1, 0, 0, 0, 0, time.UTC)
	hi := time.Date(2101, 1, 1, 0, 0, 0, 0, time.UTC)

	// transitions by scanning: (abbreviation, offset) is probed every hour; a change between two
	// probes is located to the second by bisection
	trans := []int64{}
	pn, po := lo.In(loc).Zone()
	for u := lo.Unix() + 3600; u <= hi.Unix(); u += 3600 {
		n, o := time.Unix(u, 0).In(loc).Zone()
		if n == pn && o == po {
			continue
		}
		a, b := u-3600, u // zone(a) = (pn, po), zone(b) differs
		for b-a > 1 {
			mid := a + (b-a)/2
			if mn, mo := time.Unix(mid, 0).In(loc).Zone(); mn == pn && mo == po {
				a = mid
			} else {
				b = mid
			}
		}
		trans = append(trans, b) // first second of the new period
		pn, po = time.Unix(b, 0).In(loc).Zone()
		u = b // resume probing one hour after the transition (a second change inside the hour is still seen)
	}
	res.Transitions += int64(len(trans))

	step := int64(900)
	if R.Thorough() {
		step = 300
	}
	set := make([]int64, 0, len(trans)*(3*86400/int(step)+20)+10000)
	for _, T := range trans {
		day := T - ((T%86400)+86400)%86400
		for u := day - 86400; u < day+2*86400; u += step {
			set = append(set, u)
		}
		_, before := time.Unix(T-1, 0).In(loc).Zone()
		_, after := time.Unix(T, 0).In(loc).Zone()
		d := int64(after - before)
		for _, b := range []int64{T, T + d, T - d} {
			set = append(set, b-1, b, b+1)
		}
	}
	// every hour of 2024
	for u := time.Date(2024, 1, 1, 0, 0, 0, 0, time.UTC).Unix(); u < time.Date(2025, 1, 1, 0, 0, 0, 0, time.UTC).Unix(); u += 3600 {
		set = append(set, u)
	}
	// years 1, 1800, 1970, 9999 by civil fields in the zone
	for _, y := range []int{1, 1800, 1970, 9999} {
		for _, md := range [][2]int{{1, 1}, {1, 2}, {6, 30}, {7, 1}, {12, 30}, {12, 31}} {
			for h := 0; h < 24; h++ {
				set = append(set, time.Date(y, time.Month(md[0]), md[1], h, 0, 0, 0, loc).Unix())
			}
			set = append(set, time.Date(y, time.Month(md[0]), md[1], 23, 59, 59, 0, loc).Unix())
		}
	}
	sort.Slice(set, func(i, j int) bool { return set[i] < set[j] })
	out := set[:0]
	for i, u := range set {
		if i > 0 && u == set[i-1] {
			continue
		}
		if u == zeroUnix { // the zero value is not a date-time of the domain (checked separately)
			continue
		}
		if y := time.Unix(u, 0).In(loc).Year(); y < 1 || y > 9999 {
			continue
		}
		out = append(out, u)
	}
	return out
}

func runZone(zone string, loc *time.Location, res *workerResult) {
	time.Local = loc
	instants := zoneInstants(zone, loc, res)
	// simplest first: the instants of 2024, then everything else
	y0, y1 := time.Date(2024, 1, 1, 0, 0, 0, 0, time.UTC).Unix(), time.Date(2025, 1, 1, 0, 0, 0, 0, time.UTC).Unix()
	for pass := 0; pass < 2; pass++ {
		for _, u := range instants {
			if (u >= y0 && u < y1) == (pass == 0) && checkDateTime(zone, loc, u) {
				res.Ambiguous++
			}
		}
	}
	// values held in another Location (a fixed zone with an abbreviation this process zone does not know,
	// and Asia/Tokyo), showing every quarter of an hour of the days around this zone's offset changes
	// 2020..2026 - wall clocks that do not exist in the process zone among them: the date-time that
	// comes back shows the same civil fields
	{
		foreign := []*time.Location{time.FixedZone("XYZ", 9*3600)}
		if tokyo, err := time.LoadLocation("Asia/Tokyo"); err == nil && zone != "Asia/Tokyo" {
			foreign = append(foreign, tokyo)
		}
		var n int64
		for day := time.Date(2020, 1, 1, 12, 0, 0, 0, time.UTC); day.Year() < 2027; day = day.AddDate(0, 0, 1) {
			y, m, d := day.Date()
			_, o0 := time.Date(y, m, d, 0, 0, 0, 0, loc).Zone()
			_, o1 := time.Date(y, m, d+1, 0, 0, 0, 0, loc).Zone()
			if o0 == o1 {
				continue
			}
			for _, fl := range foreign {
				for q := 0; q < 96; q++ {
					v := time.Date(y, m, d, q/4, (q%4)*15, 0, 0, fl)
					want := civil(v)
					got, enc, f := roundTrip("DateTime", types.DateTime(v))
					n++
					c := dtCase{zone, v.Unix()}
					if f != nil {
						violation(f.key+"/held-in-another-location", func() string {
							return fmt.Sprintf("zone %s, value %s held in %s: %s", zone, v.Format("2006-01-02 15:04:05 MST"), fl, f.what())
						}, "datetime", c)
						continue
					}
					if g := civil(time.Time(got)); g != want {
						R.Violation("C14/DateTime.UnmarshalJSON/held-in-another-location/wrong-civil-time", fmt.Sprintf("zone %s: %s (a value held in %s) decodes to %v, the text says %v", zone, enc, fl, g, want), "datetime", c)
					}
				}
			}
		}
		res.Evaluations += n
		res.Distinct += n
	}
	// the zero value in this zone
	got, enc, f := roundTrip("DateTime", types.DateTime{})
	if f != nil {
		violation(f.key, f.what, "datetime", dtCase{zone, zeroUnix})
	} else if !time.Time(got).IsZero() {
		R.Violation("C14/DateTime/zero-roundtrip-differs", fmt.Sprintf("zone %s: zero DateTime -> %s -> non-zero %v", zone, enc, time.Time(got)), "datetime", dtCase{zone, zeroUnix})
	}
	res.Evaluations += int64(len(instants)) + 1
	res.Distinct += int64(len(instants)) + 1
	if len(res.Samples) < 3 && len(instants) > 0 {
		u := instants[len(instants)/2]
		t := time.Unix(u, 0).In(loc)
		b, _ := json.Marshal(types.DateTime(t))
		res.Samples = append(res.Samples, map[string]any{"family": "datetime/accept", "zone": zone, "unix": u, "json": string(b), "expected": "same civil fields, same instant"})
	}
}

func civil(t time.Time) [6]int {
	y, m, d := t.Date()
	h, mi, s := t.Clock()
	return [6]int{y, int(m), d, h, mi, s}
}

func abbreviationClass(name string) string {
	if len(name) == 5 && (name[0] == '+' || name[0] == '-') && strings.Trim(name[1:], "0123456789") == "" {
		return "numeric-abbreviation-with-minutes"
	}
	return "other-abbreviation"
}

// checkDateTime runs one instant of one zone (time.Local must already be loc); it reports whether
// the case was accepted as a same-abbreviation overlap.
func checkDateTime(zone string, loc *time.Location, unix int64) (ambiguous bool) {
	c := dtCase{zone, unix}
	t := time.Unix(unix, 0) // located in time.Local = loc
	name, offset := t.Zone()
	got, enc, f := roundTrip("DateTime", types.DateTime(t))
	if f != nil {
		if strings.HasSuffix(f.key, "/rejects-own-encoding") {
			f.key += "/" + abbreviationClass(name)
		}
		violation(f.key, func() string {
			return fmt.Sprintf("zone %s, instant %d (%s%+d s): %s", zone, unix, name, offset, f.what())
		}, "datetime", c)
		return false
	}
	g := time.Time(got)
	if g.IsZero() {
		R.Violation("C14/DateTime.UnmarshalJSON/decodes-to-zero", fmt.Sprintf("zone %s: %s decodes to the zero DateTime", zone, enc), "datetime", c)
		return false
	}
	if civil(g) != civil(t) {
		R.Violation("C14/DateTime.UnmarshalJSON/civil-time-changed", fmt.Sprintf("zone %s: %s decodes to civil %v (instant %d), want civil %v (instant %d)", zone, enc, civil(g), g.Unix(), civil(t), unix), "datetime", c)
		return false
	}
	if g.Unix() != unix {
		// same civil fields, different instant: acceptable only if that instant really shows the
		// same civil fields and the same abbreviation in the zone
		alt := time.Unix(g.Unix(), 0).In(loc)
		altName, _ := alt.Zone()
		if civil(alt) == civil(t) && altName == name {
			return true
		}
		R.Violation("C14/DateTime.UnmarshalJSON/wrong-instant", fmt.Sprintf("zone %s: %s decodes to instant %d (%v), want %d", zone, enc, g.Unix(), g, unix), "datetime", c)
	}
	return false
}

func replayDateTime(x dtCase) {
	loc, err := loadZone(x.Zone)
	if err != nil {
		R.Machinery("cannot load zone %s: %v", x.Zone, err)
		return
	}
	time.Local = loc
	defer func() { time.Local = time.UTC }()
	if x.Unix == zeroUnix {
		got, enc, f := roundTrip("DateTime", types.DateTime{})
		fmt.Printf("zone %s: zero DateTime -> %s -> zero=%v failure=%v\n", x.Zone, enc, time.Time(got).IsZero(), f)
		if f != nil {
			violation(f.key, f.what, "datetime", x)
		} else if !time.Time(got).IsZero() {
			R.Violation("C14/DateTime/zero-roundtrip-differs", "zero DateTime decodes to a non-zero value", "datetime", x)
		}
		return
	}
	t := time.Unix(x.Unix, 0)
	b, _ := json.Marshal(types.DateTime(t))
	var got types.DateTime
	err = json.Unmarshal(b, &got)
	fmt.Printf("zone %s: value %v  encoding %s\n  library:   decoded %v (instant %d) error %v\n  reference: civil %v instant %d\n", x.Zone, t, b, time.Time(got), time.Time(got).Unix(), err, civil(t), x.Unix)
	checkDateTime(x.Zone, loc, x.Unix)
}

// ---------------------------------------------------------------- date-time text, reject side (UTC)

// refDateTimeText: "yyyy-mm-dd HH:MM:SS" optionally followed by " UTC" (time.Local is UTC here).
func refDateTimeText(s string) (c [6]int, v spec.TxtVerdict, class string) {
	body := strings.TrimSuffix(s, " UTC")
	if len(body) != 19 || body[10] != ' ' {
		return c, spec.TxtFree, ""
	}
	y, m, d, dv, dclass := refDateText(body[:10])
	h, mi, sec, tv := spec.TxtHMS(body[11:])
	switch {
	case dv == spec.TxtFree || tv == spec.TxtFree: // year 0000, 0001-01-01, 24:00:00, odd shapes
		return c, spec.TxtFree, ""
	case dv == spec.TxtReject:
		return c, spec.TxtReject, dclass
	case tv == spec.TxtReject:
		return c, spec.TxtReject, "time-out-of-range"
	}
	return [6]int{y, m, d, h, mi, sec}, spec.TxtAccept, ""
}

func checkDateTimeText(s string) {
	c := textCase{S: s}
	want, verdict, class := refDateTimeText(s)
	var got types.DateTime
	var err error
	b, _ := json.Marshal(s)
	if pn, msg, frame := vk.Guard(func() { err = json.Unmarshal(b, &got) }); pn {
		panicked("DateTime.UnmarshalJSON", s, msg, frame, "datetime-text", c)
		return
	}
	judgeText("DateTime.UnmarshalJSON", verdict, err, err == nil && civil(time.Time(got)) == want, "valid-date-time", class, s, fmt.Sprint(civil(time.Time(got))), fmt.Sprint(want), "datetime-text", c)
}

func runDateTimeTextUTC() {
	list := []string{}
	for _, y := range []int{2023, 2024} {
		for m := 0; m < 100; m++ {
			for d := 0; d < 100; d++ {
				list = append(list, fmt.Sprintf("%04d-%02d-%02d 12:34:56", y, m, d))
			}
		}
	}
	for h := 0; h < 100; h++ {
		for m := 0; m < 100; m++ {
			list = append(list, fmt.Sprintf("2024-02-29 %02d:%02d:00", h, m))
		}
	}
	for sec := 0; sec < 100; sec++ {
		list = append(list, fmt.Sprintf("2024-02-29 23:59:%02d", sec))
	}
	n := len(list)
	for i := 0; i < n; i++ {
		list = append(list, list[i]+" UTC")
	}
	vk.Parallel(len(list), func(i int) { checkDateTimeText(list[i]) })
	family("datetime/text(UTC: yyyy-mm-dd over all mm,dd in 00..99 x 2 years, HH:MM over 00..99 x 00..99, SS over 00..99; with and without the zone suffix)", int64(len(list)), int64(len(list)))
	R.Sample(map[string]any{"family": "datetime/text", "input": "2023-02-29 12:34:56 UTC", "reference": "must-reject (impossible date)"})
}
