package main

import (
	"encoding/json"
	"fmt"
	"net/netip"
	"reflect"
	"sort"
	"strings"
	"time"

	"github.com/uhppoted/uhppote-core/types"
)

// Entry points found by reflection. The families above name the decoders they drive. Here every
// method of *T, for each public value type T with a text form, that takes one []byte, string or
// interface{} and returns only an error - encoding.TextUnmarshaler, BinaryUnmarshaler, GobDecoder,
// flag.Value's Set, sql.Scanner, whatever is added later - is offered each sample value in the
// forms the type itself produces (String(), the JSON text, the JSON text without quotes, and the
// output of the matching Marshal* / *Encode method when there is one). A method may refuse a form
// (its own format is not known to this harness), but a value it accepts must be the value that was
// written - never a different one - and the output of its own counterpart must be accepted.

var reflectedKnown = map[string]bool{"UnmarshalJSON": true}

var counterpart = map[string]string{"UnmarshalText": "MarshalText", "UnmarshalBinary": "MarshalBinary", "GobDecode": "GobEncode", "UnmarshalYAML": "MarshalYAML", "UnmarshalTOML": "MarshalTOML"}

func reflectedSamples() map[string][]any {
	d := func(y int, m time.Month, dd int) types.Date { return types.ToDate(y, m, dd) }
	hh := func(s string) types.HHmm { v, _ := types.HHmmFromString(s); return *v }
	from, to := d(2024, 1, 1), d(2024, 12, 31)
	santiago, _ := time.LoadLocation("America/Santiago")
	out := map[string][]any{
		"Date":           {d(2024, 2, 29), d(2022, 9, 11), d(2023, 3, 12), d(1999, 12, 31), d(2024, 9, 8), types.Date{}},
		"DateTime":       {types.DateTime(time.Date(2024, 6, 15, 12, 34, 56, 0, time.Local)), types.DateTime(time.Date(2024, 9, 8, 1, 0, 0, 0, time.Local)), types.DateTime{}},
		"HHmm":           {hh("00:00"), hh("08:30"), hh("23:59"), types.NewHHmm(24, 0)},
		"PIN":            {types.PIN(0), types.PIN(7531), types.PIN(999999)},
		"TaskType":       {types.DoorControlled, types.EnableTimeProfile, types.EnablePushButton},
		"ControlState":   {types.NormallyOpen, types.NormallyClosed, types.Controlled},
		"Version":        {types.Version(0x0892), types.Version(0x0662)},
		"MacAddress":     {types.MacAddress{0x00, 0x12, 0x23, 0x34, 0x45, 0x56}},
		"BindAddr":       {types.BindAddrFrom(netip.MustParseAddr("192.168.1.100"), 0), types.BindAddrFrom(netip.MustParseAddr("192.168.1.100"), 54321)},
		"BroadcastAddr":  {types.BroadcastAddrFrom(netip.MustParseAddr("192.168.1.255"), 60000), types.BroadcastAddrFrom(netip.MustParseAddr("192.168.1.255"), 60005)},
		"ListenAddr":     {types.ListenAddrFrom(netip.MustParseAddr("0.0.0.0"), 60001)},
		"ControllerAddr": {types.ControllerAddrFrom(netip.MustParseAddr("10.0.0.1"), 60000), types.ControllerAddrFrom(netip.MustParseAddr("10.0.0.1"), 54321)},
		"Weekdays":       {types.Weekdays{time.Monday: true, time.Friday: true}},
		"Segments":       {types.Segments{1: {Start: hh("08:30"), End: hh("09:45")}, 2: {}, 3: {}}},
		"Card":           {types.Card{CardNumber: 8165538, From: from, To: to, Doors: map[uint8]uint8{1: 1, 2: 0, 3: 29, 4: 1}, PIN: 7531}},
		"TimeProfile": {types.TimeProfile{ID: 29, LinkedProfileID: 3, From: from, To: to, Weekdays: types.Weekdays{time.Monday: true},
			Segments: types.Segments{1: {Start: hh("08:30"), End: hh("09:45")}, 2: {}, 3: {}}}},
		"Task": {types.Task{Task: types.EnableMoreCards, Door: 3, From: from, To: to, Weekdays: types.Weekdays{time.Tuesday: true}, Start: hh("07:15"), Cards: 2}},
	}
	_ = santiago
	return out
}

type reflectedCase struct {
	Type   string `json:"type"`
	Method string `json:"method"`
	Zone   string `json:"process_zone"`
	Value  string `json:"value_json"`
	Input  string `json:"input"`
}

func runReflected() {
	var evals, distinct int64
	found := []string{}
	saved := time.Local
	defer func() { time.Local = saved }()
	for _, zone := range []string{"UTC", "America/Santiago", "America/Havana"} {
		loc, err := time.LoadLocation(zone)
		if err != nil {
			R.Machinery("zone %s does not load: %v", zone, err)
			continue
		}
		time.Local = loc
		samples := reflectedSamples()
		names := make([]string, 0, len(samples))
		for n := range samples {
			names = append(names, n)
		}
		sort.Strings(names)
		errT := reflect.TypeOf((*error)(nil)).Elem()
		for _, typ := range names {
			vals := samples[typ]
			pt := reflect.PointerTo(reflect.TypeOf(vals[0]))
			for i := 0; i < pt.NumMethod(); i++ {
				m := pt.Method(i)
				if reflectedKnown[m.Name] || m.Type.NumIn() != 2 || m.Type.NumOut() != 1 || m.Type.Out(0) != errT {
					continue
				}
				in := m.Type.In(1)
				isBytes := in.Kind() == reflect.Slice && in.Elem().Kind() == reflect.Uint8
				if !(in.Kind() == reflect.String || isBytes || (in.Kind() == reflect.Interface && in.NumMethod() == 0)) {
					continue
				}
				if zone == "UTC" {
					found = append(found, typ+"."+m.Name)
				}
				for _, v := range vals {
					wantJS, err := json.Marshal(v)
					if err != nil {
						continue
					}
					forms := map[string]bool{}
					own := ""
					binary := strings.Contains(m.Name, "Binary") || strings.HasPrefix(m.Name, "Gob") // not a text format: only its counterpart's output is offered
					if binary {
					} else if s, ok := v.(fmt.Stringer); ok {
						forms[s.String()] = true
					} else if s, ok := reflect.ValueOf(&v).Elem().Interface().(fmt.Stringer); ok {
						forms[s.String()] = true
					}
					if !binary {
						forms[string(wantJS)] = true
						if len(wantJS) >= 2 && wantJS[0] == '"' {
							forms[string(wantJS[1:len(wantJS)-1])] = true
						}
					}
					if cp, ok := counterpart[m.Name]; ok {
						pv := reflect.New(reflect.TypeOf(v))
						pv.Elem().Set(reflect.ValueOf(v))
						if mm := pv.MethodByName(cp); mm.IsValid() && mm.Type().NumIn() == 0 && mm.Type().NumOut() == 2 {
							outs := mm.Call(nil)
							if e, _ := outs[1].Interface().(error); e == nil {
								if b, ok := outs[0].Interface().([]byte); ok {
									own = string(b)
									forms[own] = true
								}
							}
						}
					}
					for form := range forms {
						recv := reflect.New(reflect.TypeOf(v))
						var arg reflect.Value
						switch {
						case in.Kind() == reflect.String:
							arg = reflect.ValueOf(form).Convert(in)
						case isBytes:
							arg = reflect.ValueOf([]byte(form)).Convert(in)
						default:
							arg = reflect.ValueOf(form)
						}
						var callErr error
						c := reflectedCase{typ, m.Name, zone, string(wantJS), form}
						evals++
						distinct++
						if p, msg, frame := guardFrame(typ+"/"+m.Name, func() {
							callErr, _ = recv.MethodByName(m.Name).Call([]reflect.Value{arg})[0].Interface().(error)
						}); p {
							panicked(typ+"."+m.Name, form, msg, frame, "reflected", c)
							continue
						}
						if callErr != nil {
							if form == own {
								violation("C14/"+typ+"."+m.Name+"/rejects-own-encoding", func() string {
									return fmt.Sprintf("[TZ=%s] %s.%s(%q) failed (%v); that text is the output of %s for the value %s", zone, typ, m.Name, form, callErr, counterpart[m.Name], wantJS)
								}, "reflected", c)
							}
							continue
						}
						gotJS, err := json.Marshal(recv.Elem().Interface())
						if err != nil || string(gotJS) != string(wantJS) {
							violation("C14/"+typ+"."+m.Name+"/wrong-value", func() string {
								return fmt.Sprintf("[TZ=%s] %s.%s(%q) accepted the text and produced %s; the text was written from the value %s", zone, typ, m.Name, form, gotJS, wantJS)
							}, "reflected", c)
						}
					}
				}
			}
		}
	}
	sort.Strings(found)
	R.Set("reflected_entry_points", found)
	family("entry-points-found-by-reflection", evals, distinct)
}
