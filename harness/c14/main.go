// C14 — JSON and text forms of the public types round-trip; bad text is rejected.
//
// Bounded-exhaustive enumeration (no sampling). Accept side: every in-domain value of each type
// over its full domain where feasible -> json.Marshal -> json.Unmarshal into a FRESH ZERO VALUE
// (nil maps) -> semantically equal, no panic; String() -> parser for date, HH:mm, system time, task
// type and card format. Reject side: exhaustive small-alphabet string families judged by the
// hand-written three-valued reference recognisers in verif/spec (must-accept / must-reject /
// unconstrained). Date-times carry a zone abbreviation in JSON, so that part runs over process time
// zones in child worker processes (datetime.go); everything else runs with time.Local = UTC.
//
// Files: main.go (driver, replay, helpers), scalars.go (date, HH:mm, PIN, task type, control state,
// version, MAC, system time, card format), composite.go (weekdays, segments, card, time profile,
// task), addr.go (the four address roles), datetime.go (zone workers).
package main

import (
	"encoding/json"
	"fmt"
	"strings"
	"sync"
	"sync/atomic"
	"time"

	"verif/spec"
	"verif/vk"
)

var R *vk.Run

// failure describes a failed JSON round trip: finding key + human-readable description.
type failure struct {
	key  string
	what func() string
}

// site turns a library frame ("types.(*Weekdays).UnmarshalJSON") into "Weekdays.UnmarshalJSON".
func site(frame, fallback string) string {
	if frame == "" || frame == "unknown" {
		return fallback
	}
	f := strings.TrimPrefix(frame, "types.")
	f = strings.ReplaceAll(f, "(*", "")
	f = strings.ReplaceAll(f, ")", "")
	return f
}

// quietGuard recovers a panic without symbolising the stack (cheap); the library frame that keys
// the finding is looked up once per (site, message) by re-running the call under vk.Guard.
func quietGuard(fn func()) (panicked bool, msg string) {
	defer func() {
		if e := recover(); e != nil {
			panicked = true
			msg = fmt.Sprint(e)
		}
	}()
	fn()
	return
}

var panicFrames sync.Map // typ + "|" + msg -> frame

func guardFrame(typ string, fn func()) (panicked bool, msg, frame string) {
	panicked, msg = quietGuard(fn)
	if !panicked {
		return
	}
	k := typ + "|" + msg
	if f, ok := panicFrames.Load(k); ok {
		return true, msg, f.(string)
	}
	_, _, frame = vk.Guard(fn) // deterministic code: panics again at the same place
	panicFrames.Store(k, frame)
	return true, msg, frame
}

// violation records a finding; the description is only built for the first case of a key.
var seenKeys sync.Map

func violation(key string, what func() string, kind string, c any) {
	if _, dup := seenKeys.LoadOrStore(key, true); dup {
		R.Violation(key, "", kind, nil) // counted only
		return
	}
	R.Violation(key, what(), kind, c)
}

// roundTrip: json.Marshal(v), then json.Unmarshal into a fresh zero value of the same type (nil
// maps, nil pointers). Panics and errors become failures keyed by site and class.
func roundTrip[T any](typ string, v T) (got T, enc []byte, f *failure) {
	var err error
	if p, msg, frame := guardFrame(typ+"/marshal", func() { enc, err = json.Marshal(v) }); p {
		return got, nil, &failure{"C14/" + site(frame, typ+".MarshalJSON") + "/panic", func() string { return fmt.Sprintf("json.Marshal of an in-domain %s panicked: %s", typ, msg) }}
	}
	if err != nil {
		e := err
		return got, nil, &failure{"C14/" + typ + ".MarshalJSON/error", func() string { return fmt.Sprintf("json.Marshal of an in-domain %s failed: %v", typ, e) }}
	}
	var fresh T
	if p, msg, frame := guardFrame(typ+"/unmarshal", func() { var z T; fresh = z; err = json.Unmarshal(enc, &fresh) }); p {
		class := "panic"
		if strings.Contains(msg, "nil map") {
			class = "panic-nil-map"
		}
		return got, enc, &failure{"C14/" + site(frame, typ+".UnmarshalJSON") + "/" + class, func() string {
			return fmt.Sprintf("json.Unmarshal(%s) into a fresh zero-valued %s panicked: %s", enc, typ, msg)
		}}
	}
	if err != nil {
		e := err
		return got, enc, &failure{"C14/" + typ + ".UnmarshalJSON/rejects-own-encoding", func() string {
			return fmt.Sprintf("json.Unmarshal(%s) into a fresh zero-valued %s failed: %v", enc, typ, e)
		}}
	}
	return fresh, enc, nil
}

// judgeText applies a three-valued verdict to the outcome of a parser.
//   - must-accept: error -> <site>/rejects-<acceptClass>; wrong value -> <site>/wrong-value
//   - must-reject: no error -> <site>/accepts-<rejectClass>
//   - unconstrained: nothing (the call has been executed under Guard by the caller)
func judgeText(siteName string, v spec.TxtVerdict, err error, sameValue bool, acceptClass, rejectClass, input, gotText, wantText, kind string, c any) {
	switch v {
	case spec.TxtAccept:
		if err != nil {
			R.Violation("C14/"+siteName+"/rejects-"+acceptClass, fmt.Sprintf("%s(%q) = error %v, want %s", siteName, input, err, wantText), kind, c)
		} else if !sameValue {
			R.Violation("C14/"+siteName+"/wrong-value", fmt.Sprintf("%s(%q) = %s, want %s", siteName, input, gotText, wantText), kind, c)
		}
	case spec.TxtReject:
		if err == nil {
			R.Violation("C14/"+siteName+"/accepts-"+rejectClass, fmt.Sprintf("%s(%q) = %s, want an error (text outside the domain)", siteName, input, gotText), kind, c)
		}
	default:
		unconstrained.Add(1)
	}
}

var unconstrained atomic.Int64 // cases executed but not judged

func panicked(siteName, input, msg, frame, kind string, c any) {
	R.Violation("C14/"+site(frame, siteName)+"/panic", fmt.Sprintf("%s(%q) panicked: %s", siteName, input, msg), kind, c)
}

// strings over an alphabet, every length 0..maxLen, in length-then-lexicographic order.
func allStrings(alphabet string, maxLen int, fn func(s string)) int64 {
	var n int64
	buf := make([]byte, 0, maxLen)
	var rec func(depth, want int)
	rec = func(depth, want int) {
		if depth == want {
			fn(string(buf))
			n++
			return
		}
		for i := 0; i < len(alphabet); i++ {
			buf = append(buf, alphabet[i])
			rec(depth+1, want)
			buf = buf[:len(buf)-1]
		}
	}
	for l := 0; l <= maxLen; l++ {
		rec(0, l)
	}
	return n
}

// corruptions returns every single-character substitution, deletion and insertion of base over
// the alphabet (the base string itself excluded), de-duplicated, in a deterministic order.
func corruptions(base, alphabet string) []string {
	seen := map[string]bool{base: true}
	out := []string{}
	add := func(s string) {
		if !seen[s] {
			seen[s] = true
			out = append(out, s)
		}
	}
	for i := 0; i < len(base); i++ {
		add(base[:i] + base[i+1:])
	}
	for i := 0; i < len(base); i++ {
		for j := 0; j < len(alphabet); j++ {
			add(base[:i] + string(alphabet[j]) + base[i+1:])
		}
	}
	for i := 0; i <= len(base); i++ {
		for j := 0; j < len(alphabet); j++ {
			add(base[:i] + string(alphabet[j]) + base[i:])
		}
	}
	return out
}

// allPairs enumerates the baseline tuple (index 0 everywhere) and, for every pair of fields, every
// combination of their alphabets with the other fields at baseline. Tuples are de-duplicated.
func allPairs(sizes []int, fn func(ix []int)) int64 {
	seen := map[string]bool{}
	var n int64
	emit := func(ix []int) {
		k := fmt.Sprint(ix)
		if seen[k] {
			return
		}
		seen[k] = true
		n++
		fn(append([]int{}, ix...))
	}
	ix := make([]int, len(sizes))
	emit(ix)
	for a := 0; a < len(sizes); a++ {
		for b := a + 1; b < len(sizes); b++ {
			for i := 0; i < sizes[a]; i++ {
				for j := 0; j < sizes[b]; j++ {
					for k := range ix {
						ix[k] = 0
					}
					ix[a], ix[b] = i, j
					emit(ix)
				}
			}
		}
	}
	return n
}

var lastFamily = time.Now()

func family(name string, evaluations, distinct int64) {
	R.Count(evaluations)
	R.Distinct(distinct)
	now := time.Now()
	R.Set("family/"+name, map[string]any{"evaluations": evaluations, "distinct": distinct, "seconds": float64(now.Sub(lastFamily).Milliseconds()) / 1000})
	lastFamily = now
}

func main() {
	R = vk.Start("C14", "exploration")

	if R.Worker != "" {
		workerMain() // never returns
	}
	if R.Replay != "" {
		kind, c, err := vk.LoadReplay(R.Replay)
		if err != nil {
			R.Machinery("cannot load replay: %v", err)
			R.Finish()
		}
		replay(kind, c)
		R.Finish()
	}

	// the date-time workers run concurrently with the UTC families (they are separate processes)
	dt := startDateTimeWorkers()

	runScalars()
	runComposites()
	runAddresses()
	runDateTimeTextUTC()
	runHistories()
	runRetype()

	dt.wait()
	runClockIndependence() // alone: it changes time.Local
	runReflected()         // alone: it changes time.Local

	R.Set("unconstrained_executed_not_judged", unconstrained.Load())
	R.Rule("per family (see coverage keys family/*): accept side = every in-domain value of the stated domain (full domains: dates, HH:mm, PINs, weekday shapes, versions, system times, ports; all-pairs over boundary alphabets for card/profile/task) through json.Marshal -> json.Unmarshal into a fresh zero value and String() -> parser; reject side = every string of the stated small-alphabet families and every single-character substitution/deletion/insertion of the valid spellings, judged by three-valued reference recognisers; date-times = per zone the sorted, de-duplicated set of instants {transition day +-1 at 15 min (quick) / 5 min (thorough) steps, transition instant +-1 s, every hour of 2024, hourly samples in years 1, 1800, 1970, 9999}; clock independence = the text parsers on 6 virtual current dates (ordinary day, the days the clocks change, year end) x 3 process zones with time.Now() on engine E1's virtual clock; histories = every ordered pair of documents of each type (456 consecutive days + far years for dates, 121 HH:mm values, 39 task-type spellings, control states, PINs, versions, MACs, the four address roles, weekday / segment / card / time-profile / task / date-time documents incl. partial ones) decoded one directly after the other from one reused input buffer, the first result scribbled over in between, and HHmmFromString / ParseDate pairs; entry points found by reflection = every method of *T (17 public types) of the shape func([]byte | string | any) error other than UnmarshalJSON, offered sample values in the forms the type itself writes, in 3 process zones (a refusal is not judged, an accepted text must give the value it was written from); distinct = distinct inputs by construction (de-duplicated where families overlap)")
	R.Assume("the Go toolchain, encoding/json and time/tzdata (zone arithmetic: Time.In, Time.Zone, time.Date) are trusted")
	R.Assume("reference recognisers verif/spec/text.go, verif/spec/hhmm.go and the private calendar/address helpers of this harness are trusted (hand-written from the property text)")
	R.Assume("date-time transitions are searched in 1800-01-01 ... 2101-01-01; later years repeat the last rule and are represented by year 9999")
	R.Finish()
}

func replay(kind string, c json.RawMessage) {
	fmt.Printf("replaying kind=%s case=%s\n", kind, c)
	before := R.Violations()
	switch kind {
	case "retype":
		runRetype()
	case "reflected":
		fmt.Println("entry points found by reflection: re-running the family")
		runReflected()
	case "clock":
		runClockIndependence()
	case "history":
		// the pair is re-found by re-running the (small, sequential) histories family
		runHistories()
	case "date":
		var x dateCase
		json.Unmarshal(c, &x)
		checkDate(x)
	case "date-text":
		var x textCase
		json.Unmarshal(c, &x)
		checkDateText(x.S, x.Via)
	case "hhmm":
		var x hhmmCase
		json.Unmarshal(c, &x)
		checkHHmm(x.H, x.M)
	case "hhmm-text":
		var x textCase
		json.Unmarshal(c, &x)
		checkHHmmText(x.S, x.Via)
	case "pin":
		var x uintCase
		json.Unmarshal(c, &x)
		checkPIN(x.V)
	case "pin-text":
		var x textCase
		json.Unmarshal(c, &x)
		checkPINText(x.S)
	case "tasktype":
		var x uintCase
		json.Unmarshal(c, &x)
		checkTaskType(int(x.V))
	case "tasktype-text":
		var x textCase
		json.Unmarshal(c, &x)
		checkTaskTypeText(x.S, x.Via)
	case "tasktype-number":
		var x textCase
		json.Unmarshal(c, &x)
		checkTaskTypeNumber(x.S, x.Via)
	case "controlstate":
		var x uintCase
		json.Unmarshal(c, &x)
		checkControlState(int(x.V))
	case "controlstate-text":
		var x textCase
		json.Unmarshal(c, &x)
		checkControlStateText(x.S)
	case "version":
		var x uintCase
		json.Unmarshal(c, &x)
		checkVersion(uint16(x.V))
	case "mac":
		var x macCase
		json.Unmarshal(c, &x)
		checkMAC(x)
	case "systemtime":
		var x hmsCase
		json.Unmarshal(c, &x)
		checkSystemTime(x.H, x.M, x.S)
	case "systemtime-text":
		var x textCase
		json.Unmarshal(c, &x)
		checkSystemTimeText(x.S)
	case "cardformat":
		var x uintCase
		json.Unmarshal(c, &x)
		checkCardFormat(int(x.V))
	case "weekdays":
		var x weekdaysCase
		json.Unmarshal(c, &x)
		checkWeekdays(x)
	case "segments":
		var x segmentsCase
		json.Unmarshal(c, &x)
		checkSegments(x)
	case "card":
		var x cardCase
		json.Unmarshal(c, &x)
		checkCard(x)
	case "profile":
		var x profileCase
		json.Unmarshal(c, &x)
		checkProfile(x)
	case "task":
		var x taskCase
		json.Unmarshal(c, &x)
		checkTask(x)
	case "addr":
		var x addrCase
		json.Unmarshal(c, &x)
		checkAddr(x)
	case "addr-text":
		var x addrTextCase
		json.Unmarshal(c, &x)
		checkAddrText(x)
	case "datetime":
		var x dtCase
		json.Unmarshal(c, &x)
		replayDateTime(x)
	case "datetime-text":
		var x textCase
		json.Unmarshal(c, &x)
		checkDateTimeText(x.S)
	default:
		R.Machinery("unknown replay kind %q", kind)
		return
	}
	if R.Violations() == before {
		fmt.Println("replay: the case no longer violates the property")
	} else {
		for _, v := range R.Export() {
			fmt.Printf("replay: still fails: %s: %s\n", v.Key, v.What)
		}
	}
}

type textCase struct {
	S   string `json:"s"`
	Via string `json:"via,omitempty"`
}
type uintCase struct {
	V uint32 `json:"v"`
}
