package main

import (
	"bytes"
	"encoding/json"
	"fmt"
	"math/big"
	"reflect"
	"regexp"
	"time"

	"github.com/uhppoted/uhppote-core/types"
)

// JSON token types. The library writes some scalars as strings ("7531") and others as numbers; a
// hand-edited or foreign document may use the other token type, or a number outside the field's
// domain. Every member of the library's own encoding of a card, a time profile and a task is
// re-written in turn (string of digits <-> bare number; numbers replaced by out-of-domain ones of
// the same residue modulo 10^6 / 2^8 / 2^16 / 2^24 / 2^32). The decoder may refuse the document,
// but what it accepts must re-encode to the original document - never to another value; and a PIN
// above 999999 is refused in any token type.

type retypeCase struct {
	Type     string `json:"type"`
	Original string `json:"document"`
	Variant  string `json:"variant"`
}

var reStringDigits = regexp.MustCompile(`"(-?[0-9]+)"`)
var reBareNumber = regexp.MustCompile(`([:\[,])(-?[0-9]+)([,\]}])`)

func retypeVariants(doc string) []string {
	out := []string{}
	for _, m := range reStringDigits.FindAllStringSubmatchIndex(doc, -1) {
		// "digits" -> digits (only where the string is a member value, i.e. preceded by ':')
		if m[0] > 0 && doc[m[0]-1] == ':' {
			out = append(out, doc[:m[0]]+doc[m[2]:m[3]]+doc[m[1]:])
			for _, big := range []string{"1000000", "1234567", "16777215", "16777216", "4294967296", "18446744073709551616"} {
				out = append(out, doc[:m[0]]+big+doc[m[1]:], doc[:m[0]]+`"`+big+`"`+doc[m[1]:])
			}
		}
	}
	for _, m := range reBareNumber.FindAllStringSubmatchIndex(doc, -1) {
		num := doc[m[4]:m[5]]
		out = append(out, doc[:m[4]]+`"`+num+`"`+doc[m[5]:])
		for _, add := range []string{"256", "65536", "16777216", "4294967296", "18446744073709551616"} {
			var v, a int64
			fmt.Sscan(num, &v)
			fmt.Sscan(add, &a)
			if a > 0 {
				out = append(out, doc[:m[4]]+fmt.Sprint(v+a)+doc[m[5]:])
			} else {
				out = append(out, doc[:m[4]]+add+doc[m[5]:]) // 2^64: beyond int64
			}
		}
	}
	return out
}

func runRetype() {
	from, to := types.ToDate(2024, 1, 1), types.ToDate(2024, 12, 31)
	hh := func(h, m int) types.HHmm { return types.NewHHmm(h, m) }
	samples := []struct {
		typ   string
		value any
		fresh func() any
	}{
		{"Card", types.Card{CardNumber: 8165538, From: from, To: to, Doors: map[uint8]uint8{1: 1, 2: 0, 3: 29, 4: 1}, PIN: 7531}, func() any { return &types.Card{} }},
		{"Card", types.Card{CardNumber: 16777216, From: from, To: to, Doors: map[uint8]uint8{1: 0, 2: 0, 3: 0, 4: 254}, PIN: 999999}, func() any { return &types.Card{} }},
		{"TimeProfile", types.TimeProfile{ID: 29, LinkedProfileID: 3, From: from, To: to, Weekdays: types.Weekdays{time.Monday: true},
			Segments: types.Segments{1: {Start: hh(8, 30), End: hh(9, 45)}, 2: {}, 3: {}}}, func() any { return &types.TimeProfile{} }},
		{"Task", types.Task{Task: types.EnableMoreCards, Door: 3, From: from, To: to, Weekdays: types.Weekdays{time.Tuesday: true}, Start: hh(7, 15), Cards: 2}, func() any { return &types.Task{} }},
		{"PIN", types.PIN(7531), func() any { return new(types.PIN) }},
	}
	var n int64
	for _, s := range samples {
		orig, err := json.Marshal(s.value)
		if err != nil {
			R.Machinery("cannot encode the %s sample: %v", s.typ, err)
			continue
		}
		docs := retypeVariants(string(orig))
		if s.typ == "PIN" {
			docs = []string{"7531", `"7531"`, "999999", "1000000", `"1000000"`, "1234567", "16777215", "16777216", "4294974827", "0", `"0"`, "007531", `"007531"`}
		}
		for _, doc := range docs {
			n++
			c := retypeCase{s.typ, string(orig), doc}
			recv := s.fresh()
			var derr error
			if p, msg, frame := guardFrame(s.typ+"/unmarshal", func() { derr = json.Unmarshal([]byte(doc), recv) }); p {
				panicked(s.typ+".UnmarshalJSON", doc, msg, frame, "retype", c)
				continue
			}
			if derr != nil {
				continue // refused: fine
			}
			back, err := json.Marshal(recv)
			if err != nil {
				continue
			}
			if s.typ == "PIN" {
				if p := *(recv.(*types.PIN)); p > 999999 {
					violation("C14/PIN.UnmarshalJSON/accepts-pin-above-999999", func() string { return fmt.Sprintf("%s decodes to PIN %d", doc, p) }, "retype", c)
				}
				continue
			}
			if card, ok := recv.(*types.Card); ok && card.PIN > 999999 {
				violation("C14/Card.UnmarshalJSON/accepts-pin-above-999999", func() string { return fmt.Sprintf("%s decodes to a card with PIN %d", doc, card.PIN) }, "retype", c)
				continue
			}
			// accepted: the value must be the one the document spells (numbers compared as integers,
			// whatever token type they are written in)
			if !sameDocument([]byte(doc), back) {
				violation("C14/"+s.typ+".UnmarshalJSON/retyped-token-decodes-to-another-value", func() string {
					return fmt.Sprintf("%s (a re-typed copy of %s) is accepted and re-encodes as %s", doc, orig, back)
				}, "retype", c)
			}
		}
	}
	family("json-token-types(card, profile, task, PIN: each member string<->number and numbers beyond the domain; refused or equal)", n, n)
}

// sameDocument: two JSON documents denote the same value when they agree member by member, integers
// compared by value whether written as numbers or as strings of digits.
func sameDocument(a, b []byte) bool {
	parse := func(x []byte) (any, bool) {
		d := json.NewDecoder(bytes.NewReader(x))
		d.UseNumber()
		var v any
		return v, d.Decode(&v) == nil
	}
	va, oka := parse(a)
	vb, okb := parse(b)
	return oka && okb && sameJSON(va, vb)
}

func canonInt(v any) (string, bool) {
	var s string
	switch x := v.(type) {
	case json.Number:
		s = x.String()
	case string:
		s = x
	default:
		return "", false
	}
	n, ok := new(big.Int).SetString(s, 10)
	if !ok {
		return "", false
	}
	return n.String(), true
}

func sameJSON(a, b any) bool {
	if ia, ok := canonInt(a); ok {
		ib, ok := canonInt(b)
		return ok && ia == ib
	}
	switch x := a.(type) {
	case map[string]any:
		y, ok := b.(map[string]any)
		if !ok || len(x) != len(y) {
			return false
		}
		for k, v := range x {
			w, ok := y[k]
			if !ok || !sameJSON(v, w) {
				return false
			}
		}
		return true
	case []any:
		y, ok := b.([]any)
		if !ok || len(x) != len(y) {
			return false
		}
		for i := range x {
			if !sameJSON(x[i], y[i]) {
				return false
			}
		}
		return true
	}
	return reflect.DeepEqual(a, b)
}
