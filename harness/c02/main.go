// C02 — replies are interpreted exactly as the protocol defines, sentinels included.
//
// For each reply-bearing operation a scripted in-memory driver returns an enumerated 64-byte reply
// (correct header and serial); the value the public API returns is compared with the reference
// decoder spec.ExpectReply (three-valued per field: in-domain → exact protocol decoding;
// out-of-domain → the call fails or the field is its zero value; unconstrained → not judged).
// Enumerated: baseline; every single-byte field over all 256 values; every HH:mm field over all
// 65536 byte pairs; every BCD date over all (MM,DD) byte pairs x year patterns and all year byte
// pairs x (MM,DD) patterns; every adjacent byte pair of each 7-byte date-time and 3-byte system
// date/time over all 65536 values around several bases; multi-byte binary fields byte-wise and
// over the 32-bit alphabet incl. every sentinel; all pairs of fields over boundary patterns.
package main

import (
	"encoding/binary"
	"encoding/json"
	"fmt"
	"net/netip"
	"strings"
	"sync/atomic"
	"time"

	"github.com/uhppoted/uhppote-core/types"
	"github.com/uhppoted/uhppote-core/uhppote"
	"verif/drv"
	"verif/ops"
	"verif/spec"
	"verif/vk"
)

const serial = uint32(405419896)

type client struct {
	u     uhppote.IUHPPOTE
	fake  *drv.Fake
	reply []byte
	sn    uint32 // when non-zero: the serial number calls are addressed to
}

func newClient() *client { return newClientCfg(0) }

// newClientCfg: 0 = controller not configured (replies arrive through the broadcast path); 1 =
// configured through NewDevice with a time zone of its own (UTC+8), UDP; 2 = configured as a struct
// literal with a time zone (UTC-8), TCP. What a reply means does not depend on the configuration.
func newClientCfg(cfg int) *client {
	c := &client{}
	c.fake = &drv.Fake{Script: func(drv.Call) ([][]byte, error) {
		return [][]byte{append([]byte{}, c.reply...)}, nil
	}}
	var devices []uhppote.Device
	addr := types.ControllerAddrFrom(netip.MustParseAddr("192.168.1.100"), 60000)
	switch cfg {
	case 1:
		devices = []uhppote.Device{uhppote.NewDevice("", serial, addr, "udp", nil, time.FixedZone("UTC+8", 8*3600))}
	case 2:
		devices = []uhppote.Device{{DeviceID: serial, Address: addr, TimeZone: time.FixedZone("UTC-8", -8*3600), Protocol: "tcp"}}
	// 3..6: richer descriptions of the controller (door names fewer / more than doors, a DST zone
	// through NewDevice, no address, an IPv6 address)
	case 3:
		devices = []uhppote.Device{{Name: "one", DeviceID: serial, Address: addr, Doors: []string{"Front"}, TimeZone: time.UTC, Protocol: "udp"}}
	case 4:
		tz, err := time.LoadLocation("America/Santiago")
		if err != nil {
			panic(err)
		}
		devices = []uhppote.Device{uhppote.NewDevice("new", serial, addr, "tcp", []string{"A", "B", "C", "D", "E"}, tz)}
	case 5:
		devices = []uhppote.Device{{Name: "", DeviceID: serial, Doors: []string{"A", "B"}}}
	case 6:
		devices = []uhppote.Device{{Name: "six", DeviceID: serial, Address: types.ControllerAddrFrom(netip.MustParseAddr("2001:db8::68"), 60000), Doors: []string{"A", "B", "C"}, Protocol: "udp"}}
	}
	c.u = uhppote.NewUHPPOTE(types.BindAddr{}, types.BroadcastAddr{}, types.ListenAddr{}, time.Second, devices, false)
	if !drv.Install(c.u, c.fake) {
		panic("cannot install fake driver")
	}
	return c
}

type caseT struct {
	Op    string `json:"op"`
	Args  string `json:"args"`
	Reply string `json:"reply"`
}

func observe(c *client, op *spec.Op, args spec.Args) (o spec.Observed) {
	if op.Broadcast {
		list, err := ops.InvokeGetDevices(c.u)
		o.Err = err
		if err == nil {
			if len(list) == 0 {
				// discovery drops undecodable replies instead of failing: same as a failed call
				o.Err = fmt.Errorf("reply dropped by discovery")
			} else {
				o.Fields = list[0]
			}
		}
		return
	}
	return ops.Invoke(c.u, op.Name, c.serial(), args)
}

// serial: the controller the client's calls are addressed to (the serial-number family varies it)
func (c *client) serial() uint32 {
	if c.sn != 0 {
		return c.sn
	}
	return serial
}

func check(r *vk.Run, c *client, op *spec.Op, args spec.Args, reply []byte) {
	c.reply = reply
	c.fake.Calls = c.fake.Calls[:0]
	c.fake.Delivered = c.fake.Delivered[:0]
	sn := c.serial()
	if op.Broadcast {
		// discovery reports whatever serial the reply carries
		sn = binary.LittleEndian.Uint32(reply[4:8])
	}
	e := spec.ExpectReply(op, sn, args, reply)
	if op.Name == "GetDevice" || op.Name == "GetDevices" {
		ip := e.Fields["IpAddress"].([4]byte)
		e.Fields["Address"] = netip.AddrPortFrom(netip.AddrFrom4(ip), 60000)
		e.Doms["Address"] = spec.In
		e.Fields["Name"] = ""
		e.Doms["Name"] = spec.In
	}
	var o spec.Observed
	if p, msg, frame := vk.Guard(func() { o = observe(c, op, args) }); p {
		r.Violation("C02/"+op.Name+"/panic/"+frame, "panic: "+msg, "reply", caseT{op.Name, fmt.Sprint(map[string]any(args)), vk.Hex(reply)})
		return
	}
	if v := spec.Judge(e, o); v.Class != "" {
		key := "C02/" + op.Name + "/" + v.Class
		if v.Field != "" {
			key = "C02/" + op.Name + "/" + v.Field + "/" + v.Class
		}
		if v.Class == "harness-missing-field" {
			r.Machinery("%s: %s", op.Name, v.Detail)
			return
		}
		r.Violation(key, v.Detail, "reply", caseT{op.Name, fmt.Sprint(map[string]any(args)), vk.Hex(reply)})
		return
	}
	// the protocol decoding of a date-time is that wall clock in the process time zone: the value
	// returned must also denote that instant (judged away from the zone's offset changes)
	if o.Err == nil && !o.Nil && e.Sentinel == "" {
		for k, w := range e.Fields {
			_, ok := w.(spec.CivilDT)
			u, has := o.Fields[k+"@unix"].(int64)
			dt, ok2 := o.Fields[k].(spec.CivilDT) // the wall clock reported (already judged equal to the reference decoding)
			if !ok || !ok2 || !has || dt.Zero || e.Doms[k] != spec.In || dt.Y < 1 {
				continue
			}
			want := ops.ToTime(dt, time.Local)
			_, o0 := want.Zone()
			_, o1 := want.Add(-26 * time.Hour).Zone()
			_, o2 := want.Add(26 * time.Hour).Zone()
			if o0 != o1 || o0 != o2 {
				continue
			}
			if u != want.Unix() {
				r.Violation("C02/"+op.Name+"/"+k+"/wrong-instant", fmt.Sprintf("result field %s shows the wall clock of the reply but denotes the instant %s; the protocol decoding is that wall clock in the process time zone, %s",
					k, time.Unix(u, 0).UTC().Format(time.RFC3339), want.UTC().Format(time.RFC3339)), "reply", caseT{op.Name, fmt.Sprint(map[string]any(args)), vk.Hex(reply)})
			}
		}
	}
}

func timeBearing(op *spec.Op) bool {
	for _, f := range op.Reply {
		switch f.Enc {
		case spec.DateTime, spec.SysDate, spec.SysTime:
			return true
		}
	}
	return false
}

type job struct {
	op   *spec.Op
	cfg  int
	name string
	run  func(c *client, emit func(reply []byte))
	n    int64
}

var u32alphabet = func() []uint32 {
	v := []uint32{0, 1, 2, 0xff, 0x100, 0xffff, 0x10000, 0xffffff, 0x1000000, 0x7fffffff, 0x80000000, 0xfffffffe, 0xffffffff, 0x01020304, 0x04030201, 999999, 1000000}
	for i := 0; i < 32; i++ {
		v = append(v, 1<<uint(i), ^(uint32(1) << uint(i)))
	}
	return v
}()

// boundary byte patterns per encoding, for the all-pairs family
func patterns(f spec.Field) [][]byte {
	switch f.Enc {
	case spec.U8:
		return [][]byte{{0}, {1}, {2}, {4}, {0x7f}, {0xff}}
	case spec.Bool:
		return [][]byte{{0}, {1}, {2}, {0xff}}
	case spec.U32:
		return [][]byte{{0, 0, 0, 0}, {1, 0, 0, 0}, {0xff, 0xff, 0xff, 0xff}, {0xff, 0xff, 0xff, 0}, {4, 3, 2, 1}}
	case spec.Date:
		return [][]byte{{0, 0, 0, 0}, {0x20, 0x24, 0x02, 0x29}, {0x20, 0x23, 0x02, 0x29}, {0x99, 0x99, 0x12, 0x31}, {0x20, 0x2a, 0x01, 0x01}, {0x00, 0x01, 0x01, 0x02}}
	case spec.DateTime:
		return [][]byte{{0, 0, 0, 0, 0, 0, 0}, {0x20, 0, 0, 0, 0, 0, 0}, {0x20, 0x24, 0x02, 0x29, 0x23, 0x59, 0x59}, {0x20, 0x24, 0x02, 0x30, 0x12, 0x00, 0x00}, {0x20, 0x24, 0x12, 0x31, 0x24, 0x00, 0x00}, {0x20, 0x24, 0x12, 0x31, 0x0a, 0x00, 0x00}}
	case spec.SysDate:
		return [][]byte{{0, 0, 0}, {0x24, 0x02, 0x29}, {0x23, 0x02, 0x29}, {0x99, 0x12, 0x31}, {0x24, 0x13, 0x01}, {0x2a, 0x01, 0x01}}
	case spec.SysTime:
		return [][]byte{{0, 0, 0}, {0x23, 0x59, 0x59}, {0x24, 0x00, 0x00}, {0x12, 0x60, 0x00}, {0x12, 0x00, 0x60}, {0x1a, 0x00, 0x00}}
	case spec.HHmm:
		return [][]byte{{0, 0}, {0x23, 0x59}, {0x24, 0x00}, {0x24, 0x01}, {0x23, 0x60}, {0x25, 0x00}, {0x0a, 0x00}}
	case spec.PIN:
		return [][]byte{{0, 0, 0}, {0x3f, 0x42, 0x0f}, {0xff, 0xff, 0xff}, {1, 2, 3}}
	case spec.Version:
		return [][]byte{{0, 0}, {0x08, 0x92}, {0xff, 0xff}}
	case spec.IPv4:
		return [][]byte{{0, 0, 0, 0}, {255, 255, 255, 255}, {1, 2, 3, 4}}
	case spec.AddrPort:
		return [][]byte{{0, 0, 0, 0, 0, 0}, {255, 255, 255, 255, 255, 255}, {1, 2, 3, 4, 5, 6}, {0, 0, 0, 0, 0x61, 0xea}, {0, 0, 0, 0, 0xff, 0xff}, {1, 2, 3, 4, 0, 0}, {255, 255, 255, 255, 0x60, 0xea}}
	case spec.MAC:
		return [][]byte{{0, 0, 0, 0, 0, 0}, {255, 255, 255, 255, 255, 255}, {1, 2, 3, 4, 5, 6}}
	}
	return nil
}

// alternative valid bases for a BCD field (besides the baseline value)
func bcdBases(f spec.Field, thorough bool) [][]byte {
	var b [][]byte
	switch f.Enc {
	case spec.DateTime:
		b = [][]byte{nil, {0, 0, 0, 0, 0, 0, 0}, {0x20, 0, 0, 0, 0, 0, 0}, {0x20, 0x24, 0x02, 0x29, 0x23, 0x59, 0x59}, {0x19, 0x99, 0x12, 0x31, 0x00, 0x00, 0x00}}
		if !thorough {
			b = b[:3]
		}
		if thorough {
			b = append(b, []byte{0x99, 0x99, 0x12, 0x31, 0x23, 0x59, 0x59}, []byte{0x00, 0x01, 0x01, 0x02, 0x00, 0x00, 0x01}, []byte{0x21, 0x00, 0x02, 0x28, 0x09, 0x09, 0x09})
		}
	case spec.SysDate:
		b = [][]byte{nil, {0x24, 0x02, 0x29}, {0x99, 0x12, 0x31}, {0, 0, 0}, {0x01, 0x01, 0x01}}
	case spec.SysTime:
		b = [][]byte{nil, {0x23, 0x59, 0x59}, {0x00, 0x00, 0x00}, {0x09, 0x09, 0x09}, {0x19, 0x30, 0x30}}
	}
	return b
}

func main() {
	r := vk.Start("C02", "exploration")
	if r.Replay != "" {
		_, raw, err := vk.LoadReplay(r.Replay)
		if err != nil {
			r.Machinery("cannot load replay: %v", err)
			r.Finish()
		}
		var cs caseT
		json.Unmarshal(raw, &cs)
		op := spec.OpByName(cs.Op)
		reply := make([]byte, 64)
		fmt.Sscanf(cs.Reply, "%x", &reply)
		vals := spec.Args{}
		for _, f := range op.Reply {
			v, _ := spec.GetField(reply, f)
			vals[f.Name] = v
		}
		base := ops.BaselineReply(op)
		args := ops.EchoArgs(op, base)
		c := newClient()
		c.reply = reply
		o := observe(c, op, args)
		e := spec.ExpectReply(op, serial, args, reply)
		fmt.Printf("replay %s reply=%s\n  library: err=%v nil=%v fields=%v\n  reference: sentinel=%q anyOut=%v fields=%v\n", cs.Op, cs.Reply, o.Err, o.Nil, o.Fields, e.Sentinel, e.AnyOut, e.Fields)
		check(r, c, op, args, reply)
		r.Finish()
	}

	jobs := []job{}
	var distinct atomic.Int64

	for i := range spec.Ops {
		op := &spec.Ops[i]
		if op.NoReply {
			continue
		}
		base := ops.BaselineReply(op)
		baseReply := spec.EncodeReply(op, serial, base)
		args := ops.EchoArgs(op, base)
		mk := func() []byte { return append([]byte{}, baseReply...) }
		add := func(name string, fn func(c *client, emit func([]byte))) {
			jobs = append(jobs, job{op: op, name: name, run: fn})
			// operations whose replies carry dates or times (and, thorough, all of them) again through
			// clients that have the controller configured with a time zone of its own
			light := name == "baseline" || name == "all-pairs" || name == "consecutive-replies" || strings.HasSuffix(name, "-all/base0")
			if (timeBearing(op) && light) || r.Thorough() {
				if op.Name != "GetDevice" && !op.Broadcast {
					jobs = append(jobs, job{op: op, cfg: 1, name: name + "/configured-udp+8", run: fn}, job{op: op, cfg: 2, name: name + "/configured-tcp-8", run: fn})
				}
			}
			// every operation's light families (and every single-byte field over all 256 values) through the
			// richer descriptions of the controller
			if (name == "baseline" || name == "all-pairs" || strings.HasSuffix(name, "/all-256")) && op.Name != "GetDevice" && !op.Broadcast {
				for cfg := 3; cfg <= 6; cfg++ {
					jobs = append(jobs, job{op: op, cfg: cfg, name: fmt.Sprintf("%s/rich-configuration-%d", name, cfg), run: fn})
				}
			}
		}

		add("baseline", func(c *client, emit func([]byte)) { emit(mk()) })

		for _, f := range op.Reply {
			f := f
			w := f.Enc.Width()
			switch f.Enc {
			case spec.U8, spec.Bool:
				add(f.Name+"/all-256", func(c *client, emit func([]byte)) {
					for v := 0; v < 256; v++ {
						b := mk()
						b[f.Off] = byte(v)
						emit(b)
					}
				})
			case spec.HHmm:
				add(f.Name+"/all-65536", func(c *client, emit func([]byte)) {
					for v := 0; v < 65536; v++ {
						b := mk()
						b[f.Off], b[f.Off+1] = byte(v>>8), byte(v)
						emit(b)
					}
				})
			case spec.Date:
				years := [][2]byte{{0, 0}, {0, 1}, {0x19, 0x99}, {0x20, 0x00}, {0x20, 0x23}, {0x20, 0x24}, {0x21, 0x00}, {0x99, 0x99}, {0x20, 0x2a}}
				if r.Quick() {
					years = [][2]byte{{0, 1}, {0x20, 0x23}, {0x20, 0x24}, {0x21, 0x00}, {0x20, 0x2a}}
				}
				for _, y := range years {
					y := y
					add(fmt.Sprintf("%s/mmdd-all/year=%02x%02x", f.Name, y[0], y[1]), func(c *client, emit func([]byte)) {
						for v := 0; v < 65536; v++ {
							b := mk()
							b[f.Off], b[f.Off+1], b[f.Off+2], b[f.Off+3] = y[0], y[1], byte(v>>8), byte(v)
							emit(b)
						}
					})
				}
				for _, md := range [][2]byte{{0x01, 0x01}, {0x02, 0x29}, {0x02, 0x30}, {0x12, 0x31}, {0x13, 0x01}, {0, 0}} {
					md := md
					add(fmt.Sprintf("%s/yyyy-all/mmdd=%02x%02x", f.Name, md[0], md[1]), func(c *client, emit func([]byte)) {
						for v := 0; v < 65536; v++ {
							b := mk()
							b[f.Off], b[f.Off+1], b[f.Off+2], b[f.Off+3] = byte(v>>8), byte(v), md[0], md[1]
							emit(b)
						}
					})
				}
				if r.Thorough() {
					for _, fix := range [][2]byte{{0x20, 0x29}, {0x19, 0x31}, {0x00, 0x01}} {
						fix := fix
						add(fmt.Sprintf("%s/middle-pair-all/%02x..%02x", f.Name, fix[0], fix[1]), func(c *client, emit func([]byte)) {
							for v := 0; v < 65536; v++ {
								b := mk()
								b[f.Off], b[f.Off+1], b[f.Off+2], b[f.Off+3] = fix[0], byte(v>>8), byte(v), fix[1]
								emit(b)
							}
						})
					}
				}
			case spec.DateTime, spec.SysDate, spec.SysTime:
				for bi, bb := range bcdBases(f, r.Thorough()) {
					bb := bb
					for p := 0; p+1 < w; p++ {
						p := p
						add(fmt.Sprintf("%s/pair%d-all/base%d", f.Name, p, bi), func(c *client, emit func([]byte)) {
							for v := 0; v < 65536; v++ {
								b := mk()
								if bb != nil {
									copy(b[f.Off:], bb)
								}
								b[f.Off+p], b[f.Off+p+1] = byte(v>>8), byte(v)
								emit(b)
							}
						})
					}
				}
			}
			// binary multi-byte fields: each byte over all values, plus the 32-bit alphabet
			switch f.Enc {
			case spec.U32, spec.PIN, spec.Version, spec.IPv4, spec.AddrPort, spec.MAC:
				add(f.Name+"/bytewise", func(c *client, emit func([]byte)) {
					for p := 0; p < w; p++ {
						for v := 0; v < 256; v++ {
							b := mk()
							b[f.Off+p] = byte(v)
							emit(b)
						}
					}
					for _, fill := range []byte{0x00, 0xff} {
						b := mk()
						for p := 0; p < w; p++ {
							b[f.Off+p] = fill
						}
						emit(b)
					}
					if w >= 4 {
						for _, v := range u32alphabet {
							b := mk()
							binary.LittleEndian.PutUint32(b[f.Off:], v)
							emit(b)
						}
					}
				})
			}
		}

		// all pairs of fields over boundary patterns
		add("all-pairs", func(c *client, emit func([]byte)) {
			for x := 0; x < len(op.Reply); x++ {
				for y := x + 1; y < len(op.Reply); y++ {
					fx, fy := op.Reply[x], op.Reply[y]
					for _, px := range patterns(fx) {
						for _, py := range patterns(fy) {
							b := mk()
							copy(b[fx.Off:], px)
							copy(b[fy.Off:], py)
							emit(b)
						}
					}
				}
			}
		})

		// value histories: every ordered pair of boundary patterns of one field as two consecutive replies
		add("consecutive-replies", func(c *client, emit func([]byte)) {
			for _, f := range op.Reply {
				ps := patterns(f)
				for _, p1 := range ps {
					for _, p2 := range ps {
						b1, b2 := mk(), mk()
						copy(b1[f.Off:], p1)
						copy(b2[f.Off:], p2)
						emit(b1)
						emit(b2)
					}
				}
			}
		})

		// sentinel interplay with the request arguments (echo rules)
		switch op.Name {
		case "GetCardByID", "GetCardByIndex":
			add("sentinels", func(c *client, emit func([]byte)) {})
		}
		_ = args
	}

	// run the jobs
	vk.Parallel(len(jobs), func(i int) {
		j := jobs[i]
		c := newClientCfg(j.cfg)
		base := ops.BaselineReply(j.op)
		args := ops.EchoArgs(j.op, base)
		var n int64
		j.run(c, func(reply []byte) {
			check(r, c, j.op, args, reply)
			n++
			if n == 1 && i%37 == 0 {
				r.Sample(map[string]any{"op": j.op.Name, "family": j.name, "reply": vk.Hex(reply)})
			}
		})
		r.Count(n)
		distinct.Add(n)
		jobs[i].n = n
	})

	// echo-rule sentinels: the request argument is varied against the echoed reply value
	{
		c := newClient()
		for _, name := range []string{"GetCardByID", "GetCardByIndex", "GetTimeProfile", "GetEvent", "SetEventIndex"} {
			op := spec.OpByName(name)
			base := ops.BaselineReply(op)
			// (asked, echoed) pairs: the 32-bit alphabet squared, plus numbers that are related without being
			// equal - the two ways of writing one Wiegand-26 card (facility*100000+number vs facility<<16|number),
			// decimal / hexadecimal readings of the same digits, byte-swapped and BCD forms
			type pair struct{ asked, echoed uint32 }
			pairs := []pair{}
			for _, a := range u32alphabet {
				for _, e := range u32alphabet {
					pairs = append(pairs, pair{a, e})
				}
			}
			for _, fc := range []uint32{0, 1, 100, 153, 255} {
				for _, n := range []uint32{0, 1, 58399, 65535} {
					dec, code := fc*100000+n, fc<<16|n
					pairs = append(pairs, pair{dec, code}, pair{code, dec}, pair{dec, dec}, pair{code, code})
				}
			}
			for _, v := range []uint32{8165538, 10058399, 12345678, 99999999} {
				var hex, swapped uint32
				fmt.Sscanf(fmt.Sprint(v), "%x", &hex) // the decimal digits read as hexadecimal
				swapped = v>>24 | (v>>8)&0xff00 | (v<<8)&0xff0000 | v<<24
				pairs = append(pairs, pair{v, hex}, pair{hex, v}, pair{v, swapped}, pair{swapped, v}, pair{v, v + 1}, pair{v, v - 1}, pair{v, v ^ 0x80000000})
			}
			for _, pr := range pairs {
				asked, echoed := pr.asked, pr.echoed
				{
					vals := spec.Args{}
					for k, v := range base {
						vals[k] = v
					}
					args := ops.EchoArgs(op, base)
					switch name {
					case "GetCardByID":
						args["CardNumber"], vals["CardNumber"] = asked, echoed
					case "GetCardByIndex":
						args["Index"], vals["CardNumber"] = asked, echoed
					case "GetTimeProfile":
						args["ProfileID"], vals["ProfileID"] = uint8(asked), uint8(echoed)
					case "GetEvent":
						args["Index"], vals["Index"] = asked, echoed
						vals["Type"] = uint8(echoed >> 24) // walks through 0xff as well
					case "SetEventIndex":
						args["Index"] = asked
					}
					check(r, c, op, args, spec.EncodeReply(op, serial, vals))
					r.Count(1)
					distinct.Add(1)
				}
			}
		}
	}

	// serial numbers: what a reply means does not depend on which controller it comes from. Every
	// operation (unconfigured client: any serial number takes the broadcast-to path) addressed to each
	// of 99 serial numbers - every leading decimal digit of the nine-digit form (the model series digit),
	// powers of two and their complements, the extremes - answered with the baseline reply and with each
	// reply field in turn set to each of its boundary patterns
	{
		serials := []uint32{1, 2, 99999999, 0xfffffffe, 0xffffffff, 0x00ffffff, 423187757, 757781324, 303986753}
		for d := uint32(1); d <= 9; d++ {
			serials = append(serials, d*100000000, d*100000000+5419896, d*100000000+99999999)
		}
		for i := 0; i < 32; i++ {
			serials = append(serials, 1<<uint(i), ^(uint32(1) << uint(i)))
		}
		var nops []*spec.Op
		for i := range spec.Ops {
			if op := &spec.Ops[i]; !op.NoReply && !op.Broadcast {
				nops = append(nops, op)
			}
		}
		vk.Parallel(len(nops), func(i int) {
			op := nops[i]
			c := newClient()
			var n int64
			for _, sn := range serials {
				c.sn = sn
				base := ops.BaselineReply(op)
				args := ops.EchoArgs(op, base)
				valid := spec.EncodeReply(op, sn, base)
				check(r, c, op, args, valid)
				n++
				for _, f := range op.Reply {
					for _, pat := range patterns(f) {
						b := append([]byte{}, valid...)
						copy(b[f.Off:], pat)
						check(r, c, op, args, b)
						n++
					}
				}
			}
			r.Count(n)
			distinct.Add(n)
		})
	}

	// what the controller said earlier: one client first asks GetDevice (answered with firmware version
	// 6.62 / 6.99 / 8.92 / 0.00 / ff.ff) and GetStatus (answered with a v6.62 status, protocol id 0x19), then
	// every operation is answered with its baseline reply and each field's boundary patterns - a reply
	// means what the protocol says, whatever an earlier reply reported
	{
		devOp, statusOp := spec.OpByName("GetDevice"), spec.OpByName("GetStatus")
		versions := []uint16{0x0662, 0x0699, 0x0892, 0x0000, 0xffff}
		vk.Parallel(len(versions), func(i int) {
			c := newClient()
			dv := ops.BaselineReply(devOp)
			dv["Version"] = versions[i]
			check(r, c, devOp, ops.EchoArgs(devOp, dv), spec.EncodeReply(devOp, serial, dv))
			st := spec.EncodeReply(statusOp, serial, ops.BaselineReply(statusOp))
			st[0] = 0x19
			c.reply = st
			ops.Invoke(c.u, "GetStatus", serial, ops.Baseline(statusOp))
			var n int64 = 2
			for k := range spec.Ops {
				op := &spec.Ops[k]
				if op.NoReply || op.Broadcast {
					continue
				}
				base := ops.BaselineReply(op)
				args := ops.EchoArgs(op, base)
				valid := spec.EncodeReply(op, serial, base)
				check(r, c, op, args, valid)
				n++
				for _, f := range op.Reply {
					for _, pat := range patterns(f) {
						b := append([]byte{}, valid...)
						copy(b[f.Off:], pat)
						check(r, c, op, args, b)
						n++
					}
				}
			}
			r.Count(n)
			distinct.Add(n)
		})
	}

	// impossible times of day on every date: second 60 / 61 / 99, minute 60, hour 24 with minutes, hour 25
	// on every calendar day 1999-12-30 .. 2031-01-02 (leap-second days, year ends, ordinary days alike), in
	// the date-times of GetTime, SetTime, GetEvent and the GetStatus event: never a valid date-time
	{
		type tod struct{ h, m, s byte }
		bad := []tod{{0x23, 0x59, 0x60}, {0x00, 0x00, 0x60}, {0x12, 0x00, 0x60}, {0x23, 0x59, 0x61}, {0x23, 0x59, 0x99}, {0x23, 0x60, 0x00}, {0x24, 0x00, 0x01}, {0x24, 0x01, 0x00}, {0x25, 0x00, 0x00}, {0x07, 0x59, 0x60}, {0x15, 0x59, 0x60}}
		targets := []struct{ op, field string }{{"GetTime", "DateTime"}, {"SetTime", "DateTime"}, {"GetEvent", "Timestamp"}, {"GetStatus", "Timestamp"}}
		days := []time.Time{}
		for d := time.Date(1999, 12, 30, 12, 0, 0, 0, time.UTC); d.Before(time.Date(2031, 1, 3, 0, 0, 0, 0, time.UTC)); d = d.AddDate(0, 0, 1) {
			days = append(days, d)
		}
		vk.Parallel(len(targets), func(ti int) {
			tg := targets[ti]
			op := spec.OpByName(tg.op)
			c := newClient()
			base := ops.BaselineReply(op)
			args := ops.EchoArgs(op, base)
			valid := spec.EncodeReply(op, serial, base)
			off := -1
			for _, f := range op.Reply {
				if f.Name == tg.field {
					off = f.Off
				}
			}
			if off < 0 {
				r.Machinery("no field %s in the %s reply", tg.field, tg.op)
				return
			}
			var n int64
			for _, d := range days {
				for _, t := range bad {
					b := append([]byte{}, valid...)
					y := d.Year()
					copy(b[off:], []byte{spec.BCD2(y / 100), spec.BCD2(y % 100), spec.BCD2(int(d.Month())), spec.BCD2(d.Day()), t.h, t.m, t.s})
					check(r, c, op, args, b)
					n++
				}
			}
			r.Count(n)
			distinct.Add(n)
		})
	}

	// request echoes: a set-time reply that repeats (or differs by a second or a day from) the wall
	// clock the caller asked for, the request time being held in each of 7 Locations - the result is
	// the decoding of the reply, whatever the request was
	{
		op := spec.OpByName("SetTime")
		locs := []*time.Location{time.UTC, time.Local, time.FixedZone("UTC+8", 8*3600), time.FixedZone("UTC-8", -8*3600)}
		for _, name := range []string{"America/New_York", "Pacific/Apia", "Asia/Kathmandu"} {
			l, err := time.LoadLocation(name)
			if err != nil {
				r.Machinery("%v", err)
				continue
			}
			locs = append(locs, l)
		}
		civils := []spec.CivilDT{{Y: 2024, M: 6, D: 15, H: 12, Mi: 34, S: 56}, {Y: 2024, M: 1, D: 1}, {Y: 2023, M: 12, D: 31, H: 23, Mi: 59, S: 59},
			{Y: 2024, M: 2, D: 29, H: 6}, {Y: 2000, M: 1, D: 1, H: 0, Mi: 0, S: 1}, {Y: 2099, M: 12, D: 31, H: 23, Mi: 59, S: 59}, {Y: 1970, M: 1, D: 1}, {Y: 2024, M: 11, D: 3, H: 1, Mi: 30}}
		for cfg := 0; cfg <= 2; cfg++ {
			c := newClientCfg(cfg)
			for _, loc := range locs {
				for _, cv := range civils {
					asked := ops.ToTime(cv, loc)
					for _, delta := range []time.Duration{0, time.Second, -time.Second, 24 * time.Hour, -time.Hour} {
						a := asked.Add(delta)
						echoed := spec.CivilDT{Y: a.Year(), M: int(a.Month()), D: a.Day(), H: a.Hour(), Mi: a.Minute(), S: a.Second()}
						args := ops.Baseline(op)
						args[ops.RawTime] = asked
						check(r, c, op, args, spec.EncodeReply(op, serial, spec.Args{"DateTime": echoed}))
						r.Count(1)
						distinct.Add(1)
					}
				}
			}
		}
	}

	// date histories: consecutive replies (and the two date fields of one reply) carrying every ordered
	// pair of calendar days at most 40 days apart in 2023-12-01 .. 2025-02-28 - a decoder that
	// remembers the previous date under a lossy key reports the second one wrongly
	{
		c := newClient()
		type ymd = spec.Civil
		window := []ymd{}
		for d := time.Date(2023, 12, 1, 12, 0, 0, 0, time.UTC); d.Before(time.Date(2025, 3, 1, 0, 0, 0, 0, time.UTC)); d = d.AddDate(0, 0, 1) {
			window = append(window, ymd{Y: d.Year(), M: int(d.Month()), D: d.Day()})
		}
		card, status, device := spec.OpByName("GetCardByIndex"), spec.OpByName("GetStatus"), spec.OpByName("GetDevice")
		var n int64
		for i := range window {
			for j := range window {
				if d := i - j; d < -40 || d > 40 {
					continue
				}
				// one reply, two date fields
				vals := ops.BaselineReply(card)
				vals["From"], vals["To"] = window[i], window[j]
				check(r, c, card, ops.EchoArgs(card, vals), spec.EncodeReply(card, serial, vals))
				// two consecutive replies of two different operations
				dv := ops.BaselineReply(device)
				dv["Date"] = window[i]
				check(r, c, device, ops.EchoArgs(device, dv), spec.EncodeReply(device, serial, dv))
				sv := ops.BaselineReply(status)
				sv["SystemDate"] = spec.Civil{Y: window[j].Y % 100, M: window[j].M, D: window[j].D}
				check(r, c, status, ops.EchoArgs(status, sv), spec.EncodeReply(status, serial, sv))
				n += 3
			}
		}
		r.Count(n)
		distinct.Add(n)
		r.Set("date_history_cases", n)
	}

	fam := map[string]int64{}
	for _, j := range jobs {
		fam[j.op.Name] += j.n
	}
	r.Set("cases_per_operation", fam)
	r.Distinct(distinct.Load())
	r.Rule("per reply-bearing operation: baseline reply; each 1-byte field x all 256 values; each HH:mm field x all 65536 byte pairs; each BCD date x (all 65536 MMDD pairs x 5 (thorough 9) year patterns + all 65536 year pairs x 6 MMDD patterns); each adjacent byte pair of every date-time x all 65536 values x 3 (thorough 8) bases and of every system date / system time x 5 bases; binary multi-byte fields byte-wise + 32-bit alphabet; all pairs of fields over boundary patterns; every ordered pair of boundary patterns of one field as two consecutive replies; echo-rule sentinels over (asked, echoed) pairs of the 32-bit alphabet; date histories: every ordered pair of days <= 40 days apart in 2023-12-01..2025-02-28 as From/To of one card reply and as the dates of two consecutive replies (GetDevice, GetStatus). operations whose replies carry a date-time or system date/time (baseline, field pairs, consecutive replies and every adjacent byte pair of the time fields on the first base; thorough: every family of every operation) also through clients with the controller configured with its own time zone (NewDevice/UDP/UTC+8 and literal/TCP/UTC-8). distinct = replies generated (each differs from the baseline in the swept bytes; sweeps pass through the baseline value once per family)")
	r.Assume("reference decoder spec.ExpectReply / spec.GetField and tables spec/protocol.go (hand-written)")
	r.Assume("replies reach the API through the broadcast path of an unconfigured client (the directed paths share the decoding code; their filters are C03)")
	r.Assume("process time zone pinned to UTC (zone dependence is C05/C13)")
	r.Finish()
}
