//go:build !verifcard

package main

import "verif/vk"

// Built without the `verifcard` tag the exported predicate uhppote.VerifIsCardNumberValid does not
// exist: the 2^32 card number sweep cannot run (./check builds with the tags in ./TAGS).
func sweepAllCardNumbers(r *vk.Run) {
	r.NotExhaustive("harness built without the verifcard build tag: the 2^32 card number sweep through VerifIsCardNumberValid was skipped")
}

func replayPredicate(r *vk.Run, p predicateCase) {
	r.Machinery("predicate replay needs a harness built with the verifcard build tag")
}
