package main

import (
	"fmt"
	"time"

	"github.com/uhppoted/uhppote-core/types"
	"github.com/uhppoted/uhppote-core/uhppote"
	"verif/drv"
	"verif/vk"
)

// A client is one real uhppote.IUHPPOTE (built by NewUHPPOTE) whose transport has been replaced
// by the recording fake driver. The fake answers every request with a valid reply for that
// function code carrying the serial number of the request.
type client struct {
	u uhppote.IUHPPOTE
	f *drv.Fake
}

// Client configurations: how the addressed controller is known to the client, i.e. which send
// path (and which second controller-id guard) the call goes through.
const (
	cfgBroadcast = 0 // controller not configured: request goes out through BroadcastTo
	cfgUDP       = 1 // controller configured with an address: SendUDP
	cfgTCP       = 2 // controller configured with an address and protocol tcp: SendTCP
)

// "Rich" configurations: the controller is described in more detail (door names, a name, a time
// zone, built through NewDevice, configured without an address). Whether a call is rejected is a
// function of its arguments alone, so every table-built family is repeated through each of them.
const (
	cfgDoors1    = 3 // udp, one door name
	cfgDoors2    = 4 // tcp, two door names
	cfgDoors3    = 5 // udp, three door names, no time zone
	cfgDoors5    = 6 // udp, five door names
	cfgNewDevice = 7 // built by uhppote.NewDevice with four door names and a DST time zone
	cfgNoAddress = 8 // configured (two door names) without an address: broadcast path
)

var richCfgs = []int{cfgDoors1, cfgDoors2, cfgDoors3, cfgDoors5, cfgNewDevice, cfgNoAddress}

var cfgNames = []string{"unconfigured", "configured-udp", "configured-tcp", "configured-udp-1-door-name", "configured-tcp-2-door-names",
	"configured-udp-3-door-names-no-zone", "configured-udp-5-door-names", "configured-through-NewDevice-4-door-names-Santiago", "configured-without-address-2-door-names"}

func richDevice(cfg int, id uint32) uhppote.Device {
	addr := types.MustParseControllerAddr("192.168.1.100:60000")
	switch cfg {
	case cfgDoors1:
		return uhppote.Device{Name: "one", DeviceID: id, Address: addr, Doors: []string{"Front"}, TimeZone: time.UTC, Protocol: "udp"}
	case cfgDoors2:
		return uhppote.Device{Name: "two", DeviceID: id, Address: addr, Doors: []string{"Front", "Back"}, TimeZone: time.UTC, Protocol: "tcp"}
	case cfgDoors3:
		return uhppote.Device{Name: "three", DeviceID: id, Address: addr, Doors: []string{"A", "B", "C"}, Protocol: "udp"}
	case cfgDoors5:
		return uhppote.Device{Name: "five", DeviceID: id, Address: addr, Doors: []string{"A", "B", "C", "D", "E"}, TimeZone: time.UTC, Protocol: "udp"}
	case cfgNewDevice:
		tz, err := time.LoadLocation("America/Santiago")
		if err != nil {
			panic(err)
		}
		return uhppote.NewDevice("new", id, addr, "udp", []string{"A", "B", "C", "D"}, tz)
	default:
		return uhppote.Device{Name: "", DeviceID: id, Doors: []string{"A", "B"}, TimeZone: time.UTC}
	}
}

func newClient(cfg int, id uint32) (*client, error) {
	devices := []uhppote.Device{}
	switch cfg {
	case cfgDoors1, cfgDoors2, cfgDoors3, cfgDoors5, cfgNewDevice, cfgNoAddress:
		devices = append(devices, richDevice(cfg, id))
	case cfgUDP, cfgTCP:
		protocol := "udp"
		if cfg == cfgTCP {
			protocol = "tcp"
		}
		// NB: for id 0 this configures a controller with serial number 0; a call for controller 0
		// has to be rejected all the same.
		devices = append(devices, uhppote.Device{
			Name:     "c07",
			DeviceID: id,
			Address:  types.MustParseControllerAddr("192.168.1.100:60000"),
			Doors:    []string{},
			TimeZone: time.UTC,
			Protocol: protocol,
		})
	}

	u := uhppote.NewUHPPOTE(
		types.MustParseBindAddr("0.0.0.0:0"),
		types.MustParseBroadcastAddr("255.255.255.255:60000"),
		types.MustParseListenAddr("0.0.0.0:60001"),
		time.Second,
		devices,
		false)

	f := &drv.Fake{Script: func(c drv.Call) ([][]byte, error) {
		return [][]byte{cannedReply(c.Request)}, nil
	}}
	if !drv.Install(u, f) {
		return nil, fmt.Errorf("drv.Install: client built by NewUHPPOTE is not the expected type")
	}
	return &client{u: u, f: f}, nil
}

// clients caches one client per (configuration, controller id); each enumeration block owns one
// cache, so a client is never shared between goroutines.
type clients map[[2]uint32]*client

func (cs clients) get(cfg int, id uint32) (*client, error) {
	k := [2]uint32{uint32(cfg), id}
	if c, ok := cs[k]; ok {
		return c, nil
	}
	c, err := newClient(cfg, id)
	if err != nil {
		return nil, err
	}
	cs[k] = c
	return c, nil
}

// cannedReply builds a well-formed 64-byte reply for the function code of the request with the
// request's serial number (hand-written from the protocol; every date/time field holds a valid
// BCD value, every "succeeded" flag is 1). The library must accept each of them, so that an error
// from an API call can only come from the library's own argument checks.
func cannedReply(request []byte) []byte {
	reply := make([]byte, 64)
	if len(request) < 8 {
		return reply
	}
	reply[0] = 0x17
	reply[1] = request[1]
	copy(reply[4:8], request[4:8])

	switch request[1] {
	case 0x94: // get-controller
		copy(reply[8:], []byte{192, 168, 1, 100, 255, 255, 255, 0, 192, 168, 1, 1})
		copy(reply[20:], []byte{0x00, 0x12, 0x23, 0x34, 0x45, 0x56}) // MAC
		copy(reply[26:], []byte{0x08, 0x92})                         // version
		copy(reply[28:], []byte{0x20, 0x18, 0x11, 0x05})             // date
	case 0x92: // get-listener: 192.168.1.10:60001, interval 13
		copy(reply[8:], []byte{192, 168, 1, 10, 0x61, 0xea, 13})
	case 0x32, 0x30: // get-time, set-time: 2024-06-15 12:34:56
		copy(reply[8:], []byte{0x20, 0x24, 0x06, 0x15, 0x12, 0x34, 0x56})
	case 0x82, 0x80: // get/set-door-control: door as asked, controlled, delay 7
		if len(request) > 8 {
			reply[8] = request[8]
		}
		reply[9] = 3
		reply[10] = 7
	case 0x20: // get-status
		copy(reply[8:], []byte{17, 0, 0, 0, 1, 1, 3, 1})                   // event 17: swipe, granted, door 3, in
		copy(reply[16:], []byte{0xa2, 0x98, 0x7c, 0x00})                   // card 8165538
		copy(reply[20:], []byte{0x20, 0x24, 0x06, 0x15, 0x12, 0x34, 0x50}) // event timestamp
		reply[27] = 1                                                      // reason
		copy(reply[28:], []byte{1, 0, 0, 1, 0, 1, 0, 0})                   // door states, buttons
		reply[36] = 0                                                      // system error
		copy(reply[37:], []byte{0x12, 0x34, 0x56})                         // system time
		copy(reply[40:], []byte{9, 0, 0, 0})                               // sequence no.
		reply[48], reply[49], reply[50] = 0, 0x05, 0x02
		copy(reply[51:], []byte{0x24, 0x06, 0x15}) // system date
	case 0x58: // get-cards: 3 records
		reply[8] = 3
	case 0x5c: // get-card-by-index: a stored card
		copy(reply[8:], []byte{0xa2, 0x98, 0x7c, 0x00})
		copy(reply[12:], []byte{0x20, 0x24, 0x01, 0x01, 0x20, 0x24, 0x12, 0x31})
		copy(reply[20:], []byte{1, 0, 29, 1})
		copy(reply[24:], []byte{0x6b, 0x1d, 0x00}) // PIN 7531
	case 0x5a: // get-card-by-id: "no such card" (card number 0) - valid for every requested number
	case 0x98: // get-time-profile: "profile not active" (profile id 0) - valid for every requested id
	case 0xb0: // get-event: a swipe event
		copy(reply[8:], []byte{17, 0, 0, 0, 1, 1, 3, 1})
		copy(reply[16:], []byte{0xa2, 0x98, 0x7c, 0x00})
		copy(reply[20:], []byte{0x20, 0x24, 0x06, 0x15, 0x12, 0x34, 0x50})
		reply[27] = 1
	case 0xb4: // get-event-index
		copy(reply[8:], []byte{17, 0, 0, 0})
	case 0x96: // set-address: the controller does not answer (the fake mirrors that)
	default: // every other function answers with a one-byte "succeeded" flag
		reply[8] = 1
	}
	return reply
}

// What one API call did.
type outcome struct {
	err      error
	calls    int    // number of driver calls (anything put on the "network")
	method   string // driver method of the first call
	request  []byte // request bytes of the first call
	panicked bool
	msg      string
	frame    string
}

func (cl *client) run(fn func(u uhppote.IUHPPOTE) error) outcome {
	cl.f.Reset()
	var o outcome
	o.panicked, o.msg, o.frame = vk.Guard(func() { o.err = fn(cl.u) })
	o.calls = cl.f.NumCalls()
	if o.calls > 0 {
		o.method = cl.f.Calls[0].Method
		o.request = cl.f.Calls[0].Request
	}
	return o
}
