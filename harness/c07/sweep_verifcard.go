//go:build verifcard

package main

import (
	"fmt"
	"sync/atomic"
	"time"

	"github.com/uhppoted/uhppote-core/uhppote"
	"verif/spec"
	"verif/vk"
)

// The six essentially different format lists: no restriction; any; Wiegand-26 alone; an unknown
// format alone (matches nothing); an unknown format followed by Wiegand-26 (the unknown one must
// be skipped, not end the search); Wiegand-26 followed by any (a later format rescues the number).
// The three lists that never reach the Wiegand-26 test come first (they take seconds).
var sweepLists = [][]string{nil, {"any"}, {"7"}, {"wiegand26"}, {"7", "wiegand26"}, {"wiegand26", "any"}}

// sweepBudget: no new format list is started once the run (API families included) is this old; the
// remaining lists are dropped and the evidence says so (exhaustive:false). One Wiegand-26 list takes
// about 40 s on 16 otherwise idle cores.
const sweepBudget = 8*time.Minute + 30*time.Second

// sweepDeadline: hard stop inside a list; chunks not yet started by then are skipped (and counted
// as skipped in the evidence), so that the thorough tier stays inside its 10 minute budget even on
// a heavily shared machine.
const sweepDeadline = 9*time.Minute + 30*time.Second

type sweepAgg struct {
	first uint32
	count int64
}

// sweepAllCardNumbers evaluates the library's card number/format predicate on all 2^32 card
// numbers for each of the six format lists and compares it with the arithmetic reference
// spec.CardFormatsMatch (n/100000 <= 255 && n%100000 <= 65535 for Wiegand-26).
func sweepAllCardNumbers(r *vk.Run) {
	const chunkBits = 20
	const chunks = 1 << (32 - chunkBits)
	done := 0

	for li, list := range sweepLists {
		if time.Since(processStart) > sweepBudget {
			r.NotExhaustive(fmt.Sprintf("2^32 sweep: time budget reached after %d of %d format lists (lists %v not swept)", li, len(sweepLists), sweepLists[li:]))
			break
		}
		t0 := time.Now()
		lib, ref := formatKinds(list)
		results := make([]map[string]*sweepAgg, chunks)
		panics := make([]string, chunks)
		var skipped atomic.Int64

		vk.Parallel(chunks, func(ch int) {
			if time.Since(processStart) > sweepDeadline {
				skipped.Add(1)
				return
			}
			var local map[string]*sweepAgg
			lo := uint64(ch) << chunkBits
			hi := lo + 1<<chunkBits
			if p, msg, frame := vk.Guard(func() {
				for v := lo; v < hi; v++ {
					n := uint32(v)
					got := uhppote.VerifIsCardNumberValid(n, lib...)
					if got != spec.CardFormatsMatch(n, ref) {
						class := cardClass(n, ref, got)
						if local == nil {
							local = map[string]*sweepAgg{}
						}
						if a, ok := local[class]; ok {
							a.count++
						} else {
							local[class] = &sweepAgg{first: n, count: 1}
						}
					}
				}
			}); p {
				panics[ch] = frame + ": " + msg
			}
			results[ch] = local
			r.Count(1 << chunkBits)
		})

		for ch := 0; ch < chunks; ch++ {
			if panics[ch] != "" {
				r.Violation("C07/PutCard/panic/isCardNumberValid", "card number predicate panicked: "+panics[ch], "predicate",
					predicateCase{Card: uint32(ch) << chunkBits, Formats: list})
			}
			for class, a := range results[ch] {
				got := uhppote.VerifIsCardNumberValid(a.first, lib...)
				what := fmt.Sprintf("card number %v, formats %v: library predicate = %v, reference = %v", a.first, list, got, !got)
				r.Import([]vk.WorkerViolation{{Key: "C07/PutCard/" + class, What: what, Kind: "predicate",
					Case: predicateCase{Card: a.first, Formats: list}, Count: a.count}})
			}
		}
		if n := skipped.Load(); n > 0 {
			r.NotExhaustive(fmt.Sprintf("2^32 sweep: hard time limit reached inside format list %v: %d of %d chunks of 2^%d card numbers not evaluated; lists %v not swept",
				list, n, chunks, chunkBits, sweepLists[li+1:]))
			r.Distinct((chunks - n) << chunkBits)
			r.Add("cases/PutCard/sweep-2^32-predicate", (chunks-n)<<chunkBits)
			break
		}
		done++
		r.Distinct(1 << 32)
		r.Set(fmt.Sprintf("wall_s/sweep-2^32/%v", list), float64(int(time.Since(t0).Seconds()*10))/10)
	}
	r.Set("sweep_2^32_format_lists", done)
	r.Add("cases/PutCard/sweep-2^32-predicate", int64(done)<<32)
}

func replayPredicate(r *vk.Run, p predicateCase) {
	lib, ref := formatKinds(p.Formats)
	r.Count(1)
	r.Distinct(1)
	var got bool
	if panicked, msg, frame := vk.Guard(func() { got = uhppote.VerifIsCardNumberValid(p.Card, lib...) }); panicked {
		fmt.Printf("VerifIsCardNumberValid(%v, %v) panicked: %v\n", p.Card, p.Formats, msg)
		r.Violation("C07/PutCard/panic/"+frame, "card number predicate panicked: "+msg, "predicate", p)
		return
	}
	want := spec.CardFormatsMatch(p.Card, ref)
	fc, id := spec.Wiegand26Parts(p.Card)
	fmt.Printf("VerifIsCardNumberValid(%v, %v): library = %v   reference = %v (facility %v, number %v)\n", p.Card, p.Formats, got, want, fc, id)
	if got != want {
		r.Violation("C07/PutCard/"+cardClass(p.Card, ref, got), fmt.Sprintf("card number %v, formats %v: library predicate = %v, reference = %v", p.Card, p.Formats, got, want), "predicate", p)
	}
}
