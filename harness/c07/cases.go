package main

import (
	"encoding/binary"
	"fmt"
	"net"
	"net/netip"
	"strconv"
	"time"

	"github.com/uhppoted/uhppote-core/types"
	"github.com/uhppoted/uhppote-core/uhppote"
	"verif/spec"
)

// Case is one fully written-out API call (JSON-serialisable: it is the replay artefact).
type Case struct {
	Op  string `json:"op"`
	Cfg int    `json:"cfg"`        // 0 controller not configured, 1 configured (UDP), 2 configured (TCP)
	ID  uint32 `json:"controller"` // controller id argument

	// positional integer arguments, per operation:
	//   GetDoorControlState/OpenDoor [door]; SetDoorControlState [door, state, delay];
	//   GetTimeProfile [profile]; SetInterlock [interlock]; GetCardByIndex/GetEvent/SetEventIndex [index];
	//   GetCardByID/DeleteCard [card]; RecordSpecialEvents/SetPCControl [0|1];
	//   SetDoorPasscodes [door, passcodes...]; PutCard [card, PIN]; SetTimeProfile [id, linked];
	//   AddTask [task, door, cards, start (minutes since 00:00)]; SetListener [interval]
	N []int64 `json:"n,omitempty"`

	Formats []string `json:"formats,omitempty"` // PutCard: "any" | "wiegand26" | "7" (= CardFormat(7))
	From    []int    `json:"from,omitempty"`    // [y,m,d]; absent/empty = zero Date
	To      []int    `json:"to,omitempty"`

	// PutCard doors (door -> permission), ActivateKeypads readers (reader -> 0|1),
	// SetTimeProfile/AddTask weekdays (time.Weekday number -> 0|1)
	Map    map[string]int `json:"map,omitempty"`
	NilMap bool           `json:"nil_map,omitempty"`

	// SetTimeProfile: key "1".."3" (or any other uint8) -> [start, end] in minutes since 00:00
	Segs    map[string][]int `json:"segments,omitempty"`
	NilSegs bool             `json:"nil_segments,omitempty"`

	Addr string `json:"addr,omitempty"` // SetListener: netip address text, "" = the zero netip.Addr
	Port int    `json:"port,omitempty"`

	IPs [][]int `json:"ips,omitempty"` // SetAddress: address, mask, gateway as byte lists (null = nil)

	T    []int  `json:"t,omitempty"`    // SetTime: [y,mo,d,h,mi,s,ns]
	Zone string `json:"zone,omitempty"` // "UTC" | "fixed:<seconds east>" | IANA name
}

// answer is what the reference says about a case.
type answer struct {
	verdict     spec.ArgVerdict
	rejectClass string // key class if a must-reject case is accepted
	whyFormat   string // rendered only when a finding is reported (hot loops)
	whyArgs     []any
	// wire, when set, checks the recorded request of an accepted call; returns (class, what) or "".
	wire func(request []byte) (string, string)
}

func accept() answer { return answer{verdict: spec.ArgMustAccept} }
func reject(class, why string, args ...any) answer {
	return answer{verdict: spec.ArgMustReject, rejectClass: class, whyFormat: why, whyArgs: args}
}
func unconstrained(why string) answer { return answer{verdict: spec.ArgUnconstrained, whyFormat: why} }

func (a answer) why() string {
	if len(a.whyArgs) == 0 {
		return a.whyFormat
	}
	return fmt.Sprintf(a.whyFormat, a.whyArgs...)
}

const baseID uint32 = 405419896

func (c *Case) n(i int) int64 {
	if i < len(c.N) {
		return c.N[i]
	}
	return 0
}

func mkDate(v []int) types.Date {
	if len(v) != 3 || (v[0] == 0 && v[1] == 0 && v[2] == 0) {
		return types.Date{}
	}
	return types.ToDate(v[0], time.Month(v[1]), v[2])
}

func hasDate(v []int) bool {
	return len(v) == 3 && !(v[0] == 0 && v[1] == 0 && v[2] == 0)
}

func mkHHmm(minutes int) types.HHmm { return types.NewHHmm(minutes/60, minutes%60) }

func mkWeekdays(c *Case) types.Weekdays {
	if c.NilMap {
		return nil
	}
	w := types.Weekdays{}
	for k, v := range c.Map {
		d, _ := strconv.Atoi(k)
		w[time.Weekday(d)] = v != 0
	}
	return w
}

func mkIP(v []int) net.IP {
	if v == nil {
		return nil
	}
	ip := make(net.IP, len(v))
	for i, b := range v {
		ip[i] = byte(b)
	}
	return ip
}

func mkBytes(v []int) []byte {
	if v == nil {
		return nil
	}
	return []byte(mkIP(v))
}

func mkLocation(zone string) (*time.Location, error) {
	switch {
	case zone == "" || zone == "UTC":
		return time.UTC, nil
	case len(zone) > 6 && zone[:6] == "fixed:":
		s, err := strconv.Atoi(zone[6:])
		if err != nil {
			return nil, err
		}
		return time.FixedZone(zone, s), nil
	}
	return time.LoadLocation(zone)
}

func mkAddrPort(c *Case) (netip.AddrPort, error) {
	if c.Addr == "" {
		return netip.AddrPortFrom(netip.Addr{}, uint16(c.Port)), nil
	}
	a, err := netip.ParseAddr(c.Addr)
	if err != nil {
		return netip.AddrPort{}, err
	}
	return netip.AddrPortFrom(a, uint16(c.Port)), nil
}

func formatKinds(formats []string) ([]types.CardFormat, []spec.CardFormatKind) {
	lib := []types.CardFormat{}
	ref := []spec.CardFormatKind{}
	for _, f := range formats {
		switch f {
		case "any":
			lib = append(lib, types.WiegandAny)
			ref = append(ref, spec.CardFormatAny)
		case "wiegand26":
			lib = append(lib, types.Wiegand26)
			ref = append(ref, spec.CardFormatWiegand26)
		default:
			v, _ := strconv.Atoi(f)
			lib = append(lib, types.CardFormat(v))
			ref = append(ref, spec.CardFormatUnknown)
		}
	}
	return lib, ref
}

// cardClass names the kind of disagreement between the library's card number/format decision and
// the reference (shared by the API path and the 2^32 predicate sweep so that one defect has one key).
func cardClass(n uint32, formats []spec.CardFormatKind, libAccepts bool) string {
	hasW26, hasAny := false, false
	for _, f := range formats {
		hasW26 = hasW26 || f == spec.CardFormatWiegand26
		hasAny = hasAny || f == spec.CardFormatAny
	}
	if libAccepts {
		if !hasW26 {
			return "format/unknown-format-matches"
		}
		fc, id := spec.Wiegand26Parts(n)
		switch {
		case n >= 100000000:
			return "wiegand26/accepts-9-10-digit-number"
		case fc > 255 && id > 65535:
			return "wiegand26/accepts-facility-above-255-and-number-above-65535"
		case fc > 255:
			return "wiegand26/accepts-facility-code-above-255"
		default:
			return "wiegand26/accepts-number-above-65535"
		}
	}
	switch {
	case len(formats) == 0:
		return "format/empty-list-rejects"
	case hasAny:
		return "format/any-rejects"
	default:
		return "wiegand26/rejects-valid-number"
	}
}

// reference computes the reference answer for a case from the property text (spec/valid.go,
// spec/wiegand.go). Out-of-domain arguments (DESIGN 4.1a "Domains") are unconstrained.
func reference(c *Case) answer {
	if !spec.ControllerIDAllowed(c.ID) && c.Op != "GetDevices" {
		return reject("controller-id-0-accepted", "controller id 0 must be rejected")
	}

	switch c.Op {
	case "PutCard":
		card, pin := uint32(c.n(0)), uint32(c.n(1))
		_, kinds := formatKinds(c.Formats)
		switch {
		case card == 0:
			return reject("card-number-0-accepted", "card number 0 must be rejected")
		case card == 0xffffffff:
			return reject("card-number-0xffffffff-accepted", "card number 0xffffffff must be rejected")
		case card == 0x00ffffff:
			return reject("card-number-0x00ffffff-accepted", "card number 0x00ffffff must be rejected")
		case !spec.CardFormatsMatch(card, kinds):
			return reject(cardClass(card, kinds, true), "card number %v matches none of the formats %v", card, c.Formats)
		case pin == 1000000:
			return reject("pin-1000000-accepted", "PIN 1000000 is above 999999")
		case !spec.PINAllowed(pin):
			return reject("pin-above-1000000-accepted", "PIN %v is above 999999", pin)
		}
		return accept()

	case "SetListener":
		ap, err := mkAddrPort(c)
		if err != nil {
			return unconstrained("unparseable case address")
		}
		switch spec.ListenerVerdict(ap) {
		case spec.ArgMustAccept:
			return accept()
		case spec.ArgUnconstrained:
			return unconstrained("IPv4-mapped IPv6 listener address: rejection is what the statement reads as, acceptance is not alarmed on")
		}
		addr := ap.Addr()
		switch {
		case !addr.IsValid():
			return reject("invalid-addrport-accepted", "zero/invalid netip.AddrPort must be rejected")
		case addr.Is4():
			return reject("ipv4-port-0-accepted", "IPv4 address other than 0.0.0.0 with port 0 must be rejected")
		case addr.Is4In6():
			return reject("ipv4-mapped-ipv6-port-0-accepted", "IPv4-mapped IPv6 address with port 0 must be rejected")
		case addr.Zone() != "":
			return reject("zoned-ipv6-accepted", "zone-qualified IPv6 address must be rejected")
		}
		return reject("ipv6-accepted", "IPv6 address must be rejected")

	case "SetAddress":
		names := []string{"address", "mask", "gateway"}
		for i := 0; i < 3; i++ {
			var ip []int
			if i < len(c.IPs) {
				ip = c.IPs[i]
			}
			if !spec.IPv4Bytes(mkBytes(ip)) {
				return reject("non-ipv4-"+names[i]+"-accepted", "%v %v is not an IPv4 value", names[i], ip)
			}
		}
		return accept()

	case "SetDoorPasscodes":
		door := uint8(c.n(0))
		passcodes := []uint32{}
		for _, p := range c.N[min(1, len(c.N)):] {
			passcodes = append(passcodes, uint32(p))
		}
		switch {
		case door == 0:
			return reject("door-0-accepted", "door 0 is outside 1..4")
		case door == 5:
			return reject("door-5-accepted", "door 5 is outside 1..4")
		case !spec.DoorAllowed(door):
			return reject("door-above-5-accepted", "door %v is outside 1..4", door)
		}
		a := accept()
		want := spec.EffectivePasscodes(passcodes)
		a.wire = func(request []byte) (string, string) {
			if len(request) != 64 {
				return "request-length", fmt.Sprintf("request is %v bytes", len(request))
			}
			if request[8] != door {
				return "door-wrong-on-wire", fmt.Sprintf("door byte is %v, want %v", request[8], door)
			}
			for i := 0; i < 4; i++ {
				got := binary.LittleEndian.Uint32(request[12+4*i:])
				if got == want[i] {
					continue
				}
				switch {
				case i < len(passcodes) && passcodes[i] > 999999 && got != 0:
					return "passcode-above-999999-sent", fmt.Sprintf("passcode %v (%v) sent as %v, want 0", i+1, passcodes[i], got)
				case want[i] != 0:
					return "valid-passcode-not-sent", fmt.Sprintf("passcode %v (%v) sent as %v", i+1, want[i], got)
				default:
					return "passcode-not-disabled", fmt.Sprintf("passcode slot %v sent as %v, want 0 (list %v)", i+1, got, passcodes)
				}
			}
			return "", ""
		}
		return a

	case "SetTimeProfile":
		var segs [3]spec.ProfileSegmentArg
		inDomain := true
		for i := 0; i < 3; i++ {
			if v, ok := c.Segs[strconv.Itoa(i+1)]; ok && !c.NilSegs && len(v) == 2 {
				segs[i] = spec.ProfileSegmentArg{Present: true, Start: v[0], End: v[1]}
				if v[0] < 0 || v[0] > 1440 || v[1] < 0 || v[1] > 1440 {
					inDomain = false
				}
			}
		}
		if !spec.TimeProfileAllowed(hasDate(c.From), hasDate(c.To), segs) {
			switch {
			case !hasDate(c.From):
				return reject("missing-from-date-accepted", "zero 'from' date must be rejected")
			case !hasDate(c.To):
				return reject("missing-to-date-accepted", "zero 'to' date must be rejected")
			}
			for i, s := range segs {
				if !s.Present {
					return reject("missing-segment-accepted", "segment %v is missing", i+1)
				} else if s.End < s.Start {
					return reject("segment-end-before-start-accepted", "segment %v ends (%v) before it starts (%v)", i+1, s.End, s.Start)
				}
			}
		}
		if !inDomain {
			return unconstrained("HH:mm outside 00:00..24:00")
		}
		return accept()

	case "SetDoorControlState":
		if s := c.n(1); s < 1 || s > 3 {
			return unconstrained("control state outside 1..3 is out of domain")
		}
		return accept()

	case "AddTask":
		if t := c.n(0); t < 0 || t > 12 {
			return unconstrained("task type outside 0..12 is out of domain")
		}
		if s := c.n(3); s < 0 || s > 1440 {
			return unconstrained("HH:mm outside 00:00..24:00")
		}
		return accept()

	case "SetTime":
		if len(c.T) != 7 || c.T[0] < 1 || c.T[0] > 9999 || c.T[6] != 0 {
			return unconstrained("date-time outside year 1..9999 or with a fraction of a second is out of domain")
		}
		return accept()
	}

	// every other operation: nothing but controller id 0 is a reason to reject
	return accept()
}

func b2i(b bool) int64 {
	if b {
		return 1
	}
	return 0
}

// call performs the API call described by the case on the real client.
func call(cl *client, c *Case) (outcome, error) {
	var fn func(u uhppote.IUHPPOTE) error

	switch c.Op {
	case "GetDevices":
		fn = func(u uhppote.IUHPPOTE) error { _, err := u.GetDevices(); return err }
	case "GetDevice":
		fn = func(u uhppote.IUHPPOTE) error { _, err := u.GetDevice(c.ID); return err }
	case "SetAddress":
		ips := [3]net.IP{}
		for i := 0; i < 3 && i < len(c.IPs); i++ {
			ips[i] = mkIP(c.IPs[i])
		}
		fn = func(u uhppote.IUHPPOTE) error { _, err := u.SetAddress(c.ID, ips[0], ips[1], ips[2]); return err }
	case "GetListener":
		fn = func(u uhppote.IUHPPOTE) error { _, _, err := u.GetListener(c.ID); return err }
	case "SetListener":
		ap, err := mkAddrPort(c)
		if err != nil {
			return outcome{}, err
		}
		fn = func(u uhppote.IUHPPOTE) error { _, err := u.SetListener(c.ID, ap, uint8(c.n(0))); return err }
	case "GetTime":
		fn = func(u uhppote.IUHPPOTE) error { _, err := u.GetTime(c.ID); return err }
	case "SetTime":
		loc, err := mkLocation(c.Zone)
		if err != nil {
			return outcome{}, err
		}
		if len(c.T) != 7 {
			return outcome{}, fmt.Errorf("SetTime case needs 7 time fields")
		}
		t := time.Date(c.T[0], time.Month(c.T[1]), c.T[2], c.T[3], c.T[4], c.T[5], c.T[6], loc)
		fn = func(u uhppote.IUHPPOTE) error { _, err := u.SetTime(c.ID, t); return err }
	case "GetDoorControlState":
		fn = func(u uhppote.IUHPPOTE) error { _, err := u.GetDoorControlState(c.ID, byte(c.n(0))); return err }
	case "SetDoorControlState":
		fn = func(u uhppote.IUHPPOTE) error {
			_, err := u.SetDoorControlState(c.ID, uint8(c.n(0)), types.ControlState(c.n(1)), uint8(c.n(2)))
			return err
		}
	case "GetStatus":
		fn = func(u uhppote.IUHPPOTE) error { _, err := u.GetStatus(c.ID); return err }
	case "GetCards":
		fn = func(u uhppote.IUHPPOTE) error { _, err := u.GetCards(c.ID); return err }
	case "GetCardByIndex":
		fn = func(u uhppote.IUHPPOTE) error { _, err := u.GetCardByIndex(c.ID, uint32(c.n(0))); return err }
	case "GetCardByID":
		fn = func(u uhppote.IUHPPOTE) error { _, err := u.GetCardByID(c.ID, uint32(c.n(0))); return err }
	case "PutCard":
		card := types.Card{
			CardNumber: uint32(c.n(0)),
			From:       mkDate(c.From),
			To:         mkDate(c.To),
			PIN:        types.PIN(uint32(c.n(1))),
		}
		if !c.NilMap {
			card.Doors = map[uint8]uint8{}
			for k, v := range c.Map {
				d, _ := strconv.Atoi(k)
				card.Doors[uint8(d)] = uint8(v)
			}
		}
		formats, _ := formatKinds(c.Formats)
		if c.Formats == nil {
			fn = func(u uhppote.IUHPPOTE) error { _, err := u.PutCard(c.ID, card); return err }
		} else {
			fn = func(u uhppote.IUHPPOTE) error { _, err := u.PutCard(c.ID, card, formats...); return err }
		}
	case "DeleteCard":
		fn = func(u uhppote.IUHPPOTE) error { _, err := u.DeleteCard(c.ID, uint32(c.n(0))); return err }
	case "DeleteCards":
		fn = func(u uhppote.IUHPPOTE) error { _, err := u.DeleteCards(c.ID); return err }
	case "GetTimeProfile":
		fn = func(u uhppote.IUHPPOTE) error { _, err := u.GetTimeProfile(c.ID, uint8(c.n(0))); return err }
	case "SetTimeProfile":
		profile := types.TimeProfile{
			ID:              uint8(c.n(0)),
			LinkedProfileID: uint8(c.n(1)),
			From:            mkDate(c.From),
			To:              mkDate(c.To),
			Weekdays:        mkWeekdays(c),
		}
		if !c.NilSegs {
			profile.Segments = types.Segments{}
			for k, v := range c.Segs {
				if len(v) != 2 {
					return outcome{}, fmt.Errorf("segment needs [start,end]")
				}
				key, _ := strconv.Atoi(k)
				profile.Segments[uint8(key)] = types.Segment{Start: mkHHmm(v[0]), End: mkHHmm(v[1])}
			}
		}
		fn = func(u uhppote.IUHPPOTE) error { _, err := u.SetTimeProfile(c.ID, profile); return err }
	case "ClearTimeProfiles":
		fn = func(u uhppote.IUHPPOTE) error { _, err := u.ClearTimeProfiles(c.ID); return err }
	case "ClearTaskList":
		fn = func(u uhppote.IUHPPOTE) error { _, err := u.ClearTaskList(c.ID); return err }
	case "AddTask":
		task := types.Task{
			Task:     types.TaskType(c.n(0)),
			Door:     uint8(c.n(1)),
			Cards:    uint8(c.n(2)),
			Start:    mkHHmm(int(c.n(3))),
			From:     mkDate(c.From),
			To:       mkDate(c.To),
			Weekdays: mkWeekdays(c),
		}
		fn = func(u uhppote.IUHPPOTE) error { _, err := u.AddTask(c.ID, task); return err }
	case "RefreshTaskList":
		fn = func(u uhppote.IUHPPOTE) error { _, err := u.RefreshTaskList(c.ID); return err }
	case "RecordSpecialEvents":
		fn = func(u uhppote.IUHPPOTE) error { _, err := u.RecordSpecialEvents(c.ID, c.n(0) != 0); return err }
	case "GetEvent":
		fn = func(u uhppote.IUHPPOTE) error { _, err := u.GetEvent(c.ID, uint32(c.n(0))); return err }
	case "GetEventIndex":
		fn = func(u uhppote.IUHPPOTE) error { _, err := u.GetEventIndex(c.ID); return err }
	case "SetEventIndex":
		fn = func(u uhppote.IUHPPOTE) error { _, err := u.SetEventIndex(c.ID, uint32(c.n(0))); return err }
	case "SetDoorPasscodes":
		passcodes := []uint32{}
		for _, p := range c.N[min(1, len(c.N)):] {
			passcodes = append(passcodes, uint32(p))
		}
		fn = func(u uhppote.IUHPPOTE) error {
			_, err := u.SetDoorPasscodes(c.ID, uint8(c.n(0)), passcodes...)
			return err
		}
	case "OpenDoor":
		fn = func(u uhppote.IUHPPOTE) error { _, err := u.OpenDoor(c.ID, uint8(c.n(0))); return err }
	case "SetPCControl":
		fn = func(u uhppote.IUHPPOTE) error { _, err := u.SetPCControl(c.ID, c.n(0) != 0); return err }
	case "SetInterlock":
		fn = func(u uhppote.IUHPPOTE) error {
			_, err := u.SetInterlock(c.ID, types.Interlock(uint8(c.n(0))))
			return err
		}
	case "ActivateKeypads":
		var readers map[uint8]bool
		if !c.NilMap {
			readers = map[uint8]bool{}
			for k, v := range c.Map {
				d, _ := strconv.Atoi(k)
				readers[uint8(d)] = v != 0
			}
		}
		fn = func(u uhppote.IUHPPOTE) error { _, err := u.ActivateKeypads(c.ID, readers); return err }
	case "RestoreDefaultParameters":
		fn = func(u uhppote.IUHPPOTE) error { _, err := u.RestoreDefaultParameters(c.ID); return err }
	default:
		return outcome{}, fmt.Errorf("unknown operation %q", c.Op)
	}

	return cl.run(fn), nil
}

// finding is one judged disagreement.
type finding struct {
	key  string
	what string
}

// judge compares what the library did with the reference answer.
func judge(c *Case, a answer, o outcome) *finding {
	pre := "C07/" + c.Op + "/"
	desc := func() string {
		e := "nil"
		if o.err != nil {
			e = o.err.Error()
		}
		return fmt.Sprintf("error=%q, driver calls=%v; reference: %v %v", e, o.calls, a.verdict, a.why())
	}

	switch {
	case o.panicked:
		return &finding{pre + "panic/" + o.frame, "call panicked: " + o.msg}

	case a.verdict == spec.ArgMustReject:
		if o.err == nil {
			return &finding{pre + a.rejectClass, "invalid argument accepted: " + desc()}
		} else if o.calls != 0 {
			return &finding{pre + "sent-before-reject", "call returned an error but a request had been sent: " + desc()}
		}

	case a.verdict == spec.ArgMustAccept:
		switch {
		case o.err != nil && o.calls == 0:
			return &finding{pre + "rejected-valid-argument", "valid arguments rejected: " + desc()}
		case o.err != nil:
			return &finding{pre + "error-after-send", "valid arguments, valid reply, yet the call failed: " + desc()}
		case o.calls != 1:
			return &finding{pre + "send-count", "accepted call did not send exactly one request: " + desc()}
		}
		if a.wire != nil {
			if class, what := a.wire(o.request); class != "" {
				return &finding{pre + class, what + " (request " + fmt.Sprintf("%x", o.request[:28]) + ")"}
			}
		}

	default: // unconstrained: only the "nothing sent on rejection / one request on acceptance" half
		switch {
		case o.err != nil && o.calls != 0:
			return &finding{pre + "sent-before-reject", "call returned an error but a request had been sent: " + desc()}
		case o.err == nil && o.calls != 1:
			return &finding{pre + "send-count", "accepted call did not send exactly one request: " + desc()}
		}
	}
	return nil
}
