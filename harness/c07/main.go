// C07 — invalid arguments are rejected before anything is sent.
//
// Bounded-exhaustive enumeration of argument tuples of all 31 controller-addressed operations (and
// GetDevices) through the real public API of a client built by uhppote.NewUHPPOTE whose transport
// is the recording fake driver verif/drv. The fake answers every request with a valid reply for
// that function code and serial number, so an error can only come from the library's own argument
// checks. Each call is compared with the hand-written reference predicates of spec/valid.go and
// spec/wiegand.go: a must-reject case has to return an error with the driver call counter at 0,
// a must-accept case has to return no error with the counter at exactly 1 (and, for
// SetDoorPasscodes, the recorded request has to carry 0 for disabled passcodes).
//
// The thorough tier adds all 2^32 card numbers x 6 format lists through the build-tag exported
// predicate uhppote.VerifIsCardNumberValid (sweep_verifcard.go) against the arithmetic reference.
package main

import (
	"bytes"
	"encoding/json"
	"fmt"
	"hash/fnv"
	"os"
	"runtime/debug"
	"runtime/pprof"
	"strconv"
	"strings"
	"sync"
	"sync/atomic"
	"time"

	"github.com/uhppoted/uhppote-core/types"
	"verif/spec"
	"verif/vk"
)

const blockSize = 4096

var processStart = time.Now()

// seen holds the hashes of every case of the small (table-built) families, for the honest
// distinct count; the big index-generated sweeps are injective by construction and are only
// looked up in it.
var seen = struct {
	sync.Mutex
	m map[uint64]struct{}
}{m: map[uint64]struct{}{}}

func caseHash(c *Case) uint64 {
	b, _ := json.Marshal(c)
	h := fnv.New64a()
	h.Write(b)
	return h.Sum64()
}

// A big family is an index-generated sweep of ONE operation whose index -> case mapping is
// injective by construction. It is not hashed (too many cases); its contribution to the distinct
// count is n minus the number of table-built cases of the same operation (an upper bound on what it
// can share with them) minus `overlap`, a stated upper bound on what it can share with the other
// big families of the same operation.
type bigFamily struct {
	name    string
	op      string
	n       int
	overlap int
}

var bigFamilies []bigFamily
var smallPerOp = map[string]int64{}

// runFamily executes cases gen(0..n-1) on all cores and reports findings in index order (so the
// case kept per key is the first of the enumeration, independent of scheduling). overlap < 0: a
// table-built family, every case is entered into the `seen` hash set; overlap >= 0: a big family.
func runFamily(r *vk.Run, name string, n int, overlap int, gen func(i int) Case) {
	runFamily1(r, name, n, overlap, gen)
	// the same cases through each rich client configuration (table-sized families only; the two
	// multi-million sweeps have reduced variants of their own)
	if n <= 1100000 && !strings.Contains(name, "@") {
		for _, cfg := range richCfgs {
			cfg := cfg
			runFamily1(r, name+"@"+cfgNames[cfg], n, -2, func(i int) Case { c := gen(i); c.Cfg = cfg; return c })
		}
	}
}

func runFamily1(r *vk.Run, name string, n int, overlap int, gen func(i int) Case) {
	if only := os.Getenv("C07_ONLY"); only != "" && !strings.Contains(name, only) { // development aid
		r.NotExhaustive("C07_ONLY=" + only + ": other families skipped")
		return
	}
	start := time.Now()
	small := overlap == -1
	rerun := overlap == -2 // the same cases through another client configuration: evaluations only, not hashed, not added to distinct
	blocks := (n + blockSize - 1) / blockSize
	results := make([][]vk.WorkerViolation, blocks)
	var verdicts [3]atomic.Int64
	var distinct atomic.Int64
	var failed atomic.Value
	var opsMu sync.Mutex
	ops := map[string]int64{}

	vk.Parallel(blocks, func(b int) {
		cs := clients{}
		local := map[string]int{}
		var out []vk.WorkerViolation
		var v [3]int64
		var hashes []uint64
		var hashOps []string

		for i := b * blockSize; i < n && i < (b+1)*blockSize; i++ {
			c := gen(i)
			cl, err := cs.get(c.Cfg, c.ID)
			if err != nil {
				failed.Store(err.Error())
				return
			}
			a := reference(&c)
			o, err := call(cl, &c)
			if err != nil {
				failed.Store(fmt.Sprintf("family %v case %v: %v", name, i, err))
				return
			}
			v[a.verdict]++
			if small {
				hashes = append(hashes, caseHash(&c))
				hashOps = append(hashOps, c.Op)
			} else if i == 0 && !rerun {
				opsMu.Lock()
				ops[c.Op] = 0
				opsMu.Unlock()
			}
			if f := judge(&c, a, o); f != nil {
				if ix, ok := local[f.key]; ok {
					out[ix].Count++
				} else {
					local[f.key] = len(out)
					out = append(out, vk.WorkerViolation{Key: f.key, What: f.what, Kind: "api", Case: c, Count: 1})
				}
			}
		}

		if small {
			var d int64
			seen.Lock()
			for k, h := range hashes {
				if _, ok := seen.m[h]; !ok {
					d++
					seen.m[h] = struct{}{}
					smallPerOp[hashOps[k]]++
				}
			}
			seen.Unlock()
			distinct.Add(d)
		}

		results[b] = out
		for k := range v {
			verdicts[k].Add(v[k])
		}
	})

	if msg := failed.Load(); msg != nil {
		r.Machinery("%v", msg)
		r.Finish()
	}
	for _, out := range results {
		r.Import(out)
	}
	r.Count(int64(n))
	if small {
		r.Distinct(distinct.Load())
	} else {
		for op := range ops {
			bigFamilies = append(bigFamilies, bigFamily{name: name, op: op, n: n, overlap: overlap})
		}
	}
	r.Add("cases/"+name, int64(n))
	r.Add("verdict/must-accept", verdicts[spec.ArgMustAccept].Load())
	r.Add("verdict/must-reject", verdicts[spec.ArgMustReject].Load())
	r.Add("verdict/unconstrained", verdicts[spec.ArgUnconstrained].Load())
	r.Set("wall_s/"+name, float64(int(time.Since(start).Seconds()*100))/100)
}

// countBigFamilies adds the (conservative) distinct contribution of the index-generated sweeps.
func countBigFamilies(r *vk.Run) {
	for _, f := range bigFamilies {
		d := int64(f.n) - smallPerOp[f.op] - int64(f.overlap)
		if d > 0 {
			r.Distinct(d)
		}
	}
}

func runCases(r *vk.Run, name string, cases []Case) {
	runFamily(r, name, len(cases), -1, func(i int) Case { return cases[i] })
}

// ---------------------------------------------------------------------------------------------
// alphabets

func dedup32(in []uint32) []uint32 {
	seen := map[uint32]bool{}
	out := []uint32{}
	for _, v := range in {
		if !seen[v] {
			seen[v] = true
			out = append(out, v)
		}
	}
	return out
}

// u32Alphabet: the structured 32-bit alphabet of DESIGN 4.2 (0, 1, walking one, walking zero,
// byte-distinct patterns, all-ones, decimal boundaries 10^k and 10^k +/- 1, protocol sentinels).
func u32Alphabet() []uint32 {
	a := []uint32{0, 1, 2, 0xffffffff, 0x01020304, 0x04030201, 0x00ffffff, 0x00fffffe, 0x01000000, 0x55aaaa55,
		255, 256, 65535, 65536, 999999, 1000000, 1000001, 0x7fffffff, 0x80000000, 0xfffffffe,
		8165538, 405419896, 25565535, 25565536, 25600000}
	for p := uint32(10); ; p *= 10 {
		a = append(a, p-1, p, p+1)
		if p == 1000000000 {
			break
		}
	}
	for i := 0; i < 32; i++ {
		a = append(a, uint32(1)<<i)
	}
	for i := 0; i < 32; i++ {
		a = append(a, ^(uint32(1) << i))
	}
	return dedup32(a)
}

// quickCardNumbers: the structured card number set of DESIGN §8 C07 (quick tier), simplest first.
func quickCardNumbers() []uint32 {
	a := []uint32{0, 0xffffffff, 0x00ffffff, 0x00fffffe, 0x01000000}
	for _, fc := range []uint32{0, 1, 254, 255, 256, 999} {
		for _, id := range []uint32{0, 1, 65534, 65535, 65536, 99999} {
			a = append(a, fc*100000+id)
		}
	}
	for p := uint32(1); ; p *= 10 {
		a = append(a, p, p-1, p+1)
		if p == 1000000000 {
			break
		}
	}
	// every 9-/10-digit number of the form abc*10^6+t and abc*10^7+t
	for _, scale := range []uint32{1000000, 10000000} {
		for _, abc := range []uint32{100, 255, 256, 429} {
			for _, t := range []uint32{0, 65535, 65536} {
				a = append(a, abc*scale+t)
			}
		}
	}
	a = append(a, u32Alphabet()...)
	return dedup32(a)
}

// formatLists: every format list of length <= 2 over {any, Wiegand-26, CardFormat(7)} incl. empty.
func formatLists() [][]string {
	syms := []string{"any", "wiegand26", "7"}
	out := [][]string{nil}
	for _, a := range syms {
		out = append(out, []string{a})
	}
	for _, a := range syms {
		for _, b := range syms {
			out = append(out, []string{a, b})
		}
	}
	return out
}

var dateAlphabet = [][]int{nil, {1, 1, 2}, {2000, 2, 29}, {2024, 1, 1}, {2024, 12, 31}, {9999, 12, 31}}

var idsSmall = []uint32{baseID, 1, 0xffffffff, 0}

var workdays = map[string]int{"1": 1, "2": 1, "3": 1, "4": 1, "5": 1, "6": 0, "0": 0}

func baseSegments() map[string][]int {
	return map[string][]int{"1": {510, 690}, "2": {780, 1020}, "3": {0, 0}}
}

var allOps = []string{
	"GetDevice", "SetAddress", "GetListener", "SetListener", "GetTime", "SetTime", "GetDoorControlState",
	"SetDoorControlState", "GetStatus", "GetCards", "GetCardByIndex", "GetCardByID", "PutCard", "DeleteCard",
	"DeleteCards", "GetTimeProfile", "SetTimeProfile", "ClearTimeProfiles", "ClearTaskList", "AddTask",
	"RefreshTaskList", "RecordSpecialEvents", "GetEvent", "GetEventIndex", "SetEventIndex", "SetDoorPasscodes",
	"OpenDoor", "SetPCControl", "SetInterlock", "ActivateKeypads", "RestoreDefaultParameters",
}

// baseline returns a call of op with valid, pairwise distinct arguments.
func baseline(op string, cfg int, id uint32) Case {
	c := Case{Op: op, Cfg: cfg, ID: id}
	switch op {
	case "SetAddress":
		c.IPs = [][]int{{192, 168, 1, 100}, {255, 255, 255, 0}, {192, 168, 1, 1}}
	case "SetListener":
		c.Addr, c.Port, c.N = "192.168.1.100", 60001, []int64{13}
	case "SetTime":
		c.T, c.Zone = []int{2024, 6, 15, 12, 34, 56, 0}, "UTC"
	case "GetDoorControlState", "OpenDoor":
		c.N = []int64{3}
	case "SetDoorControlState":
		c.N = []int64{3, 2, 7}
	case "GetCardByIndex", "GetEvent", "SetEventIndex":
		c.N = []int64{17}
	case "GetCardByID", "DeleteCard":
		c.N = []int64{8165538}
	case "PutCard":
		c.N = []int64{8165538, 7531}
		c.From, c.To = []int{2024, 1, 1}, []int{2024, 12, 31}
		c.Map = map[string]int{"1": 1, "2": 0, "3": 29, "4": 1}
	case "GetTimeProfile":
		c.N = []int64{29}
	case "SetTimeProfile":
		c.N = []int64{29, 3}
		c.From, c.To = []int{2024, 1, 1}, []int{2024, 12, 31}
		c.Map = workdays
		c.Segs = baseSegments()
	case "AddTask":
		c.N = []int64{4, 3, 2, 510}
		c.From, c.To = []int{2024, 1, 1}, []int{2024, 12, 31}
		c.Map = workdays
	case "RecordSpecialEvents", "SetPCControl":
		c.N = []int64{1}
	case "SetDoorPasscodes":
		c.N = []int64{3, 12345, 999999, 1, 54321}
	case "SetInterlock":
		c.N = []int64{3}
	case "ActivateKeypads":
		c.Map = map[string]int{"1": 1, "2": 0, "3": 1, "4": 1}
	}
	return c
}

func withN(c Case, n ...int64) Case { c.N = n; return c }

// shapes enumerates every map over the given keys with each key absent (-1) or one of values.
func shapes(keys []string, values []int) []map[string]int {
	out := []map[string]int{{}}
	for _, k := range keys {
		next := []map[string]int{}
		for _, m := range out {
			next = append(next, m) // absent
			for _, v := range values {
				mm := map[string]int{}
				for kk, vv := range m {
					mm[kk] = vv
				}
				mm[k] = v
				next = append(next, mm)
			}
		}
		out = next
	}
	return out
}

// ---------------------------------------------------------------------------------------------

func enumerate(r *vk.Run) {
	u32 := u32Alphabet()
	cfgs := []int{cfgBroadcast, cfgUDP, cfgTCP}

	// (1) controller ids: every operation x every client configuration x the 32-bit alphabet
	{
		cases := []Case{}
		for _, cfg := range cfgs {
			cases = append(cases, Case{Op: "GetDevices", Cfg: cfg})
		}
		ids := dedup32(append([]uint32{0, 1, 0xffffffff, baseID}, u32...))
		for _, id := range ids {
			for _, op := range allOps {
				for _, cfg := range cfgs {
					cases = append(cases, baseline(op, cfg, id))
				}
			}
		}
		runCases(r, "controller-id", cases)
		r.Set("operations", len(allOps))
	}

	// (2) PutCard: card numbers x format lists x PIN boundary x controller ids
	{
		cards := quickCardNumbers()
		lists := formatLists()
		cases := []Case{}
		for _, card := range cards {
			for _, fl := range lists {
				for _, pin := range []int64{7531, 0, 999999, 1000000} {
					for _, id := range idsSmall {
						c := baseline("PutCard", cfgBroadcast, id)
						c.N = []int64{int64(card), pin}
						c.Formats = fl
						cases = append(cases, c)
					}
				}
			}
		}
		runCases(r, "PutCard/card-numbers-x-formats", cases)
		r.Set("card_numbers_quick_set", len(cards))
		r.Set("format_lists_api", len(lists))
	}

	// (2b) PutCard histories: one format list, held by the caller in one slice, used for two
	// consecutive calls; every list of length 1..3 over {any, Wiegand-26, CardFormat(7)} x every
	// ordered pair of card numbers from a small set. Each call is judged against the list as the
	// caller wrote it; afterwards the caller's slice must be unchanged.
	if r.Worker == "" {
		syms := []string{"any", "wiegand26", "7"}
		lists := [][]string{}
		for _, a := range syms {
			lists = append(lists, []string{a})
			for _, b := range syms {
				lists = append(lists, []string{a, b})
				for _, c := range syms {
					lists = append(lists, []string{a, b, c})
				}
			}
		}
		numbers := []uint32{12345678, 8165538, 99999999, 25565535, 25565536, 1}
		var n int64
		for _, list := range lists {
			for _, n1 := range numbers {
				for _, n2 := range numbers {
					cl, err := newClient(cfgBroadcast, 405419896)
					if err != nil {
						r.Machinery("cannot build client: %v", err)
						break
					}
					lib, ref := formatKinds(list)
					held := append(make([]types.CardFormat, 0, len(lib)+2), lib...)
					for step, num := range []uint32{n1, n2} {
						n++
						card := types.Card{CardNumber: num, From: types.ToDate(2024, 1, 1), To: types.ToDate(2024, 12, 31), Doors: map[uint8]uint8{1: 1}, PIN: 7531}
						before := len(cl.f.Calls)
						var callErr error
						if p, msg, frame := vk.Guard(func() { _, callErr = cl.u.PutCard(405419896, card, held...) }); p {
							r.Violation("C07/PutCard/panic/"+frame, msg, "putcard-history", map[string]any{"formats": list, "numbers": []uint32{n1, n2}})
							continue
						}
						want := spec.CardNumberAllowed(num, ref)
						sent := len(cl.f.Calls) - before
						c := map[string]any{"formats": list, "numbers": []uint32{n1, n2}, "step": step}
						switch {
						case want && (callErr != nil || sent != 1):
							r.Violation("C07/PutCard/format-list-reused/rejected-valid-argument", fmt.Sprintf("call %d with card %d and the caller's format list %v: err=%v, %d requests sent; the number matches the list", step+1, num, list, callErr, sent), "putcard-history", c)
						case !want && (callErr == nil || sent != 0):
							r.Violation("C07/PutCard/format-list-reused/accepted-invalid-argument", fmt.Sprintf("call %d with card %d and the caller's format list %v (same slice as the previous call): err=%v, %d requests sent; the number matches none of the formats", step+1, num, list, callErr, sent), "putcard-history", c)
						}
					}
					for i := range lib {
						if held[i] != lib[i] {
							r.Violation("C07/PutCard/format-list-modified", fmt.Sprintf("the caller's format slice %v was changed to %v by PutCard", lib, held), "putcard-history", map[string]any{"formats": list, "numbers": []uint32{n1, n2}})
							break
						}
					}
				}
			}
		}
		r.Count(n)
		r.Distinct(n)
		r.Add("cases/PutCard/format-list-histories", n)
	}

	// (3) PutCard: every PIN 0..1000100, then the 32-bit alphabet
	{
		extra := []uint32{}
		for _, v := range u32 {
			if v > 1000100 {
				extra = append(extra, v)
			}
		}
		n := 1000101 + len(extra)
		runFamily(r, "PutCard/PIN-sweep", n, 3, func(i int) Case {
			c := baseline("PutCard", cfgBroadcast, baseID)
			if i <= 1000100 {
				c.N = []int64{8165538, int64(i)}
			} else {
				c.N = []int64{8165538, int64(extra[i-1000101])}
			}
			return c
		})

		cases := []Case{}
		for _, pin := range []int64{0, 1, 999999, 1000000, 1000001, 0xffffff, 0x1000000, 0xffffffff} {
			for _, cfg := range cfgs {
				for _, id := range idsSmall {
					for _, fl := range [][]string{nil, {"wiegand26"}, {"any"}} {
						c := baseline("PutCard", cfg, id)
						c.N = []int64{8165538, pin}
						c.Formats = fl
						cases = append(cases, c)
					}
				}
			}
		}
		runCases(r, "PutCard/PIN-boundaries", cases)
	}

	// (4) PutCard: the other fields never cause a rejection (dates incl. zero, door maps, PIN)
	{
		doorShapes := shapes([]string{"1", "2", "3", "4"}, []int{0, 1, 2, 29, 254, 255})
		doorShapes = append(doorShapes, map[string]int{"0": 1}, map[string]int{"5": 1}, map[string]int{"255": 255, "1": 1})
		nd := len(doorShapes) + 1 // + nil map
		pins := []int64{0, 1, 999999}
		n := len(dateAlphabet) * len(dateAlphabet) * nd * len(pins)
		runFamily(r, "PutCard/other-fields", n, 3, func(i int) Case {
			c := baseline("PutCard", cfgBroadcast, baseID)
			c.N = []int64{8165538, pins[i%len(pins)]}
			i /= len(pins)
			if k := i % nd; k == len(doorShapes) {
				c.Map, c.NilMap = nil, true
			} else {
				c.Map = doorShapes[k]
			}
			i /= nd
			c.From = dateAlphabet[i%len(dateAlphabet)]
			c.To = dateAlphabet[i/len(dateAlphabet)]
			return c
		})
	}

	// (5) SetListener
	{
		addrs := []string{"", "0.0.0.0", "0.0.0.1", "1.2.3.4", "192.168.1.100", "127.0.0.1", "224.0.0.1", "255.255.255.255",
			"::", "::1", "2001:db8::1", "fe80::1", "fe80::1%eth0", "2001:db8::1%1", "::1.2.3.4", "64:ff9b::102:304",
			"::ffff:0.0.0.0", "::ffff:1.2.3.4", "::ffff:192.168.1.100", "::ffff:255.255.255.255", "::ffff:192.168.1.100%eth0", "::ffff:0.0.0.0%eth0"}
		cases := []Case{}
		for _, a := range addrs {
			for _, port := range []int{0, 1, 60000, 65535} {
				for _, interval := range []int64{0, 1, 255} {
					for _, id := range idsSmall {
						c := Case{Op: "SetListener", Cfg: cfgBroadcast, ID: id, Addr: a, Port: port, N: []int64{interval}}
						cases = append(cases, c)
					}
				}
			}
		}
		// every octet value in each position (others fixed), ports 0 and 60001
		for pos := 0; pos < 4; pos++ {
			for v := 0; v < 256; v++ {
				o := []int{10, 20, 30, 40}
				o[pos] = v
				a := fmt.Sprintf("%d.%d.%d.%d", o[0], o[1], o[2], o[3])
				z := []int{0, 0, 0, 0}
				z[pos] = v
				az := fmt.Sprintf("%d.%d.%d.%d", z[0], z[1], z[2], z[3])
				for _, port := range []int{0, 60001} {
					cases = append(cases, Case{Op: "SetListener", ID: baseID, Addr: a, Port: port, N: []int64{13}})
					cases = append(cases, Case{Op: "SetListener", ID: baseID, Addr: az, Port: port, N: []int64{13}})
					cases = append(cases, Case{Op: "SetListener", ID: baseID, Addr: "::ffff:" + az, Port: port, N: []int64{13}})
				}
			}
		}
		// every interval
		for v := int64(0); v < 256; v++ {
			c := baseline("SetListener", cfgBroadcast, baseID)
			c.N = []int64{v}
			cases = append(cases, c)
		}
		cases = dedupCases(cases)
		runCases(r, "SetListener/addresses", cases)

		// every port for an IPv4 address, 0.0.0.0, an IPv6 and an IPv4-mapped IPv6 address
		sweep := []string{"192.168.1.100", "0.0.0.0", "2001:db8::1", "::ffff:192.168.1.100", "::ffff:0.0.0.0"}
		runFamily(r, "SetListener/all-ports", len(sweep)*65536, 0, func(i int) Case {
			return Case{Op: "SetListener", ID: baseID, Addr: sweep[i/65536], Port: i % 65536, N: []int64{7}}
		})
	}

	// (6) SetAddress
	{
		forms := [][]int{
			nil, {}, {192, 168, 1}, {192, 168, 1, 100}, {192, 168, 1, 100, 0},
			{0x20, 0x01, 0x0d, 0xb8, 0, 0, 0, 0, 0, 0, 0, 0, 0, 0, 0, 1}, // 2001:db8::1
			{0, 0, 0, 0, 0, 0, 0, 0, 0, 0, 0xff, 0xff, 192, 168, 1, 100}, // ::ffff:192.168.1.100
			{0, 0, 0, 0, 0, 0, 0, 0, 0, 0, 0, 0, 192, 168, 1, 100},       // ::192.168.1.100 (not mapped)
			{0, 0, 0, 0, 0, 0, 0, 0, 0, 0, 0, 0, 0, 0, 0, 0},             // ::
			{0, 0, 0, 0, 0, 0, 0, 0, 0, 0, 0xff, 0xfe, 192, 168, 1, 100}, // almost mapped
			{0, 0, 0, 0, 0, 0, 0, 0, 0, 1, 0xff, 0xff, 192, 168, 1, 100}, // almost mapped
			{0, 0, 0, 0},         // 0.0.0.0
			{255, 255, 255, 255}, // broadcast
			{0, 0, 0, 0, 0, 0, 0, 0, 0, 0, 0xff, 0xff, 0, 0, 0, 0},         // ::ffff:0.0.0.0
			{0, 0, 0, 0, 0, 0, 0, 0, 0, 0, 0xff, 0xff, 255, 255, 255, 255}, // ::ffff:255.255.255.255
		}
		cases := []Case{}
		for _, a := range forms {
			for _, m := range forms {
				for _, g := range forms {
					for _, id := range idsSmall {
						cases = append(cases, Case{Op: "SetAddress", ID: id, IPs: [][]int{a, m, g}})
					}
				}
			}
		}
		// every length 0..20 in each position
		for pos := 0; pos < 3; pos++ {
			for l := 0; l <= 20; l++ {
				c := baseline("SetAddress", cfgBroadcast, baseID)
				ip := make([]int, l)
				for i := range ip {
					ip[i] = 17 + i
				}
				c.IPs = append([][]int{}, c.IPs...)
				c.IPs[pos] = ip
				cases = append(cases, c)
			}
		}
		// every octet value in each octet of each of the three addresses, 4-byte and 16-byte mapped form
		for pos := 0; pos < 3; pos++ {
			for oct := 0; oct < 4; oct++ {
				for v := 0; v < 256; v++ {
					for _, mapped := range []bool{false, true} {
						c := baseline("SetAddress", cfgBroadcast, baseID)
						c.IPs = [][]int{append([]int{}, c.IPs[0]...), append([]int{}, c.IPs[1]...), append([]int{}, c.IPs[2]...)}
						c.IPs[pos][oct] = v
						if mapped {
							c.IPs[pos] = append([]int{0, 0, 0, 0, 0, 0, 0, 0, 0, 0, 0xff, 0xff}, c.IPs[pos]...)
						}
						cases = append(cases, c)
					}
				}
			}
		}
		for _, cfg := range []int{cfgUDP, cfgTCP} {
			for _, id := range idsSmall {
				cases = append(cases, baseline("SetAddress", cfg, id))
				c := baseline("SetAddress", cfg, id)
				c.IPs = [][]int{{192, 168, 1, 100}, nil, {192, 168, 1, 1}}
				cases = append(cases, c)
			}
		}
		cases = dedupCases(cases)
		runCases(r, "SetAddress", cases)
	}

	// (7) SetDoorPasscodes: doors 0..255 x every passcode list of length 0..6 over 5 values
	{
		values := []int64{0, 1, 999999, 1000000, 0xffffffff}
		lists := [][]int64{{}}
		for l, from := 1, 0; l <= 6; l++ {
			to := len(lists)
			for _, p := range lists[from:to] {
				for _, v := range values {
					lists = append(lists, append(append([]int64{}, p...), v))
				}
			}
			from = to
		}
		r.Set("passcode_lists", len(lists))
		runFamily(r, "SetDoorPasscodes/doors-x-lists", 256*len(lists), 0, func(i int) Case {
			door, l := int64(i%256), lists[i/256]
			return Case{Op: "SetDoorPasscodes", ID: baseID, N: append([]int64{door}, l...)}
		})

		// through the rich configurations: doors 0..255 x every list of length 0..3
		for _, cfg := range richCfgs {
			cfg := cfg
			runFamily1(r, "SetDoorPasscodes/doors-x-lists@"+cfgNames[cfg], 256*156, -2, func(i int) Case {
				door, l := int64(i%256), lists[i/256]
				return Case{Op: "SetDoorPasscodes", Cfg: cfg, ID: baseID, N: append([]int64{door}, l...)}
			})
		}

		cases := []Case{}
		// each list position over the 32-bit alphabet and 999990..1000010, others distinct valid codes
		fine := append([]uint32{}, u32...)
		for v := uint32(999990); v <= 1000010; v++ {
			fine = append(fine, v)
		}
		fine = dedup32(fine)
		for door := int64(1); door <= 4; door++ {
			for pos := 0; pos < 6; pos++ {
				for _, v := range fine {
					l := []int64{door, 11111, 22222, 33333, 44444, 55555, 66666}
					l[1+pos] = int64(v)
					cases = append(cases, Case{Op: "SetDoorPasscodes", ID: baseID, N: l})
				}
			}
		}
		for _, cfg := range cfgs {
			for _, id := range idsSmall {
				for _, door := range []int64{0, 1, 4, 5, 255} {
					for _, l := range lists[:31] { // every list of length <= 2
						cases = append(cases, Case{Op: "SetDoorPasscodes", Cfg: cfg, ID: id, N: append([]int64{door}, l...)})
					}
				}
			}
		}
		cases = dedupCases(cases)
		runCases(r, "SetDoorPasscodes/positions-and-ids", cases)

		// list lengths: every length 0..1030 and the lengths around 2^12 .. 2^17 (all codes valid and
		// distinct; and with every code beyond the fourth above 999999): only the length's first four count
		long := []Case{}
		lengths := []int{}
		for n := 0; n <= 1030; n++ {
			lengths = append(lengths, n)
		}
		for sh := 12; sh <= 17; sh++ {
			for d := -2; d <= 4; d++ {
				lengths = append(lengths, 1<<sh+d)
			}
		}
		for _, n := range lengths {
			for _, beyond := range []int64{0, 1000000} {
				l := make([]int64, 1+n)
				l[0] = int64(1 + n%4)
				for i := 0; i < n; i++ {
					l[1+i] = int64(100001 + i%800000)
					if i >= 4 && beyond != 0 {
						l[1+i] = beyond + int64(i)
					}
				}
				long = append(long, Case{Op: "SetDoorPasscodes", ID: baseID, N: l})
			}
		}
		r.Set("passcode_list_lengths", len(lengths))
		runCases(r, "SetDoorPasscodes/list-lengths", long)
	}

	// (8) SetTimeProfile
	{
		// from/to x (each segment absent or one of five values: ordinary, reversed, empty, unused 00:00-00:00, reversed by a minute) x nil map x controller ids
		segValues := [][]int{nil, {510, 690}, {690, 510}, {600, 600}, {0, 0}, {1080, 1079}}
		cases := []Case{}
		for _, from := range dateAlphabet {
			for _, to := range dateAlphabet {
				nv := len(segValues)
				for k := 0; k < nv*nv*nv; k++ {
					for _, id := range idsSmall {
						c := baseline("SetTimeProfile", cfgBroadcast, id)
						c.From, c.To = from, to
						c.Segs = map[string][]int{}
						for s, kk := 1, k; s <= 3; s, kk = s+1, kk/nv {
							if v := segValues[kk%nv]; v != nil {
								c.Segs[strconv.Itoa(s)] = v
							}
						}
						cases = append(cases, c)
					}
				}
				for _, id := range idsSmall {
					c := baseline("SetTimeProfile", cfgBroadcast, id)
					c.From, c.To = from, to
					c.Segs, c.NilSegs = nil, true
					cases = append(cases, c)
				}
			}
		}
		// keys other than 1..3 do not stand in for a missing segment and are no reason to reject
		for _, extra := range []string{"0", "4", "255"} {
			c := baseline("SetTimeProfile", cfgBroadcast, baseID)
			c.Segs = baseSegments()
			c.Segs[extra] = []int{690, 510}
			cases = append(cases, c)
			for _, missing := range []string{"1", "2", "3"} {
				c := baseline("SetTimeProfile", cfgBroadcast, baseID)
				c.Segs = baseSegments()
				delete(c.Segs, missing)
				c.Segs[extra] = []int{510, 690}
				cases = append(cases, c)
			}
		}
		for _, cfg := range []int{cfgUDP, cfgTCP} {
			for _, id := range idsSmall {
				cases = append(cases, baseline("SetTimeProfile", cfg, id))
				c := baseline("SetTimeProfile", cfg, id)
				c.Segs = baseSegments()
				c.Segs["2"] = []int{1020, 780}
				cases = append(cases, c)
			}
		}
		// weekday map shapes (absent / false / true per day, and nil)
		days := []string{"1", "2", "3", "4", "5", "6", "0"}
		for _, w := range shapes(days, []int{0, 1}) {
			c := baseline("SetTimeProfile", cfgBroadcast, baseID)
			c.Map = w
			cases = append(cases, c)
		}
		{
			c := baseline("SetTimeProfile", cfgBroadcast, baseID)
			c.Map, c.NilMap = nil, true
			cases = append(cases, c)
		}
		// times of day a caller can construct although no clock shows them (NewHHmm takes any two
		// integers) and dates before year 1: not among the reasons for rejecting a call, so the call
		// goes out (what the unencodable field carries on the wire is not C07's business)
		for _, pos := range []string{"1", "2", "3"} {
			for _, se := range [][]int{{-60, 0}, {-60, -60}, {-1, 0}, {1441, 1441}, {1500, 1500}, {1439, 5999}, {0, 1500}} {
				c := baseline("SetTimeProfile", cfgBroadcast, baseID)
				c.Segs = baseSegments()
				c.Segs[pos] = se
				cases = append(cases, c)
			}
		}
		for _, from := range [][]int{{-1, 1, 1}, {-9999, 12, 31}, {10000, 1, 1}} {
			c := baseline("SetTimeProfile", cfgBroadcast, baseID)
			c.From = from
			cases = append(cases, c)
		}
		cases = dedupCases(cases)
		runCases(r, "SetTimeProfile/dates-segments-weekdays", cases)

		// profile id x linked profile id: all 65536 pairs
		runFamily(r, "SetTimeProfile/id-x-linked", 65536, 1, func(i int) Case {
			c := baseline("SetTimeProfile", cfgBroadcast, baseID)
			c.N = []int64{int64(i / 256), int64(i % 256)}
			return c
		})

		// all 1441^2 (start, end) pairs in each of the three segment positions
		runFamily(r, "SetTimeProfile/segment-start-x-end", 3*1441*1441, 3 /* the baseline occurs once per position (2 repeats) and once in id-x-linked */, func(i int) Case {
			c := baseline("SetTimeProfile", cfgBroadcast, baseID)
			pos := i / (1441 * 1441)
			start, end := (i/1441)%1441, i%1441
			c.Segs = baseSegments()
			c.Segs[strconv.Itoa(pos+1)] = []int{start, end}
			return c
		})
	}

	// (9) every other operation over its boundary alphabet: never rejected (unless controller id 0)
	{
		cases := []Case{}
		for _, id := range idsSmall {
			for _, op := range []string{"GetDoorControlState", "OpenDoor", "GetTimeProfile", "SetInterlock"} {
				for v := int64(0); v < 256; v++ {
					cases = append(cases, withN(baseline(op, cfgBroadcast, id), v))
				}
			}
			for _, op := range []string{"GetCardByIndex", "GetCardByID", "DeleteCard", "GetEvent", "SetEventIndex"} {
				for _, v := range u32 {
					cases = append(cases, withN(baseline(op, cfgBroadcast, id), int64(v)))
				}
			}
			for _, op := range []string{"RecordSpecialEvents", "SetPCControl"} {
				for _, cfg := range cfgs {
					cases = append(cases, withN(baseline(op, cfg, id), 0), withN(baseline(op, cfg, id), 1))
				}
			}
			// SetDoorControlState: door x state x delay
			for door := int64(0); door < 256; door++ {
				for _, state := range []int64{1, 2, 3, 0, 4, 255, 256, -1} {
					for _, delay := range []int64{0, 1, 5, 254, 255} {
						cases = append(cases, withN(baseline("SetDoorControlState", cfgBroadcast, id), door, state, delay))
					}
				}
			}
			for delay := int64(0); delay < 256; delay++ {
				for _, state := range []int64{1, 2, 3} {
					cases = append(cases, withN(baseline("SetDoorControlState", cfgBroadcast, id), 3, state, delay))
				}
			}
			// ActivateKeypads: reader map shapes
			for _, m := range shapes([]string{"1", "2", "3", "4"}, []int{0, 1}) {
				c := baseline("ActivateKeypads", cfgBroadcast, id)
				c.Map = m
				cases = append(cases, c)
			}
			for _, m := range []map[string]int{{"0": 1}, {"5": 1}, {"255": 1, "1": 1}} {
				c := baseline("ActivateKeypads", cfgBroadcast, id)
				c.Map = m
				cases = append(cases, c)
			}
			c := baseline("ActivateKeypads", cfgBroadcast, id)
			c.Map, c.NilMap = nil, true
			cases = append(cases, c)
		}
		cases = dedupCases(cases)
		runCases(r, "other-operations/integers-booleans-maps", cases)
	}

	// (10) AddTask
	{
		cases := []Case{}
		weekdayForms := []map[string]int{workdays, {}, {"1": 1}, {"0": 1}, {"0": 1, "1": 1, "2": 1, "3": 1, "4": 1, "5": 1, "6": 1}, {"0": 0, "1": 0, "2": 0, "3": 0, "4": 0, "5": 0, "6": 0}}
		for _, task := range []int64{0, 1, 12} {
			for _, door := range []int64{0, 1, 4, 5, 255} {
				for _, cards := range []int64{0, 1, 255} {
					for _, from := range dateAlphabet {
						for _, to := range dateAlphabet {
							for _, w := range weekdayForms {
								for _, start := range []int64{0, 1, 750, 1439, 1440} {
									c := baseline("AddTask", cfgBroadcast, baseID)
									c.N = []int64{task, door, cards, start}
									c.From, c.To, c.Map = from, to, w
									cases = append(cases, c)
								}
							}
						}
					}
				}
			}
		}
		for _, id := range idsSmall {
			for task := int64(-1); task <= 13; task++ {
				cases = append(cases, withN(baseline("AddTask", cfgBroadcast, id), task, 3, 2, 510))
			}
			for _, task := range []int64{255, 256} {
				cases = append(cases, withN(baseline("AddTask", cfgBroadcast, id), task, 3, 2, 510))
			}
			for v := int64(0); v < 256; v++ {
				cases = append(cases, withN(baseline("AddTask", cfgBroadcast, id), 4, v, 2, 510))
				cases = append(cases, withN(baseline("AddTask", cfgBroadcast, id), 4, 3, v, 510))
			}
			for start := int64(0); start <= 1440; start++ {
				cases = append(cases, withN(baseline("AddTask", cfgBroadcast, id), 4, 3, 2, start))
			}
		}
		days := []string{"1", "2", "3", "4", "5", "6", "0"}
		for _, w := range shapes(days, []int{0, 1}) {
			c := baseline("AddTask", cfgBroadcast, baseID)
			c.Map = w
			cases = append(cases, c)
		}
		{
			c := baseline("AddTask", cfgBroadcast, baseID)
			c.Map, c.NilMap = nil, true
			cases = append(cases, c)
		}
		cases = dedupCases(cases)
		runCases(r, "AddTask", cases)
	}

	// (11) SetTime
	{
		zones := []string{"UTC", "fixed:20700", "fixed:-43200", "fixed:50400", "fixed:-34200"}
		if _, err := time.LoadLocation("America/Santiago"); err == nil {
			zones = append(zones, "America/Santiago")
		} else {
			r.Set("SetTime/zone-skipped", "America/Santiago not loadable")
		}
		cases := []Case{}
		boundary := [][]int{
			{1, 1, 1, 0, 0, 0, 0}, {1, 1, 1, 0, 0, 1, 0}, {1, 1, 2, 0, 0, 0, 0}, {1969, 12, 31, 23, 59, 59, 0}, {1970, 1, 1, 0, 0, 0, 0},
			{2000, 2, 29, 12, 0, 0, 0}, {2024, 6, 15, 12, 34, 56, 0}, {2038, 1, 19, 3, 14, 8, 0}, {9999, 12, 31, 23, 59, 59, 0},
			// out of domain (unconstrained): year 0, year 10000, negative year, fractions of a second
			{0, 12, 31, 23, 59, 59, 0}, {10000, 1, 1, 0, 0, 0, 0}, {-1, 6, 15, 12, 0, 0, 0}, {2024, 6, 15, 12, 34, 56, 1}, {2024, 6, 15, 12, 34, 56, 999999999},
		}
		for _, zone := range zones {
			for _, t := range boundary {
				for _, id := range idsSmall {
					for _, cfg := range cfgs {
						cases = append(cases, Case{Op: "SetTime", Cfg: cfg, ID: id, T: t, Zone: zone})
					}
				}
			}
		}
		for y := 1; y <= 9999; y++ {
			cases = append(cases, Case{Op: "SetTime", ID: baseID, T: []int{y, 1, 1, 0, 0, 0, 0}, Zone: "UTC"})
			cases = append(cases, Case{Op: "SetTime", ID: baseID, T: []int{y, 12, 31, 23, 59, 59, 0}, Zone: "UTC"})
		}
		for _, y := range []int{2023, 2024} {
			for m := 1; m <= 12; m++ {
				for d := 1; d <= spec.DaysIn(y, m); d++ {
					cases = append(cases, Case{Op: "SetTime", ID: baseID, T: []int{y, m, d, 0, 0, 0, 0}, Zone: "UTC"})
				}
			}
		}
		cases = dedupCases(cases)
		runCases(r, "SetTime/boundaries", cases)
		runFamily(r, "SetTime/every-second-of-a-day", 86400, 0, func(i int) Case {
			return Case{Op: "SetTime", ID: baseID, T: []int{2024, 6, 15, i / 3600, (i / 60) % 60, i % 60, 0}, Zone: "fixed:20700"}
		})
	}
}

func dedupCases(in []Case) []Case {
	seen := map[uint64]bool{}
	out := make([]Case, 0, len(in))
	for i := range in {
		h := caseHash(&in[i])
		if !seen[h] {
			seen[h] = true
			out = append(out, in[i])
		}
	}
	return out
}

// ---------------------------------------------------------------------------------------------

func replay(r *vk.Run) {
	kind, raw, err := vk.LoadReplay(r.Replay)
	if err != nil {
		r.Machinery("cannot load replay: %v", err)
		r.Finish()
	}
	switch kind {
	case "api":
		var c Case
		if err := json.Unmarshal(raw, &c); err != nil {
			r.Machinery("cannot decode replay case: %v", err)
			r.Finish()
		}
		cl, err := newClient(c.Cfg, c.ID)
		if err != nil {
			r.Machinery("%v", err)
			r.Finish()
		}
		a := reference(&c)
		o, err := call(cl, &c)
		if err != nil {
			r.Machinery("cannot execute replay case: %v", err)
			r.Finish()
		}
		r.Count(1)
		r.Distinct(1)
		e := "nil"
		if o.err != nil {
			e = o.err.Error()
		}
		var compact bytes.Buffer
		json.Compact(&compact, raw)
		fmt.Printf("case: %s\n", compact.String())
		fmt.Printf("library:   error=%q driver-calls=%d (%s) panicked=%v request=%x\n", e, o.calls, cfgNames[c.Cfg], o.panicked, o.request)
		fmt.Printf("reference: %v %v\n", a.verdict, a.why())
		if f := judge(&c, a, o); f != nil {
			r.Violation(f.key, f.what, "api", c)
		}
	case "predicate":
		var p predicateCase
		if err := json.Unmarshal(raw, &p); err != nil {
			r.Machinery("cannot decode replay case: %v", err)
			r.Finish()
		}
		replayPredicate(r, p)
	default:
		r.Machinery("unknown replay kind %q", kind)
	}
	r.Sample(map[string]any{"replay": r.Replay})
	r.Finish()
}

// predicateCase is one evaluation of the exported card number/format predicate (2^32 sweep).
type predicateCase struct {
	Card    uint32   `json:"card"`
	Formats []string `json:"formats"`
}

func main() {
	r := vk.Start("C07", "exploration")
	debug.SetGCPercent(800)                        // allocation-heavy, tiny live heap
	if p := os.Getenv("C07_CPUPROFILE"); p != "" { // development aid
		if f, err := os.Create(p); err == nil {
			pprof.StartCPUProfile(f)
		}
	}

	if r.Replay != "" {
		replay(r)
	}

	enumerate(r)
	countBigFamilies(r)

	if r.Thorough() {
		sweepAllCardNumbers(r)
	}

	rule := "every listed argument tuple of all 31 controller-addressed operations (and GetDevices) through the public API with a recording fake driver: " +
		"controller ids over the structured 32-bit alphabet x 3 client configurations; PutCard card numbers (structured set) x all format lists of length <= 2 over {any, Wiegand-26, CardFormat(7)} x PIN boundaries, every format list of length 1..3 held in one caller-side slice across two consecutive calls x 36 ordered number pairs, every PIN 0..1000100; " +
		"SetListener address classes x ports (all 65536 ports for 5 addresses); SetAddress byte-slice forms^3, lengths 0..20, every octet; SetDoorPasscodes doors 0..255 x all passcode lists of length 0..6 over 5 values, passcode lists of every length 0..1030 and around 2^12..2^17; " +
		"SetTimeProfile dates x segment presence, all 1441^2 (start,end) pairs in each segment position, all id x linked pairs; every other operation over its boundary alphabet. " +
		"distinct = distinct (operation, configuration, controller id, argument tuple) combinations (hash set over the table-built families; an index-generated sweep of one operation is injective by construction and contributes its size minus the number of table-built cases of that operation minus a stated bound on its overlap with the other sweeps of that operation)"
	if r.Thorough() {
		rule += "; thorough: all 2^32 card numbers x 6 format lists through VerifIsCardNumberValid, each (number, list) pair distinct"
	}
	r.Rule(rule)
	r.Sample(map[string]any{"op": "PutCard", "card": 100000000, "formats": []string{"wiegand26"}, "reference": "must-reject (facility code 1000 > 255)"})
	r.Sample(map[string]any{"op": "PutCard", "card": 25565535, "formats": []string{"wiegand26"}, "reference": "must-accept, 1 request"})
	r.Sample(map[string]any{"op": "PutCard", "pin": 1000000, "reference": "must-reject, 0 requests"})
	r.Sample(map[string]any{"op": "SetDoorPasscodes", "door": 5, "reference": "must-reject, 0 requests"})
	r.Sample(map[string]any{"op": "SetDoorPasscodes", "door": 4, "passcodes": []uint32{1, 1000000, 999999, 0xffffffff, 7}, "reference": "must-accept, wire passcodes 1,0,999999,0"})
	r.Sample(map[string]any{"op": "SetListener", "addr": "[::ffff:192.168.1.100]:60001", "reference": "unconstrained (rejection expected, acceptance not alarmed)"})
	r.Sample(map[string]any{"op": "SetListener", "addr": "192.168.1.100:0", "reference": "must-reject"})
	r.Sample(map[string]any{"op": "SetAddress", "mask": "16-byte ::ffff:255.255.255.0", "reference": "must-accept"})
	r.Sample(map[string]any{"op": "SetTimeProfile", "segment2": "17:00-13:00", "reference": "must-reject"})
	r.Sample(map[string]any{"op": "GetStatus", "controller": 0, "cfg": "controller 0 configured, tcp", "reference": "must-reject, 0 requests"})
	r.Assume("the fake driver's canned replies are valid for their function codes (any error on a must-accept case is reported, so a bad canned reply would show as a violation on the unchanged tree, not hide one)")
	r.Assume("net/netip and net (IPv4 classification of the argument values) are trusted")
	pprof.StopCPUProfile()
	r.Finish()
}
