// Engine E3 conformance replay for C06: the loopback-expressible subset of the routing
// configurations (directed UDP, TCP, "broadcast" to a loopback port; ephemeral and fixed bind
// port; the target plus two bystander endpoints) is run against the UNMODIFIED driver with real
// sockets for all 32 operations; the observation (which endpoint received what, from which source
// port) is compared with what the model produced (= the reference routing function, which the E1
// check has shown the model run to equal). Output: one JSON object on stdout.
package main

import (
	"bytes"
	"encoding/json"
	"fmt"
	"net"
	"net/netip"
	"os"
	"sync"
	"time"

	"github.com/uhppoted/uhppote-core/types"
	"github.com/uhppoted/uhppote-core/uhppote"
	"verif/ops"
	"verif/spec"
)

const (
	target  = uint32(405419896)
	timeout = 250 * time.Millisecond
)

type endpoint struct {
	udp  *net.UDPConn
	tcp  net.Listener
	port int
	mu   sync.Mutex
	got  []string // "udp:<srcport>:<hex>" / "tcp:<srcport>:<hex>"
}

func open() *endpoint {
	for i := 0; i < 20; i++ {
		u, err := net.ListenUDP("udp4", &net.UDPAddr{IP: net.IPv4(127, 0, 0, 1)})
		if err != nil {
			continue
		}
		p := u.LocalAddr().(*net.UDPAddr).Port
		l, err := net.Listen("tcp4", fmt.Sprintf("127.0.0.1:%d", p))
		if err != nil {
			u.Close()
			continue
		}
		e := &endpoint{udp: u, tcp: l, port: p}
		go func() {
			buf := make([]byte, 2048)
			for {
				n, from, err := u.ReadFromUDP(buf)
				if err != nil {
					return
				}
				e.mu.Lock()
				e.got = append(e.got, fmt.Sprintf("udp:%d:%x", from.Port, buf[:n]))
				e.mu.Unlock()
			}
		}()
		go func() {
			for {
				c, err := l.Accept()
				if err != nil {
					return
				}
				go func() {
					defer c.Close()
					buf := make([]byte, 2048)
					c.SetReadDeadline(time.Now().Add(2 * time.Second))
					n, _ := c.Read(buf)
					e.mu.Lock()
					e.got = append(e.got, fmt.Sprintf("tcp:%d:%x", c.RemoteAddr().(*net.TCPAddr).Port, buf[:n]))
					e.mu.Unlock()
				}()
			}
		}()
		return e
	}
	return nil
}

func (e *endpoint) close() { e.udp.Close(); e.tcp.Close() }

func one(op *spec.Op, path string, bindPort int) string {
	eps := []*endpoint{open(), open(), open()}
	for _, e := range eps {
		if e == nil {
			return "ENV"
		}
		defer e.close()
	}
	lo := netip.MustParseAddr("127.0.0.1")
	tgt := eps[0]
	devices := []uhppote.Device{{DeviceID: 303986753, Address: types.ControllerAddrFrom(lo, uint16(eps[2].port)), Protocol: "udp"}}
	bcast := eps[1] // where "broadcasts" go
	wantEP, wantProto := tgt, "udp"
	switch path {
	case "udp", "tcp":
		devices = append(devices, uhppote.Device{DeviceID: target, Address: types.ControllerAddrFrom(lo, uint16(tgt.port)), Protocol: path})
		wantProto = path
	case "broadcast":
		wantEP = bcast
	}
	if op.Broadcast {
		wantEP, wantProto = bcast, "udp"
	}
	bind := types.BindAddr{}
	if bindPort != 0 {
		bind = types.BindAddrFrom(lo, uint16(bindPort))
	}
	u := uhppote.NewUHPPOTE(bind, types.BroadcastAddrFrom(lo, uint16(bcast.port)), types.ListenAddr{}, timeout, devices, false)
	serial := target
	if op.Broadcast {
		serial = 0
		u.GetDevices()
	} else {
		ops.Invoke(u, op.Name, target, ops.Baseline(op))
	}
	time.Sleep(60 * time.Millisecond)
	want := fmt.Sprintf("%x", spec.EncodeRequest(op, serial, ops.Baseline(op)))
	for _, e := range eps {
		e.mu.Lock()
		got := append([]string{}, e.got...)
		e.mu.Unlock()
		if e != wantEP {
			if len(got) != 0 {
				return fmt.Sprintf("a bystander endpoint received %v", got)
			}
			continue
		}
		if len(got) != 1 {
			return fmt.Sprintf("the addressed endpoint received %d messages %v", len(got), got)
		}
		var proto, data string
		var src int
		parts := bytes.SplitN([]byte(got[0]), []byte(":"), 3)
		proto, data = string(parts[0]), string(parts[2])
		fmt.Sscanf(string(parts[1]), "%d", &src)
		if proto != wantProto {
			return fmt.Sprintf("sent over %s, model says %s", proto, wantProto)
		}
		if data != want {
			return fmt.Sprintf("bytes %s, model says %s", data, want)
		}
		if bindPort != 0 && src != bindPort {
			return fmt.Sprintf("source port %d, bind port %d", src, bindPort)
		}
	}
	return ""
}

func main() {
	type sc struct {
		op   *spec.Op
		path string
		bind int
	}
	var scs []sc
	k := 0
	for i := range spec.Ops {
		op := &spec.Ops[i]
		for _, path := range []string{"udp", "tcp", "broadcast"} {
			if op.Broadcast && path != "broadcast" {
				continue
			}
			for _, fixed := range []bool{false, true} {
				b := 0
				if fixed {
					k++
					b = 23000 + k
				}
				scs = append(scs, sc{op, path, b})
			}
		}
	}
	var mu sync.Mutex
	replayed, agreed, skipped := 0, 0, 0
	var divergences []map[string]string
	var wg sync.WaitGroup
	sem := make(chan struct{}, 32)
	for _, s := range scs {
		s := s
		wg.Add(1)
		sem <- struct{}{}
		go func() {
			defer wg.Done()
			defer func() { <-sem }()
			res := ""
			for attempt := 0; attempt < 5; attempt++ {
				res = one(s.op, s.path, s.bind)
				if res == "" || res == "ENV" {
					break
				}
			}
			mu.Lock()
			defer mu.Unlock()
			if res == "ENV" {
				skipped++
				return
			}
			replayed++
			if res == "" {
				agreed++
			} else {
				divergences = append(divergences, map[string]string{"scenario": fmt.Sprintf("%s/%s/bind=%d", s.op.Name, s.path, s.bind), "real": res})
			}
		}()
	}
	wg.Wait()
	json.NewEncoder(os.Stdout).Encode(map[string]any{"replayed": replayed, "agreed": agreed, "skipped": skipped, "divergences": divergences})
}
