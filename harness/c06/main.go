// C06 — each request is sent once, to the right endpoint, over the right transport.
//
// Engine E1: for every client configuration of a finite cross product (target controller
// configuration x protocol string x bind address x broadcast address x bystander controller x
// constructor) and every one of the 32 operations (environment choice), the real API -> sendto ->
// ut0311 driver stack runs on the simulated network with the controllers silent or answering;
// the packet log must hold exactly one datagram (or one TCP connection carrying exactly one
// 64-byte write) from the configured bind address to the endpoint the reference routing function
// names, byte-identical to the reference encoding, and nothing else.
package main

import (
	"bytes"
	"fmt"
	"net"
	"net/netip"
	"strings"
	"time"

	"github.com/uhppoted/uhppote-core/types"
	"github.com/uhppoted/uhppote-core/uhppote"
	"github.com/uhppoted/uhppote-core/verifshim/vs"
	"verif/mc/e1"
	"verif/mc/farm"
	"verif/ops"
	"verif/spec"
	"verif/vk"
)

const (
	T       = time.Second
	target  = uint32(405419896)
	other   = uint32(303986753)
	otherAt = "192.168.1.101:60000"
)

type config struct {
	ctrl      string // "none" | "zero" | "0.0.0.0:60000" | "192.168.1.100:0" | "192.168.1.100:60000" | "10.0.0.7:54321"
	protocol  string
	bind      string // "" | "0.0.0.0:0" | "192.168.1.2:0" | "192.168.1.2:54321" | "192.168.1.2:60000" | "192.168.1.2:60005"
	broadcast string // "" | "192.168.1.255:60000" | "192.168.1.255:60005" | unusual ones (0.0.0.0:54321 ...)
	bystander bool
	newDevice bool
	// fd0: the process was started with its standard streams closed - the first socket the client opens
	// is descriptor 0, the next ones 1, 2 (a valid descriptor like any other)
	fd0 bool
}

func (c config) String() string {
	if c.fd0 {
		return fmt.Sprintf("ctrl=%s proto=%q bind=%q bcast=%q bystander=%v newDevice=%v standard-streams-closed", c.ctrl, c.protocol, c.bind, c.broadcast, c.bystander, c.newDevice)
	}
	return fmt.Sprintf("ctrl=%s proto=%q bind=%q bcast=%q bystander=%v newDevice=%v", c.ctrl, c.protocol, c.bind, c.broadcast, c.bystander, c.newDevice)
}

// route is the reference: where must a directed request for `target` go.
func route(c config) (proto, dst string) {
	bcast := "255.255.255.255:60000"
	if c.broadcast != "" {
		bcast = c.broadcast
	}
	switch c.ctrl {
	case "none", "zero", "0.0.0.0:60000", "192.168.1.100:0":
		return "udp", bcast
	}
	if c.protocol == "tcp" {
		return "tcp", c.ctrl
	}
	return "udp", c.ctrl
}

func mkDevice(c config, name string, id uint32, addr types.ControllerAddr, protocol string) uhppote.Device {
	if c.newDevice {
		return uhppote.NewDevice(name, id, addr, protocol, []string{"A", "B", "C", "D"}, nil)
	}
	return uhppote.Device{Name: name, DeviceID: id, Address: addr, Doors: []string{"A", "B", "C", "D"}, Protocol: protocol}
}

func mkClient(c config) uhppote.IUHPPOTE {
	devices := []uhppote.Device{}
	switch c.ctrl {
	case "none":
	case "zero":
		devices = append(devices, mkDevice(c, "target", target, types.ControllerAddr{}, c.protocol))
	default:
		ap := netip.MustParseAddrPort(c.ctrl)
		devices = append(devices, mkDevice(c, "target", target, types.ControllerAddrFrom(ap.Addr(), ap.Port()), c.protocol))
	}
	if c.bystander {
		ap := netip.MustParseAddrPort(otherAt)
		devices = append(devices, mkDevice(c, "other", other, types.ControllerAddrFrom(ap.Addr(), ap.Port()), "udp"))
	}
	bind := types.BindAddr{}
	if c.bind != "" {
		ap := netip.MustParseAddrPort(c.bind)
		bind = types.BindAddrFrom(ap.Addr(), ap.Port())
	}
	bcast := types.BroadcastAddr{}
	if c.broadcast != "" {
		ap := netip.MustParseAddrPort(c.broadcast)
		bcast = types.BroadcastAddrFrom(ap.Addr(), ap.Port())
	}
	return uhppote.NewUHPPOTE(bind, bcast, types.ListenAddr{}, T, devices, false)
}

func scenario(c config) e1.Scenario { return scenarioN([]config{c}) }

// scenarioN: one client per configuration, built and used one after the other in the same process
// (same simulated host); every client makes one call of the chosen operation. Each call is judged
// against its own client's configuration: nothing may carry over from an earlier client.
func scenarioN(cs []config) e1.Scenario {
	var opIx int
	var answered bool
	var marks []int
	body := func() {
		f := &farm.Farm{}
		answered = vs.Choose(2, "controllers-answer") == 1
		farmAddrs := []string{"192.168.1.100:60000", "10.0.0.7:54321", otherAt, "192.168.1.77:60005", "192.168.1.78:60000"}
		for _, c := range cs {
			// a controller listens wherever the configured address points (so that a TCP connection attempt is observable)
			if ap, err := netip.ParseAddrPort(c.ctrl); err == nil && ap.Port() != 0 && !ap.Addr().IsUnspecified() {
				known := false
				for _, a := range farmAddrs {
					known = known || a == c.ctrl
				}
				if !known {
					farmAddrs = append(farmAddrs, c.ctrl)
				}
			}
		}
		for _, a := range farmAddrs {
			serial := target
			if a == otherAt {
				serial = other
			}
			if answered && a != "192.168.1.77:60005" && a != "192.168.1.78:60000" {
				f.Controllers = append(f.Controllers, farm.Echo(a, serial, func([]byte) time.Duration { return T / 10 }))
			} else {
				f.Controllers = append(f.Controllers, &farm.Controller{Addr: a})
			}
		}
		vs.Net().Env = f
		if len(cs) > 0 && cs[0].fd0 {
			vs.Net().FdBase = 0
		}
		usedArgs = nil
		opIx = vs.Choose(len(spec.Ops), "operation")
		op := &spec.Ops[opIx]
		m := []int{0}
		for _, c := range cs {
			u := mkClient(c)
			if op.Broadcast {
				u.GetDevices()
			} else {
				args := ops.Baseline(op)
				if usedArgs != nil {
					args = usedArgs
				}
				// arguments that happen to equal something the client is configured with (the controller's own
				// address, the bind address, the broadcast address): where a request goes depends on the
				// configuration of the addressed controller alone, not on what the request carries
				if usedArgs == nil && (op.Name == "SetAddress" || op.Name == "SetListener") {
					related := []string{c.ctrl, c.bind, c.broadcast, "192.168.1.2:60001"}
					if k := vs.Choose(len(related)+1, "argument-equals-configured-value"); k > 0 {
						if ap, err := netip.ParseAddrPort(related[k-1]); err == nil && ap.Addr().Is4() {
							if op.Name == "SetAddress" {
								args["Address"] = ap.Addr().As4()
							} else if ap.Port() != 0 && ap.Port() != 60000 {
								args["AddrPort"] = spec.AP{IP: ap.Addr().As4(), Port: ap.Port()}
							} else {
								args["AddrPort"] = spec.AP{IP: ap.Addr().As4(), Port: 60001}
							}
						}
					}
				}
				usedArgs = args
				ops.Invoke(u, op.Name, target, args)
			}
			m = append(m, len(vs.Net().Packets))
		}
		marks = m
	}
	check := func(e *vs.Exec) (string, []e1.Viol) {
		viols := e1.Generic(e)
		if e.Abort != "" {
			return e.Abort, viols
		}
		label := ""
		for i, c := range cs {
			prefix := ""
			if len(cs) > 1 {
				prefix = fmt.Sprintf("client-%d-of-%d/", i+1, len(cs))
			}
			l, v := judge(c, &spec.Ops[opIx], answered, vs.Net().Packets[marks[i]:marks[i+1]], prefix, cs)
			label += l + " "
			viols = append(viols, v...)
		}
		if open := vs.Net().OpenSockets(); len(open) > 0 {
			viols = append(viols, e1.Viol{Key: "socket-left-open", What: fmt.Sprint(open)})
		}
		return label, viols
	}
	name := cs[0].String()
	for _, c := range cs[1:] {
		name += " THEN " + c.String()
	}
	return e1.Scenario{Name: name, Bound: 0, Body: body, Check: check}
}

// busyScenario: another socket of the host already holds the client's fixed UDP bind port (an event
// listener on the same port, another program). A call may then fail without sending anything, but
// whatever does leave must still leave from the configured bind address — never from a substitute
// port — and at most once.
func busyScenario(c config) e1.Scenario {
	var opIx int
	var failed bool
	var start int
	body := func() {
		f := &farm.Farm{}
		for _, a := range []string{"192.168.1.100:60000", "10.0.0.7:54321", otherAt} {
			serial := target
			if a == otherAt {
				serial = other
			}
			f.Controllers = append(f.Controllers, farm.Echo(a, serial, func([]byte) time.Duration { return T / 10 }))
		}
		vs.Net().Env = f
		opIx = vs.Choose(len(spec.Ops), "operation")
		op := &spec.Ops[opIx]
		ap := netip.MustParseAddrPort(c.bind)
		holder, err := vs.ListenUDP("udp4", &net.UDPAddr{IP: net.IPv4zero, Port: int(ap.Port())})
		if err != nil {
			panic("harness could not occupy the bind port: " + err.Error())
		}
		releaseTCP, err := vs.Net().HoldPort("tcp", int(ap.Port())) // the same port number in the TCP port space
		if err != nil {
			panic("harness could not occupy the TCP bind port: " + err.Error())
		}
		defer releaseTCP()
		start = len(vs.Net().Packets)
		u := mkClient(c)
		if op.Broadcast {
			_, err := u.GetDevices()
			failed = err != nil
		} else {
			failed = ops.Invoke(u, op.Name, target, ops.Baseline(op)).Err != nil
		}
		holder.Close()
	}
	check := func(e *vs.Exec) (string, []e1.Viol) {
		viols := e1.Generic(e)
		if e.Abort != "" {
			return e.Abort, viols
		}
		op := &spec.Ops[opIx]
		packets := vs.Net().Packets[start:]
		n := 0
		for _, p := range packets {
			if p.Proto != "tcp-connect" {
				n++
			}
		}
		if n == 0 && failed {
			return "bind-port-busy: failed, nothing sent", viols
		}
		if n == 0 && !failed && !op.NoReply {
			viols = append(viols, e1.Viol{Key: "bind-port-busy/succeeded-without-sending", What: fmt.Sprintf("%s, operation %s", c, op.Name)})
			return "bind-port-busy: ?", viols
		}
		l, v := judge(c, op, true, packets, "bind-port-busy/", []config{c})
		return "bind-port-busy: " + l, append(viols, v...)
	}
	return e1.Scenario{Name: "bind-port-busy " + c.String(), Bound: 0, Body: body, Check: check}
}

func judge(c config, op *spec.Op, answered bool, packets []vs.Packet, prefix string, all []config) (string, []e1.Viol) {
	viols := []e1.Viol{}
	{
		proto, dst := route(c)
		serial := target
		if op.Broadcast {
			serial = 0
			proto, dst = "udp", "255.255.255.255:60000"
			if c.broadcast != "" {
				dst = c.broadcast
			}
		}
		want := spec.EncodeRequest(op, serial, wire(op))
		add := func(key, what string) {
			ctx := c.String()
			if len(all) > 1 {
				ctx = fmt.Sprintf("%s (clients used in this process, in order: %v)", c, all)
			}
			viols = append(viols, e1.Viol{Key: prefix + key, What: fmt.Sprintf("%s, operation %s: %s", ctx, op.Name, what)})
		}
		var data, connects []vs.Packet
		for _, p := range packets {
			if p.Proto == "tcp-connect" {
				connects = append(connects, p)
			} else {
				data = append(data, p)
			}
		}
		label := fmt.Sprintf("%s->%s answered=%v", proto, dst, answered)
		class := "directed"
		if strings.HasSuffix(strings.Split(dst, ":")[0], ".255") {
			class = "broadcast"
		}
		if op.Broadcast {
			class = "discovery"
		}
		switch {
		case len(data) == 0:
			add(class+"/nothing-sent", fmt.Sprintf("no request left the client (connects: %d)", len(connects)))
			return label, viols
		case len(data) > 1:
			add(class+"/sent-more-than-once", fmt.Sprintf("%d packets: %v", len(data), summary(data)))
			return label, viols
		}
		p := data[0]
		if p.Proto != proto {
			add(class+"/wrong-transport", fmt.Sprintf("sent over %s, reference %s", p.Proto, proto))
		}
		if p.Dst != dst {
			key := class + "/wrong-destination"
			if c.broadcast == "" && class != "directed" {
				key = class + "/wrong-default-broadcast-address"
			}
			add(key, fmt.Sprintf("sent to %s, reference %s", p.Dst, dst))
		}
		if proto == "tcp" && (len(connects) != 1 || connects[0].Dst != dst) {
			add(class+"/tcp-connections", fmt.Sprintf("%d connections %v", len(connects), summary(connects)))
		}
		if proto != "tcp" && len(connects) != 0 {
			add(class+"/unexpected-tcp-connection", fmt.Sprint(summary(connects)))
		}
		if !bytes.Equal(p.Data, want) {
			add(class+"/wrong-bytes", fmt.Sprintf("got %x want %x", p.Data, want))
		}
		// source = configured bind address
		wantIP, wantPort := "0.0.0.0", 0
		if c.bind != "" {
			ap := netip.MustParseAddrPort(c.bind)
			wantIP, wantPort = ap.Addr().String(), int(ap.Port())
		}
		src := netip.MustParseAddrPort(p.Src)
		if src.Addr().String() != wantIP || (wantPort != 0 && int(src.Port()) != wantPort) {
			add(class+"/wrong-source", fmt.Sprintf("sent from %s, bind address %q", p.Src, c.bind))
		}
		return label, viols
	}
}

// usedArgs: the arguments the operation of this execution was called with (set by the scenario body)
var usedArgs spec.Args

func wire(op *spec.Op) spec.Args {
	if usedArgs != nil {
		return usedArgs
	}
	return ops.Baseline(op)
}

func summary(ps []vs.Packet) []string {
	out := []string{}
	for _, p := range ps {
		out = append(out, fmt.Sprintf("%s %s->%s %dB", p.Proto, p.Src, p.Dst, len(p.Data)))
	}
	return out
}

// budget is the wall-clock allowance of one worker process: generous multiples of the measured
// run time; running out of it yields exhaustive:false, never a violation.
func budget(r *vk.Run) time.Duration {
	if r.Thorough() {
		return 25 * time.Minute
	}
	return 4 * time.Minute
}

func main() {
	r := vk.Start("C06", "model_checking")
	scenarios := []e1.Scenario{}
	// the last one: the directed broadcast address of the subnet the simulated host's eth0 is on
	// (what net.Interfaces reports under the model is vs.DefaultIfaces) - a usable IPv4 address like any other
	for _, ctrl := range []string{"none", "zero", "0.0.0.0:60000", "192.168.1.100:0", "192.168.1.100:60000", "10.0.0.7:54321", "192.168.1.255:60000"} {
		for _, proto := range []string{"", "udp", "tcp", "TCP", "any", "x"} {
			// the last two: the fixed bind port coincides with the port of the (default / configured)
			// broadcast address, and 54321 with the port of the controller at 10.0.0.7:54321
			for _, bind := range []string{"", "0.0.0.0:0", "192.168.1.2:0", "192.168.1.2:54321", "192.168.1.2:60000", "192.168.1.2:60005"} {
				for _, bcast := range []string{"", "192.168.1.255:60000", "192.168.1.255:60005"} {
					for _, by := range []bool{false, true} {
						for _, nd := range []bool{false, true} {
							if nd && (proto == "TCP" || proto == "any" || proto == "x" || proto == "") {
								// NewDevice normalises the protocol to "udp" unless it is "tcp": still UDP
							}
							if ctrl == "192.168.1.255:60000" && proto == "tcp" {
								continue // a TCP connection to a broadcast address cannot be attempted at all (the model, like the kernel, refuses it before anything is observable)
							}
							scenarios = append(scenarios, scenario(config{ctrl, proto, bind, bcast, by, nd, false}))
						}
					}
				}
			}
		}
	}
	// unusual but configured broadcast addresses (the unspecified address with a port, the limited
	// broadcast address on another port, a class-A directed broadcast): "configured" means used as is
	for _, ctrl := range []string{"none", "zero", "0.0.0.0:60000", "192.168.1.100:0"} {
		for _, bind := range []string{"", "192.168.1.2:54321"} {
			for _, bcast := range []string{"0.0.0.0:54321", "0.0.0.0:60000", "255.255.255.255:60005", "10.255.255.255:60000", "192.168.1.100:60000"} {
				for _, nd := range []bool{false, true} {
					scenarios = append(scenarios, scenario(config{ctrl, "udp", bind, bcast, false, nd, false}))
				}
			}
		}
	}
	// controller addresses of every IPv4 address class: a valid IPv4 address and a non-zero port is a
	// usable address whatever range it lies in (loopback, link-local, carrier-grade NAT, documentation,
	// multicast, reserved, the limited broadcast address) - the request goes to exactly that endpoint
	for _, ctrl := range []string{"127.0.0.1:60000", "169.254.10.20:60000", "100.64.0.1:60000", "192.0.2.1:60000", "198.18.0.1:60000", "224.0.0.251:60000", "239.255.255.250:60000", "240.0.0.1:60000", "255.255.255.255:60000", "1.1.1.1:1", "192.168.1.2:60000"} {
		for _, proto := range []string{"", "udp", "tcp"} {
			if proto == "tcp" && (strings.HasPrefix(ctrl, "22") || strings.HasPrefix(ctrl, "23") || strings.HasPrefix(ctrl, "24") || strings.HasPrefix(ctrl, "255.")) {
				continue // (no TCP connection can be attempted to a multicast / reserved / broadcast address)
			}
			for _, bind := range []string{"", "192.168.1.2:54321"} {
				for _, nd := range []bool{false, true} {
					scenarios = append(scenarios, scenario(config{ctrl, proto, bind, "", false, nd, false}))
				}
			}
		}
	}
	// a process whose standard streams are closed: the sockets get descriptors 0, 1, 2
	for _, ctrl := range []string{"none", "192.168.1.100:60000"} {
		for _, proto := range []string{"udp", "tcp"} {
			for _, bind := range []string{"", "192.168.1.2:54321"} {
				scenarios = append(scenarios, scenario(config{ctrl, proto, bind, "", false, false, true}))
			}
		}
	}
	// two (thorough: also three) clients with different configurations, one after the other in one process
	reduced := []config{}
	for _, ctrl := range []string{"none", "192.168.1.100:60000"} {
		for _, proto := range []string{"udp", "tcp"} {
			for _, bind := range []string{"", "192.168.1.2:54321", "192.168.1.3:54321"} {
				for _, bcast := range []string{"", "192.168.1.255:60005"} {
					reduced = append(reduced, config{ctrl, proto, bind, bcast, false, false, false})
				}
			}
		}
	}
	for _, a := range reduced {
		for _, b := range reduced {
			scenarios = append(scenarios, scenarioN([]config{a, b}))
		}
	}
	for _, c := range reduced {
		if c.bind != "" {
			scenarios = append(scenarios, busyScenario(c))
		}
	}
	if r.Thorough() {
		small := []config{}
		for _, c := range reduced {
			if c.protocol == "udp" {
				small = append(small, c)
			}
		}
		for _, a := range small {
			for _, b := range small {
				for _, c := range small {
					scenarios = append(scenarios, scenarioN([]config{a, b, c}))
				}
			}
		}
		e1.PerScenario = 6 * time.Minute
	}
	e1.RunAll(r, scenarios, budget(r))
	if r.Worker == "" && r.Replay == "" {
		e1.Conformance(r)
	}
	r.Rule("full cross product of 7 target-controller configurations (one of them the directed broadcast address of the simulated host's own subnet, as net.Interfaces reports it under the model) x 6 protocol strings x 6 bind addresses (two of them with the fixed port equal to the port of the default / configured broadcast address, one equal to a controller's port) x 3 broadcast settings x bystander controller x constructor (2952 configurations), each x 32 operations x controllers {silent, answering} as environment choices; controllers at addresses of 11 IPv4 address classes (loopback, link-local, CGNAT, documentation, multicast, reserved, limited broadcast, the host's own); 8 configurations in a process whose standard streams are closed (socket descriptors 0, 1, 2); 80 more configurations with unusual configured broadcast addresses (0.0.0.0 with a port, 255.255.255.255 on another port, other directed broadcasts, a unicast address); plus every ordered pair (thorough: also every ordered triple over the 12 UDP ones) of 24 reduced configurations {unconfigured, configured} x {udp, tcp} x {no bind, two different local addresses on the same fixed port} x {default, configured broadcast address} as clients used one after the other in one process, each call judged against its own client's configuration; and the 16 fixed-bind-port ones with the bind port already held (UDP and TCP port space) by other sockets of the host (a call may fail without sending, but nothing may leave from another source); distinct = distinct (transport, destination, answered) labels")
	r.Assume("reference routing function route() in this file, written from the property statement; protocol strings other than exactly \"tcp\" mean UDP")
	r.Assume("simulated network: source address = bind address, ephemeral port when the bind port is 0")
	r.Finish()
}
