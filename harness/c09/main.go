// C09 — every call ends within its timeout and releases its socket and goroutines.
//
// Engine E1, virtual time (exact, no wall-clock oracle): (a) histories — every sequence up to a
// length bound of (delivery path x network behaviour) steps on one client, chosen step by step by
// the environment; each call must end exactly when the reference says (reply arrival, error
// arrival, or the deadline), with the reference outcome, leaving no socket open and no thread
// alive; (b) fixed-bind-port scenarios with 2-3 threads where earlier holders of the port are
// silent, all interleavings within the preemption bound: calls are served in turn, each holding the
// port for at most one timeout, and a reply that arrives within the timeout of being asked is
// accepted.
package main

import (
	"encoding/binary"
	"fmt"
	"net"
	"net/netip"
	"sort"
	"syscall"
	"time"

	"github.com/uhppoted/uhppote-core/types"
	"github.com/uhppoted/uhppote-core/uhppote"
	"github.com/uhppoted/uhppote-core/verifshim/vs"
	"verif/echo"
	"verif/mc/e1"
	"verif/mc/farm"
	"verif/ops"
	"verif/spec"
	"verif/vk"
)

// T is the client timeout of the scenario being explored (set by the scenario's body and check:
// scenarios of one worker run one at a time).
var T = time.Second

const eps = time.Millisecond

// withTimeout runs a scenario with client timeout tv (reply delays, deadlines and the reference
// durations all scale with it).
func withTimeout(sc e1.Scenario, tv time.Duration) e1.Scenario {
	body, check := sc.Body, sc.Check
	sc.Body = func() { T = tv; body() }
	sc.Check = func(e *vs.Exec) (string, []e1.Viol) { T = tv; return check(e) }
	if tv != time.Second {
		sc.Name = fmt.Sprintf("timeout=%v/%s", tv, sc.Name)
	}
	return sc
}

var serials = map[string]uint32{"udp": 405419896, "tcp": 303986753, "broadcast": 201020304}
var addrs = map[string]string{"udp": "192.168.1.100:60000", "tcp": "192.168.1.101:60000", "broadcast": "192.168.1.102:60000"}

type step struct {
	path, behaviour string
	op              string // "GetCards" | "SetAddress" | "GetDevices"
}

// the alphabet of history steps
var alphabet = func() []step {
	a := []step{}
	for _, b := range []string{"success", "silence", "late", "just-in-time", "unreachable", "stray-first", "send-fails"} {
		a = append(a, step{"udp", b, "GetCards"})
	}
	for _, b := range []string{"success", "silence", "late", "just-in-time", "flood-then-valid", "flood-only", "send-fails", "success-other-port", "success-other-host"} {
		a = append(a, step{"broadcast", b, "GetCards"})
	}
	for _, b := range []string{"success", "stall", "refused", "reset", "eof", "blackhole", "late", "just-in-time", "send-fails", "slow-accept-stall", "slow-accept-success"} {
		a = append(a, step{"tcp", b, "GetCards"})
	}
	for _, p := range []string{"udp", "tcp", "broadcast"} {
		a = append(a, step{p, "no-reply-expected", "SetAddress"})
	}
	a = append(a, step{"broadcast", "replies-in-window", "GetDevices"}, step{"broadcast", "silence", "GetDevices"}, step{"broadcast", "reply-at-deadline", "GetDevices"}, step{"broadcast", "send-fails", "GetDevices"})
	return a
}()

// expected duration and success of one step (single caller, started when the port is free)
func expect(s step) (time.Duration, bool) {
	if s.op == "SetAddress" {
		if s.path == "tcp" {
			return 0, true
		}
		return 0, true
	}
	if s.behaviour == "send-fails" {
		return 0, false // the local stack refuses the request: the call fails at once
	}
	if s.op == "GetDevices" {
		return T, true
	}
	switch s.behaviour {
	case "slow-accept-success": // connected after 0.5 T, answered 0.25 T later
		return 3 * T / 4, true
	case "slow-accept-stall": // connected after 0.5 T, then nothing: the timeout runs from the start of the call
		return T, false
	case "success", "success-other-port", "success-other-host":
		// (other-port / other-host: the reply reaches the client from another source address than the one
		// the request went to - a port-translating NAT, a relay; what counts is the serial number it carries)
		return T / 4, true
	case "just-in-time", "flood-then-valid":
		return T - eps, true
	case "silence", "late", "flood-only", "stall", "blackhole":
		return T, false
	case "unreachable", "stray-first", "reset", "eof":
		return T / 4, false
	case "refused":
		return 0, false
	}
	panic("unknown behaviour " + s.behaviour)
}

type world struct {
	cur   step
	f     *farm.Farm
	ctrls map[string]*farm.Controller
}

func newWorld() *world {
	w := &world{ctrls: map[string]*farm.Controller{}, f: &farm.Farm{}}
	for _, p := range []string{"udp", "tcp", "broadcast"} {
		p := p
		c := &farm.Controller{Addr: addrs[p]}
		c.Respond = func(proto string, req []byte, from string) []farm.Reply {
			if len(req) != 64 {
				return nil
			}
			s := binary.LittleEndian.Uint32(req[4:8])
			if s == 0 && req[1] == 0x94 { // discovery
				if w.cur.behaviour == "reply-at-deadline" {
					return []farm.Reply{{Delay: T, Data: echo.EchoReply(serials[p], req)}, {Delay: T, Data: echo.EchoReply(serials[p]+1, req)}}
				}
				if w.cur.behaviour == "replies-in-window" {
					return []farm.Reply{{Delay: T / 5, Data: echo.EchoReply(serials[p], req)}, {Delay: T + eps, Data: echo.EchoReply(serials[p]+1, req)}}
				}
				return nil
			}
			if s != serials[p] || w.cur.path != p {
				return nil
			}
			valid := echo.EchoReply(serials[p], req)
			if valid == nil {
				return nil
			}
			stray := append([]byte{}, valid...)
			binary.LittleEndian.PutUint32(stray[4:8], s+7)
			switch w.cur.behaviour {
			case "success", "slow-accept-success":
				return []farm.Reply{{Delay: T / 4, Data: valid}}
			case "success-other-port":
				return []farm.Reply{{Delay: T / 4, Data: valid, Src: "192.168.1.102:54544"}}
			case "success-other-host":
				return []farm.Reply{{Delay: T / 4, Data: valid, Src: "155.138.158.102:54544"}}
			case "late":
				return []farm.Reply{{Delay: T + eps, Data: valid}}
			case "just-in-time":
				return []farm.Reply{{Delay: T - eps, Data: valid}}
			case "unreachable":
				return []farm.Reply{{Delay: T / 4, Unreachable: true}}
			case "stray-first":
				return []farm.Reply{{Delay: T / 4, Data: stray}, {Delay: T / 2, Data: valid}}
			case "flood-then-valid", "flood-only":
				r := []farm.Reply{}
				for k := 1; k <= 3; k++ {
					r = append(r, farm.Reply{Delay: time.Duration(k) * T / 4, Data: stray})
				}
				if w.cur.behaviour == "flood-then-valid" {
					r = append(r, farm.Reply{Delay: T - eps, Data: valid})
				}
				return r
			case "big-flood-then-valid", "big-flood-only":
				// floodN irrelevant datagrams (another controller's, and every 7th of the wrong length) spread
				// over the whole timeout
				r := make([]farm.Reply, 0, floodN+1)
				for k := 0; k < floodN; k++ {
					d := stray
					if k%7 == 3 {
						d = stray[:63]
					}
					r = append(r, farm.Reply{Delay: T/100 + time.Duration(int64(T-T/50)*int64(k)/int64(floodN)), Data: d})
				}
				if w.cur.behaviour == "big-flood-then-valid" {
					r = append(r, farm.Reply{Delay: T - eps, Data: valid})
				}
				return r
			case "reset":
				return []farm.Reply{{Delay: T / 4, Reset: true}}
			case "eof":
				return []farm.Reply{{Delay: T / 4, EOF: true}}
			}
			return nil // silence, stall
		}
		w.ctrls[p] = c
		w.f.Controllers = append(w.f.Controllers, c)
	}
	return w
}

func (w *world) set(s step) {
	w.cur = s
	vs.Net().SendFails = nil
	if s.behaviour == "send-fails" {
		vs.Net().SendFails = func(vs.Packet) error { return syscall.ENETUNREACH }
	}
	w.ctrls["tcp"].TCP = "accept"
	if s.path == "tcp" {
		switch s.behaviour {
		case "refused":
			w.ctrls["tcp"].TCP = "refuse"
		case "blackhole":
			w.ctrls["tcp"].TCP = "blackhole"
		case "slow-accept-stall", "slow-accept-success":
			w.ctrls["tcp"].TCP = "accept-after:" + (T / 2).String()
		}
	}
}

func mkClient(bind uint16) uhppote.IUHPPOTE {
	devices := []uhppote.Device{
		{DeviceID: serials["udp"], Address: types.ControllerAddrFrom(netip.MustParseAddr("192.168.1.100"), 60000), Protocol: "udp"},
		{DeviceID: serials["tcp"], Address: types.ControllerAddrFrom(netip.MustParseAddr("192.168.1.101"), 60000), Protocol: "tcp"},
	}
	b := types.BindAddr{}
	if bind != 0 {
		b = types.BindAddrFrom(netip.MustParseAddr("0.0.0.0"), bind)
	}
	return uhppote.NewUHPPOTE(b, types.BroadcastAddrFrom(netip.MustParseAddr("192.168.1.255"), 60000), types.ListenAddr{}, T, devices, false)
}

func invoke(u uhppote.IUHPPOTE, s step) error {
	switch s.op {
	case "GetDevices":
		_, err := u.GetDevices()
		return err
	case "SetAddress":
		_, err := u.SetAddress(serials[s.path], net.IPv4(10, 0, 0, 2), net.IPv4(255, 255, 255, 0), net.IPv4(10, 0, 0, 1))
		return err
	}
	o := ops.Invoke(u, "GetCards", serials[s.path], spec.Args{})
	return o.Err
}

type record struct {
	s          step
	start, end int64
	err        error
	sockets    string
}

func historyScenario(first int, maxLen int, bind uint16) e1.Scenario {
	return historyScenarioB(first, maxLen, bind, 0)
}

func historyScenarioB(first int, maxLen int, bind uint16, bound int) e1.Scenario {
	var recs []record
	body := func() {
		recs = nil
		w := newWorld()
		vs.Net().Env = w.f
		u := mkClient(bind)
		for k := 0; k < maxLen; k++ {
			var c int
			if k == 0 {
				c = first
			} else {
				c = vs.Choose(len(alphabet)+1, "history-step") - 1
				if c < 0 {
					break
				}
			}
			s := alphabet[c]
			w.set(s)
			r := record{s: s, start: vs.NowNs()}
			r.err = invoke(u, s)
			r.end = vs.NowNs()
			r.sockets = vs.Net().SocketSummary()
			recs = append(recs, r)
			// let stragglers of this step (late datagrams) pass before the next one
			vs.Sleep(2 * T)
		}
	}
	check := func(e *vs.Exec) (string, []e1.Viol) {
		viols := e1.Generic(e)
		if e.Abort != "" {
			return e.Abort, viols
		}
		label := ""
		for i, r := range recs {
			d, ok := expect(r.s)
			key := r.s.op + "/" + r.s.path + "/" + r.s.behaviour
			where := fmt.Sprintf("step %d of history %v", i, steps(recs))
			took := time.Duration(r.end - r.start)
			switch {
			case ok && r.err != nil:
				viols = append(viols, e1.Viol{Key: key + "/gave-up-early-or-failed", What: fmt.Sprintf("%s: failed after %v (%v) although an acceptable reply arrives %v after the request, before the deadline", where, took, r.err, d)})
			case !ok && r.err == nil:
				viols = append(viols, e1.Viol{Key: key + "/succeeded-without-acceptable-reply", What: where})
			case took != d:
				viols = append(viols, e1.Viol{Key: key + "/wrong-duration", What: fmt.Sprintf("%s: took %v, reference %v (timeout %v)", where, took, d, T)})
			}
			if r.sockets != "[]" {
				viols = append(viols, e1.Viol{Key: key + "/socket-open-on-return", What: fmt.Sprintf("%s: %s", where, r.sockets)})
			}
			label += fmt.Sprintf("%s:%s:%v ", r.s.path, r.s.behaviour, r.err == nil)
		}
		if open := vs.Net().OpenSockets(); len(open) > 0 {
			viols = append(viols, e1.Viol{Key: "history/socket-leak", What: fmt.Sprint(open)})
		}
		return label, viols
	}
	return e1.Scenario{Name: fmt.Sprintf("history/bind=%d/first=%s:%s:%s/len<=%d", bind, alphabet[first].op, alphabet[first].path, alphabet[first].behaviour, maxLen) + fmt.Sprintf("/bound=%d", bound), Bound: bound, Body: body, Check: check, Opt: vs.Options{Horizon: 4000}}
}

func steps(recs []record) []string {
	out := []string{}
	for _, r := range recs {
		out = append(out, r.s.op+":"+r.s.path+":"+r.s.behaviour)
	}
	return out
}

// fixed-port scenario: threads start together; thread k uses path paths[k] with behaviour b[k].
func portScenario(paths []string, behaviours []string, bound int) e1.Scenario {
	type res struct {
		start, end int64
		err        error
		done       bool
	}
	var rs []*res
	body := func() {
		rs = make([]*res, len(paths))
		cur := rs
		// one world per thread's controller: behaviours are per path, so use distinct paths or equal behaviours
		w := newWorld()
		vs.Net().Env = w.f
		// behaviour lookup per path
		beh := map[string]string{}
		for k, p := range paths {
			beh[p] = behaviours[k]
		}
		switch beh["tcp"] {
		case "refused":
			w.ctrls["tcp"].TCP = "refuse"
		case "blackhole":
			w.ctrls["tcp"].TCP = "blackhole"
		}
		for _, p := range []string{"udp", "tcp", "broadcast"} {
			p := p
			c := w.ctrls[p]
			inner := c.Respond
			c.Respond = func(proto string, req []byte, from string) []farm.Reply {
				w.cur = step{path: p, behaviour: beh[p]}
				return inner(proto, req, from)
			}
		}
		u := mkClient(60001)
		for k := range paths {
			k := k
			cur[k] = &res{}
			vs.GoNamed(fmt.Sprintf("caller%d:%s", k, paths[k]), func() {
				cur[k].start = vs.NowNs()
				cur[k].err = invoke(u, step{path: paths[k], op: "GetCards"})
				cur[k].end = vs.NowNs()
				cur[k].done = true
			})
		}
	}
	check := func(e *vs.Exec) (string, []e1.Viol) {
		viols := e1.Generic(e)
		if e.Abort != "" {
			return e.Abort, viols
		}
		ends := []int64{}
		label := ""
		for k, r := range rs {
			if !r.done {
				viols = append(viols, e1.Viol{Key: "fixed-port/call-never-returned", What: fmt.Sprintf("caller %d", k)})
				continue
			}
			ends = append(ends, r.end)
			ok := behaviours[k] == "success"
			if ok && r.err != nil {
				viols = append(viols, e1.Viol{Key: "fixed-port/" + paths[k] + "/gave-up-early", What: fmt.Sprintf("caller %d (%s) failed at %v: %v — its controller answers %v after being asked", k, paths[k], time.Duration(r.end), r.err, T/4)})
			}
			if !ok && r.err == nil {
				viols = append(viols, e1.Viol{Key: "fixed-port/" + paths[k] + "/succeeded-without-reply", What: fmt.Sprintf("caller %d", k)})
			}
			label += fmt.Sprintf("%s:%v@%v ", paths[k], r.err == nil, time.Duration(r.end))
		}
		sort.Slice(ends, func(i, j int) bool { return ends[i] < ends[j] })
		prev := int64(0)
		for k, end := range ends {
			if end-prev > int64(T) {
				viols = append(viols, e1.Viol{Key: "fixed-port/held-longer-than-timeout", What: fmt.Sprintf("finisher %d ended at %v, previous at %v (timeout %v)", k, time.Duration(end), time.Duration(prev), T)})
			}
			prev = end
		}
		if open := vs.Net().OpenSockets(); len(open) > 0 {
			viols = append(viols, e1.Viol{Key: "fixed-port/socket-leak", What: fmt.Sprint(open)})
		}
		return label, viols
	}
	return e1.Scenario{Name: fmt.Sprintf("fixed-port/%v/%v", paths, behaviours), Bound: bound, Body: body, Check: check}
}

// nonPositiveTimeoutScenario: a client configured with a timeout of zero (or a negative one - a
// computed value gone wrong). "Within the configured timeout" then means at once: the call comes
// back immediately (it cannot have waited for anything), and nothing stays open - it never means
// "no deadline".
func nonPositiveTimeoutScenario(path, op string, tv time.Duration, bind uint16) e1.Scenario {
	var start, end int64
	var err error
	var done bool
	body := func() {
		T = tv
		done, err = false, nil
		w := newWorld()
		vs.Net().Env = w.f
		beh := "silence"
		if path == "tcp" {
			beh = "stall"
		}
		w.set(step{path: path, behaviour: beh, op: op})
		u := mkClient(bind)
		start = vs.NowNs()
		err = invoke(u, step{path: path, op: op})
		end = vs.NowNs()
		done = true
	}
	check := func(e *vs.Exec) (string, []e1.Viol) {
		T = time.Second
		viols := e1.Generic(e)
		if e.Abort != "" {
			return e.Abort, viols
		}
		what := fmt.Sprintf("%s on the %s path, client timeout %v, bind port %d, controller silent", op, path, tv, bind)
		if !done {
			viols = append(viols, e1.Viol{Key: "non-positive-timeout/call-never-returned", What: what})
			return "never", viols
		}
		if d := time.Duration(end - start); d > eps {
			viols = append(viols, e1.Viol{Key: "non-positive-timeout/" + path + "/waited", What: fmt.Sprintf("%s: returned after %v (err=%v)", what, d, err)})
		}
		if open := vs.Net().OpenSockets(); len(open) > 0 {
			viols = append(viols, e1.Viol{Key: "non-positive-timeout/socket-leak", What: what + ": " + fmt.Sprint(open)})
		}
		return fmt.Sprintf("timeout<=0 %s ok=%v", path, err == nil), viols
	}
	return e1.Scenario{Name: fmt.Sprintf("non-positive-timeout/%v/%s/%s/bind=%d", tv, path, op, bind), Bound: 1, Body: body, Check: check, Opt: vs.Options{Horizon: 3000}}
}

// floodN: how many irrelevant datagrams the big-flood behaviours deliver within one timeout
var floodN = 5000

// floodScenario: "a continuous flood of irrelevant datagrams" on the broadcast path - thousands of
// them within one timeout (more than any plausible per-call counter, queue or budget): the call keeps
// waiting for its controller until the deadline; the reply that arrives just in time is accepted,
// and without one the call ends at the deadline, not before. Default schedule only.
func floodScenario(n int, withValid bool) e1.Scenario {
	var start, end int64
	var err error
	var done bool
	beh := map[bool]string{true: "big-flood-then-valid", false: "big-flood-only"}[withValid]
	body := func() {
		done, err = false, nil
		floodN = n
		w := newWorld()
		vs.Net().Env = w.f
		w.set(step{path: "broadcast", behaviour: beh})
		u := mkClient(0)
		start = vs.NowNs()
		err = invoke(u, step{path: "broadcast", op: "GetCards"})
		end = vs.NowNs()
		done = true
	}
	check := func(e *vs.Exec) (string, []e1.Viol) {
		viols := e1.Generic(e)
		if e.Abort != "" {
			return e.Abort, viols
		}
		d := time.Duration(end - start)
		what := fmt.Sprintf("broadcast-path call, %d irrelevant datagrams within the timeout, valid reply at T-e: %v", n, withValid)
		switch {
		case !done:
			viols = append(viols, e1.Viol{Key: "flood/call-never-returned", What: what})
		case withValid && err != nil:
			viols = append(viols, e1.Viol{Key: "flood/gave-up-early-or-failed", What: fmt.Sprintf("%s: failed after %v: %v", what, d, err)})
		case !withValid && err == nil:
			viols = append(viols, e1.Viol{Key: "flood/succeeded-without-reply", What: what})
		case !withValid && d != T:
			viols = append(viols, e1.Viol{Key: "flood/wrong-duration", What: fmt.Sprintf("%s: returned after %v, the timeout is %v", what, d, T)})
		}
		if open := vs.Net().OpenSockets(); len(open) > 0 {
			viols = append(viols, e1.Viol{Key: "flood/socket-leak", What: what + ": " + fmt.Sprint(open)})
		}
		return fmt.Sprintf("flood n=%d ok=%v@%v", n, err == nil, d), viols
	}
	return e1.Scenario{Name: fmt.Sprintf("flood/%d/valid=%v/default-schedule", n, withValid), Bound: 0, DefaultOnly: true, Body: body, Check: check, Opt: vs.Options{Horizon: 40 * (n + 100)}}
}

// foreignPortScenario: another program's socket holds the client's fixed bind port when the call
// starts and lets go of it part-way through the timeout (or never). Whatever the library makes of
// that - an error at once, or waiting for the port - the call is back within one timeout of being
// made, and leaves nothing open.
func foreignPortScenario(path, behaviour string, releaseAt time.Duration) e1.Scenario {
	var start, end int64
	var err error
	var done bool
	body := func() {
		done, err = false, nil
		w := newWorld()
		vs.Net().Env = w.f
		w.set(step{path: path, behaviour: behaviour})
		var releases []func()
		for _, proto := range []string{"udp", "tcp"} {
			if rel, e := vs.Net().HoldPort(proto, 60001); e == nil {
				releases = append(releases, rel)
			} else {
				panic("harness could not occupy the bind port: " + e.Error())
			}
		}
		if releaseAt >= 0 {
			vs.After(releaseAt, func() {
				for _, rel := range releases {
					rel()
				}
			})
		}
		u := mkClient(60001)
		start = vs.NowNs()
		err = invoke(u, step{path: path, op: "GetCards"})
		end = vs.NowNs()
		done = true
		for _, rel := range releases {
			rel()
		}
	}
	check := func(e *vs.Exec) (string, []e1.Viol) {
		viols := e1.Generic(e)
		if e.Abort != "" {
			return e.Abort, viols
		}
		what := fmt.Sprintf("%s call with the fixed bind port held by a foreign socket until %v (controller: %s)", path, releaseAt, behaviour)
		if !done {
			viols = append(viols, e1.Viol{Key: "foreign-bind-port/call-never-returned", What: what})
			return "foreign: never", viols
		}
		if d := time.Duration(end - start); d > T {
			viols = append(viols, e1.Viol{Key: "foreign-bind-port/" + path + "/returned-after-timeout", What: fmt.Sprintf("%s: returned after %v (err=%v), the timeout is %v", what, d, err, T)})
		}
		if open := vs.Net().OpenSockets(); len(open) > 0 {
			viols = append(viols, e1.Viol{Key: "foreign-bind-port/socket-leak", What: what + ": " + fmt.Sprint(open)})
		}
		return fmt.Sprintf("foreign %s:%v@%v", path, err == nil, time.Duration(end-start)), viols
	}
	return e1.Scenario{Name: fmt.Sprintf("foreign-bind-port/%s/%s/release@%v", path, behaviour, releaseAt), Bound: 1, Body: body, Check: check}
}

// budget is the wall-clock allowance of one worker process: generous multiples of the measured
// run time; running out of it yields exhaustive:false, never a violation.
func budget(r *vk.Run) time.Duration {
	if r.Thorough() {
		return 25 * time.Minute
	}
	return 4 * time.Minute
}

func main() {
	r := vk.Start("C09", "model_checking")
	scenarios := []e1.Scenario{}
	maxLen, maxFixed := 3, 3
	if r.Thorough() {
		maxLen, maxFixed = 5, 4
	}
	for first := range alphabet {
		h := historyScenario(first, maxLen, 0)
		if maxLen >= 5 {
			h.Shards = 8 // ~10^6 executions per first step: spread over work items well inside the time budget
		}
		scenarios = append(scenarios, h)
		scenarios = append(scenarios, historyScenario(first, maxFixed, 60001))
	}
	// discovery under all interleavings of the reader goroutine and the caller (preemption bound 2)
	for first, s := range alphabet {
		if s.op == "GetDevices" {
			scenarios = append(scenarios, historyScenarioB(first, 2, 0, 2))
		}
	}
	paths := []string{"udp", "tcp", "broadcast"}
	sil := map[string]string{"udp": "silence", "tcp": "stall", "broadcast": "silence"}
	for _, a := range paths {
		for _, b := range paths {
			if a == b {
				continue // behaviours are per controller: distinct paths keep them independent
			}
			scenarios = append(scenarios, portScenario([]string{a, b}, []string{sil[a], "success"}, 2))
			scenarios = append(scenarios, portScenario([]string{a, b}, []string{sil[a], sil[b]}, 2))
			scenarios = append(scenarios, portScenario([]string{a, b}, []string{"success", "success"}, 2))
		}
	}
	// a TCP call that fails in every way next to a call that must still be served in turn
	for _, tb := range []string{"refused", "reset", "eof", "blackhole"} {
		for _, b := range []string{"udp", "broadcast"} {
			scenarios = append(scenarios, portScenario([]string{"tcp", b}, []string{tb, "success"}, 2))
			scenarios = append(scenarios, portScenario([]string{b, "tcp"}, []string{sil[b], tb}, 2))
			scenarios = append(scenarios, portScenario([]string{"tcp", b, "udp"}[:2+map[string]int{"udp": 0, "broadcast": 1}[b]], append([]string{tb, "success"}, "success")[:2+map[string]int{"udp": 0, "broadcast": 1}[b]], 1))
		}
	}
	for _, perm := range [][]string{{"udp", "tcp", "broadcast"}, {"tcp", "broadcast", "udp"}, {"broadcast", "udp", "tcp"}} {
		for _, succ := range []int{-1, 0, 1, 2} {
			b := []string{}
			for k, p := range perm {
				if k == succ {
					b = append(b, "success")
				} else {
					b = append(b, sil[p])
				}
			}
			bound := 1
			if r.Thorough() {
				bound = 2
			}
			scenarios = append(scenarios, portScenario(perm, b, bound))
		}
	}
	// the fixed bind port held by a foreign socket and released part-way through the call
	for _, p := range []string{"udp", "tcp", "broadcast"} {
		for _, beh := range []string{sil[p], "success"} {
			for _, at := range []time.Duration{-1, T / 20, T / 4, T / 2, 9 * T / 10} {
				scenarios = append(scenarios, foreignPortScenario(p, beh, at))
			}
		}
	}
	// thousands of irrelevant datagrams within one timeout (default schedule)
	{
		n := 5000
		if r.Thorough() {
			n = 70000
		}
		scenarios = append(scenarios, floodScenario(n, true), floodScenario(n, false))
	}
	for i := range scenarios {
		scenarios[i] = withTimeout(scenarios[i], time.Second)
	}
	// other timeouts than one second (sub-second, fractional, long): histories of length <= 2
	for _, tv := range []time.Duration{300 * time.Millisecond, 1500 * time.Millisecond, 2500 * time.Millisecond, 90 * time.Second} {
		for first := range alphabet {
			scenarios = append(scenarios, withTimeout(historyScenario(first, 2, 0), tv))
			if first%3 == 0 {
				scenarios = append(scenarios, withTimeout(historyScenario(first, 2, 60001), tv))
			}
		}
	}
	// client timeouts of zero and below
	for _, tv := range []time.Duration{0, -time.Second, -1} {
		for _, bind := range []uint16{0, 60001} {
			for _, p := range []string{"udp", "tcp", "broadcast"} {
				scenarios = append(scenarios, nonPositiveTimeoutScenario(p, "GetCards", tv, bind))
			}
			scenarios = append(scenarios, nonPositiveTimeoutScenario("broadcast", "GetDevices", tv, bind))
		}
	}
	if r.Thorough() {
		e1.PerScenario = 6 * time.Minute
	}
	e1.RunAll(r, scenarios, budget(r))
	if r.Worker == "" && r.Replay == "" {
		e1.Conformance(r)
	}
	r.Rule(fmt.Sprintf("histories: every sequence of length <= %d (fixed bind port: <= %d) over %d steps (path x network behaviour incl. silence, late and just-in-time replies, stray flood, TCP stall/refused/reset/EOF/blackhole/connection established late, ICMP unreachable, SetAddress, discovery), step by step as environment choices; histories of length <= 2 again with client timeouts of 300 ms, 1.5 s, 2.5 s and 90 s; client timeouts of 0, -1 ns and -1 s (the call comes back at once); fixed-port scenarios with 2 and 3 concurrent callers (silent holders first; TCP refused / reset / EOF / blackholed next to calls that must be served) over all interleavings within the preemption bound; the fixed bind port held by a foreign socket that lets go of it at 0.05 / 0.25 / 0.5 / 0.9 T or never (3 paths x 2 controller behaviours); 5000 (thorough 70000) irrelevant datagrams within one timeout on the broadcast path, with and without a just-in-time reply (default schedule). distinct = distinct history/outcome labels", maxLen, maxFixed, len(alphabet)))
	r.Assume("virtual time: computation takes no time, so 'within the timeout' is decided with zero scheduling slack")
	r.Assume("network behaviours are those of mc/shim/vs/net.go (refused connect fails immediately, blackholed connect blocks until the dial deadline, ICMP unreachable surfaces as a read error)")
	r.Finish()
}
