// Engine E3 conformance replay for C09: the timing-robust network behaviours of the E1 alphabet
// are produced by real sockets on the loopback interface against the UNMODIFIED driver; only the
// outcome class (success / failure) and coarse timing (failure not before the timeout where the
// model says "at the deadline"; quick failure where the model says "immediately") are compared —
// exact durations are decided in virtual time by E1, never here.
package main

import (
	"encoding/binary"
	"encoding/json"
	"fmt"
	"net"
	"net/netip"
	"os"
	"sync"
	"time"

	"github.com/uhppoted/uhppote-core/types"
	"github.com/uhppoted/uhppote-core/uhppote"
	"verif/echo"
)

const (
	T      = 400 * time.Millisecond
	serial = uint32(405419896)
)

type sc struct{ path, behaviour string }

// model outcome: success?, and whether a failure happens at the deadline ("deadline") or early
func model(s sc) (bool, string) {
	switch s.behaviour {
	case "success":
		return true, ""
	case "silence", "late", "flood-only", "stall":
		return false, "deadline"
	case "flood-then-valid":
		return true, ""
	}
	return false, "early" // refused, reset, eof, stray-first, unreachable
}

func one(s sc) string {
	udp, err := net.ListenUDP("udp4", &net.UDPAddr{IP: net.IPv4(127, 0, 0, 1)})
	if err != nil {
		return "ENV"
	}
	port := udp.LocalAddr().(*net.UDPAddr).Port
	var tcp net.Listener
	if s.behaviour != "refused" && s.behaviour != "unreachable" {
		if tcp, err = net.Listen("tcp4", fmt.Sprintf("127.0.0.1:%d", port)); err != nil {
			udp.Close()
			return "ENV"
		}
		defer tcp.Close()
	}
	if s.behaviour == "unreachable" {
		udp.Close() // nobody listens: ICMP port unreachable on the connected socket
	} else {
		defer udp.Close()
	}
	respond := func(req []byte, send func([]byte), closeConn func(reset bool)) {
		valid := echo.EchoReply(serial, req)
		stray := append([]byte{}, valid...)
		binary.LittleEndian.PutUint32(stray[4:8], serial+7)
		switch s.behaviour {
		case "success":
			time.Sleep(T / 4)
			send(valid)
		case "late":
			time.Sleep(T + 250*time.Millisecond)
			send(valid)
		case "stray-first":
			time.Sleep(T / 4)
			send(stray)
			time.Sleep(T / 4)
			send(valid)
		case "flood-then-valid", "flood-only":
			for k := 0; k < 2; k++ {
				time.Sleep(T / 5)
				send(stray)
			}
			if s.behaviour == "flood-then-valid" {
				time.Sleep(T / 5)
				send(valid)
			}
		case "reset":
			time.Sleep(T / 4)
			closeConn(true)
		case "eof":
			time.Sleep(T / 4)
			closeConn(false)
		}
	}
	if s.behaviour != "unreachable" {
		go func() {
			buf := make([]byte, 2048)
			n, from, err := udp.ReadFromUDP(buf)
			if err != nil || n != 64 {
				return
			}
			respond(append([]byte{}, buf[:n]...), func(d []byte) { udp.WriteToUDP(d, from) }, func(bool) {})
		}()
	}
	if tcp != nil {
		go func() {
			c, err := tcp.Accept()
			if err != nil {
				return
			}
			buf := make([]byte, 2048)
			n, err := c.Read(buf)
			if err != nil || n != 64 {
				c.Close()
				return
			}
			closed := false
			respond(append([]byte{}, buf[:n]...), func(d []byte) { c.Write(d) }, func(reset bool) {
				if reset {
					c.(*net.TCPConn).SetLinger(0)
				}
				c.Close()
				closed = true
			})
			if !closed {
				time.Sleep(T + 400*time.Millisecond)
				c.Close()
			}
		}()
	}
	lo := netip.MustParseAddr("127.0.0.1")
	devices := []uhppote.Device{}
	if s.path != "broadcast" {
		devices = append(devices, uhppote.Device{DeviceID: serial, Address: types.ControllerAddrFrom(lo, uint16(port)), Protocol: s.path})
	}
	u := uhppote.NewUHPPOTE(types.BindAddr{}, types.BroadcastAddrFrom(lo, uint16(port)), types.ListenAddr{}, T, devices, false)
	start := time.Now()
	_, err = u.GetCards(serial)
	took := time.Since(start)
	ok, when := model(s)
	switch {
	case ok && err != nil:
		return fmt.Sprintf("failed (%v) after %v, model: success", err, took)
	case !ok && err == nil:
		return "succeeded, model: failure"
	case !ok && when == "deadline" && took < T-30*time.Millisecond:
		return fmt.Sprintf("failed after %v (%v), model: at the deadline %v", took, err, T)
	}
	return ""
}

func main() {
	var scs []sc
	for _, b := range []string{"success", "silence", "late", "unreachable", "stray-first"} {
		scs = append(scs, sc{"udp", b})
	}
	for _, b := range []string{"success", "silence", "late", "flood-then-valid", "flood-only"} {
		scs = append(scs, sc{"broadcast", b})
	}
	for _, b := range []string{"success", "stall", "refused", "reset", "eof", "late"} {
		scs = append(scs, sc{"tcp", b})
	}
	var mu sync.Mutex
	replayed, agreed, skipped := 0, 0, 0
	var divergences []map[string]string
	var wg sync.WaitGroup
	for rep := 0; rep < 3; rep++ {
		for _, s := range scs {
			s := s
			wg.Add(1)
			go func() {
				defer wg.Done()
				res := ""
				for attempt := 0; attempt < 5; attempt++ {
					if res = one(s); res == "" || res == "ENV" {
						break
					}
				}
				mu.Lock()
				defer mu.Unlock()
				if res == "ENV" {
					skipped++
					return
				}
				replayed++
				if res == "" {
					agreed++
				} else {
					divergences = append(divergences, map[string]string{"scenario": s.path + "/" + s.behaviour, "real": res})
				}
			}()
		}
		wg.Wait()
	}
	json.NewEncoder(os.Stdout).Encode(map[string]any{"replayed": replayed, "agreed": agreed, "skipped": skipped, "divergences": divergences})
}
