// C08 — concurrent use is race-free and replies are never crossed between calls.
//
// Engine E1: N harness threads issue calls on the real API/driver stack over the simulated network
// while the explorer enumerates every interleaving of their synchronisation operations (mutex,
// socket operations, channel operations, sleeps) up to a preemption bound, for every combination
// of bind port, delivery paths, controllers, reply delays, start offsets and operation mix.
// Oracles: (i) a call whose controller answers within the timeout of being asked returns its own
// reply (echo token = function of controller and request); (ii) no report from the
// happens-before race detector on variables shared with goroutine closures; (iii) no deadlock.
// A separate free-running `-race` pass on loopback sockets (harness/c08/race) supports (ii).
package main

import (
	"bytes"
	"fmt"
	"net/netip"
	"os"
	"os/exec"
	"regexp"
	"strings"
	"time"

	"github.com/uhppoted/uhppote-core/types"
	"github.com/uhppoted/uhppote-core/uhppote"
	"github.com/uhppoted/uhppote-core/verifshim/vs"
	"verif/mc/e1"
	"verif/mc/farm"
	"verif/ops"
	"verif/spec"
	"verif/vk"
)

const T = time.Second

type ctrl struct {
	serial uint32
	ip     string
}

var ctrls = []ctrl{{405419896, "192.168.1.100"}, {303986753, "192.168.1.101"}, {201020304, "192.168.1.102"}}

type call struct {
	op     string
	args   spec.Args
	ctrl   int
	path   string // "udp" | "tcp" | "broadcast"
	delay  time.Duration
	offset time.Duration
	client int
	thread int // calls with the same thread number run one after the other on one harness thread
	// fate: "" the controller answers after delay; "silent" it never answers (TCP: accepts and
	// stalls); "refused" the TCP connection is refused; "reset" the TCP connection is reset after
	// the request. A call with a fate must fail; the calls around it must be unaffected.
	fate string
}

type result struct {
	obs        spec.Observed
	start, end int64
	done       bool
}

// splitBind: when set, the second client binds the same fixed port on a specific local address
// (192.168.1.2) while the first uses the wildcard address: still one shared port.
var splitBindIP = "192.168.1.2"

// zeroBindAddr: fixed bind ports are configured as types.BindAddrFrom(netip.Addr{}, port) instead of
// 0.0.0.0:port (set by the scenario body; both mean the wildcard address)
var zeroBindAddr = false

// zeroBroadcastAddr: clients are built with types.BroadcastAddr{} (the library falls back to
// 255.255.255.255:60000) instead of an explicit broadcast address
var zeroBroadcastAddr = false

// debugClients: clients are built with debug = true (the library then traces every request and
// reply; whatever bookkeeping that involves is shared by the calls of one client)
var debugClients = false

func mkClient(bind uint16, calls []call, which int) uhppote.IUHPPOTE {
	return mkClientOn(bind, "0.0.0.0", calls, which)
}

func mkClientOn(bind uint16, ip string, calls []call, which int) uhppote.IUHPPOTE {
	devices := []uhppote.Device{}
	seen := map[int]bool{}
	for _, c := range calls {
		if c.client != which || seen[c.ctrl] || c.path == "broadcast" {
			continue
		}
		seen[c.ctrl] = true
		devices = append(devices, uhppote.Device{DeviceID: ctrls[c.ctrl].serial, Address: types.ControllerAddrFrom(netip.MustParseAddr(ctrls[c.ctrl].ip), 60000), Protocol: c.path})
	}
	b := types.BindAddr{}
	if bind != 0 || ip != "0.0.0.0" {
		b = types.BindAddrFrom(netip.MustParseAddr(ip), bind)
	}
	if zeroBindAddr && bind != 0 {
		b = types.BindAddrFrom(netip.Addr{}, bind) // "any address, this port" written with the zero netip.Addr
	}
	if zeroBroadcastAddr {
		return uhppote.NewUHPPOTE(b, types.BroadcastAddr{}, types.ListenAddr{}, T, devices, debugClients)
	}
	return uhppote.NewUHPPOTE(b, types.BroadcastAddrFrom(netip.MustParseAddr("192.168.1.255"), 60000), types.ListenAddr{}, T, devices, debugClients)
}

func argsFor(op string, k int) spec.Args {
	o := spec.OpByName(op)
	a := ops.Baseline(o)
	switch op {
	case "GetCardByID":
		a["CardNumber"] = uint32(8000001 + k)
	case "GetEvent":
		a["Index"] = uint32(17 + k)
	case "PutCard":
		a["CardNumber"] = uint32(8100001 + k)
	}
	return a
}

// argsVar: baseline arguments with the first plain integer argument varied by k, so that two calls of
// one operation put different requests on the wire.
func argsVar(op string, k int) spec.Args {
	a := argsFor(op, k)
	switch op {
	case "GetCardByID", "GetEvent", "PutCard":
		return a
	}
	for _, f := range spec.OpByName(op).Req {
		switch f.Enc {
		case spec.U32:
			a[f.Name] = a[f.Name].(uint32) + uint32(k)
			return a
		case spec.U8:
			if v := a[f.Name].(uint8); v > 1 { // doors stay within 1..4
				a[f.Name] = v - uint8(k)
			} else {
				a[f.Name] = v + uint8(k)
			}
			return a
		}
	}
	return a
}

func raceKey(r string) string {
	// "write/read replies@UT0311.go:73 written at UT0311.go:86 <-> replies@UT0311.go:73 read at UT0311.go:96"
	m := regexp.MustCompile(`(\w+)@([\w.\-]+\.go)`).FindStringSubmatch(r)
	if m == nil {
		return "race/unknown"
	}
	return "race/" + m[1] + "@" + m[2]
}

func callScenario(name string, bind uint16, calls []call, bound int, discovery bool) e1.Scenario {
	return callScenarioX(name, bind, calls, bound, discovery, false)
}

func callScenarioX(name string, bind uint16, calls []call, bound int, discovery bool, splitBind bool) e1.Scenario {
	zero := strings.HasSuffix(name, "/zero-bind-addr")
	zeroBcast := strings.HasSuffix(name, "/default-broadcast-addr")
	dbg := strings.HasSuffix(name, "/debug")
	var res []*result
	var devs []map[string]any
	var devErr error
	nclients := 1
	for _, c := range calls {
		if c.client+1 > nclients {
			nclients = c.client + 1
		}
	}
	reqOf := func(c call) []byte {
		return spec.EncodeRequest(spec.OpByName(c.op), ctrls[c.ctrl].serial, c.args)
	}
	body := func() {
		zeroBindAddr = zero
		zeroBroadcastAddr = zeroBcast
		debugClients = dbg
		res = make([]*result, len(calls))
		devs, devErr = nil, nil
		cur := res
		f := &farm.Farm{}
		for i := range ctrls {
			i := i
			f.Controllers = append(f.Controllers, farm.Echo(ctrls[i].ip+":60000", ctrls[i].serial, func(req []byte) time.Duration {
				if req[1] == 0x94 && req[4] == 0 && req[5] == 0 && req[6] == 0 && req[7] == 0 {
					return []time.Duration{T / 5, 9 * T / 10, T / 2}[i] // discovery replies
				}
				for _, c := range calls {
					if c.ctrl == i && bytes.Equal(reqOf(c), req) {
						return c.delay
					}
				}
				return 0
			}))
		}
		for i := range ctrls {
			i := i
			inner := f.Controllers[i].Respond
			f.Controllers[i].Respond = func(proto string, req []byte, from string) []farm.Reply {
				for _, c := range calls {
					if c.ctrl == i && c.fate != "" && bytes.Equal(reqOf(c), req) {
						if c.fate == "reset" {
							return []farm.Reply{{Delay: c.delay, Reset: true}}
						}
						return nil
					}
				}
				return inner(proto, req, from)
			}
			for _, c := range calls {
				if c.ctrl == i && c.fate == "refused" {
					f.Controllers[i].TCP = "refuse"
				}
			}
		}
		vs.Net().Env = f
		clients := []uhppote.IUHPPOTE{}
		for k := 0; k < nclients; k++ {
			if splitBind && k == 1 {
				clients = append(clients, mkClientOn(bind, splitBindIP, calls, k))
			} else {
				clients = append(clients, mkClient(bind, calls, k))
			}
		}
		threads := map[int][]int{}
		order := []int{}
		for i := range calls {
			cur[i] = &result{}
			t := calls[i].thread
			if t == 0 {
				t = 100 + i // no thread given: one thread per call
			}
			if _, ok := threads[t]; !ok {
				order = append(order, t)
			}
			threads[t] = append(threads[t], i)
		}
		for _, t := range order {
			mine := threads[t]
			vs.GoNamed(fmt.Sprintf("caller%d", t), func() {
				for _, i := range mine {
					c := calls[i]
					if c.offset > 0 {
						vs.Sleep(c.offset)
					}
					cur[i].start = vs.NowNs()
					cur[i].obs = ops.Invoke(clients[c.client], c.op, ctrls[c.ctrl].serial, c.args)
					cur[i].end = vs.NowNs()
					cur[i].done = true
				}
			})
		}
		if discovery {
			devs, devErr = ops.InvokeGetDevices(clients[0])
		}
	}
	check := func(e *vs.Exec) (string, []e1.Viol) {
		viols := e1.Generic(e)
		for _, r := range e.Races {
			viols = append(viols, e1.Viol{Key: raceKey(r), What: "data race: " + r})
		}
		if e.Abort != "" {
			return e.Abort, viols
		}
		label := ""
		fixed := "ephemeral-port"
		if bind != 0 {
			fixed = "fixed-port"
		}
		for i, c := range calls {
			r := res[i]
			op := spec.OpByName(c.op)
			req := reqOf(c)
			sent := int64(-1)
			for _, p := range vs.Net().Packets {
				if bytes.Equal(p.Data, req) && (p.Proto == "udp" || p.Proto == "tcp") {
					sent = p.At
					// the request must leave from its own client's bind address
					wantIP := "0.0.0.0"
					if splitBind && c.client == 1 {
						wantIP = splitBindIP
					}
					src := netip.MustParseAddrPort(p.Src)
					if src.Addr().String() != wantIP || (bind != 0 && src.Port() != bind) {
						viols = append(viols, e1.Viol{Key: "wrong-source-address/" + c.path + "/" + fixed, What: fmt.Sprintf("call %d (%s) left from %s; its client is bound to %s:%d", i, c.op, p.Src, wantIP, bind)})
					}
					break
				}
			}
			if !r.done {
				viols = append(viols, e1.Viol{Key: "call-never-returned/" + c.path + "/" + fixed, What: fmt.Sprintf("call %d (%s) did not return", i, c.op)})
				continue
			}
			if c.fate != "" {
				if r.obs.Err == nil {
					viols = append(viols, e1.Viol{Key: "succeeded-without-reply/" + c.path + "/" + fixed, What: fmt.Sprintf("call %d (%s via %s, controller %s) returned %v", i, c.op, c.path, c.fate, r.obs.Fields)})
				}
				label += "x"
				continue
			}
			if sent < 0 {
				viols = append(viols, e1.Viol{Key: "call-failed-before-asking/" + c.path + "/" + fixed, What: fmt.Sprintf("call %d (%s) never put its request on the wire: %v", i, c.op, r.obs.Err)})
				label += "F"
				continue
			}
			if op.NoReply {
				if r.obs.Err != nil {
					viols = append(viols, e1.Viol{Key: "set-address-failed/" + c.path + "/" + fixed, What: fmt.Sprint(r.obs.Err)})
				}
				label += "S"
				continue
			}
			reply := farm.EchoReply(ctrls[c.ctrl].serial, req)
			ex := spec.ExpectReply(op, ctrls[c.ctrl].serial, c.args, reply)
			if r.obs.Err != nil {
				viols = append(viols, e1.Viol{Key: "own-reply-lost/" + c.path + "/" + fixed,
					What: fmt.Sprintf("call %d (%s via %s) started at %v, asked its controller at %v, controller answered %v later (timeout %v), yet the call failed at %v: %v", i, c.op, c.path, time.Duration(r.start), time.Duration(sent), c.delay, T, time.Duration(r.end), r.obs.Err)})
				label += "E"
				continue
			}
			if v := spec.Judge(ex, r.obs); v.Class != "" {
				viols = append(viols, e1.Viol{Key: "crossed-reply/" + c.path + "/" + fixed, What: fmt.Sprintf("call %d (%s) returned a value that is not the reply to its own request: %s", i, c.op, v.Detail)})
				label += "X"
				continue
			}
			label += "v"
		}
		if discovery {
			label += fmt.Sprintf(" discovery=%d/%v", len(devs), devErr != nil)
		}
		if open := vs.Net().OpenSockets(); len(open) > 0 {
			viols = append(viols, e1.Viol{Key: "socket-left-open", What: fmt.Sprint(open)})
		}
		return label, viols
	}
	return e1.Scenario{Name: name, Bound: bound, Body: body, Check: check}
}

// listener shutdown scenario: Listen receives two events while the stop signal is delivered.
type lst struct {
	connected, events, errors int
}

func (l *lst) OnConnected()            { l.connected++ }
func (l *lst) OnEvent(s *types.Status) { l.events++ }
func (l *lst) OnError(err error) bool  { l.errors++; return true }

// comboScenario: one client listens for events while a second thread runs discovery and a third a
// directed call through the same client; the listener is stopped half-way. Everybody gets exactly
// their own: the listener the two events, discovery the three controllers, the call its own reply.
func comboScenario(path string, bind uint16, bound int) e1.Scenario {
	var l *lst
	var ret error
	var returned bool
	var devs []map[string]any
	var devErr error
	var obs spec.Observed
	args := argsFor("GetCardByID", 0)
	body := func() {
		l = &lst{}
		returned, devs, devErr = false, nil, nil
		cur := l
		f := &farm.Farm{}
		for i := range ctrls {
			i := i
			f.Controllers = append(f.Controllers, farm.Echo(ctrls[i].ip+":60000", ctrls[i].serial, func(req []byte) time.Duration {
				if req[1] == 0x94 {
					return []time.Duration{T / 5, 9 * T / 10, T / 2}[i]
				}
				return 4 * T / 10
			}))
		}
		vs.Net().Env = f
		devices := []uhppote.Device{}
		if path != "broadcast" {
			devices = append(devices, uhppote.Device{DeviceID: ctrls[0].serial, Address: types.ControllerAddrFrom(netip.MustParseAddr(ctrls[0].ip), 60000), Protocol: path})
		}
		b := types.BindAddr{}
		if bind != 0 {
			b = types.BindAddrFrom(netip.MustParseAddr("0.0.0.0"), bind)
		}
		u := uhppote.NewUHPPOTE(b, types.BroadcastAddrFrom(netip.MustParseAddr("192.168.1.255"), 60000), types.ListenAddrFrom(netip.MustParseAddr("0.0.0.0"), 60002), T, devices, false)
		ev := spec.EncodeMessage(0x17, 0x20, ctrls[1].serial, spec.StatusReply, ops.BaselineReply(spec.OpByName("GetStatus")))
		for k := 1; k <= 2; k++ {
			vs.After(time.Duration(3*k)*T/10, func() { vs.Net().DeliverUDP("192.168.1.101:60000", "192.168.1.2:60002", ev) })
		}
		q := make(chan os.Signal, 1)
		vs.GoNamed("stopper", func() {
			vs.Sleep(7 * T / 10)
			vs.Send(q, os.Signal(os.Interrupt))
		})
		vs.GoNamed("discovery", func() { devs, devErr = ops.InvokeGetDevices(u) })
		vs.GoNamed("caller", func() { obs = ops.Invoke(u, "GetCardByID", ctrls[0].serial, args) })
		ret = u.Listen(cur, q)
		returned = true
	}
	check := func(e *vs.Exec) (string, []e1.Viol) {
		viols := e1.Generic(e)
		for _, r := range e.Races {
			viols = append(viols, e1.Viol{Key: raceKey(r), What: "data race: " + r})
		}
		if e.Abort != "" {
			return e.Abort, viols
		}
		if !returned || ret != nil {
			viols = append(viols, e1.Viol{Key: "combo/listen-did-not-return-nil", What: fmt.Sprintf("returned=%v err=%v", returned, ret)})
		}
		if l.connected != 1 || l.events != 2 || l.errors != 0 {
			viols = append(viols, e1.Viol{Key: "combo/listener-saw-something-else", What: fmt.Sprintf("connected=%d events=%d errors=%d; two events were sent to the listen port before the stop signal and nothing else", l.connected, l.events, l.errors)})
		}
		if devErr != nil || len(devs) != 3 {
			viols = append(viols, e1.Viol{Key: "combo/discovery", What: fmt.Sprintf("GetDevices alongside the listener and a call: %d entries, err %v; three controllers answer within the timeout", len(devs), devErr)})
		}
		op := spec.OpByName("GetCardByID")
		reply := farm.EchoReply(ctrls[0].serial, spec.EncodeRequest(op, ctrls[0].serial, args))
		if obs.Err != nil {
			viols = append(viols, e1.Viol{Key: "combo/own-reply-lost/" + path, What: fmt.Sprintf("the call failed although its controller answers 0.4 T after being asked: %v", obs.Err)})
		} else if v := spec.Judge(spec.ExpectReply(op, ctrls[0].serial, args, reply), obs); v.Class != "" {
			viols = append(viols, e1.Viol{Key: "combo/crossed-reply/" + path, What: v.Detail})
		}
		if open := vs.Net().OpenSockets(); len(open) > 0 {
			viols = append(viols, e1.Viol{Key: "combo/socket-left-open", What: fmt.Sprint(open)})
		}
		return fmt.Sprintf("combo events=%d devices=%d call=%v", l.events, len(devs), obs.Err == nil), viols
	}
	return e1.Scenario{Name: fmt.Sprintf("listen+discovery+call/%s/bind=%d", path, bind), Bound: bound, Body: body, Check: check}
}

// samePortScenario: the client's bind port equals its listen port and its own listener is running
// when a directed GetStatus call is made; the controller pushes an event to that port the moment it
// is asked and answers 0.1 T later. Either the call cannot have the port (it fails before anything
// is sent - the listener holds it) or it gets its own reply from its own bind address; the listener
// gets the events that were pushed and nothing else.
func samePortScenario(path string, bindIP string, bound int) e1.Scenario {
	var l *lst
	var ret error
	var returned bool
	var obs spec.Observed
	var pushed int
	const port = 60001
	args := argsFor("GetStatus", 0)
	op := spec.OpByName("GetStatus")
	body := func() {
		l = &lst{}
		returned, pushed = false, 0
		cur := l
		np := &pushed
		f := &farm.Farm{}
		ev := spec.EncodeMessage(0x17, 0x20, ctrls[0].serial, spec.StatusReply, func() spec.Args {
			v := ops.BaselineReply(op)
			v["EventIndex"] = uint32(9999)
			v["SequenceId"] = uint32(424242)
			return v
		}())
		c := farm.Echo(ctrls[0].ip+":60000", ctrls[0].serial, func([]byte) time.Duration { return T / 10 })
		inner := c.Respond
		c.Respond = func(proto string, req []byte, from string) []farm.Reply {
			out := inner(proto, req, from)
			if proto == "udp" {
				*np++
				out = append([]farm.Reply{{Delay: 0, Data: ev}}, out...)
			}
			return out
		}
		f.Controllers = append(f.Controllers, c)
		vs.Net().Env = f
		devices := []uhppote.Device{}
		if path != "broadcast" {
			devices = append(devices, uhppote.Device{DeviceID: ctrls[0].serial, Address: types.ControllerAddrFrom(netip.MustParseAddr(ctrls[0].ip), 60000), Protocol: path})
		}
		u := uhppote.NewUHPPOTE(types.BindAddrFrom(netip.MustParseAddr(bindIP), port), types.BroadcastAddrFrom(netip.MustParseAddr("192.168.1.255"), 60000),
			types.ListenAddrFrom(netip.MustParseAddr("0.0.0.0"), port), T, devices, false)
		q := make(chan os.Signal, 1)
		vs.GoNamed("stopper", func() { vs.Sleep(15 * T / 10); vs.Send(q, os.Signal(os.Interrupt)) })
		vs.GoNamed("caller", func() {
			vs.Sleep(T / 10)
			obs = ops.Invoke(u, "GetStatus", ctrls[0].serial, args)
		})
		ret = u.Listen(cur, q)
		returned = true
	}
	check := func(e *vs.Exec) (string, []e1.Viol) {
		viols := e1.Generic(e)
		for _, r := range e.Races {
			viols = append(viols, e1.Viol{Key: raceKey(r), What: "data race: " + r})
		}
		if e.Abort != "" {
			return e.Abort, viols
		}
		add := func(key, what string) {
			viols = append(viols, e1.Viol{Key: "listener-on-bind-port/" + key + "/" + path, What: what + fmt.Sprintf(" (bind %s:%d, listening on 0.0.0.0:%d)", bindIP, port, port)})
		}
		if !returned || ret != nil {
			add("listen-did-not-return-nil", fmt.Sprintf("returned=%v err=%v", returned, ret))
		}
		req := spec.EncodeRequest(op, ctrls[0].serial, args)
		sent := 0
		for _, p := range vs.Net().Packets {
			if bytes.Equal(p.Data, req) {
				sent++
				if src := netip.MustParseAddrPort(p.Src); src.Port() != port || src.Addr().String() != bindIP {
					add("wrong-source-address", fmt.Sprintf("the request left from %s", p.Src))
				}
			}
		}
		label := ""
		switch {
		case sent == 0 && obs.Err != nil:
			label = "call refused (port held by the listener)"
		case sent == 0:
			add("result-without-asking", fmt.Sprintf("returned %v", obs.Fields))
		case obs.Err != nil:
			add("own-reply-lost", fmt.Sprintf("the controller was asked and answers 0.1 T later, the call failed: %v", obs.Err))
		default:
			reply := farm.EchoReply(ctrls[0].serial, req)
			if v := spec.Judge(spec.ExpectReply(op, ctrls[0].serial, args, reply), obs); v.Class != "" {
				add("crossed-reply", "the call returned something that is not the reply to its request (the controller also pushed an event to that port): "+v.Detail)
			}
			label = "call answered"
		}
		if path != "tcp" && l.events != pushed {
			add("listener-events", fmt.Sprintf("%d events were pushed to the listen port, the listener reported %d events and %d errors", pushed, l.events, l.errors))
		}
		if open := vs.Net().OpenSockets(); len(open) > 0 {
			add("socket-left-open", fmt.Sprint(open))
		}
		return label + fmt.Sprintf(" events=%d/%d", l.events, pushed), viols
	}
	return e1.Scenario{Name: fmt.Sprintf("listener-on-bind-port/%s/bind=%s", path, bindIP), Bound: bound, Body: body, Check: check}
}

func listenScenario(stopAt time.Duration, bound int) e1.Scenario {
	var l *lst
	var ret error
	var returned bool
	body := func() {
		l = &lst{}
		returned = false
		cur := l
		vs.Net().Env = &farm.Farm{}
		u := uhppote.NewUHPPOTE(types.BindAddr{}, types.BroadcastAddr{}, types.ListenAddrFrom(netip.MustParseAddr("0.0.0.0"), 60001), T, nil, false)
		ev := spec.EncodeMessage(0x17, 0x20, ctrls[0].serial, spec.StatusReply, ops.BaselineReply(spec.OpByName("GetStatus")))
		for k := 1; k <= 2; k++ {
			vs.After(time.Duration(k)*T/10, func() { vs.Net().DeliverUDP("192.168.1.100:60000", "192.168.1.2:60001", ev) })
		}
		q := make(chan os.Signal, 1)
		vs.GoNamed("stopper", func() {
			if stopAt > 0 {
				vs.Sleep(stopAt)
			}
			vs.Send(q, os.Signal(os.Interrupt))
		})
		ret = u.Listen(cur, q)
		returned = true
	}
	check := func(e *vs.Exec) (string, []e1.Viol) {
		viols := e1.Generic(e)
		for _, r := range e.Races {
			viols = append(viols, e1.Viol{Key: raceKey(r), What: "data race: " + r})
		}
		if e.Abort != "" {
			return e.Abort, viols
		}
		if !returned || ret != nil {
			viols = append(viols, e1.Viol{Key: "listen/did-not-return-nil", What: fmt.Sprintf("returned=%v err=%v", returned, ret)})
		}
		if open := vs.Net().OpenSockets(); len(open) > 0 {
			viols = append(viols, e1.Viol{Key: "listen/socket-left-open", What: fmt.Sprint(open)})
		}
		return fmt.Sprintf("listen connected=%d events=%d errors=%d", l.connected, l.events, l.errors), viols
	}
	return e1.Scenario{Name: fmt.Sprintf("listen/stop@%v", stopAt), Bound: bound, Body: body, Check: check}
}

func racePass(r *vk.Run) {
	bin := os.Getenv("VERIF_RACE_BIN")
	if bin == "" {
		return
	}
	reps := "6"
	if r.Thorough() {
		reps = "20"
	}
	cmd := exec.Command(bin, reps)
	cmd.Env = append(os.Environ(), "GORACE=halt_on_error=0 history_size=3")
	var out bytes.Buffer
	cmd.Stdout, cmd.Stderr = &out, &out
	done := make(chan error, 1)
	go func() { done <- cmd.Run() }()
	select {
	case <-done:
	case <-time.After(5 * time.Minute):
		cmd.Process.Kill()
		r.Set("race_pass", "timed out (not judged)")
		return
	}
	text := out.String()
	reports := strings.Split(text, "WARNING: DATA RACE")
	n := 0
	for _, rep := range reports[1:] {
		if end := strings.Index(rep, "=================="); end > 0 {
			rep = rep[:end]
		}
		m := regexp.MustCompile(`uhppote-core/uhppote\.\(\*ut0311\)\.(\w+)|uhppote-core/uhppote\.\(\*uhppote\)\.(\w+)|uhppote-core/([\w/.()*-]+)`).FindStringSubmatch(rep)
		if m == nil {
			continue // a race entirely inside the harness: not the library's
		}
		site := m[1] + m[2] + m[3]
		n++
		r.Violation("C08/race-detector/"+site, "Go race detector (free-running loopback pass): data race with a frame in "+site, "race-report", map[string]any{"report": rep})
	}
	r.Set("race_pass_reports", n)
	r.Set("race_pass_output_tail", tailStr(text, 600))
}

func tailStr(s string, n int) string {
	if len(s) > n {
		return s[len(s)-n:]
	}
	return s
}

// budget is the wall-clock allowance of one worker process: generous multiples of the measured
// run time; running out of it yields exhaustive:false, never a violation.
func budget(r *vk.Run) time.Duration {
	if r.Thorough() {
		return 25 * time.Minute
	}
	return 4 * time.Minute
}

func main() {
	r := vk.Start("C08", "model_checking")
	scenarios := []e1.Scenario{}
	bound := 2
	delays := []time.Duration{0, 4 * T / 10, 8 * T / 10}
	paths := []string{"udp", "tcp", "broadcast"}
	pairs := [][2]string{{"GetCardByID", "GetCardByID"}, {"GetEvent", "PutCard"}, {"GetStatus", "SetAddress"}}

	// two concurrent calls
	for _, bind := range []uint16{0, 60001} {
		for _, nclients := range []int{1, 2} {
			for _, same := range []bool{true, false} {
				for _, p0 := range paths {
					for _, p1 := range paths {
						if same && nclients == 1 && p0 != p1 {
							continue // one client routes one controller over one path
						}
						for _, d0 := range delays {
							for _, d1 := range delays {
								for _, off := range []time.Duration{0, 3 * T / 10} {
									for pi, pr := range pairs {
										if r.Quick() && pi > 0 && (d0 != delays[2] || off != 0) {
											continue // quick: the full delay/offset grid for the first pair only
										}
										c1 := 1
										if same {
											c1 = 0
										}
										calls := []call{
											{op: pr[0], args: argsFor(pr[0], 0), ctrl: 0, path: p0, delay: d0, client: 0},
											{op: pr[1], args: argsFor(pr[1], 1), ctrl: c1, path: p1, delay: d1, offset: off, client: nclients - 1},
										}
										name := fmt.Sprintf("2calls/bind=%d/clients=%d/same=%v/%s+%s/%s:%v+%s:%v@%v", bind, nclients, same, pr[0], pr[1], p0, d0, p1, d1, off)
										sc := callScenario(name, bind, calls, bound, false)
										if r.Thorough() {
											sc.Bound, sc.Name = -1, sc.Name+"/unbounded" // every interleaving
										}
										scenarios = append(scenarios, sc)
										if nclients == 2 && pi == 0 && off == 0 {
											// same bind port (fixed or 0), wildcard vs specific local address
											scenarios = append(scenarios, callScenarioX(name+"/split-bind-address", bind, calls, bound, false, true))
										}
									}
								}
							}
						}
					}
				}
			}
		}
	}
	// two threads, two calls each (histories within a thread), and three concurrent calls with mixed paths
	for _, bind := range []uint16{0, 60001} {
		for _, p0 := range paths {
			for _, p1 := range paths {
				calls := []call{
					{op: "GetCardByID", args: argsFor("GetCardByID", 0), ctrl: 0, path: p0, delay: 4 * T / 10, client: 0, thread: 1},
					{op: "GetEvent", args: argsFor("GetEvent", 0), ctrl: 0, path: p0, delay: 0, client: 0, thread: 1},
					{op: "GetCardByID", args: argsFor("GetCardByID", 1), ctrl: 1, path: p1, delay: 8 * T / 10, client: 0, thread: 2},
					{op: "PutCard", args: argsFor("PutCard", 1), ctrl: 1, path: p1, delay: 4 * T / 10, client: 0, thread: 2},
				}
				b := 1
				if r.Thorough() {
					b = 2
				}
				scenarios = append(scenarios, callScenario(fmt.Sprintf("2threads-x-2calls/bind=%d/%s+%s", bind, p0, p1), bind, calls, b, false))
				if r.Thorough() {
					for _, p2 := range paths {
						c3 := []call{
							{op: "GetCardByID", args: argsFor("GetCardByID", 0), ctrl: 0, path: p0, delay: 8 * T / 10, client: 0},
							{op: "GetCardByID", args: argsFor("GetCardByID", 1), ctrl: 1, path: p1, delay: 4 * T / 10, client: 0},
							{op: "GetCardByID", args: argsFor("GetCardByID", 2), ctrl: 2, path: p2, delay: 0, client: 0},
						}
						scenarios = append(scenarios, callScenario(fmt.Sprintf("3calls-mixed/bind=%d/%s+%s+%s/unbounded", bind, p0, p1, p2), bind, c3, -1, false))
					}
				}
			}
		}
	}
	// three concurrent calls on a fixed port (later calls wait for two holders)
	if r.Thorough() {
		for _, p := range paths {
			for _, d := range delays {
				calls := []call{}
				for k := 0; k < 3; k++ {
					calls = append(calls, call{op: "GetCardByID", args: argsFor("GetCardByID", k), ctrl: k, path: p, delay: d, client: 0})
				}
				scenarios = append(scenarios, callScenario(fmt.Sprintf("3calls/bind=60001/%s:%v/unbounded", p, d), 60001, calls, -1, false))
				scenarios = append(scenarios, callScenario(fmt.Sprintf("3calls/bind=0/%s:%v/unbounded", p, d), 0, calls, -1, false))
			}
		}
	}
	// every operation concurrently with itself (package-level state anywhere in the library - codec,
	// value types, message tables - is shared by two calls of the same operation) and with PutCard
	for i := range spec.Ops {
		op := &spec.Ops[i]
		if op.Broadcast {
			continue
		}
		for _, bind := range []uint16{0, 60001} {
			for _, other := range []string{op.Name, "PutCard"} {
				if other == "PutCard" && (op.Name == "PutCard" || bind != 0 && r.Quick()) {
					continue
				}
				for _, p := range paths {
					if p != "udp" && r.Quick() {
						continue
					}
					calls := []call{
						{op: op.Name, args: argsVar(op.Name, 0), ctrl: 0, path: p, delay: 0, client: 0},
						{op: other, args: argsVar(other, 1), ctrl: 1, path: p, delay: 0, client: 0},
					}
					scenarios = append(scenarios, callScenario(fmt.Sprintf("allops/bind=%d/%s+%s/%s", bind, op.Name, other, p), bind, calls, 1, false))
				}
			}
		}
	}
	// a failing call (silent controller, stalled / refused / reset TCP connection) next to calls that
	// must be unaffected: concurrently on another thread, and afterwards on the same thread
	for _, bind := range []uint16{0, 60001} {
		for _, bad := range []struct{ path, fate string }{{"udp", "silent"}, {"broadcast", "silent"}, {"tcp", "silent"}, {"tcp", "refused"}, {"tcp", "reset"}} {
			for _, p := range paths {
				for _, off := range []time.Duration{0, T / 10} {
					calls := []call{
						{op: "GetCardByID", args: argsFor("GetCardByID", 2), ctrl: 2, path: bad.path, delay: T / 10, client: 0, fate: bad.fate, thread: 1},
						{op: "GetEvent", args: argsFor("GetEvent", 2), ctrl: 0, path: p, delay: 4 * T / 10, client: 0, thread: 1},
						{op: "GetCardByID", args: argsFor("GetCardByID", 1), ctrl: 1, path: p, delay: 4 * T / 10, offset: off, client: 0, thread: 2},
					}
					b := 2
					if r.Thorough() {
						b = 3
					}
					scenarios = append(scenarios, callScenario(fmt.Sprintf("failing-call/bind=%d/%s-%s/others=%s@%v", bind, bad.path, bad.fate, p, off), bind, calls, b, false))
				}
			}
		}
	}
	// three staggered calls on one fixed bind port (the third arrives while the second, which had
	// to wait for the first, is in flight)
	for _, p := range paths {
		for _, same := range []bool{true, false} {
			calls := []call{}
			for k, off := range []time.Duration{0, T / 10, 6 * T / 10} {
				ctrl := k
				if same {
					ctrl = 0
				}
				calls = append(calls, call{op: "GetCardByID", args: argsFor("GetCardByID", k), ctrl: ctrl, path: p, delay: 4 * T / 10, offset: off, client: 0})
			}
			b := 1
			if r.Thorough() {
				b = 2
			}
			scenarios = append(scenarios, callScenario(fmt.Sprintf("3calls-staggered/bind=60001/%s/same=%v", p, same), 60001, calls, b, false))
			scenarios = append(scenarios, callScenario(fmt.Sprintf("3calls-staggered/bind=60001/%s/same=%v/zero-bind-addr", p, same), 60001, calls[:2], 2, false))
		}
	}
	// discovery while replies are still arriving, alongside a directed call
	for _, bind := range []uint16{0, 60001} {
		for _, p := range paths {
			calls := []call{{op: "GetCardByID", args: argsFor("GetCardByID", 0), ctrl: 0, path: p, delay: 4 * T / 10, client: 0}}
			scenarios = append(scenarios, callScenario(fmt.Sprintf("discovery+call/bind=%d/%s", bind, p), bind, calls, bound, true))
		}
		scenarios = append(scenarios, callScenario(fmt.Sprintf("discovery-alone/bind=%d", bind), bind, nil, bound, true))
	}
	// the client built without a broadcast address (the library's 255.255.255.255:60000 fallback): two
	// broadcast-path calls, and a broadcast-path call next to discovery
	for _, bind := range []uint16{0, 60001} {
		calls := []call{
			{op: "GetCardByID", args: argsFor("GetCardByID", 0), ctrl: 0, path: "broadcast", delay: 4 * T / 10, client: 0},
			{op: "GetEvent", args: argsFor("GetEvent", 1), ctrl: 1, path: "broadcast", delay: 2 * T / 10, client: 0},
		}
		scenarios = append(scenarios, callScenario(fmt.Sprintf("2calls/bind=%d/broadcast/default-broadcast-addr", bind), bind, calls, bound, false))
		scenarios = append(scenarios, callScenario(fmt.Sprintf("discovery+call/bind=%d/broadcast/default-broadcast-addr", bind), bind, calls[:1], bound, true))
	}
	// clients built with debug = true: two calls at once on every pair of paths, and discovery next to a call
	for _, bind := range []uint16{0, 60001} {
		for _, p0 := range paths {
			for _, p1 := range paths {
				calls := []call{
					{op: "GetCardByID", args: argsFor("GetCardByID", 0), ctrl: 0, path: p0, delay: 4 * T / 10, client: 0},
					{op: "GetEvent", args: argsFor("GetEvent", 1), ctrl: 1, path: p1, delay: 2 * T / 10, client: 0},
				}
				scenarios = append(scenarios, callScenario(fmt.Sprintf("2calls/bind=%d/%s+%s/debug", bind, p0, p1), bind, calls, 1, false))
			}
		}
		calls := []call{{op: "GetCardByID", args: argsFor("GetCardByID", 0), ctrl: 0, path: "udp", delay: 4 * T / 10, client: 0}}
		scenarios = append(scenarios, callScenario(fmt.Sprintf("discovery+call/bind=%d/udp/debug", bind), bind, calls, 1, true))
	}
	// the network-free entry points used by two / three goroutines at once (first use in the process)
	scenarios = append([]e1.Scenario{pureScenario(2), pureScenario(3)}, scenarios...)
	// listener, discovery and a directed call at the same time through one client
	for _, bind := range []uint16{0, 60001} {
		for _, p := range paths {
			b := 1
			if r.Thorough() {
				b = 2
			}
			scenarios = append(scenarios, comboScenario(p, bind, b))
		}
	}
	// far more calls in flight than any plausible internal limit (connection caps, semaphores, pools):
	// 80 callers through one client, every controller answering 0.6 T after being asked
	for _, p := range paths {
		calls := []call{}
		for k := 0; k < 80; k++ {
			calls = append(calls, call{op: "GetCardByID", args: argsFor("GetCardByID", k), ctrl: k % 3, path: p, delay: 6 * T / 10, client: 0})
		}
		sc := callScenario(fmt.Sprintf("80calls/bind=0/%s", p), 0, calls, 0, false)
		sc.Deviations = 1
		sc.Opt.Horizon = 20000
		sc.Shards = 4
		scenarios = append(scenarios, sc)
	}
	// the client's own listener sits on the client's bind port
	for _, p := range paths {
		for _, ip := range []string{"0.0.0.0", "192.168.1.2"} {
			scenarios = append(scenarios, samePortScenario(p, ip, 1))
		}
	}
	// the listener while it is being shut down
	for _, at := range []time.Duration{0, T / 10, 15 * T / 100, 2 * T / 10, 3 * T / 10} {
		scenarios = append(scenarios, listenScenario(at, bound))
	}

	if r.Thorough() {
		e1.PerScenario = 6 * time.Minute
	}
	e1.RunAll(r, scenarios, budget(r))
	if r.Worker == "" && r.Replay == "" {
		racePass(r)
	}
	r.Rule("2 (thorough also 3) harness threads x {bind port 0, fixed} x {one shared client, two clients (also: same fixed port on the wildcard and on a specific local address)} x {same, different controller} x paths {udp,tcp,broadcast}^2 x reply delays {0,0.4T,0.8T}^2 x start offset {0,0.3T} x 3 operation pairs; every one of the 31 directed operations concurrently with itself and with PutCard (<= 1 preemption; quick: connected-UDP path only); a failing call (silent controller, stalled / refused / reset TCP) followed by and concurrent with calls that must succeed; three staggered calls on one fixed port (two of them also with the port configured on the zero netip.Addr); 80 concurrent calls through one client (at most one non-default scheduling choice); discovery alongside a directed call; the listener, discovery and a directed call at once through one client; a call through a client whose own listener sits on its bind port while the controller pushes an event; Listen with two events and the stop signal at 5 offsets; two threads x two sequential calls; for each scenario ALL interleavings with <= 2 preemptions (thorough: the two-call scenarios under ALL interleavings without bound, three-call families with <= 3 preemptions). distinct = distinct per-call outcome labels observed")
	r.Assume("sequentially consistent memory; scheduling points at mutex, channel, socket and sleep operations; unsynchronised accesses to locals shared with goroutine closures and to package-level variables of every package of the module (uhppote, types, messages, encoding/*) are caught by the vector-clock detector; struct fields and heap objects reached through pointers only by the free-running -race pass")
	r.Assume("the simulated network orders consecutive operations on one socket (fd mutex atomics), as the real net package does")
	r.Finish()
}
