// Free-running race pass for C08 (engine E3): the unmodified library on real loopback sockets,
// built with -race. A cooperative scheduler's hand-offs are happens-before edges that blind the
// race detector, so this pass is separate from the E1 exploration; it supports, never decides.
package main

import (
	"encoding/binary"
	"fmt"
	"net"
	"net/netip"
	"os"
	"strconv"
	"sync"
	"time"

	"github.com/uhppoted/uhppote-core/types"
	"github.com/uhppoted/uhppote-core/uhppote"
	"verif/echo"
	"verif/ops"
	"verif/pure"
	"verif/spec"
)

const timeout = 300 * time.Millisecond

type controller struct {
	serial uint32
	udp    *net.UDPConn
	tcp    net.Listener
	port   uint16
	delay  time.Duration
}

func start(serial uint32, delay time.Duration) *controller {
	for attempt := 0; attempt < 20; attempt++ {
		u, err := net.ListenUDP("udp4", &net.UDPAddr{IP: net.IPv4(127, 0, 0, 1)})
		if err != nil {
			continue
		}
		port := u.LocalAddr().(*net.UDPAddr).Port
		l, err := net.Listen("tcp4", fmt.Sprintf("127.0.0.1:%d", port))
		if err != nil {
			u.Close()
			continue
		}
		c := &controller{serial: serial, udp: u, tcp: l, port: uint16(port), delay: delay}
		go c.serveUDP()
		go c.serveTCP()
		return c
	}
	return nil
}

func (c *controller) answer(req []byte) []byte {
	if len(req) != 64 {
		return nil
	}
	if s := binary.LittleEndian.Uint32(req[4:8]); s != c.serial && s != 0 {
		return nil
	}
	return echo.EchoReply(c.serial, req)
}

func (c *controller) serveUDP() {
	buf := make([]byte, 2048)
	for {
		n, from, err := c.udp.ReadFromUDP(buf)
		if err != nil {
			return
		}
		if reply := c.answer(append([]byte{}, buf[:n]...)); reply != nil {
			go func() {
				time.Sleep(c.delay)
				c.udp.WriteToUDP(reply, from)
			}()
		}
	}
}

func (c *controller) serveTCP() {
	for {
		conn, err := c.tcp.Accept()
		if err != nil {
			return
		}
		go func() {
			defer conn.Close()
			buf := make([]byte, 2048)
			n, err := conn.Read(buf)
			if err != nil {
				return
			}
			if reply := c.answer(buf[:n]); reply != nil {
				time.Sleep(c.delay)
				conn.Write(reply)
			}
		}()
	}
}

func (c *controller) stop() { c.udp.Close(); c.tcp.Close() }

type listener struct {
	mu sync.Mutex
	n  int
}

func (l *listener) OnConnected()            {}
func (l *listener) OnEvent(s *types.Status) { l.mu.Lock(); l.n++; l.mu.Unlock() }
func (l *listener) OnError(error) bool      { return true }

func main() {
	// the network-free entry points, first use in the process, from four goroutines at once
	{
		var wg sync.WaitGroup
		for i := 0; i < 4; i++ {
			wg.Add(1)
			go func() { defer wg.Done(); _ = pure.Workload() }()
		}
		wg.Wait()
	}
	reps := 6
	if len(os.Args) > 1 {
		reps, _ = strconv.Atoi(os.Args[1])
	}
	a, b := start(405419896, 20*time.Millisecond), start(303986753, 60*time.Millisecond)
	if a == nil || b == nil {
		fmt.Println("ENVIRONMENT: could not open loopback sockets; race pass skipped")
		return
	}
	defer a.stop()
	defer b.stop()
	lo := netip.MustParseAddr("127.0.0.1")
	failures := 0
	// every directed operation concurrently with itself (before anything else has run in this
	// process, so that lazily initialised package state is first touched by two goroutines at once)
	{
		devices := []uhppote.Device{
			{DeviceID: a.serial, Address: types.ControllerAddrFrom(lo, a.port), Protocol: "udp"},
			{DeviceID: b.serial, Address: types.ControllerAddrFrom(lo, b.port), Protocol: "tcp"},
		}
		u := uhppote.NewUHPPOTE(types.BindAddr{}, types.BroadcastAddrFrom(lo, a.port), types.ListenAddr{}, timeout, devices, false)
		var wg sync.WaitGroup
		for i := range spec.Ops {
			op := &spec.Ops[i]
			if op.Broadcast {
				continue
			}
			for k := 0; k < 2; k++ {
				serial := []uint32{a.serial, b.serial}[k]
				args := ops.Baseline(op)
				wg.Add(1)
				go func() {
					defer wg.Done()
					ops.Invoke(u, op.Name, serial, args)
				}()
			}
		}
		wg.Wait()
	}
	// one argument value handed to several calls at once (the same card, profile, task, reader map
	// pushed to two controllers from two goroutines): operations only read their arguments
	{
		devices := []uhppote.Device{
			{DeviceID: a.serial, Address: types.ControllerAddrFrom(lo, a.port), Protocol: "udp"},
			{DeviceID: b.serial, Address: types.ControllerAddrFrom(lo, b.port), Protocol: "tcp"},
		}
		u := uhppote.NewUHPPOTE(types.BindAddr{}, types.BroadcastAddrFrom(lo, a.port), types.ListenAddr{}, timeout, devices, false)
		from, to := types.ToDate(2024, 1, 1), types.ToDate(2024, 12, 31)
		card := types.Card{CardNumber: 8165538, From: from, To: to, Doors: map[uint8]uint8{1: 1, 2: 0, 3: 29, 4: 1}, PIN: 7531}
		profile := types.TimeProfile{ID: 29, LinkedProfileID: 3, From: from, To: to, Weekdays: types.Weekdays{time.Monday: true, time.Friday: true},
			Segments: types.Segments{1: {Start: types.NewHHmm(8, 30), End: types.NewHHmm(9, 45)}, 2: {}, 3: {}}}
		task := types.Task{Task: types.EnableMoreCards, Door: 3, From: from, To: to, Weekdays: types.Weekdays{time.Tuesday: true}, Start: types.NewHHmm(7, 15), Cards: 2}
		readers := map[uint8]bool{1: true, 2: false, 3: true, 4: true}
		codes := []uint32{12345, 54321, 999999, 1, 7, 8}[:4]
		var wg sync.WaitGroup
		for round := 0; round < 3; round++ {
			for _, serial := range []uint32{a.serial, b.serial, a.serial} {
				serial := serial
				wg.Add(5)
				go func() { defer wg.Done(); u.PutCard(serial, card) }()
				go func() { defer wg.Done(); u.SetTimeProfile(serial, profile) }()
				go func() { defer wg.Done(); u.AddTask(serial, task) }()
				go func() { defer wg.Done(); u.ActivateKeypads(serial, readers) }()
				go func() { defer wg.Done(); u.SetDoorPasscodes(serial, 3, codes...) }()
			}
			wg.Wait()
		}
	}
	for rep := 0; rep < reps; rep++ {
		for _, fixed := range []bool{false, true} {
			bind := types.BindAddr{}
			if fixed {
				bind = types.BindAddrFrom(lo, uint16(21800+rep%50))
			}
			devices := []uhppote.Device{
				{DeviceID: a.serial, Address: types.ControllerAddrFrom(lo, a.port), Protocol: "udp"},
				{DeviceID: b.serial, Address: types.ControllerAddrFrom(lo, b.port), Protocol: "tcp"},
			}
			u := uhppote.NewUHPPOTE(bind, types.BroadcastAddrFrom(lo, a.port), types.ListenAddr{}, timeout, devices, false)
			// an unconfigured client reaches controller a through the broadcast path
			ub := uhppote.NewUHPPOTE(bind, types.BroadcastAddrFrom(lo, a.port), types.ListenAddr{}, timeout, nil, false)
			var wg sync.WaitGroup
			for k := 0; k < 4; k++ {
				k := k
				wg.Add(3)
				go func() {
					defer wg.Done()
					if c, err := u.GetCardByID(a.serial, uint32(8000001+k)); err != nil || c == nil || c.CardNumber != uint32(8000001+k) {
						failures++
					}
				}()
				go func() {
					defer wg.Done()
					u.GetEvent(b.serial, uint32(17+k))
				}()
				go func() {
					defer wg.Done()
					ub.GetCardByID(a.serial, uint32(8100001+k))
				}()
			}
			// discovery while replies are still arriving (controller b answers late in the window)
			wg.Add(1)
			go func() {
				defer wg.Done()
				ub.GetDevices()
			}()
			wg.Wait()
		}
		// the event listener while it is being shut down
		lport := uint16(21900 + rep%50)
		ul := uhppote.NewUHPPOTE(types.BindAddr{}, types.BroadcastAddr{}, types.ListenAddrFrom(lo, lport), timeout, nil, false)
		q := make(chan os.Signal, 1)
		done := make(chan error, 1)
		l := &listener{}
		go func() { done <- ul.Listen(l, q) }()
		time.Sleep(20 * time.Millisecond)
		if s, err := net.DialUDP("udp4", nil, &net.UDPAddr{IP: net.IPv4(127, 0, 0, 1), Port: int(lport)}); err == nil {
			ev := echo.EchoReply(a.serial, append([]byte{0x17, 0x20, 0, 0, 0x78, 0x37, 0x2a, 0x18}, make([]byte, 56)...))
			for k := 0; k < 3; k++ {
				s.Write(ev)
			}
			s.Close()
		}
		time.Sleep(time.Duration(rep%4) * 5 * time.Millisecond)
		q <- os.Interrupt
		select {
		case <-done:
		case <-time.After(5 * time.Second):
			fmt.Println("NOTE: Listen did not return within 5 s (recorded, not judged here)")
		}
	}
	fmt.Printf("race pass complete: %d repetitions, %d unexpected call results (recorded, not judged)\n", reps, failures)
}
