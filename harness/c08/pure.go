package main

import (
	"fmt"

	"github.com/uhppoted/uhppote-core/verifshim/vs"
	"verif/mc/e1"
	"verif/pure"
)

// pureScenario: two (three) threads run the workload at the same time; scheduling points exist only
// where the library synchronises, so the point of the scenario is the happens-before race detector
// on package-level state (it reports an unordered write/read pair whatever the schedule), plus
// agreement of what the threads computed.
func pureScenario(threads int) e1.Scenario {
	var got []string
	body := func() {
		got = make([]string, threads)
		cur := got
		for t := 0; t < threads; t++ {
			t := t
			vs.GoNamed(fmt.Sprintf("pure%d", t), func() { cur[t] = pure.Workload() })
		}
	}
	check := func(e *vs.Exec) (string, []e1.Viol) {
		viols := e1.Generic(e)
		for _, r := range e.Races {
			viols = append(viols, e1.Viol{Key: raceKey(r), What: "data race (network-free entry points used by two goroutines at once): " + r})
		}
		if e.Abort != "" {
			return e.Abort, viols
		}
		for t := 1; t < threads; t++ {
			if got[t] != got[0] {
				viols = append(viols, e1.Viol{Key: "pure-entry-points/threads-disagree", What: fmt.Sprintf("thread %d and thread 0 ran the same network-free calls at the same time and got different results:\n%s\n%s", t, got[0], got[t])})
			}
		}
		return "pure:" + fmt.Sprint(len(got[0])), viols
	}
	return e1.Scenario{Name: fmt.Sprintf("pure-entry-points/%d-threads", threads), Bound: 1, Body: body, Check: check}
}
