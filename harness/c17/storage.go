package main

import (
	"fmt"
	"reflect"
	"time"
)

// Storage-sharing oracle, by reflection: two values share mutable storage when a pointer, a slice's
// backing array or a map reachable from the one is reachable from the other. Strings are immutable
// and *time.Location is immutable by contract (the library hands the caller's Location on, as the
// standard library does) - neither counts, and the walk does not descend into a Location. The walk
// follows exported and unexported fields alike, so a field added to a type later is covered without
// the harness naming it.

var locationType = reflect.TypeOf((*time.Location)(nil))

// immutable: values of these packages' types are never written through (netip.Addr points at
// interned, shared zone descriptors).
func immutable(t reflect.Type) bool {
	switch t.PkgPath() {
	case "net/netip", "unique", "internal/unique":
		return true
	}
	return false
}

type region struct {
	from, to uintptr // [from, to)
	path     string
}

func walkStorage(v reflect.Value, path string, seen map[uintptr]bool, out *[]region) {
	if immutable(v.Type()) {
		return
	}
	switch v.Kind() {
	case reflect.Ptr:
		if v.IsNil() || v.Type() == locationType {
			return
		}
		p := v.Pointer()
		size := v.Type().Elem().Size()
		if size == 0 {
			size = 1
		}
		*out = append(*out, region{p, p + size, path})
		if seen[p] {
			return
		}
		seen[p] = true
		walkStorage(v.Elem(), path+".*", seen, out)
	case reflect.Interface:
		if !v.IsNil() {
			walkStorage(v.Elem(), path, seen, out)
		}
	case reflect.Slice:
		if v.IsNil() || v.Cap() == 0 {
			return
		}
		p := v.Pointer()
		size := uintptr(v.Cap()) * v.Type().Elem().Size()
		if size == 0 {
			size = 1
		}
		*out = append(*out, region{p, p + size, path + "[]"})
		for i := 0; i < v.Len(); i++ {
			walkStorage(v.Index(i), fmt.Sprintf("%s[%d]", path, i), seen, out)
		}
	case reflect.Array:
		for i := 0; i < v.Len(); i++ {
			walkStorage(v.Index(i), fmt.Sprintf("%s[%d]", path, i), seen, out)
		}
	case reflect.Map:
		if v.IsNil() {
			return
		}
		p := v.Pointer()
		*out = append(*out, region{p, p + 1, path + "{map}"})
		if seen[p] {
			return
		}
		seen[p] = true
		it := v.MapRange()
		for it.Next() {
			walkStorage(it.Value(), fmt.Sprintf("%s[%v]", path, it.Key()), seen, out)
		}
	case reflect.Struct:
		for i := 0; i < v.NumField(); i++ {
			walkStorage(v.Field(i), path+"."+v.Type().Field(i).Name, seen, out)
		}
	}
}

// sharedStorage lists the places where a and b reach the same mutable storage.
func sharedStorage(a, b any) []string {
	var ra, rb []region
	walkStorage(reflect.ValueOf(a), "a", map[uintptr]bool{}, &ra)
	walkStorage(reflect.ValueOf(b), "b", map[uintptr]bool{}, &rb)
	var out []string
	for _, x := range ra {
		for _, y := range rb {
			if x.from < y.to && y.from < x.to {
				out = append(out, x.path+" = "+y.path)
			}
		}
	}
	return out
}

// fillReferences gives every nil pointer, slice and map reachable through the settable fields of
// *p a fresh non-nil value (a Location excepted), so that reference-typed fields the harness does
// not know by name take part in the sharing checks.
func fillReferences(v reflect.Value) {
	switch v.Kind() {
	case reflect.Ptr:
		if v.Type() == locationType {
			return
		}
		if v.IsNil() && v.CanSet() {
			v.Set(reflect.New(v.Type().Elem()))
		}
		if !v.IsNil() {
			fillReferences(v.Elem())
		}
	case reflect.Slice:
		if v.IsNil() && v.CanSet() {
			v.Set(reflect.MakeSlice(v.Type(), 1, 2))
		}
	case reflect.Map:
		if v.IsNil() && v.CanSet() {
			v.Set(reflect.MakeMap(v.Type()))
		}
	case reflect.Struct:
		for i := 0; i < v.NumField(); i++ {
			if v.Field(i).CanSet() {
				fillReferences(v.Field(i))
			}
		}
	}
}

// emptyWithCapacity replaces every settable slice reachable through *p by an empty slice that has
// spare capacity (len 0, cap 4): nothing to copy element-wise, yet an append through one holder
// writes into storage another holder's append would use.
func emptyWithCapacity(v reflect.Value) {
	switch v.Kind() {
	case reflect.Ptr:
		if v.Type() != locationType && !v.IsNil() {
			emptyWithCapacity(v.Elem())
		}
	case reflect.Slice:
		if v.CanSet() {
			v.Set(reflect.MakeSlice(v.Type(), 0, 4))
		}
	case reflect.Struct:
		if immutable(v.Type()) {
			return
		}
		for i := 0; i < v.NumField(); i++ {
			if v.Field(i).CanSet() {
				emptyWithCapacity(v.Field(i))
			}
		}
	}
}
