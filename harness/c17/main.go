// C17 — clients are insulated from later input changes, results from network buffers.
//
// Explicit-state exploration of the real library behind a scripted driver: a world consists of a
// client, the caller-side device list it was built from, the door-name slices, the last DeviceList
// map, every value returned so far and every buffer the driver delivered. All event sequences up
// to a depth bound over {construct (3 configurations), mutate caller-side data, call operations,
// scribble over delivered buffers, mutate returned values, clone and mutate} are executed, each
// from a fresh instance (successor = replay of the history + one event). Invariants after every
// event: requests go where the configuration AS CONSTRUCTED says; arguments are unchanged by the
// call; previously returned values equal their snapshots; clones share no storage.
package main

import (
	"encoding/json"
	"fmt"
	"net"
	"net/netip"
	"reflect"
	"sort"
	"strings"
	"sync"
	"time"

	"github.com/uhppoted/uhppote-core/types"
	"github.com/uhppoted/uhppote-core/uhppote"
	"verif/drv"
	"verif/echo"
	"verif/vk"
)

const (
	target = uint32(405419896)
	other  = uint32(303986753)
)

type routeT struct{ method, addr string }

type held struct {
	name string
	val  any    // pointer to the returned value
	snap string // canonical rendering when returned (or after a deliberate harness mutation)
}

type world struct {
	cfg  int
	fill bool // storage probe: populate every nil reference field of Device before constructing
	// storage probe, second variant: every slice of Device empty but with spare capacity
	emptySlices bool
	probeOnly   bool // configuration 3: no expectations about DeviceList contents, sharing only
	devices     []uhppote.Device
	u           uhppote.IUHPPOTE
	fake        *drv.Fake
	routes      map[uint32]routeT // as constructed
	built       map[uint32]string // rendering of each configured device as constructed
	list        map[uint32]uhppote.Device
	held        []held
	card        types.Card
	cardC       *types.Card // clone
	profile     types.TimeProfile
	task        types.Task
	readers     map[uint8]bool
	codes       [8]uint32           // passcodes are passed as codes[0:3]: a slice with spare capacity
	formats     [4]types.CardFormat // card formats are passed as formats[0:3] (any, Wiegand-26, Wiegand-26)
	devClone    *uhppote.Device
	flags       map[string]bool
	viol        func(key, what string)
}

func render(v any) string {
	b, err := json.Marshal(v)
	if err != nil {
		return fmt.Sprintf("%#v", v)
	}
	return string(b) + fmt.Sprintf("|%v", v)
}

// cardView is the API-visible content of a card: a missing door key reads as 0.
func cardView(c types.Card) string {
	return fmt.Sprintf("%d/%v/%v/%d,%d,%d,%d/%d", c.CardNumber, c.From, c.To, c.Doors[1], c.Doors[2], c.Doors[3], c.Doors[4], c.PIN)
}

func renderDevice(d uhppote.Device) string {
	return fmt.Sprintf("%s/%d/%v/%v/%s", d.Name, d.DeviceID, d.Address, d.Doors, d.Protocol)
}

func newWorld(viol func(string, string)) *world {
	w := &world{flags: map[string]bool{}, viol: viol}
	// (the maps also carry keys outside the protocol's range - door 0 / 5 / 255, weekday -1 / 7 / 8,
	// segment 0 / 4: whatever an operation makes of them, it leaves the caller's maps as they are)
	w.card = types.Card{CardNumber: 8165538, From: types.ToDate(2024, 1, 1), To: types.ToDate(2024, 12, 31), Doors: map[uint8]uint8{1: 1, 2: 0, 3: 29, 0: 1, 5: 1, 255: 3}, PIN: 7531}
	w.profile = types.TimeProfile{ID: 29, LinkedProfileID: 3, From: types.ToDate(2024, 1, 1), To: types.ToDate(2024, 12, 31),
		Weekdays: types.Weekdays{time.Monday: true, time.Friday: true, time.Weekday(7): true, time.Weekday(-1): true, time.Weekday(8): false},
		Segments: types.Segments{1: {Start: types.NewHHmm(8, 30), End: types.NewHHmm(9, 45)}, 2: {}, 3: {Start: types.NewHHmm(14, 0), End: types.NewHHmm(17, 0)}, 0: {Start: types.NewHHmm(1, 0), End: types.NewHHmm(2, 0)}, 4: {Start: types.NewHHmm(3, 0), End: types.NewHHmm(4, 0)}}}
	w.task = types.Task{Task: types.EnableMoreCards, Door: 3, From: types.ToDate(2024, 1, 1), To: types.ToDate(2024, 12, 31), Weekdays: types.Weekdays{time.Tuesday: true, time.Weekday(7): true, time.Weekday(-1): true}, Start: types.NewHHmm(7, 15), Cards: 2}
	w.readers = map[uint8]bool{1: true, 3: true, 0: true, 5: true, 255: false}
	w.codes = [8]uint32{12345, 1000000, 54321, 111111, 222222, 333333, 444444, 555555}
	w.formats = [4]types.CardFormat{types.WiegandAny, types.Wiegand26, types.Wiegand26, types.WiegandAny}
	return w
}

func (w *world) construct(cfg int) {
	w.cfg = cfg
	ap := func(s string) types.ControllerAddr {
		a := netip.MustParseAddrPort(s)
		return types.ControllerAddrFrom(a.Addr(), a.Port())
	}
	switch cfg {
	case 0:
		w.devices = []uhppote.Device{
			{Name: "target", DeviceID: target, Address: ap("192.168.1.100:60000"), Doors: []string{"A", "B", "C", "D"}, Protocol: "udp"},
			{Name: "other", DeviceID: other, Address: ap("192.168.1.101:60000"), Doors: []string{"E", "F", "G", "H"}, Protocol: "tcp"},
		}
		w.routes = map[uint32]routeT{target: {"SendUDP", "192.168.1.100:60000"}, other: {"SendTCP", "192.168.1.101:60000"}}
	case 1:
		w.devices = []uhppote.Device{
			{Name: "target", DeviceID: target, Doors: []string{"A", "B", "C", "D"}, Protocol: "udp"},
			{Name: "other", DeviceID: other, Address: ap("192.168.1.101:60000"), Doors: []string{"E", "F", "G", "H"}, Protocol: "udp"},
		}
		w.routes = map[uint32]routeT{target: {"BroadcastTo", "255.255.255.255:60000"}, other: {"SendUDP", "192.168.1.101:60000"}}
	case 2:
		w.devices = []uhppote.Device{
			{Name: "target", DeviceID: target, Address: ap("10.0.0.7:54321"), Doors: []string{"A", "B", "C", "D"}, Protocol: "tcp"},
		}
		w.routes = map[uint32]routeT{target: {"SendTCP", "10.0.0.7:54321"}, other: {"BroadcastTo", "255.255.255.255:60000"}}
	case 4:
		// no controllers configured at all: everything is broadcast, DeviceList is empty - and stays so
		w.devices = nil
		w.routes = map[uint32]routeT{target: {"BroadcastTo", "255.255.255.255:60000"}, other: {"BroadcastTo", "255.255.255.255:60000"}}
	case 3:
		// (storage probe only) the same controller listed more than once - first with door names, then with
		// its address, then complete - next to another one: whichever entry the client goes by, it keeps a
		// copy of its own
		w.devices = []uhppote.Device{
			{Name: "target", DeviceID: target, Doors: []string{"A", "B", "C", "D"}},
			{Name: "other", DeviceID: other, Address: ap("192.168.1.101:60000"), Doors: []string{"E", "F", "G", "H"}, Protocol: "udp"},
			{Name: "", DeviceID: target, Address: ap("192.168.1.100:60000"), Protocol: "udp"},
			{Name: "target again", DeviceID: target, Address: ap("192.168.1.100:60000"), Doors: []string{"I", "J", "K", "L"}, Protocol: "tcp"},
		}
		w.routes = map[uint32]routeT{}
	}
	w.fake = &drv.Fake{Script: func(c drv.Call) ([][]byte, error) {
		if len(c.Request) != 64 {
			return nil, nil
		}
		serial := uint32(c.Request[4]) | uint32(c.Request[5])<<8 | uint32(c.Request[6])<<16 | uint32(c.Request[7])<<24
		if r := echo.EchoReply(serial, c.Request); r != nil {
			return [][]byte{r}, nil
		}
		return nil, nil
	}}
	if w.fill {
		for i := range w.devices {
			fillReferences(reflect.ValueOf(&w.devices[i]).Elem())
			if w.emptySlices {
				emptyWithCapacity(reflect.ValueOf(&w.devices[i]).Elem())
			}
		}
	}
	w.built = map[uint32]string{}
	for _, d := range w.devices {
		w.built[d.DeviceID] = renderDevice(d)
	}
	w.u = uhppote.NewUHPPOTE(types.BindAddr{}, types.BroadcastAddr{}, types.ListenAddr{}, time.Second, w.devices, false)
	if sh := sharedStorage(w.devices, w.u); len(sh) > 0 {
		w.viol("client-shares-storage-with-caller-configuration", fmt.Sprintf("the client built by NewUHPPOTE reaches storage of the caller's device list (a = caller's []Device, b = client): %v", sh))
	}
	drv.Install(w.u, w.fake)
	w.list = nil
	for k := range w.flags {
		if strings.HasPrefix(k, "caller-") {
			delete(w.flags, k)
		}
	}
}

func (w *world) hold(name string, v any) {
	w.held = append(w.held, held{name, v, render(v)})
}

// call runs fn (one API call for `serial`) and checks routing and argument integrity.
func (w *world) call(name string, serial uint32, fn func() (any, error)) {
	if w.u == nil {
		return
	}
	before := len(w.fake.Calls)
	args := func() string {
		return render(w.card) + render(w.profile) + render(w.task) + render(w.readers) + fmt.Sprint(w.codes, w.formats)
	}
	argsBefore := args()
	v, err := fn()
	if err != nil {
		w.viol("call-failed/"+name, fmt.Sprintf("%s failed: %v", name, err))
		return
	}
	if after := args(); after != argsBefore {
		w.viol("argument-modified/"+name, fmt.Sprintf("%s modified one of its card/profile/task/map/slice arguments (or the storage behind a slice argument): before %s, after %s", name, argsBefore, after))
	}
	calls := w.fake.Calls[before:]
	if len(calls) != 1 {
		w.viol("routing/"+name+"/call-count", fmt.Sprintf("%d driver calls", len(calls)))
	} else {
		want := w.routes[serial]
		if calls[0].Method != want.method || calls[0].Addr != want.addr {
			w.viol("routing-follows-caller-data", fmt.Sprintf("%s for controller %d went to %s %s; the configuration as constructed says %s %s (caller-side mutations: %v)", name, serial, calls[0].Method, calls[0].Addr, want.method, want.addr, w.flagList()))
		}
	}
	if v != nil && !reflect.ValueOf(v).IsNil() {
		w.hold(name, v)
	}
}

func (w *world) flagList() []string {
	l := []string{}
	for k := range w.flags {
		l = append(l, k)
	}
	sort.Strings(l)
	return l
}

var events = []string{
	"construct-0", "construct-1", "construct-2", "construct-4",
	"mutate-caller-address", "mutate-caller-protocol", "mutate-caller-id", "mutate-caller-doors", "truncate-caller-slice",
	"device-list", "mutate-device-list",
	"call-GetDevice", "call-GetCards-other", "call-PutCard", "call-SetTimeProfile", "call-AddTask", "call-ActivateKeypads", "call-GetStatus", "call-GetTimeProfile", "call-GetCardByID", "call-GetListener", "call-SetAddress", "call-SetListener",
	"call-SetDoorPasscodes", "call-PutCard-formats",
	"scribble-buffers", "mutate-returned", "clone-card-mutate-clone", "clone-card-mutate-original", "clone-device-mutate",
}

func (w *world) apply(ev string) {
	switch ev {
	case "construct-0", "construct-1", "construct-2", "construct-4":
		w.construct(int(ev[len(ev)-1] - '0'))
	case "mutate-caller-address":
		if len(w.devices) > 0 {
			w.devices[0].Address = types.ControllerAddrFrom(netip.MustParseAddr("172.16.0.9"), 12345)
			w.flags["caller-address"] = true
		}
	case "mutate-caller-protocol":
		if len(w.devices) > 0 {
			if w.devices[0].Protocol == "tcp" {
				w.devices[0].Protocol = "udp"
			} else {
				w.devices[0].Protocol = "tcp"
			}
			w.flags["caller-protocol"] = true
		}
	case "mutate-caller-id":
		if len(w.devices) > 0 {
			w.devices[0].DeviceID = 99
			w.flags["caller-id"] = true
		}
	case "mutate-caller-doors":
		if len(w.devices) > 0 && len(w.devices[0].Doors) > 0 {
			w.devices[0].Doors[0] = "scribbled"
			w.flags["caller-doors"] = true
		}
	case "truncate-caller-slice":
		if len(w.devices) > 0 {
			w.devices[0] = uhppote.Device{}
			w.devices = w.devices[:0]
			w.flags["caller-truncated"] = true
		}
	case "device-list":
		if w.u != nil {
			w.list = w.u.DeviceList()
			if sh := sharedStorage(w.list, w.devices); len(sh) > 0 {
				w.viol("device-list/shares-storage-with-caller-configuration", fmt.Sprintf("the map returned by DeviceList reaches storage of the caller's device list (a = DeviceList(), b = caller's []Device): %v", sh))
			}
			if w.probeOnly {
				break // repeated serial numbers: which entry wins is not judged, only who shares storage with whom
			}
			// the list must describe the configuration as constructed (name, id, address, protocol)
			for id, want := range w.built {
				if d, ok := w.list[id]; ok && renderDevice(d) != want {
					w.viol("device-list/follows-caller-data", fmt.Sprintf("DeviceList[%d] = %s, constructed with %s (caller-side mutations: %v)", id, renderDevice(d), want, w.flagList()))
				}
			}
			if len(w.list) != len(w.built) {
				w.viol("device-list/size", fmt.Sprintf("DeviceList has %d entries, %d controllers were configured", len(w.list), len(w.built)))
			}
			for id, r := range w.routes {
				d, ok := w.list[id]
				if r.method == "BroadcastTo" && !ok {
					continue
				}
				if !ok {
					w.viol("device-list/missing", fmt.Sprintf("controller %d missing from DeviceList", id))
				} else if d.DeviceID != id {
					w.viol("device-list/follows-caller-data", fmt.Sprintf("DeviceList[%d].DeviceID = %d (caller-side mutations: %v)", id, d.DeviceID, w.flagList()))
				} else if r.method != "BroadcastTo" && d.Address.String() != strings.TrimSuffix(r.addr, ":60000") && d.Address.AddrPort.String() != r.addr {
					w.viol("device-list/follows-caller-data", fmt.Sprintf("DeviceList[%d].Address = %v, constructed with %s (caller-side mutations: %v)", id, d.Address, r.addr, w.flagList()))
				}
			}
		}
	case "mutate-device-list":
		if w.list != nil {
			for k, d := range w.list {
				d.Address = types.ControllerAddrFrom(netip.MustParseAddr("172.16.0.10"), 2222)
				d.Protocol = "tcp"
				d.DeviceID = 7
				w.list[k] = d
			}
			delete(w.list, target)
			w.list[12345] = uhppote.Device{DeviceID: 12345}
			// entries added under the serial numbers the calls use (target: removed above and put back
			// with another address; other: not configured in some configurations) change nothing either
			for _, sn := range []uint32{target, other} {
				if _, ok := w.list[sn]; !ok {
					w.list[sn] = uhppote.Device{Name: "added by the caller", DeviceID: sn, Address: types.ControllerAddrFrom(netip.MustParseAddr("172.16.0.11"), 3333), Protocol: "tcp"}
				}
			}
			w.flags["caller-list"] = true
		}
	case "call-GetDevice":
		w.call("GetDevice", target, func() (any, error) { return w.u.GetDevice(target) })
	case "call-GetCards-other":
		w.call("GetCards", other, func() (any, error) { _, err := w.u.GetCards(other); return nil, err })
	case "call-PutCard":
		w.call("PutCard", target, func() (any, error) { _, err := w.u.PutCard(target, w.card); return nil, err })
	case "call-SetDoorPasscodes":
		w.call("SetDoorPasscodes", target, func() (any, error) { _, err := w.u.SetDoorPasscodes(target, 3, w.codes[0:3]...); return nil, err })
	case "call-PutCard-formats":
		w.call("PutCard", target, func() (any, error) { _, err := w.u.PutCard(target, w.card, w.formats[0:3]...); return nil, err })
	case "call-SetTimeProfile":
		w.call("SetTimeProfile", target, func() (any, error) { _, err := w.u.SetTimeProfile(target, w.profile); return nil, err })
	case "call-AddTask":
		w.call("AddTask", other, func() (any, error) { _, err := w.u.AddTask(other, w.task); return nil, err })
	case "call-ActivateKeypads":
		w.call("ActivateKeypads", target, func() (any, error) { _, err := w.u.ActivateKeypads(target, w.readers); return nil, err })
	case "call-GetStatus":
		w.call("GetStatus", target, func() (any, error) { return w.u.GetStatus(target) })
	case "call-GetTimeProfile":
		w.call("GetTimeProfile", target, func() (any, error) { return w.u.GetTimeProfile(target, 29) })
	case "call-GetCardByID":
		w.call("GetCardByID", other, func() (any, error) { return w.u.GetCardByID(other, 8165538) })
	case "call-GetListener":
		w.call("GetListener", target, func() (any, error) {
			ap, _, err := w.u.GetListener(target)
			return &ap, err
		})
	case "call-SetAddress":
		// telling the controller to take another IP address changes the controller, not the configuration
		// the client was built with: later requests still go where that configuration says
		w.call("SetAddress", target, func() (any, error) {
			_, err := w.u.SetAddress(target, net.IPv4(192, 168, 1, 125), net.IPv4(255, 255, 255, 0), net.IPv4(192, 168, 1, 1))
			return nil, err
		})
	case "call-SetListener":
		w.call("SetListener", target, func() (any, error) {
			_, err := w.u.SetListener(target, netip.MustParseAddrPort("192.168.1.100:60001"), 0)
			return nil, err
		})
	case "scribble-buffers":
		if w.fake != nil {
			for _, b := range w.fake.Delivered {
				for i := range b {
					b[i] = ^b[i]
				}
			}
		}
	case "mutate-returned":
		// change everything mutable in the values returned so far; later results must not follow
		for i := range w.held {
			switch v := w.held[i].val.(type) {
			case *types.Status:
				v.DoorState[1] = !v.DoorState[1]
				v.DoorButton[7] = true
			case *types.Card:
				v.Doors[1]++
				v.Doors[9] = 9
			case *types.TimeProfile:
				v.Weekdays[time.Sunday] = !v.Weekdays[time.Sunday]
				v.Segments[1] = types.Segment{}
			case *types.Device:
				if len(v.IpAddress) > 0 {
					v.IpAddress[len(v.IpAddress)-1]++
				}
				if len(v.MacAddress) > 0 {
					v.MacAddress[0]++
				}
			}
			w.held[i].snap = render(w.held[i].val)
		}
	case "clone-card-mutate-clone":
		c := w.card.Clone()
		if cardView(c) != cardView(w.card) {
			w.viol("clone/card-not-equal", "Card.Clone() differs from the original")
		}
		if sh := sharedStorage(w.card, c); len(sh) > 0 {
			w.viol("clone/card-shares-storage", fmt.Sprintf("Card.Clone() shares mutable storage with the original (a = original, b = clone): %v", sh))
		}
		before := render(w.card)
		c.Doors[1], c.Doors[4] = 77, 78
		c.PIN = 1
		if render(w.card) != before {
			w.viol("clone/card-shares-storage", "mutating a Card clone changed the original")
		}
		w.cardC = &c
	case "clone-card-mutate-original":
		c := w.card.Clone()
		before := render(c)
		w.card.Doors[2] = 55
		if render(c) != before {
			w.viol("clone/card-shares-storage", "mutating the original Card changed its clone")
		}
		w.card.Doors[2] = 0
	case "clone-device-mutate":
		if len(w.devices) > 0 {
			orig := w.devices[0]
			c := orig.Clone()
			if renderDevice(c) != renderDevice(orig) {
				w.viol("clone/device-not-equal", fmt.Sprintf("Device.Clone() = %s, original %s", renderDevice(c), renderDevice(orig)))
			}
			if sh := sharedStorage(orig, c); len(sh) > 0 {
				w.viol("clone/device-shares-storage", fmt.Sprintf("Device.Clone() shares mutable storage with the original (a = original, b = clone): %v", sh))
			}
			before := renderDevice(orig)
			if len(c.Doors) > 0 {
				c.Doors[0] = "clone"
			}
			if renderDevice(orig) != before {
				w.viol("clone/device-shares-storage", "mutating a Device clone changed the original")
			}
		}
	}
	// invariant: everything returned so far still equals its snapshot
	for _, h := range w.held {
		if now := render(h.val); now != h.snap {
			w.viol("returned-value-changed/"+h.name, fmt.Sprintf("a value returned by %s changed afterwards (event %s): %s -> %s", h.name, ev, h.snap, now))
		}
	}
}

func (w *world) key() string {
	names := []string{}
	for _, h := range w.held {
		names = append(names, h.name)
	}
	return fmt.Sprintf("%d|%v|%v|%v|%v", w.cfg, w.u != nil, w.flagList(), names, w.list != nil)
}

func main() {
	r := vk.Start("C17", "model_checking")
	depth := 4
	if r.Thorough() {
		depth = 5
	}
	run := func(seq []int, report bool) string {
		names := make([]string, len(seq))
		for i, e := range seq {
			names[i] = events[e]
		}
		w := newWorld(func(key, what string) {
			if report {
				r.Violation("C17/"+key, what+" — history "+strings.Join(names, " ; "), "history", map[string]any{"events": names})
			}
		})
		for _, e := range seq {
			var msg, frame string
			var p bool
			if p, msg, frame = vk.Guard(func() { w.apply(events[e]) }); p {
				if report {
					r.Violation("C17/panic/"+frame, msg+" — history "+strings.Join(names, " ; "), "history", map[string]any{"events": names})
				}
				break
			}
		}
		return w.key()
	}
	if r.Replay != "" {
		_, raw, err := vk.LoadReplay(r.Replay)
		if err != nil {
			r.Machinery("cannot load replay: %v", err)
			r.Finish()
		}
		var c struct{ Events []string }
		json.Unmarshal(raw, &c)
		seq := []int{}
		for _, n := range c.Events {
			for i, e := range events {
				if e == n {
					seq = append(seq, i)
				}
			}
		}
		fmt.Printf("replaying history %v\n", c.Events)
		run(seq, true)
		r.Count(1)
		r.Distinct(2)
		r.Finish()
	}

	// storage probe: the same three configurations with every reference-typed field of Device that is
	// nil given a fresh non-nil value by reflection (so a field this harness does not know by name takes
	// part); no call is made through these clients - only who reaches whose storage is examined
	for probe := 0; probe < 10; probe++ {
		cfg, empty := probe%3, probe >= 3 && probe < 6
		if probe >= 6 { // configuration 3 (repeated serial numbers): as written, references populated, slices emptied, references only
			cfg, empty = 3, probe == 8
		}
		how := "every nil reference field of Device populated"
		if empty {
			how += ", every slice empty with spare capacity"
		}
		w := newWorld(func(key, what string) {
			r.Violation("C17/"+key, fmt.Sprintf("%s — configuration %d with %s", what, cfg, how), "history", map[string]any{"events": []string{fmt.Sprintf("construct-%d", cfg), "clone-device-mutate", "device-list"}})
		})
		w.fill, w.emptySlices = probe != 6 && probe != 9, empty
		w.probeOnly = cfg == 3
		if p, msg, frame := vk.Guard(func() {
			w.construct(cfg)
			w.apply("clone-device-mutate")
			w.apply("device-list")
		}); p {
			r.Violation("C17/panic/"+frame, msg+" — storage probe", "history", map[string]any{"events": []string{fmt.Sprintf("construct-%d", cfg)}})
		}
		r.Count(3)
	}

	var mu sync.Mutex
	states := map[string]bool{}
	var transitions int64
	var sample [][]string
	// every history starts with a construct event (nothing else is enabled before)
	type job struct{ first, second int }
	jobs := []job{}
	for f := 0; f < len(events) && strings.HasPrefix(events[f], "construct-"); f++ {
		for s := 0; s < len(events); s++ {
			jobs = append(jobs, job{f, s})
		}
	}
	vk.Parallel(len(jobs), func(i int) {
		local := map[string]bool{}
		var n int64
		var rec func(seq []int)
		rec = func(seq []int) {
			k := run(seq, true)
			local[k] = true
			n++
			if len(seq) < depth {
				for e := range events {
					rec(append(append([]int{}, seq...), e))
				}
			}
		}
		rec([]int{jobs[i].first, jobs[i].second})
		mu.Lock()
		for k := range local {
			states[k] = true
		}
		transitions += n
		if len(sample) < 3 {
			sample = append(sample, []string{events[jobs[i].first], events[jobs[i].second], "…"})
		}
		mu.Unlock()
	})
	for f := 0; f < 3; f++ {
		states[run([]int{f}, true)] = true
		transitions++
	}
	r.Count(transitions)
	r.Distinct(int64(len(states)))
	r.Set("states", len(states))
	r.Set("transitions", transitions)
	r.Set("traces_validated_against_impl", transitions)
	r.Set("depth", depth)
	r.Set("events", events)
	r.Sample(map[string]any{"history": []string{"construct-0", "mutate-caller-address", "call-GetDevice", "scribble-buffers"}, "invariants": "routing as constructed; arguments unchanged; returned values equal their snapshots"})
	r.Sample(map[string]any{"history": []string{"construct-1", "call-GetStatus", "mutate-returned", "call-GetStatus"}})
	r.Rule(fmt.Sprintf("every event sequence of length <= %d that starts with a construct event, over %d events; each sequence is executed on a fresh instance (the real library behind a scripted driver, so every explored transition is an implementation transition); states = distinct canonical keys (configuration as constructed, caller-side mutation flags, values held, DeviceList held)", depth, len(events)))
	r.Assume("receive-buffer reuse inside the real driver (the listener's single 2048-byte buffer) is covered by C10's 'event-changed-afterwards' oracle under engine E1")
	r.Finish()
}
