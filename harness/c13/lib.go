// Library side of C13: every call into uhppote-core that the check makes, the observation it
// takes (civil fields read through time.Time(...).Date()/Clock(), String(), wire and JSON
// re-encodings) and the comparison with the reference in ref.go.
package main

import (
	"bytes"
	"encoding/binary"
	"encoding/json"
	"fmt"
	"os"
	"reflect"
	"strings"
	"time"

	codec "github.com/uhppoted/uhppote-core/encoding/UTO311-L0x"
	"github.com/uhppoted/uhppote-core/types"
	"github.com/uhppoted/uhppote-core/uhppote"
	"verif/drv"
	"verif/vk"
)

const serial = 405419896

// kase is the replayable description of one evaluated case.
type kase struct {
	Fn   string `json:"fn"`            // library function / API path under test
	Via  string `json:"via,omitempty"` // how it was reached (direct call, codec, json.Unmarshal)
	Zone string `json:"zone"`          // process time zone (time.Local)
	Y    int    `json:"year"`
	M    int    `json:"month"`
	D    int    `json:"day"`
	H    int    `json:"hour"`
	Mi   int    `json:"minute"`
	S    int    `json:"second"`
	Note string `json:"note,omitempty"`
	// After: the process zone was this one while the library was used first, and was changed to Zone
	// (time.Local reassigned) afterwards
	After string `json:"zone_before,omitempty"`
}

type counters struct {
	Evals        int64 `json:"evals"`         // library calls executed
	Judged       int64 `json:"judged"`        // distinct (function, input) cases compared with the reference
	Unjudged     int64 `json:"unjudged"`      // executed but exempt/unconstrained (civil day or time has no instant)
	SweepDays    int64 `json:"sweep_days"`    // (a) ToDate full sweep
	DateCases    int64 `json:"date_cases"`    // (b) constructor/decoder cases
	SysDateCases int64 `json:"sysdate_cases"` // (b) two-digit system date cases
	StatusCases  int64 `json:"status_cases"`  // (b) GetStatus + listener recombination cases
	DateTimes    int64 `json:"datetime_cases"`
	Flagged      int64 `json:"flagged_days"`
	MidnightSkip int64 `json:"midnight_skipped_days"`
}

type ctx struct {
	r       *vk.Run
	z       *zoneRef
	after   string // zone-change workers: the zone the process had while the library was first used
	cnt     counters
	verbose bool

	u     uhppote.IUHPPOTE
	fake  *drv.Fake
	reply []byte
	ls    *listenSession

	// a second client that has the controller configured with a time zone of its own (a zone with
	// offset changes, different from the process zone): what a status means does not depend on it
	u2    uhppote.IUHPPOTE
	fake2 *drv.Fake
	ls2   *listenSession
	dev   *time.Location

	cur kase // the case being executed (for panic reports)

	viol      map[string]*found
	violOrder []string
}

func newCtx(r *vk.Run, z *zoneRef) *ctx {
	c := &ctx{r: r, z: z}
	c.u = uhppote.NewUHPPOTE(types.BindAddr{}, types.BroadcastAddr{}, types.ListenAddr{}, time.Second, nil, false)
	c.fake = &drv.Fake{Script: func(drv.Call) ([][]byte, error) {
		return [][]byte{append([]byte{}, c.reply...)}, nil
	}}
	if !drv.Install(c.u, c.fake) {
		r.Machinery("cannot install the fake driver")
	}
	devZone := "America/Santiago"
	if z != nil && z.name == devZone {
		devZone = "Europe/London"
	}
	if loc, err := time.LoadLocation(devZone); err == nil {
		c.dev = loc
		c.u2 = uhppote.NewUHPPOTE(types.BindAddr{}, types.BroadcastAddr{}, types.ListenAddr{}, time.Second,
			[]uhppote.Device{uhppote.NewDevice("configured", serial, types.ControllerAddr{}, "udp", nil, loc)}, false)
		c.fake2 = &drv.Fake{Script: func(drv.Call) ([][]byte, error) {
			return [][]byte{append([]byte{}, c.reply...)}, nil
		}}
		if !drv.Install(c.u2, c.fake2) {
			r.Machinery("cannot install the fake driver")
		}
	}
	return c
}

func (c *ctx) say(format string, a ...any) {
	if c.verbose {
		fmt.Printf(format+"\n", a...)
	}
}

// found is one violation key as seen by this process: the first failing case, and the first
// failing case in the years 2000..2068 if there is one (preferred as the recorded example: a
// present-day date is a more useful replay than an 1847 local-mean-time change).
type found struct {
	Key    string `json:"key"`
	What   string `json:"what"`
	Case   kase   `json:"case"`
	Modern bool   `json:"modern"`
	Count  int64  `json:"count"`
}

func (c *ctx) violation(key, what string, k kase) {
	k.Zone = c.z.name
	c.say("  => VIOLATION %s: %s", key, what)
	what = fmt.Sprintf("[TZ=%s] %s", c.z.name, what)
	if c.after != "" {
		k.After = c.after
		key = strings.Replace(key, "C13/", "C13/after-zone-change/", 1)
		what = fmt.Sprintf("[time.Local was %s while the library was first used, then set to %s] %s", c.after, c.z.name, what)
	}
	modern := k.Y >= 2000 && k.Y <= 2068
	if f, ok := c.viol[key]; ok {
		f.Count++
		if modern && !f.Modern {
			f.What, f.Case, f.Modern = what, k, true
		}
		return
	}
	if c.viol == nil {
		c.viol = map[string]*found{}
	}
	c.viol[key] = &found{Key: key, What: what, Case: k, Modern: modern, Count: 1}
	c.violOrder = append(c.violOrder, key)
}

func (c *ctx) found() []found {
	out := []found{}
	for _, key := range c.violOrder {
		out = append(out, *c.viol[key])
	}
	return out
}

// ---------------------------------------------------------------------------------------------
// dates

type dateObs struct {
	refused bool // an optional spelling / reflected method refused the text: not judged
	err     string
	y, m, d int
	text    string
	wire    []byte
	js      string
}

type dateMsg struct {
	MsgType types.MsgType `uhppote:"value:0x20"`
	D       types.Date    `uhppote:"offset:8"`
}

type datePtrMsg struct {
	MsgType types.MsgType `uhppote:"value:0x20"`
	D       *types.Date   `uhppote:"offset:8"`
}

func observeDate(dt types.Date) dateObs {
	t := time.Time(dt)
	y, m, d := t.Date()
	o := dateObs{y: y, m: int(m), d: d, text: dt.String()}
	if b, err := dt.MarshalUT0311L0x(); err != nil {
		o.err = "MarshalUT0311L0x: " + err.Error()
	} else {
		o.wire = b
	}
	if b, err := dt.MarshalJSON(); err != nil {
		o.err = "MarshalJSON: " + err.Error()
	} else {
		o.js = string(b)
	}
	return o
}

var dateFns = []struct{ fn, via string }{
	{"ToDate", "direct"},
	{"ParseDate", "direct"},
	{"Date.UnmarshalUT0311L0x", "direct"},
	{"Date.UnmarshalJSON", "direct"},
}

var dateFnsExtra = []struct{ fn, via string }{
	{"Date.UnmarshalUT0311L0x", "codec-value-field"},
	{"Date.UnmarshalUT0311L0x", "codec-pointer-field"},
	{"Date.UnmarshalJSON", "json.Unmarshal"},
	{"ParseDate", "spelling:/"}, {"ParseDate", "spelling:."}, {"ParseDate", "spelling: "}, {"ParseDate", "spelling:none"},
	{"ParseDate", "spelling:unpadded"}, {"ParseDate", "spelling:day-first"}, {"ParseDate", "spelling:T"},
}

// dayRef is the reference rendering of one civil day (computed once per day, used by all functions).
type dayRef struct {
	y, m, d int
	text    string  // YYYY-MM-DD
	wire    [4]byte // BCD YYYYMMDD
	js      []byte  // "YYYY-MM-DD" with the quotes
}

func mkDay(y, m, d int) *dayRef {
	r := &dayRef{y: y, m: m, d: d, text: refDateText(y, m, d), wire: refDateWire(y, m, d)}
	r.js = []byte(`"` + r.text + `"`)
	return r
}

// libDate runs one of the date constructors/decoders of the library on a civil day.
func libDate(fn, via string, day *dayRef) dateObs {
	wire, text, y, m, d := day.wire, day.text, day.y, day.m, day.d
	switch fn {
	case "ToDate":
		return observeDate(types.ToDate(y, time.Month(m), d))

	case "ParseDate":
		if strings.HasPrefix(via, "spelling:") {
			// other spellings of the same day (separators '/', '.', ' ', none; no zero padding; day first):
			// a parser is free to refuse them (C14 judges which texts are dates), but a spelling it accepts
			// is a date parsed from text like any other and must show its civil day
			sep := strings.TrimPrefix(via, "spelling:")
			alt := fmt.Sprintf("%04d%s%02d%s%02d", y, sep, m, sep, d)
			switch sep {
			case "unpadded":
				alt = fmt.Sprintf("%d-%d-%d", y, m, d)
			case "day-first":
				alt = fmt.Sprintf("%02d-%02d-%04d", d, m, y)
			case "none":
				alt = fmt.Sprintf("%04d%02d%02d", y, m, d)
			case "T":
				alt = text + "T00:00:00"
			}
			dt, err := types.ParseDate(alt)
			if err != nil || dt.IsZero() {
				return dateObs{refused: true}
			}
			return observeDate(dt)
		}
		dt, err := types.ParseDate(text)
		if err != nil {
			return dateObs{err: err.Error()}
		}
		return observeDate(dt)

	case "Date.UnmarshalUT0311L0x":
		switch via {
		case "codec-value-field", "codec-pointer-field":
			msg := make([]byte, 64)
			msg[0], msg[1] = 0x17, 0x20
			copy(msg[8:], wire[:])
			if via == "codec-value-field" {
				var v dateMsg
				if err := codec.Unmarshal(msg, &v); err != nil {
					return dateObs{err: err.Error()}
				}
				return observeDate(v.D)
			}
			var v datePtrMsg
			if err := codec.Unmarshal(msg, &v); err != nil {
				return dateObs{err: err.Error()}
			} else if v.D == nil {
				return dateObs{err: "pointer field left nil"}
			}
			return observeDate(*v.D)
		}
		var dt types.Date
		v, err := dt.UnmarshalUT0311L0x(wire[:])
		if err != nil {
			return dateObs{err: err.Error()}
		}
		p, ok := v.(*types.Date)
		if !ok || p == nil {
			return dateObs{err: fmt.Sprintf("returned %T", v)}
		}
		return observeDate(*p)

	case "Date.UnmarshalJSON":
		var dt types.Date
		var err error
		if via == "json.Unmarshal" {
			err = json.Unmarshal(day.js, &dt)
		} else {
			err = dt.UnmarshalJSON(day.js)
		}
		if err != nil {
			return dateObs{err: err.Error()}
		}
		return observeDate(dt)
	}
	if via == "reflected-method" {
		return reflectedDate(strings.TrimPrefix(fn, "Date."), day)
	}
	return dateObs{err: "unknown function " + fn}
}

// Entry points this harness does not know by name: every method of *types.Date that takes one
// []byte, string or interface{} argument and returns only an error (encoding.TextUnmarshaler,
// encoding.BinaryUnmarshaler, flag.Value's Set, sql.Scanner, ...) is offered the date as text
// "YYYY-MM-DD"; when the method accepts it, the receiver must show that civil day like any other
// way of obtaining a date (a method that refuses the text is not judged: its format is unknown).
var knownDateMethods = map[string]bool{"UnmarshalUT0311L0x": true, "UnmarshalJSON": true}

func discoverDateMethods() (names []string) {
	t := reflect.TypeOf(&types.Date{})
	errT := reflect.TypeOf((*error)(nil)).Elem()
	for i := 0; i < t.NumMethod(); i++ {
		m := t.Method(i)
		if knownDateMethods[m.Name] || m.Type.NumIn() != 2 || m.Type.NumOut() != 1 || m.Type.Out(0) != errT {
			continue
		}
		switch in := m.Type.In(1); {
		case in.Kind() == reflect.String, in.Kind() == reflect.Slice && in.Elem().Kind() == reflect.Uint8, in.Kind() == reflect.Interface && in.NumMethod() == 0:
			names = append(names, m.Name)
		}
	}
	return
}

func init() {
	for _, n := range discoverDateMethods() {
		dateFnsExtra = append(dateFnsExtra, struct{ fn, via string }{"Date." + n, "reflected-method"})
	}
}

func reflectedDate(method string, day *dayRef) dateObs {
	var dt types.Date
	m := reflect.ValueOf(&dt).MethodByName(method)
	if !m.IsValid() {
		return dateObs{err: "no method " + method}
	}
	var arg reflect.Value
	switch in := m.Type().In(0); {
	case in.Kind() == reflect.String:
		arg = reflect.ValueOf(day.text).Convert(in)
	case in.Kind() == reflect.Slice:
		arg = reflect.ValueOf([]byte(day.text)).Convert(in)
	default:
		arg = reflect.ValueOf(day.text)
	}
	if err, _ := m.Call([]reflect.Value{arg})[0].Interface().(error); err != nil {
		// not judged: report the reference values so that checkDay counts the case as agreeing
		return dateObs{refused: true}
	}
	return observeDate(dt)
}

func (c *ctx) dateCause(y, m, d int) string {
	if !c.z.midnight(y, m, d) {
		return "midnight-skipped"
	}
	return "wrong-date"
}

// checkDate runs fn on y-m-d and judges it. The day is exempt iff it has no instant in the zone.
func (c *ctx) checkDate(fn, via string, y, m, d int) { c.checkDay(fn, via, mkDay(y, m, d)) }

func (c *ctx) checkDay(fn, via string, day *dayRef) {
	y, m, d := day.y, day.m, day.d
	o := libDate(fn, via, day)
	c.cnt.Evals++
	if o.refused {
		c.cnt.Unjudged++ // an optional entry point / spelling that the library does not accept: nothing to judge
		return
	}
	want := day.text
	wire := day.wire
	if c.verbose {
		c.say("%s(%s) via %s in %s: library = %04d-%02d-%02d String=%q wire=%x json=%s err=%q | reference = %s wire=%x (00:00 exists: %v)",
			fn, want, via, c.z.name, o.y, o.m, o.d, o.text, o.wire, o.js, o.err, want, wire, c.z.midnight(y, m, d))
	}
	if o.err == "" && o.y == y && o.m == m && o.d == d && o.text == want && bytes.Equal(o.wire, wire[:]) && o.js == string(day.js) {
		c.cnt.Judged++
		return
	}
	k := kase{Fn: fn, Via: via, Y: y, M: m, D: d}
	c.cur = k
	if !c.z.midnight(y, m, d) && !c.z.dayHasInstant(y, m, d) {
		c.cnt.Unjudged++ // the zone skipped this calendar day entirely: exempt
		c.say("  (exempt: %s has no instant in %s)", want, c.z.name)
		return
	}
	c.cnt.Judged++
	cause := c.dateCause(y, m, d)
	switch {
	case o.err != "":
		c.violation("C13/"+fn+"/error", fmt.Sprintf("%s(%s) failed: %s", fn, want, o.err), k)
	case o.y != y || o.m != m || o.d != d:
		c.violation("C13/"+fn+"/"+cause, fmt.Sprintf("%s(%s) reports %04d-%02d-%02d (String %q, wire %x)", fn, want, o.y, o.m, o.d, o.text, o.wire), k)
	case o.text != want:
		c.violation("C13/"+fn+"/String/"+cause, fmt.Sprintf("%s(%s).String() = %q", fn, want, o.text), k)
	case !bytes.Equal(o.wire, wire[:]):
		c.violation("C13/"+fn+"/re-encode-wire/"+cause, fmt.Sprintf("%s(%s) encodes back to %x, want %x", fn, want, o.wire, wire), k)
	default:
		c.violation("C13/"+fn+"/re-encode-json/"+cause, fmt.Sprintf("%s(%s) encodes back to JSON %s", fn, want, o.js), k)
	}
}

// ---------------------------------------------------------------------------------------------
// two-digit system date. The wire form carries YY only and the property leaves the century
// open, so the reference compares (YY, MM, DD) and demands them only when the civil day exists in
// the zone under both candidate centuries (19YY and 20YY); otherwise the case is unconstrained.

func (c *ctx) sysDateJudgeable(yy, m, d int) (judge bool, cause string) {
	cause = "wrong-date"
	judge = true
	for _, y := range []int{1900 + yy, 2000 + yy} {
		if d > daysIn(y, m) { // 29 February in only one of the centuries
			return false, cause
		}
		if !c.z.midnight(y, m, d) {
			cause = "midnight-skipped"
			if !c.z.dayHasInstant(y, m, d) {
				judge = false
			}
		}
	}
	return
}

func (c *ctx) checkSysDate(y, m, d int) {
	k := kase{Fn: "SystemDate.UnmarshalUT0311L0x", Via: "direct", Y: y, M: m, D: d}
	c.cur = k
	yy := y % 100
	wire := refSysDateWire(y, m, d)
	want := refDateText(y, m, d)[2:]

	var sd types.SystemDate
	v, err := sd.UnmarshalUT0311L0x(wire[:])
	c.cnt.Evals++
	judge, cause := c.sysDateJudgeable(yy, m, d)
	if err != nil {
		if judge {
			c.cnt.Judged++
			c.violation("C13/SystemDate.UnmarshalUT0311L0x/error", fmt.Sprintf("decoding system date %x failed: %v", wire, err), k)
		}
		return
	}
	p, ok := v.(*types.SystemDate)
	if !ok || p == nil {
		c.cnt.Judged++
		c.violation("C13/SystemDate.UnmarshalUT0311L0x/error", fmt.Sprintf("decoding system date %x returned %T", wire, v), k)
		return
	}
	ly, lm, ld := time.Time(*p).Date()
	text := p.String()
	enc, eerr := p.MarshalUT0311L0x()
	c.say("SystemDate.UnmarshalUT0311L0x(%x) in %s: library = %04d-%02d-%02d String=%q wire=%x | reference = ..%s wire=%x (judged: %v)",
		wire, c.z.name, ly, lm, ld, text, enc, want, wire, judge)
	if !judge {
		c.cnt.Unjudged++
		return
	}
	c.cnt.Judged++
	switch {
	case ly%100 != yy || int(lm) != m || ld != d:
		c.violation("C13/SystemDate.UnmarshalUT0311L0x/"+cause, fmt.Sprintf("system date %x (YY-MM-DD %s) reports %04d-%02d-%02d", wire, want, ly, lm, ld), k)
	case len(text) != 10 || text[2:] != want:
		c.violation("C13/SystemDate.UnmarshalUT0311L0x/String/"+cause, fmt.Sprintf("system date %x: String() = %q", wire, text), k)
	case eerr != nil || !bytes.Equal(enc, wire[:]):
		c.violation("C13/SystemDate.UnmarshalUT0311L0x/re-encode-wire/"+cause, fmt.Sprintf("system date %x encodes back to %x (%v)", wire, enc, eerr), k)
	}
}

// ---------------------------------------------------------------------------------------------
// date-times off the wire

func civilOf(t time.Time) (y, m, d, h, mi, s int) {
	yy, mm, dd := t.Date()
	h, mi, s = t.Clock()
	return yy, int(mm), dd, h, mi, s
}

// fastDateTime is the hot-loop form: true iff decode + report + re-encode are all as transmitted.
func fastDateTime(w *[7]byte, y, m, d, h, mi, s int) bool {
	var dt types.DateTime
	v, err := dt.UnmarshalUT0311L0x(w[:])
	if err != nil {
		return false
	}
	p, ok := v.(*types.DateTime)
	if !ok || p == nil {
		return false
	}
	ly, lm, ld, lh, lmi, ls := civilOf(time.Time(*p))
	if ly != y || lm != m || ld != d || lh != h || lmi != mi || ls != s {
		return false
	}
	enc, err := p.MarshalUT0311L0x()
	return err == nil && bytes.Equal(enc, w[:])
}

func (c *ctx) checkDateTime(y, m, d, h, mi, s int, class string) {
	k := kase{Fn: "DateTime.UnmarshalUT0311L0x", Via: "direct", Y: y, M: m, D: d, H: h, Mi: mi, S: s, Note: class}
	c.cur = k
	w := refDateTimeWire(y, m, d, h, mi, s)
	want := refDateTimeText(y, m, d, h, mi, s)
	exists := c.z.exists(y, m, d, h, mi, s)
	c.cnt.Evals++

	var dt types.DateTime
	v, err := dt.UnmarshalUT0311L0x(w[:])
	p, ok := v.(*types.DateTime)
	if err != nil || !ok || p == nil {
		c.say("DateTime.UnmarshalUT0311L0x(%x) in %s: library = %T, %v | reference = %s (exists: %v)", w, c.z.name, v, err, want, exists)
		if exists {
			c.cnt.Judged++
			c.violation("C13/DateTime.UnmarshalUT0311L0x/error", fmt.Sprintf("decoding %x failed: %T %v", w, v, err), k)
		} else {
			c.cnt.Unjudged++
		}
		return
	}
	ly, lm, ld, lh, lmi, ls := civilOf(time.Time(*p))
	got := refDateTimeText(ly, lm, ld, lh, lmi, ls)
	text := p.String()
	enc, eerr := p.MarshalUT0311L0x()
	c.say("DateTime.UnmarshalUT0311L0x(%x) in %s: library = %s String=%q wire=%x | reference = %s (civil time exists: %v)", w, c.z.name, got, text, enc, want, exists)
	if !exists {
		c.cnt.Unjudged++ // civil time falls into a gap of the zone: exempt
		return
	}
	c.cnt.Judged++
	switch {
	case got != want:
		c.violation("C13/DateTime.UnmarshalUT0311L0x/wrong-civil-time/"+class, fmt.Sprintf("date-time %x (%s) reports %s", w, want, got), k)
	case text != want:
		c.violation("C13/DateTime.UnmarshalUT0311L0x/String/"+class, fmt.Sprintf("date-time %x: String() = %q", w, text), k)
	case eerr != nil || !bytes.Equal(enc, w[:]):
		c.violation("C13/DateTime.UnmarshalUT0311L0x/re-encode-wire/"+class, fmt.Sprintf("date-time %x encodes back to %x (%v)", w, enc, eerr), k)
	}
}

// ---------------------------------------------------------------------------------------------
// status: system date + system time recombination (GetStatus reply and listener event)

// statusDatagram is a get-status reply / event datagram (function 0x20) written out from the
// protocol layout: controller id at 4, event index 8, type 12, granted 13, door 14, direction 15,
// card 16, event timestamp 20 (7 BCD bytes YYYYMMDDHHmmss), reason 27, system time 37 (3 BCD bytes
// HHmmss), sequence 40, system date 51 (3 BCD bytes YYMMDD).
func statusDatagram(y, m, d, h, mi, s int) []byte {
	b := make([]byte, 64)
	b[0], b[1] = 0x17, 0x20
	binary.LittleEndian.PutUint32(b[4:], serial)
	binary.LittleEndian.PutUint32(b[8:], 17)
	b[12], b[13], b[14], b[15] = 1, 1, 2, 1
	binary.LittleEndian.PutUint32(b[16:], 10058400)
	ts := refDateTimeWire(y, m, d, h, mi, s)
	copy(b[20:], ts[:])
	b[27] = 1
	b[37], b[38], b[39] = bcd2(h), bcd2(mi), bcd2(s)
	binary.LittleEndian.PutUint32(b[40:], 7)
	sd := refSysDateWire(y, m, d)
	copy(b[51:], sd[:])
	return b
}

type listenSession struct {
	cb        func([]byte)
	connected chan struct{}
	events    chan *types.Status
	lastErr   error
	q         chan os.Signal
	done      chan error
}

func (l *listenSession) OnConnected()            { close(l.connected) }
func (l *listenSession) OnEvent(s *types.Status) { l.events <- s }
func (l *listenSession) OnError(err error) bool  { l.lastErr = err; return true }

// startListener starts one uhppote.Listen session on the fake driver; the driver's Listen hands
// the library's datagram callback to the harness, which then invokes it synchronously per event.
func (c *ctx) startListener() { c.ls = startListenerOn(c.u, c.fake) }

func startListenerOn(u uhppote.IUHPPOTE, fake *drv.Fake) *listenSession {
	l := &listenSession{connected: make(chan struct{}), events: make(chan *types.Status, 1), q: make(chan os.Signal), done: make(chan error, 1)}
	fake.ListenFn = func(signal chan any, done chan any, callback func([]byte)) error {
		l.cb = callback
		go func() {
			<-signal
			close(done)
		}()
		return nil
	}
	go func() { l.done <- u.Listen(l, l.q) }()
	<-l.connected
	return l
}

func (c *ctx) stopListener() {
	if c.ls != nil {
		close(c.ls.q)
		<-c.ls.done
		c.ls = nil
	}
	if c.ls2 != nil {
		close(c.ls2.q)
		<-c.ls2.done
		c.ls2 = nil
	}
}

// configuredZoneTimes: the civil minutes around every offset change 2023..2025 of the zone the
// second client's controller is configured with (its skipped and repeated local hours).
func (c *ctx) configuredZoneTimes() [][6]int {
	out := [][6]int{}
	if c.dev == nil {
		return out
	}
	at := time.Date(2023, 1, 1, 12, 0, 0, 0, c.dev)
	for at.Year() <= 2025 {
		_, end := at.ZoneBounds()
		if end.IsZero() || end.Year() > 2025 {
			break
		}
		// wall-clock readings of the device zone from 2 h before to 2 h after the change, every 10 min,
		// read off on both sides of it (the skipped readings lie between the two)
		for _, side := range []time.Time{end.Add(-time.Second), end} {
			y, m, d := side.Date()
			for min := -150; min <= 150; min += 10 {
				t := time.Date(y, m, d, side.Hour(), side.Minute()+min, 0, 0, time.UTC)
				out = append(out, [6]int{t.Year(), int(t.Month()), t.Day(), t.Hour(), t.Minute(), 0})
			}
		}
		at = end.Add(48 * time.Hour)
	}
	return out
}

func (l *listenSession) push(datagram []byte) (*types.Status, error) {
	l.lastErr = nil
	l.cb(datagram) // returns after the event was handed to the dispatcher (or OnError was called)
	if l.lastErr != nil {
		return nil, l.lastErr
	}
	return <-l.events, nil
}

func (c *ctx) status(path string, datagram []byte) (*types.Status, error) {
	switch path {
	case "Listen@configured-zone":
		if c.ls2 == nil {
			c.ls2 = startListenerOn(c.u2, c.fake2)
		}
		return c.ls2.push(append([]byte{}, datagram...))
	case "GetStatus@configured-zone":
		c.reply = datagram
		return c.u2.GetStatus(serial)
	}
	if path == "Listen" {
		if c.ls == nil {
			c.startListener()
		}
		return c.ls.push(append([]byte{}, datagram...))
	}
	c.reply = datagram
	return c.u.GetStatus(serial)
}

// checkStatus feeds a status whose system date/time (two-digit year) and event timestamp (four
// digit year) carry y-m-d h:mi:s through GetStatus or the listener. The system date-time is
// judged on (YY, MM, DD, h, m, s) when the civil time exists under both candidate centuries, the
// event timestamp when the civil time exists.
func (c *ctx) checkStatus(path string, y, m, d, h, mi, s int) {
	k := kase{Fn: path, Via: "fake driver", Y: y, M: m, D: d, H: h, Mi: mi, S: s}
	c.cur = k
	yy := y % 100
	dg := statusDatagram(y, m, d, h, mi, s)
	st, err := c.status(path, dg)
	c.cnt.Evals++

	judgeSys, cause := c.sysDateJudgeable(yy, m, d)
	if judgeSys {
		judgeSys = c.z.exists(1900+yy, m, d, h, mi, s) && c.z.exists(2000+yy, m, d, h, mi, s)
	}
	if cause == "midnight-skipped" {
		cause = "midnight-skipped-day"
	} else {
		cause = "wrong-civil-time"
	}
	judgeEv := c.z.exists(y, m, d, h, mi, s)
	want := refDateTimeText(y, m, d, h, mi, s)

	if err != nil || st == nil {
		c.say("%s in %s with system date-time %s: library error %v", path, c.z.name, want[2:], err)
		if judgeSys && judgeEv {
			c.cnt.Judged++
			c.violation("C13/"+path+"/error", fmt.Sprintf("status with system date-time ..%s was not delivered: %v", want[2:], err), k)
		} else {
			c.cnt.Unjudged++
		}
		return
	}

	sy, sm, sd, sh, smi, ss := civilOf(time.Time(st.SystemDateTime))
	gotSys := refDateTimeText(sy, sm, sd, sh, smi, ss)
	ey, em, ed, eh, emi, es := civilOf(time.Time(st.Event.Timestamp))
	gotEv := refDateTimeText(ey, em, ed, eh, emi, es)
	c.say("%s in %s: library SystemDateTime = %s, Event.Timestamp = %s | transmitted system date+time = ..%s (judged: %v), event timestamp = %s (judged: %v)",
		path, c.z.name, gotSys, gotEv, want[2:], judgeSys, want, judgeEv)

	if judgeSys || judgeEv {
		c.cnt.Judged++ // one case per call, however many of its two date-times are judged
	} else {
		c.cnt.Unjudged++
	}
	if judgeSys {
		if sy < 0 || gotSys[2:] != want[2:] {
			c.violation("C13/"+path+"/sysdatetime/"+cause, fmt.Sprintf("system date %x + system time %x (..%s) reported as SystemDateTime %s", dg[51:54], dg[37:40], want[2:], gotSys), k)
		} else if enc, err := st.SystemDateTime.MarshalUT0311L0x(); err != nil || len(enc) != 7 || !bytes.Equal(enc[1:], append(append([]byte{}, dg[51:54]...), dg[37:40]...)) {
			c.violation("C13/"+path+"/sysdatetime/re-encode-wire", fmt.Sprintf("SystemDateTime %s encodes back to %x (%v)", gotSys, enc, err), k)
		}
	}
	if judgeEv {
		if gotEv != want {
			class := "wrong-civil-time"
			c.violation("C13/"+path+"/event-timestamp/"+class, fmt.Sprintf("event timestamp %x (%s) reported as %s", dg[20:27], want, gotEv), k)
		} else if enc, err := st.Event.Timestamp.MarshalUT0311L0x(); err != nil || !bytes.Equal(enc, dg[20:27]) {
			c.violation("C13/"+path+"/event-timestamp/re-encode-wire", fmt.Sprintf("event timestamp %s encodes back to %x (%v)", gotEv, enc, err), k)
		}
	}
}

// ---------------------------------------------------------------------------------------------
// trace of library results for one day (used to compare the in-process zone switch with a child
// process started with TZ=<zone>); library outputs only, no oracle.

func (c *ctx) traceDay(n int64) string {
	y, m, d := fromOrdinal(n)
	out := refDateText(y, m, d) + ":"
	for _, f := range dateFns {
		o := libDate(f.fn, f.via, mkDay(y, m, d))
		out += fmt.Sprintf(" %04d-%02d-%02d/%s/%x/%s", o.y, o.m, o.d, o.text, o.wire, o.err)
	}
	sw := refSysDateWire(y, m, d)
	var sd types.SystemDate
	if v, err := sd.UnmarshalUT0311L0x(sw[:]); err != nil {
		out += " sysdate-error"
	} else if p, ok := v.(*types.SystemDate); ok && p != nil {
		out += " " + p.String()
	}
	for _, hm := range [][3]int{{0, 0, 0}, {12, 34, 56}} {
		w := refDateTimeWire(y, m, d, hm[0], hm[1], hm[2])
		var dt types.DateTime
		if v, err := dt.UnmarshalUT0311L0x(w[:]); err != nil {
			out += " datetime-error"
		} else if p, ok := v.(*types.DateTime); ok && p != nil {
			out += " " + time.Time(*p).Format("2006-01-02T15:04:05-0700")
		}
		for _, path := range []string{"GetStatus", "Listen"} {
			if st, err := c.status(path, statusDatagram(y, m, d, hm[0], hm[1], hm[2])); err != nil || st == nil {
				out += " status-error"
			} else {
				out += " " + time.Time(st.SystemDateTime).Format("2006-01-02T15:04:05-0700")
			}
		}
	}
	c.cnt.Evals += int64(len(dateFns)) + 1 + 6
	return out
}
