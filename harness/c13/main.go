// C13 — calendar dates and times keep their civil value in every time zone.
//
// Bounded-exhaustive exploration over configurations (the process time zone) x inputs:
//
//	(a) for every zone, types.ToDate for EVERY calendar day of the tier's range (quick 1600-01-01 ..
//	    2400-12-31, thorough 0001-01-02 .. 9999-12-31): year/month/day, String() and the BCD wire
//	    form must be the civil day asked for;
//	(b) the same pass probes every day's 00:00 with time.Date in the zone and flags the days whose
//	    00:00 does not exist or whose UTC offset differs between 00:00 and 24:00; for the flagged
//	    days +-2 and the 1st, 15th and last day of every month of every year in range, all date
//	    constructors/decoders (ToDate, ParseDate, Date wire decode — direct and through the codec
//	    into value and pointer fields —, Date JSON decode, SystemDate wire decode) and the
//	    SystemDate+SystemTime recombination of a status (uhppote.GetStatus through the fake driver,
//	    and uhppote.Listen -> OnEvent) are run and re-encoded;
//	(c) DateTime wire decode around every flagged day f — up to 2100 every whole minute of f-1, f
//	    and f+1 plus second 59 of every minute of f; 2101..2437 (thorough) every whole minute of
//	    f; later years every half hour of f — and for every hour of every day of 2024.
//
// The reference (ref.go) is a hand-written calendar plus time.Date probes in the explicit
// *time.Location: a civil day is exempt iff no minute of it has an instant in the zone, a civil
// date-time iff it has no instant (it lies in a gap).
//
// Zones run in child processes of this binary (one zone per process, 16 at a time), each setting
// time.Local to the loaded location. For the quick-tier zones every flagged (zone, day) is also
// re-run in a fresh child started with TZ=<zone>, where the Go runtime initialises time.Local by
// itself, and the library's results must be identical (traces_validated_against_impl).
package main

import (
	"bufio"
	"bytes"
	"crypto/sha256"
	"encoding/binary"
	"encoding/json"
	"fmt"
	"os"
	"os/exec"
	"sort"
	"strings"
	"sync"
	"time"
	_ "time/tzdata"

	"github.com/uhppoted/uhppote-core/types"
	"verif/vk"
)

// runtimeLocal is the location the Go runtime derives from the TZ environment variable (captured
// before vk.Start pins time.Local to UTC). Only the TZ-validation children use it.
var runtimeLocal = time.Local

// quickZones: fixed offsets at both extremes, DST zones of both hemispheres without skipped
// midnights, half-hour and 45-minute zones, and the zones measured (tools: a time.Date scan of all
// 598 zones, 1900-2100) to skip local midnight most often or in unusual ways: west of Greenwich
// (time.Date resolves the missing 00:00 to the previous day), east of Greenwich (resolves to 01:00
// of the same day), 23:59->00:59-style and LMT-era gaps, and date-line jumps that delete a whole
// day. Ordered simplest first so that the first case kept per violation key is a plain one.
var quickZones = []string{
	"UTC", "Etc/GMT-14", "Etc/GMT+12",
	"Europe/London", "Europe/Berlin", "America/New_York", "Australia/Sydney", "Pacific/Auckland",
	"Asia/Kolkata", "Asia/Kathmandu", "Australia/Adelaide", "Australia/Lord_Howe", "Pacific/Chatham",
	"America/Havana", "America/Santiago", "America/Sao_Paulo", "America/Asuncion", "America/Campo_Grande",
	"America/Bahia", "America/Argentina/Buenos_Aires", "America/Belize", "America/Mexico_City", "America/Halifax",
	"America/St_Johns", "America/Scoresbysund", "America/Nuuk", "America/Godthab", "Atlantic/Azores",
	"Europe/Lisbon", "Africa/Casablanca", "Africa/Cairo", "Asia/Beirut", "Asia/Amman", "Asia/Damascus",
	"Asia/Gaza", "Asia/Tehran", "Pacific/Apia", "Pacific/Kiritimati", "Pacific/Kwajalein", "Pacific/Fakaofo",
}

// statusTimes: times of day fed through the status recombination for every case day.
var statusTimes = [][3]int{{0, 0, 0}, {0, 30, 0}, {1, 0, 0}, {2, 30, 0}, {12, 34, 56}, {23, 59, 59}}

const (
	sysYearLo = 1969 // the two-digit system date is exercised once per YY: case days of 1969..2068
	sysYearHi = 2068
	// (c) runs every whole minute around the transitions up to this year: tzdata's explicit
	// transitions end in 2037, after that each zone follows a fixed yearly rule and the calendar
	// (weekday, leap year) configurations repeat with the 400-year Gregorian cycle. Later
	// transitions (thorough tier) are still decoded at every whole hour of the transition day.
	minuteYearMax  = 2437
	minuteYearFull = 2100 // up to here also the neighbouring days and second 59 of every minute
)

type zoneOut struct {
	Zone        string     `json:"zone"`
	Cnt         counters   `json:"counters"`
	Fingerprint string     `json:"fingerprint"`
	NoInstant   []string   `json:"no_instant_days"`
	Violations  []found    `json:"violations"`
	Samples     []any      `json:"samples"`
	Flagged     []int64    `json:"flagged,omitempty"`
	Trace       []string   `json:"trace,omitempty"`
	Machinery   []string   `json:"machinery"`
	Secs        float64    `json:"secs"`
	Phases      [3]float64 `json:"phase_secs"`
}

type tzOut struct {
	Zone      string   `json:"zone"`
	Trace     []string `json:"trace"`
	Machinery []string `json:"machinery"`
}

func loadLocation(name string) (*time.Location, error) {
	if strings.HasPrefix(name, "synth|") {
		return synthLocation(name)
	}
	return time.LoadLocation(name) // system zoneinfo first, the embedded time/tzdata as fallback
}

func tierRange(r *vk.Run) (lo, hi int64) {
	if r.Thorough() {
		return ordinal(1, 1, 2), ordinal(9999, 12, 31)
	}
	// quick: wide enough to straddle 1678 and 2262 (time.Duration saturates at about +-292 years
	// around 1970), 1901 and 2038 (32-bit seconds) as well as every rule change in tzdata
	return ordinal(1600, 1, 1), ordinal(2400, 12, 31)
}

// calendarSelfTest cross-checks the hand-written day-number functions against the time package
// in UTC; a slip of mine must surface as a machinery error, never as a violation.
func calendarSelfTest() error {
	check := func(n int64) error {
		y, m, d := fromOrdinal(n)
		t := time.Unix(n*86400, 0).UTC()
		if ty, tm, td := t.Date(); ty != y || int(tm) != m || td != d || ordinal(y, m, d) != n {
			return fmt.Errorf("calendar self-test: day %d -> %04d-%02d-%02d, time package says %s", n, y, m, d, t.Format("2006-01-02"))
		}
		if d > daysIn(y, m) {
			return fmt.Errorf("calendar self-test: daysIn(%d,%d) = %d < %d", y, m, daysIn(y, m), d)
		}
		return nil
	}
	for n := ordinal(1896, 1, 1); n <= ordinal(2104, 12, 31); n++ {
		if err := check(n); err != nil {
			return err
		}
	}
	for y := 1; y <= 9999; y++ {
		for _, n := range []int64{ordinal(y, 1, 1), ordinal(y, 2, daysIn(y, 2)), ordinal(y, 3, 1), ordinal(y, 12, 31)} {
			if err := check(n); err != nil {
				return err
			}
		}
		if ordinal(y, 12, 31)+1 != ordinal(y+1, 1, 1) {
			return fmt.Errorf("calendar self-test: year %d does not end where %d starts", y, y+1)
		}
	}
	return nil
}

// ---------------------------------------------------------------------------------------------
// zone worker

// prelude: the library is used (every date and date-time entry point, a few days of 2023/2024) while
// the process zone is `after`; the caller then sets time.Local to another zone. Whatever the library
// derived from the zone at first use must not outlive the change.
func prelude(r *vk.Run, after string) (viol []found, evals int64, err error) {
	loc, err := loadLocation(after)
	if err != nil {
		return nil, 0, err
	}
	time.Local = loc
	c := newCtx(r, &zoneRef{name: after, loc: loc})
	var out zoneOut
	lo, hi := ordinal(2023, 12, 1), ordinal(2024, 3, 31)
	c.phaseB(lo, hi, nil, &out)
	c.phaseC(lo, hi, []int64{ordinal(2024, 1, 15)})
	c.stopListener()
	return c.found(), c.cnt.Evals, nil
}

func zoneWorker(r *vk.Run, name string, withTrace bool) {
	after := ""
	if i := strings.Index(name, ">"); i >= 0 {
		after, name = name[:i], name[i+1:]
	}
	start := time.Now()
	out := zoneOut{Zone: name, NoInstant: []string{}, Machinery: []string{}, Samples: []any{}, Violations: []found{}}
	var c *ctx
	emit := func() {
		if c != nil {
			out.Violations = c.found()
		}
		out.Secs = time.Since(start).Seconds()
		b, _ := json.Marshal(out)
		os.Stdout.Write(append(b, '\n'))
		os.Exit(0)
	}
	if err := calendarSelfTest(); err != nil {
		out.Machinery = append(out.Machinery, err.Error())
		emit()
	}
	loc, err := loadLocation(name)
	if err != nil {
		out.Machinery = append(out.Machinery, fmt.Sprintf("zone %s does not load: %v", name, err))
		emit()
	}
	var pre []found
	var preEvals int64
	if after != "" {
		var err error
		if pre, preEvals, err = prelude(r, after); err != nil {
			out.Machinery = append(out.Machinery, fmt.Sprintf("zone %s does not load: %v", after, err))
			emit()
		}
	}
	time.Local = loc // the configuration under test
	c = newCtx(r, &zoneRef{name: name, loc: loc})
	c.after = after
	c.cnt.Evals += preEvals
	for _, f := range pre {
		c.violation(f.Key, "(during the prelude in the first zone) "+f.What, f.Case)
	}
	lo, hi := tierRange(r)
	if after != "" {
		lo, hi = ordinal(1990, 1, 1), ordinal(2040, 12, 31)
	}

	var flagged []int64
	panicked, msg, frame := vk.Guard(func() {
		t0 := time.Now()
		flagged = c.phaseA(lo, hi, &out)
		t1 := time.Now()
		c.phaseB(lo, hi, flagged, &out)
		t2 := time.Now()
		c.phaseC(lo, hi, flagged)
		out.Phases = [3]float64{t1.Sub(t0).Seconds(), t2.Sub(t1).Seconds(), time.Since(t2).Seconds()}
		if withTrace {
			out.Flagged = flagged
			for _, n := range flagged {
				out.Trace = append(out.Trace, c.traceDay(n))
			}
		}
		c.stopListener()
	})
	if panicked {
		c.violation("C13/panic/"+frame, "library panicked: "+msg, c.cur)
	}
	out.Cnt = c.cnt
	emit()
}

// phaseA: full ToDate sweep + midnight/offset scan of [lo, hi].
func (c *ctx) phaseA(lo, hi int64, out *zoneOut) (flagged []int64) {
	fp := sha256.New()
	var rec [17]byte
	flag := func(n int64) {
		if n < lo || n > hi {
			return
		}
		if k := len(flagged); k > 0 && flagged[k-1] == n { // calls arrive in ascending order
			return
		}
		flagged = append(flagged, n)
	}
	y, m, d := fromOrdinal(lo)
	prevOff, havePrev := 0, false
	var want [10]byte
	for n := lo; n <= hi+1; n++ {
		exists, off := c.z.probe(n, y, m, d, 0, 0, 0)
		if (havePrev && off != prevOff) || !exists || !havePrev {
			binary.LittleEndian.PutUint64(rec[0:], uint64(n))
			binary.LittleEndian.PutUint64(rec[8:], uint64(int64(off)))
			rec[16] = 0
			if exists {
				rec[16] = 1
			}
			fp.Write(rec[:])
		}
		if havePrev && off != prevOff {
			flag(n - 1) // offset differs between 00:00 and 24:00 of day n-1
		}
		if n <= hi {
			if !exists {
				flag(n)
				c.cnt.MidnightSkip++
				if !c.z.dayHasInstant(y, m, d) {
					out.NoInstant = append(out.NoInstant, refDateText(y, m, d))
				}
			}
			// library: ToDate and its three readings
			dt := types.ToDate(y, time.Month(m), d)
			ly, lm, ld := time.Time(dt).Date()
			ok := ly == y && int(lm) == m && ld == d
			if ok {
				put2(want[0:], y/100)
				put2(want[2:], y%100)
				want[4] = '-'
				put2(want[5:], m)
				want[7] = '-'
				put2(want[8:], d)
				w := refDateWire(y, m, d)
				enc, err := dt.MarshalUT0311L0x()
				ok = dt.String() == string(want[:]) && err == nil && bytes.Equal(enc, w[:])
			}
			if ok {
				c.cnt.Evals++
				c.cnt.Judged++
			} else {
				c.checkDate("ToDate", "direct", y, m, d) // classify, exempt or record
			}
			c.cnt.SweepDays++
		}
		prevOff, havePrev = off, true
		if d++; d > daysIn(y, m) {
			d = 1
			if m++; m > 12 {
				m = 1
				y++
				if ordinal(y, 1, 1) != n+1 {
					out.Machinery = append(out.Machinery, fmt.Sprintf("calendar drift at year %d", y))
					return
				}
			}
		}
	}
	sort.Slice(flagged, func(i, j int) bool { return flagged[i] < flagged[j] })
	c.cnt.Flagged = int64(len(flagged))
	out.Fingerprint = fmt.Sprintf("%x", fp.Sum(nil)[:12])
	return flagged
}

func sortedSet(set map[int64]bool) []int64 {
	out := make([]int64, 0, len(set))
	for n := range set {
		out = append(out, n)
	}
	sort.Slice(out, func(i, j int) bool { return out[i] < out[j] })
	return out
}

// phaseB: all constructors/decoders + status recombination on flagged days +-2 and on the 1st,
// 15th and last day of every month.
func (c *ctx) phaseB(lo, hi int64, flagged []int64, out *zoneOut) {
	near := map[int64]bool{}
	for _, f := range flagged {
		for n := f - 2; n <= f+2; n++ {
			if n >= lo && n <= hi {
				near[n] = true
			}
		}
	}
	set := map[int64]bool{}
	for n := range near {
		set[n] = true
	}
	y0, _, _ := fromOrdinal(lo)
	y1, _, _ := fromOrdinal(hi)
	for y := y0; y <= y1; y++ {
		for m := 1; m <= 12; m++ {
			for _, d := range []int{1, 15, daysIn(y, m)} {
				if n := ordinal(y, m, d); n >= lo && n <= hi {
					set[n] = true
				}
			}
		}
	}
	// a client whose controller is configured with another zone: the civil minutes around that zone's
	// offset changes, and the flagged days of the process zone below
	if c.u2 != nil {
		for _, t := range c.configuredZoneTimes() {
			c.checkStatus("GetStatus@configured-zone", t[0], t[1], t[2], t[3], t[4], t[5])
			c.checkStatus("Listen@configured-zone", t[0], t[1], t[2], t[3], t[4], t[5])
			c.cnt.StatusCases += 2
		}
	}
	for _, n := range sortedSet(set) {
		y, m, d := fromOrdinal(n)
		day := mkDay(y, m, d)
		c.cur = kase{Fn: "date constructors", Y: y, M: m, D: d}
		for _, f := range dateFns {
			c.checkDay(f.fn, f.via, day)
			c.cnt.DateCases++
		}
		inSys := y >= sysYearLo && y <= sysYearHi
		if near[n] || inSys {
			for _, f := range dateFnsExtra {
				c.checkDay(f.fn, f.via, day)
				c.cnt.DateCases++
			}
		}
		if inSys {
			c.checkSysDate(y, m, d)
			c.cnt.SysDateCases++
			for _, t := range statusTimes {
				c.checkStatus("GetStatus", y, m, d, t[0], t[1], t[2])
				c.checkStatus("Listen", y, m, d, t[0], t[1], t[2])
				c.cnt.StatusCases += 2
				if near[n] && c.u2 != nil {
					c.checkStatus("GetStatus@configured-zone", y, m, d, t[0], t[1], t[2])
					c.checkStatus("Listen@configured-zone", y, m, d, t[0], t[1], t[2])
					c.cnt.StatusCases += 2
				}
			}
		}
		if near[n] && !c.z.midnight(y, m, d) && len(out.Samples) < 2 {
			o := libDate("ToDate", "direct", day)
			out.Samples = append(out.Samples, map[string]any{
				"zone": c.z.name, "day": refDateText(y, m, d), "reference": "00:00 does not exist; day has an instant: " + fmt.Sprint(c.z.dayHasInstant(y, m, d)),
				"ToDate": refDateText(o.y, o.m, o.d),
			})
		}
	}
}

// phaseC: DateTime wire decode around every transition and across 2024.
func (c *ctx) phaseC(lo, hi int64, flagged []int64) {
	run := func(y, m, d, h, mi, s int, class string) {
		if y == 1 && m == 1 && d == 1 {
			return // 0001-01-01 is outside the property's domain (C05 owns the zero date-time)
		}
		w := refDateTimeWire(y, m, d, h, mi, s)
		c.cnt.DateTimes++
		if fastDateTime(&w, y, m, d, h, mi, s) {
			// the library reported exactly the transmitted civil fields (so the civil time exists)
			c.cnt.Evals++
			c.cnt.Judged++
			return
		}
		c.checkDateTime(y, m, d, h, mi, s, class) // probe existence: exempt or record
	}

	// flagged day f up to minuteYearFull: every whole minute of f-1, f, f+1 (second 0) and second 59
	// of every minute of f; up to minuteYearMax: every whole minute of f; later: every half hour of f.
	isFlagged := map[int64]bool{}
	minuteDays := map[int64]bool{}
	var halfHourly []int64
	for _, f := range flagged {
		switch y, _, _ := fromOrdinal(f); {
		case y <= minuteYearFull:
			isFlagged[f] = true
			for n := f - 1; n <= f+1; n++ {
				if n >= lo && n <= hi {
					minuteDays[n] = true
				}
			}
		case y <= minuteYearMax:
			minuteDays[f] = true
		default:
			halfHourly = append(halfHourly, f)
		}
	}
	for _, n := range sortedSet(minuteDays) {
		y, m, d := fromOrdinal(n)
		c.cur = kase{Fn: "DateTime.UnmarshalUT0311L0x", Y: y, M: m, D: d}
		for k := 0; k < 1440; k++ {
			run(y, m, d, k/60, k%60, 0, "transition-day")
			if isFlagged[n] {
				run(y, m, d, k/60, k%60, 59, "transition-day")
			}
		}
	}
	for _, n := range halfHourly {
		y, m, d := fromOrdinal(n)
		for h := 0; h < 24; h++ {
			run(y, m, d, h, 0, 0, "transition-day")
			run(y, m, d, h, 30, 0, "transition-day")
		}
	}
	for n := ordinal(2024, 1, 1); n <= ordinal(2024, 12, 31); n++ {
		y, m, d := fromOrdinal(n)
		class := "ordinary-day"
		if minuteDays[n] {
			class = "transition-day"
		}
		for h := 0; h < 24; h++ {
			run(y, m, d, h, 0, 0, class)
		}
	}
}

// ---------------------------------------------------------------------------------------------
// TZ-validation child: started with TZ=<zone>; time.Local is what the runtime made of it.

func tzWorker(r *vk.Run, name string) {
	out := tzOut{Zone: name, Trace: []string{}, Machinery: []string{}}
	emit := func() {
		b, _ := json.Marshal(out)
		os.Stdout.Write(append(b, '\n'))
		os.Exit(0)
	}
	var days []int64
	if err := json.NewDecoder(bufio.NewReader(os.Stdin)).Decode(&days); err != nil {
		out.Machinery = append(out.Machinery, "tz child: cannot read the day list: "+err.Error())
		emit()
	}
	if os.Getenv("TZ") != name {
		out.Machinery = append(out.Machinery, fmt.Sprintf("tz child: TZ=%q, expected %q", os.Getenv("TZ"), name))
		emit()
	}
	time.Local = runtimeLocal // undo vk.Start's pin: back to the runtime's own TZ-derived location
	loc, err := loadLocation(name)
	if err != nil {
		out.Machinery = append(out.Machinery, err.Error())
		emit()
	}
	// the runtime silently falls back to UTC when it cannot load $TZ: make sure it did load it
	for _, n := range append([]int64{ordinal(2024, 1, 15), ordinal(2024, 7, 15)}, days...) {
		t := time.Unix(n*86400+43200, 0)
		_, o1 := t.In(time.Local).Zone()
		_, o2 := t.In(loc).Zone()
		if o1 != o2 {
			out.Machinery = append(out.Machinery, fmt.Sprintf("tz child: runtime zone for TZ=%s has offset %d at %s, LoadLocation has %d", name, o1, t.UTC().Format(time.RFC3339), o2))
			emit()
		}
	}
	c := newCtx(r, &zoneRef{name: name, loc: loc})
	panicked, msg, _ := vk.Guard(func() {
		for _, n := range days {
			out.Trace = append(out.Trace, c.traceDay(n))
		}
		c.stopListener()
	})
	if panicked {
		out.Machinery = append(out.Machinery, "tz child panicked: "+msg)
	}
	emit()
}

// ---------------------------------------------------------------------------------------------
// parent

func runChild(spec string, tier string, env []string, stdin []byte) ([]byte, error) {
	cmd := exec.Command(os.Args[0], "--worker", spec, "--tier", tier)
	cmd.Env = append(append(os.Environ(), "GOMAXPROCS=2", "GOGC=400"), env...)
	cmd.Stdin = bytes.NewReader(stdin)
	var stderr bytes.Buffer
	cmd.Stderr = &stderr
	b, err := cmd.Output()
	if err != nil {
		return nil, fmt.Errorf("%v: %s", err, strings.TrimSpace(stderr.String()))
	}
	return b, nil
}

func readZones() ([]string, error) {
	f, err := os.Open(vk.Root + "/zones.txt")
	if err != nil {
		return nil, err
	}
	defer f.Close()
	var zones []string
	sc := bufio.NewScanner(f)
	for sc.Scan() {
		if z := strings.TrimSpace(sc.Text()); z != "" && !strings.HasPrefix(z, "#") {
			zones = append(zones, z)
		}
	}
	return zones, sc.Err()
}

func replay(r *vk.Run) {
	_, raw, err := vk.LoadReplay(r.Replay)
	if err != nil {
		r.Machinery("cannot load replay: %v", err)
		r.Finish()
	}
	var k kase
	if err := json.Unmarshal(raw, &k); err != nil {
		r.Machinery("cannot parse replay case: %v", err)
		r.Finish()
	}
	loc, err := loadLocation(k.Zone)
	if err != nil {
		r.Machinery("zone %s does not load: %v", k.Zone, err)
		r.Finish()
	}
	if k.After != "" {
		fmt.Printf("prelude: every date entry point with time.Local = %s\n", k.After)
		if _, _, err := prelude(r, k.After); err != nil {
			r.Machinery("zone %s does not load: %v", k.After, err)
			r.Finish()
		}
	}
	time.Local = loc
	c := newCtx(r, &zoneRef{name: k.Zone, loc: loc})
	c.after = k.After
	c.verbose = true
	fmt.Printf("replaying %s via %s with time.Local = %s\n", k.Fn, k.Via, k.Zone)
	panicked, msg, frame := vk.Guard(func() {
		switch k.Fn {
		case "SystemDate.UnmarshalUT0311L0x":
			c.checkSysDate(k.Y, k.M, k.D)
		case "DateTime.UnmarshalUT0311L0x":
			c.checkDateTime(k.Y, k.M, k.D, k.H, k.Mi, k.S, k.Note)
		case "GetStatus", "Listen":
			c.checkStatus(k.Fn, k.Y, k.M, k.D, k.H, k.Mi, k.S)
			c.stopListener()
		default:
			c.checkDate(k.Fn, k.Via, k.Y, k.M, k.D)
		}
	})
	if panicked {
		c.violation("C13/panic/"+frame, "library panicked: "+msg, k)
	}
	for _, f := range c.found() {
		r.Violation(f.Key, f.What, "case", f.Case)
	}
	r.Count(c.cnt.Evals)
	r.Distinct(c.cnt.Judged)
	r.Rule("replay of one recorded case")
	r.Finish()
}

func main() {
	r := vk.Start("C13", "exploration")

	switch {
	case strings.HasPrefix(r.Worker, "zone:"):
		zoneWorker(r, strings.TrimPrefix(r.Worker, "zone:"), false)
	case strings.HasPrefix(r.Worker, "zonetrace:"):
		zoneWorker(r, strings.TrimPrefix(r.Worker, "zonetrace:"), true)
	case strings.HasPrefix(r.Worker, "tz:"):
		tzWorker(r, strings.TrimPrefix(r.Worker, "tz:"))
	case r.Worker != "":
		r.Machinery("unknown worker spec %q", r.Worker)
		r.Finish()
	}
	if r.Replay != "" {
		replay(r)
	}

	if err := calendarSelfTest(); err != nil {
		r.Machinery("%v", err)
		r.Finish()
	}
	all, err := readZones()
	if err != nil || len(all) == 0 {
		r.Machinery("cannot read zones.txt: %v", err)
		r.Finish()
	}
	listed := map[string]bool{}
	for _, z := range all {
		listed[z] = true
	}
	isQuick := map[string]bool{}
	zones := []string{}
	for _, z := range quickZones {
		if !listed[z] {
			r.Machinery("quick zone %s is not in zones.txt", z)
			r.Finish()
		}
		isQuick[z] = true
		zones = append(zones, z)
	}
	if r.Thorough() {
		for _, z := range all {
			if !isQuick[z] {
				zones = append(zones, z)
			}
		}
	}

	// zone changes inside one process: the library is first used in zone A, then time.Local is set to
	// zone B and B's enumeration (1990..2040) runs; every ordered pair over a reduced menu
	nPlain := len(zones)
	{
		first := []string{"UTC", "Etc/GMT+5", "Asia/Kolkata", "America/Santiago", "Pacific/Apia", "Europe/London"}
		second := []string{"UTC", "Etc/GMT-14", "America/Santiago", "Pacific/Apia", "Europe/London", "America/Havana", "Asia/Beirut", "Africa/Cairo"}
		if r.Thorough() {
			second = append(second, "America/Asuncion", "Asia/Amman", "America/Sao_Paulo", "Atlantic/Azores", "Asia/Tehran", "Pacific/Kiritimati", "Australia/Lord_Howe")
		}
		for _, a := range first {
			for _, b := range second {
				if a != b && listed[a] && listed[b] {
					zones = append(zones, a+">"+b)
				}
			}
		}
	}
	r.Set("zone_change_pairs", len(zones)-nPlain)
	// synthetic zones (hand-made TZif data): as the process zone from the start, and set after first use in UTC
	for _, z := range synthZones {
		zones = append(zones, z, "UTC>"+z)
	}
	r.Set("synthetic_zones", len(synthZones))

	// one child process per zone, 16 at a time; the TZ validation child of a quick zone runs in
	// the same slot right after its zone worker
	results := make([]*zoneOut, len(zones))
	validated := make([]int64, len(zones))
	var mu sync.Mutex
	jobs := make(chan int)
	var wg sync.WaitGroup
	for w := 0; w < 16; w++ {
		wg.Add(1)
		go func() {
			defer wg.Done()
			for i := range jobs {
				z := zones[i]
				spec := "zone:" + z
				if isQuick[z] {
					spec = "zonetrace:" + z
				}
				b, err := runChild(spec, r.Tier, nil, nil)
				var out zoneOut
				if err == nil {
					err = json.Unmarshal(b, &out)
				}
				if err != nil {
					r.Machinery("worker for zone %s failed: %v", z, err)
					continue
				}
				mu.Lock()
				results[i] = &out
				mu.Unlock()
				if !isQuick[z] || len(out.Flagged) == 0 {
					continue
				}
				days, _ := json.Marshal(out.Flagged)
				b, err = runChild("tz:"+z, r.Tier, []string{"TZ=" + z}, days)
				var tz tzOut
				if err == nil {
					err = json.Unmarshal(b, &tz)
				}
				if err != nil {
					r.Machinery("TZ=%s validation child failed: %v", z, err)
					continue
				}
				for _, m := range tz.Machinery {
					r.Machinery("%s", m)
				}
				if len(tz.Trace) != len(out.Trace) {
					r.Machinery("TZ=%s validation child returned %d days, expected %d", z, len(tz.Trace), len(out.Trace))
					continue
				}
				for j := range tz.Trace {
					if tz.Trace[j] != out.Trace[j] {
						r.Machinery("zone %s: a process started with TZ=%s disagrees with the in-process zone switch:\n  in-process: %s\n  TZ child:   %s", z, z, out.Trace[j], tz.Trace[j])
						break
					}
					validated[i]++
				}
			}
		}()
	}
	for i := range zones {
		jobs <- i
	}
	close(jobs)
	wg.Wait()

	// aggregate in zone order (simplest zones first: the first case per key is kept)
	var total counters
	merged := map[string]*found{}
	mergedOrder := []string{}
	seen := map[string]string{}
	noInstant := []string{}
	var distinct, traces int64
	var slowest, workerSecs float64
	slowestZone := ""
	skipping := 0
	for i, out := range results {
		if out == nil {
			continue
		}
		for _, m := range out.Machinery {
			r.Machinery("zone %s: %s", out.Zone, m)
		}
		for _, f := range out.Violations {
			if g, ok := merged[f.Key]; !ok {
				g := f
				merged[f.Key] = &g
				mergedOrder = append(mergedOrder, f.Key)
			} else {
				g.Count += f.Count
				if f.Modern && !g.Modern {
					g.What, g.Case, g.Modern = f.What, f.Case, true
				}
			}
		}
		total.Evals += out.Cnt.Evals
		total.Judged += out.Cnt.Judged
		total.Unjudged += out.Cnt.Unjudged
		total.SweepDays += out.Cnt.SweepDays
		total.DateCases += out.Cnt.DateCases
		total.SysDateCases += out.Cnt.SysDateCases
		total.StatusCases += out.Cnt.StatusCases
		total.DateTimes += out.Cnt.DateTimes
		total.Flagged += out.Cnt.Flagged
		total.MidnightSkip += out.Cnt.MidnightSkip
		if out.Cnt.MidnightSkip > 0 {
			skipping++
		}
		if _, dup := seen[out.Fingerprint]; !dup {
			seen[out.Fingerprint] = out.Zone
			distinct += out.Cnt.Judged
		}
		for _, d := range out.NoInstant {
			noInstant = append(noInstant, out.Zone+" "+d)
		}
		for _, s := range out.Samples {
			r.Sample(s)
		}
		traces += validated[i]
		workerSecs += out.Secs
		if out.Secs > slowest {
			slowest, slowestZone = out.Secs, out.Zone
		}
	}

	for _, key := range mergedOrder {
		f := merged[key]
		r.Import([]vk.WorkerViolation{{Key: f.Key, What: f.What, Kind: "case", Case: f.Case, Count: f.Count}})
	}

	lo, hi := tierRange(r)
	ly, lm, ld := fromOrdinal(lo)
	hy, hm, hd := fromOrdinal(hi)
	r.Count(total.Evals)
	r.Distinct(distinct)
	r.Rule(fmt.Sprintf("zones: %d (one child process each, time.Local = the loaded location), plus zone changes inside one process (every entry point first used in zone A, then time.Local set to zone B and B's enumeration for 1990..2040: every ordered pair of 6 first x 8 (thorough 15) second zones), plus 11 synthetic zones built from hand-made TZif data (jumps of 3..23 h at local midnight, west and east of Greenwich, forwards and backwards); per zone: (a) ToDate on every day %s..%s; (b) every day whose 00:00 is missing or whose offset changes within the day (found by a time.Date scan) +-2 and the 1st/15th/last of every month: ToDate, ParseDate, Date wire decode (direct, codec value field, codec pointer field), Date JSON decode, and for years %d..%d the two-digit SystemDate decode and the SystemDate+SystemTime recombination through GetStatus and Listen at %d times of day (with a four-digit event timestamp alongside), also through a client whose controller is configured with a zone of its own (America/Santiago, or Europe/London when that is the process zone) incl. every 10th civil minute within 2.5 h of that zone's offset changes 2023..2025; (c) DateTime wire decode around every flagged day f: up to year %d every whole minute of f-1, f, f+1 plus second 59 of every minute of f; up to year %d every whole minute of f; later every half hour of f; and every hour of every day of 2024. distinct_nontrivial = judged (function, civil input) cases summed over zones with pairwise different midnight-offset histories over the range (aliases counted once); evaluations counts every library call incl. exempt ones",
		nPlain, refDateText(ly, lm, ld), refDateText(hy, hm, hd), sysYearLo, sysYearHi, len(statusTimes), minuteYearFull, minuteYearMax))
	r.Set("zones", nPlain)
	r.Set("zones_distinct_histories", len(seen))
	r.Set("zones_with_skipped_midnight", skipping)
	r.Set("flagged_zone_days", total.Flagged)
	r.Set("midnight_skipped_zone_days", total.MidnightSkip)
	r.Set("exempt_zone_days_without_instant", noInstant)
	r.Set("sweep_ToDate_days", total.SweepDays)
	r.Set("date_constructor_cases", total.DateCases)
	r.Set("system_date_cases", total.SysDateCases)
	r.Set("status_recombination_cases", total.StatusCases)
	r.Set("datetime_decode_cases", total.DateTimes)
	r.Set("cases_judged", total.Judged)
	r.Set("cases_exempt_or_unconstrained", total.Unjudged)
	r.Set("traces_validated_against_impl", traces)
	r.Set("slowest_zone", fmt.Sprintf("%s %.1fs", slowestZone, slowest))
	r.Set("worker_seconds_total", workerSecs)
	r.Assume("the Go time package's zone arithmetic (time.Date in an explicit Location, tzdata) decides whether a civil time exists in a zone; the calendar, the BCD and the text renderings of the reference are hand-written")
	r.Assume("the century of the two-digit status system date is unconstrained: (YY, MM, DD[, h, m, s]) is demanded only when the civil day/time exists in the zone in both 19YY and 20YY")
	r.Assume("setting time.Local in a worker process is equivalent to starting the process with TZ=<zone>; validated for every flagged (zone, day) of the quick zone set (traces_validated_against_impl)")
	r.Finish()
}
