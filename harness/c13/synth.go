package main

import (
	"encoding/binary"
	"fmt"
	"strconv"
	"strings"
	"time"
)

// Synthetic process zones: Locations built from hand-made TZif data (what time.LoadLocationFromTZData,
// a custom /etc/localtime or TZ=/path gives an application) with offset changes the IANA data base
// does not happen to contain - a jump at local midnight that removes up to 23 hours of the day, to
// the west and to the east of Greenwich, and the same jumps backwards. A civil day that still has
// an instant is reported as that day, however little of it is left.
//
// name: "synth|<base offset h>|<jump h>|<yyyy-mm-dd>" - until local midnight of the day the offset is
// base, from then on base+jump.

var synthZones = []string{
	"synth|-8|4|2024-03-10", "synth|-8|5|2024-03-10", "synth|-8|12|2024-03-10", "synth|-8|23|2024-03-10", "synth|-3|3|2024-03-10",
	"synth|8|4|2024-03-10", "synth|8|6|2024-03-10", "synth|0|23|2024-03-10", "synth|-11|23|2024-12-31",
	"synth|-8|-5|2024-03-10", "synth|8|-12|2024-03-10",
}

func synthLocation(name string) (*time.Location, error) {
	parts := strings.Split(name, "|")
	if len(parts) != 4 {
		return nil, fmt.Errorf("bad synthetic zone %q", name)
	}
	base, err1 := strconv.Atoi(parts[1])
	jump, err2 := strconv.Atoi(parts[2])
	day, err3 := time.Parse("2006-01-02", parts[3])
	if err1 != nil || err2 != nil || err3 != nil {
		return nil, fmt.Errorf("bad synthetic zone %q", name)
	}
	at := day.Unix() - int64(base)*3600 // local midnight under the base offset
	// TZif version 1: header, 1 transition, 2 local time types, abbreviations "AAA\0BBB\0"
	b := []byte("TZif")
	b = append(b, 0)                   // version 1
	b = append(b, make([]byte, 15)...) // reserved
	put := func(v uint32) { b = binary.BigEndian.AppendUint32(b, v) }
	put(0) // isutcnt
	put(0) // isstdcnt
	put(0) // leapcnt
	put(1) // timecnt
	put(2) // typecnt
	put(8) // charcnt
	put(uint32(int32(at)))
	b = append(b, 1) // transition 0 -> type 1
	for i, off := range []int{base * 3600, (base + jump) * 3600} {
		put(uint32(int32(off)))
		b = append(b, 0, byte(4*i)) // isdst, abbreviation index
	}
	b = append(b, 'A', 'A', 'A', 0, 'B', 'B', 'B', 0)
	return time.LoadLocationFromTZData(name, b)
}
