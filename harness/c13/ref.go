// Reference side of C13: a calendar that does not use the time package (proleptic Gregorian day
// numbers, days per month, BCD/text renderings written out by hand) and the zone probes. The Go
// time package's zone arithmetic (time.Date in an explicit *time.Location, tzdata) is the trusted
// base for "does this civil time exist in this zone"; nothing in here calls the library.
package main

import (
	"time"
)

// ordinal returns the number of days from 1970-01-01 to y-m-d (proleptic Gregorian).
func ordinal(y, m, d int) int64 {
	if m <= 2 {
		y--
	}
	era := y / 400
	if y < 0 {
		era = (y - 399) / 400
	}
	yoe := y - era*400
	mp := m - 3
	if m <= 2 {
		mp = m + 9
	}
	doy := (153*mp+2)/5 + d - 1
	doe := yoe*365 + yoe/4 - yoe/100 + doy
	return int64(era)*146097 + int64(doe) - 719468
}

// fromOrdinal is the inverse of ordinal.
func fromOrdinal(n int64) (y, m, d int) {
	z := n + 719468
	era := z / 146097
	if z < 0 {
		era = (z - 146096) / 146097
	}
	doe := int(z - era*146097)
	yoe := (doe - doe/1460 + doe/36524 - doe/146096) / 365
	y = yoe + int(era)*400
	doy := doe - (365*yoe + yoe/4 - yoe/100)
	mp := (5*doy + 2) / 153
	d = doy - (153*mp+2)/5 + 1
	if mp < 10 {
		m = mp + 3
	} else {
		m = mp - 9
	}
	if m <= 2 {
		y++
	}
	return
}

func isLeap(y int) bool { return y%4 == 0 && (y%100 != 0 || y%400 == 0) }

func daysIn(y, m int) int {
	switch m {
	case 4, 6, 9, 11:
		return 30
	case 2:
		if isLeap(y) {
			return 29
		}
		return 28
	}
	return 31
}

func bcd2(v int) byte { return byte(v/10)<<4 | byte(v%10) }

// refDateWire is the protocol encoding of a date: 4 BCD bytes YYYYMMDD.
func refDateWire(y, m, d int) [4]byte {
	return [4]byte{bcd2(y / 100), bcd2(y % 100), bcd2(m), bcd2(d)}
}

// refSysDateWire is the protocol encoding of the status system date: 3 BCD bytes YYMMDD.
func refSysDateWire(y, m, d int) [3]byte {
	return [3]byte{bcd2(y % 100), bcd2(m), bcd2(d)}
}

// refDateTimeWire is the protocol encoding of a date-time: 7 BCD bytes YYYYMMDDHHmmss.
func refDateTimeWire(y, m, d, h, mi, s int) [7]byte {
	return [7]byte{bcd2(y / 100), bcd2(y % 100), bcd2(m), bcd2(d), bcd2(h), bcd2(mi), bcd2(s)}
}

func put2(b []byte, v int) { b[0], b[1] = '0'+byte(v/10), '0'+byte(v%10) }

// refDateText is "YYYY-MM-DD".
func refDateText(y, m, d int) string {
	var b [10]byte
	put2(b[0:], y/100)
	put2(b[2:], y%100)
	b[4] = '-'
	put2(b[5:], m)
	b[7] = '-'
	put2(b[8:], d)
	return string(b[:])
}

// refDateTimeText is "YYYY-MM-DD HH:mm:ss".
func refDateTimeText(y, m, d, h, mi, s int) string {
	var b [19]byte
	copy(b[:], refDateText(y, m, d))
	b[10] = ' '
	put2(b[11:], h)
	b[13] = ':'
	put2(b[14:], mi)
	b[16] = ':'
	put2(b[17:], s)
	return string(b[:])
}

// zoneRef answers the existence questions of the property for one zone.
type zoneRef struct {
	name string
	loc  *time.Location
}

// probe asks the trusted time package for "the" instant of a civil time in the zone and reports
// whether that instant really carries the civil time asked for (it does not when the civil time
// falls into a gap), together with the UTC offset in force at the returned instant. The civil
// reading of the returned instant is computed with the harness's own day numbers.
func (z *zoneRef) probe(ord int64, y, m, d, h, mi, s int) (exists bool, offset int) {
	p := time.Date(y, time.Month(m), d, h, mi, s, 0, z.loc)
	_, off := p.Zone()
	return p.Unix()+int64(off) == ord*86400+int64(h*3600+mi*60+s), off
}

// exists: the civil time has at least one instant in the zone.
func (z *zoneRef) exists(y, m, d, h, mi, s int) bool {
	ok, _ := z.probe(ordinal(y, m, d), y, m, d, h, mi, s)
	return ok
}

// midnight: 00:00:00 of the civil day exists in the zone.
func (z *zoneRef) midnight(y, m, d int) bool { return z.exists(y, m, d, 0, 0, 0) }

// dayHasInstant: the civil day has at least one instant in the zone (probed at every whole
// minute 00:00 ... 23:59; the only days without one are those a zone skipped when it moved across
// the date line, e.g. 2011-12-30 in Pacific/Apia).
func (z *zoneRef) dayHasInstant(y, m, d int) bool {
	ord := ordinal(y, m, d)
	for k := 0; k < 1440; k++ {
		if ok, _ := z.probe(ord, y, m, d, k/60, k%60, 0); ok {
			return true
		}
	}
	return false
}
