// C12 — BCD coding is exact, total on digit strings and rejects non-decimal nibbles.
// Exhaustive enumeration of every string up to a length bound over a 12-symbol alphabet, every
// byte slice up to a length bound, and every single-symbol substitution into digit strings of
// every length 1..32, each compared with the reference model spec.BCDEncode / spec.BCDDecode.
package main

import (
	"bytes"
	"encoding/json"
	"fmt"
	"os"

	"github.com/uhppoted/uhppote-core/encoding/bcd"
	"verif/spec"
	"verif/vk"
)

var symbols = []string{"0", "1", "2", "3", "4", "5", "6", "7", "8", "9", "a", "é"}

type encCase struct {
	S string `json:"s"`
}
type decCase struct {
	B []int `json:"bytes"`
}

func checkEncode(r *vk.Run, s string) {
	r.Count(1)
	var got *[]byte
	var err error
	if p, msg, frame := vk.Guard(func() { got, err = bcd.Encode(s) }); p {
		r.Violation("C12/Encode/panic/"+frame, "bcd.Encode panicked: "+msg, "encode", encCase{s})
		return
	}
	want, ok := spec.BCDEncode(s)
	switch {
	case ok && err != nil:
		r.Violation("C12/Encode/rejects-digit-string", fmt.Sprintf("Encode(%q) = error %v, want %x", s, err, want), "encode", encCase{s})
	case !ok && err == nil:
		r.Violation("C12/Encode/accepts-non-digit", fmt.Sprintf("Encode(%q) = %x, want error", s, *got), "encode", encCase{s})
	case ok && (got == nil || !bytes.Equal(*got, want)):
		r.Violation("C12/Encode/wrong-bytes", fmt.Sprintf("Encode(%q) = %v, want %x", s, got, want), "encode", encCase{s})
	case ok:
		// round trip: decode(encode(s)) is the zero-padded original
		padded := s
		if len(s)%2 == 1 {
			padded = "0" + s
		}
		if d, err := bcd.Decode(*got); err != nil || d != padded {
			r.Violation("C12/roundtrip/decode-encode", fmt.Sprintf("Decode(Encode(%q)) = %q,%v want %q", s, d, err, padded), "encode", encCase{s})
		}
	}
}

func ints(b []byte) []int {
	out := make([]int, len(b))
	for i, v := range b {
		out[i] = int(v)
	}
	return out
}

func checkDecode(r *vk.Run, b []byte) {
	r.Count(1)
	var got string
	var err error
	if p, msg, frame := vk.Guard(func() { got, err = bcd.Decode(b) }); p {
		r.Violation("C12/Decode/panic/"+frame, "bcd.Decode panicked: "+msg, "decode", decCase{ints(b)})
		return
	}
	want, ok := spec.BCDDecode(b)
	switch {
	case ok && err != nil:
		r.Violation("C12/Decode/rejects-bcd", fmt.Sprintf("Decode(%x) = error %v, want %q", b, err, want), "decode", decCase{ints(b)})
	case !ok && err == nil:
		r.Violation("C12/Decode/accepts-non-decimal-nibble", fmt.Sprintf("Decode(%x) = %q, want error", b, got), "decode", decCase{ints(b)})
	case ok && got != want:
		r.Violation("C12/Decode/wrong-digits", fmt.Sprintf("Decode(%x) = %q, want %q", b, got, want), "decode", decCase{ints(b)})
	case ok:
		if e, err := bcd.Encode(got); err != nil || e == nil || !bytes.Equal(*e, b) {
			r.Violation("C12/roundtrip/encode-decode", fmt.Sprintf("Encode(Decode(%x)) = %v,%v", b, e, err), "decode", decCase{ints(b)})
		}
	}
}

func main() {
	r := vk.Start("C12", "exploration")

	if r.Replay != "" {
		kind, c, err := vk.LoadReplay(r.Replay)
		if err != nil {
			r.Machinery("cannot load replay: %v", err)
			r.Finish()
		}
		switch kind {
		case "encode":
			var e encCase
			json.Unmarshal(c, &e)
			got, err := bcd.Encode(e.S)
			want, ok := spec.BCDEncode(e.S)
			fmt.Printf("Encode(%q): library = %v, %v   reference = %x, ok=%v\n", e.S, got, err, want, ok)
			checkEncode(r, e.S)
		case "decode":
			var d decCase
			json.Unmarshal(c, &d)
			b := make([]byte, len(d.B))
			for i, v := range d.B {
				b[i] = byte(v)
			}
			got, err := bcd.Decode(b)
			want, ok := spec.BCDDecode(b)
			fmt.Printf("Decode(%x): library = %q, %v   reference = %q, ok=%v\n", b, got, err, want, ok)
			checkDecode(r, b)
		}
		r.Finish()
	}

	maxLen := 5
	if r.Thorough() {
		maxLen = 6
	}

	// (1) every string of length 0..maxLen over the 12-symbol alphabet, sharded on the first two symbols
	checkEncode(r, "")
	for _, s := range symbols {
		checkEncode(r, s)
	}
	vk.Parallel(len(symbols)*len(symbols), func(i int) {
		prefix := symbols[i/len(symbols)] + symbols[i%len(symbols)]
		var rec func(s string, n int)
		rec = func(s string, n int) {
			checkEncode(r, s)
			if n == maxLen {
				return
			}
			for _, c := range symbols {
				rec(s+c, n+1)
			}
		}
		rec(prefix, 2)
	})
	var nontrivial int64 = 1
	for n, p := 1, int64(1); n <= maxLen; n++ {
		p *= int64(len(symbols))
		nontrivial += p
	}

	// (2) every byte slice of length 0..2, and of length 3 (thorough: all 2^24; quick: all with one byte
	// fixed to each of {0x00, 0x09, 0x10, 0x99, 0x9a, 0xa9, 0xff} in each position)
	checkDecode(r, []byte{})
	vk.Parallel(256, func(a int) {
		checkDecode(r, []byte{byte(a)})
		for b := 0; b < 256; b++ {
			checkDecode(r, []byte{byte(a), byte(b)})
		}
	})
	nontrivial += 1 + 256 + 65536
	if r.Thorough() {
		vk.Parallel(256, func(a int) {
			for b := 0; b < 256; b++ {
				for c := 0; c < 256; c++ {
					checkDecode(r, []byte{byte(a), byte(b), byte(c)})
				}
			}
		})
		nontrivial += 1 << 24
	} else {
		fixed := []byte{0x00, 0x09, 0x10, 0x99, 0x9a, 0xa9, 0xff}
		vk.Parallel(256, func(a int) {
			for b := 0; b < 256; b++ {
				for _, f := range fixed {
					checkDecode(r, []byte{f, byte(a), byte(b)})
					checkDecode(r, []byte{byte(a), f, byte(b)})
					checkDecode(r, []byte{byte(a), byte(b), f})
				}
			}
		})
		nontrivial += int64(len(fixed) * 65536) // conservative: the three position families overlap
	}

	// (3) longer inputs: every digit string 1..32 built from a rolling digit pattern, and every
	// (position, symbol) single substitution into it; likewise byte slices 1..16 with every
	// (position, value) substitution.
	for n := 1; n <= 32; n++ {
		base := make([]byte, n)
		for i := range base {
			base[i] = '0' + byte((i*7+n)%10)
		}
		checkEncode(r, string(base))
		for pos := 0; pos < n; pos++ {
			for _, sym := range symbols {
				checkEncode(r, string(base[:pos])+sym+string(base[pos+1:]))
			}
			nontrivial += int64(len(symbols) - 1) // one substitution reproduces the base string
		}
	}
	// (3b) every single byte value (signs, blanks, dots, letters ...) at every position of digit strings
	// of length 1..70, and every byte value at every position of BCD slices of length 17..40 - block-wise
	// implementations have their seams at multiples of 8, 16, 32
	vk.Parallel(70, func(k int) {
		n := k + 1
		base := make([]byte, n)
		for i := range base {
			base[i] = '0' + byte((i*3+n)%10)
		}
		for pos := 0; pos < n; pos++ {
			orig := base[pos]
			for v := 0; v < 256; v++ {
				base[pos] = byte(v)
				checkEncode(r, string(base))
			}
			base[pos] = orig
		}
		if n >= 17 && n <= 40 {
			raw := make([]byte, n)
			for i := range raw {
				raw[i] = spec.BCD2((i*13 + n) % 100)
			}
			for pos := 0; pos < n; pos++ {
				orig := raw[pos]
				for v := 0; v < 256; v++ {
					raw[pos] = byte(v)
					checkDecode(r, raw)
				}
				raw[pos] = orig
			}
		}
	})
	nontrivial += 70 * 71 / 2 * 246
	for n := 1; n <= 16; n++ {
		base := make([]byte, n)
		for i := range base {
			base[i] = spec.BCD2((i*13 + n) % 100)
		}
		for pos := 0; pos < n; pos++ {
			for v := 0; v < 256; v++ {
				b := append([]byte{}, base...)
				b[pos] = byte(v)
				checkDecode(r, b)
			}
			nontrivial += 255
		}
	}

	// (4) histories: the functions are pure, so a call must not depend on the call before it. For
	// every length 1..9 and 16, every position and EVERY ordered pair (a, b) of byte values: decode
	// the slice with a at that position, then directly the one with b there (one goroutine per
	// length, so the two calls really are consecutive); likewise every ordered pair of symbols at
	// every position of digit strings of length 1..17 for Encode.
	lengths := []int{1, 2, 3, 4, 5, 6, 7, 8, 9, 16}
	vk.Parallel(len(lengths), func(k int) {
		n := lengths[k]
		for _, pattern := range []int{0, 1} {
			base := make([]byte, n)
			for i := range base {
				if pattern == 1 {
					base[i] = spec.BCD2((i*13 + n) % 100)
				}
			}
			x, y := append([]byte{}, base...), append([]byte{}, base...)
			for pos := 0; pos < n; pos++ {
				for a := 0; a < 256; a++ {
					x[pos] = byte(a)
					for b := 0; b < 256; b++ {
						y[pos] = byte(b)
						checkDecode(r, x)
						checkDecode(r, y)
					}
				}
				x[pos], y[pos] = base[pos], base[pos]
			}
		}
	})
	for n := 1; n <= 17; n++ {
		base := make([]byte, n)
		for i := range base {
			base[i] = '0' + byte((i*7+n)%10)
		}
		for pos := 0; pos < n; pos++ {
			for _, s1 := range symbols {
				for _, s2 := range symbols {
					checkEncode(r, string(base[:pos])+s1+string(base[pos+1:]))
					checkEncode(r, string(base[:pos])+s2+string(base[pos+1:]))
				}
			}
		}
	}

	// (5) long inputs: lengths around powers of two and ten up to two million digits (formatting
	// helpers, width limits, 16- and 20-bit length arithmetic), all digits, and with one non-digit
	// at the first, middle and last position
	longLengths := []int{255, 256, 257, 999, 1000, 1001, 4095, 4096, 4097, 65535, 65536, 65537, 99999, 100001, 999999, 1000000, 1000001, 1048575, 1048577, 2097153,
		9999999, 10000001, 16777215, 16777217, 33554433, 67108865}
	if r.Thorough() && os.Getenv("VERIF_IS_386") == "" { // (the 32-bit build stops at 2^26+1 digits: address space)
		longLengths = append(longLengths, 99999999, 100000001, 134217729, 268435457)
	}
	vk.Parallel(len(longLengths), func(k int) {
		n := longLengths[k]
		b := make([]byte, n)
		for i := range b {
			b[i] = '0' + byte((i*7+n)%10)
		}
		checkEncode(r, string(b))
		for _, pos := range []int{0, n / 2, n - 1} {
			orig := b[pos]
			b[pos] = 'a'
			checkEncode(r, string(b))
			b[pos] = orig
		}
		raw := make([]byte, (n+1)/2)
		for i := range raw {
			raw[i] = spec.BCD2((i*13 + n) % 100)
		}
		checkDecode(r, raw)
		for _, pos := range []int{0, len(raw) / 2, len(raw) - 1} {
			orig := raw[pos]
			raw[pos] = 0x1a
			checkDecode(r, raw)
			raw[pos] = orig
		}
	})
	nontrivial += int64(len(longLengths) * 8)

	// (6) many bad symbols at once: an input is rejected however many of its symbols are bad - every
	// count 1..1100 and counts around 2^16 / 2^20 (an error counter, flag accumulator or index that wraps)
	// of bad bytes / characters, as the whole input and embedded in a valid one twice as long
	counts := []int{}
	for n := 1; n <= 1100; n++ {
		counts = append(counts, n)
	}
	counts = append(counts, 4095, 4096, 4097, 65535, 65536, 65537, 131072, 1<<20-1, 1<<20, 1<<20+1)
	badBytes := []byte{0xff, 0x0a, 0xa0, 0x9f, 0xf9}
	vk.Parallel(len(counts), func(k int) {
		n := counts[k]
		for bi, bad := range badBytes {
			if n > 1100 && bi > 1 {
				break
			}
			raw := bytes.Repeat([]byte{bad}, n)
			checkDecode(r, raw)
			mixed := make([]byte, 2*n)
			for i := range mixed {
				mixed[i] = spec.BCD2((i * 13) % 100)
				if i%2 == 1 {
					mixed[i] = bad
				}
			}
			checkDecode(r, mixed)
		}
		for ci, c := range []byte{'a', ':', ' '} {
			if n > 1100 && ci > 0 {
				break
			}
			checkEncode(r, string(bytes.Repeat([]byte{c}, n)))
			mixed := make([]byte, 2*n)
			for i := range mixed {
				mixed[i] = '0' + byte(i%10)
				if i%2 == 1 {
					mixed[i] = c
				}
			}
			checkEncode(r, string(mixed))
		}
	})
	nontrivial += int64(1100*(2*len(badBytes)+6) + 10*(4+2))

	// (7) every Unicode code point (0 .. 0x10FFFF, surrogates as their 3-byte forms excluded) as a
	// one-character string and as the third character of "12?4": only the ten ASCII digits are digits -
	// not the decimal digits of other scripts (category Nd), not full-width or mathematical ones
	{
		const chunk = 0x1000
		vk.Parallel(0x110000/chunk, func(k int) {
			for cp := k * chunk; cp < (k+1)*chunk; cp++ {
				if cp >= 0xd800 && cp <= 0xdfff {
					continue
				}
				c := string(rune(cp))
				checkEncode(r, c)
				checkEncode(r, "12"+c+"4")
			}
		})
		nontrivial += 2 * (0x110000 - 0x800)
	}

	r.Distinct(nontrivial)
	r.Rule(fmt.Sprintf("every Unicode code point alone and embedded in a digit string; many bad symbols at once: 1..1100 and 10 counts around 2^12 / 2^16 / 2^17 / 2^20 bad bytes (5 values) or characters (3), alone and alternating with valid ones; long inputs: digit strings / BCD slices of 26 (thorough 30) lengths from 255 to 67 108 865 (thorough 268 435 457) digits, all valid and with one bad symbol at the first, middle and last position; histories (consecutive calls): every ordered pair of byte values at every position of slices of length 1..9 and 16 (two base patterns) for Decode, every ordered pair of symbols at every position of digit strings of length 1..17 for Encode - counted as evaluations only; every string of length 0..%d over {0..9,'a','é'}; every byte slice of length 0..2 and (thorough: all; quick: one byte fixed to a boundary value) length 3; every single (position,symbol) substitution into digit strings of length 1..32 and BCD slices of length 1..16; every byte value at every position of digit strings of length 1..70 and BCD slices of length 17..40; distinct = distinct inputs by construction", maxLen))
	r.Sample(map[string]any{"encode": "12a", "reference": "error"})
	r.Sample(map[string]any{"encode": "123", "reference": "0123"})
	r.Sample(map[string]any{"decode": "129a", "reference": "error"})
	r.Finish()
}
