// C15 — address parsing accepts exactly IPv4[:port] under each role's port rule.
//
// Bounded-exhaustive enumeration of address texts in three families
//
//	(A) every string up to a length bound over two small alphabets,
//	(B) the grammar `a.b.c.d[:port]` with boundary octets, full single-octet sweeps, every one of
//	    the 65 536 ports and a set of malformed port suffixes,
//	(C) the complete edit neighbourhood (insert / delete / substitute, radius 1 or 2) of six valid
//	    addresses,
//
// each run through every entry point of each of the four roles (ParseXxxAddr, XxxAddr.Set,
// XxxAddr.UnmarshalJSON, MustParseXxxAddr) and compared with the hand-written three-valued
// reference spec.ClassifyAddr (must-accept with exact address and port / must-reject /
// unconstrained). Every accepted in-form input is additionally formatted (String, MarshalJSON) and
// parsed again.
package main

import (
	"encoding/json"
	"fmt"
	"net"
	"net/netip"
	"os"
	"runtime/debug"
	"sort"
	"strconv"
	"sync"

	"github.com/uhppoted/uhppote-core/types"
	"verif/spec"
	"verif/vk"
)

// ---------------------------------------------------------------------------------------------
// the four roles behind one uniform set of closures

type addrT interface {
	Addr() netip.Addr
	Port() uint16
	String() string
	MarshalJSON() ([]byte, error)
}

type addrP[T any] interface {
	*T
	Set(string) error
	UnmarshalJSON([]byte) error
}

// value is what an entry point produced: the address and port the caller can observe plus the
// formatting methods of the very value that was returned.
type value struct {
	addr    netip.Addr
	port    uint16
	str     func() string
	marshal func() ([]byte, error)
}

type ops struct {
	role      spec.AddrRole
	typ       string // "BindAddr"
	parse     func(string) (value, error)
	must      func(string) value
	set       func(string) (value, error)
	unmarshal func([]byte) (value, error)
	// the same two entry points on a receiver that already holds a value (built with the XxxAddrFrom
	// constructor, which takes any address and port)
	setOnto       func(netip.Addr, uint16, string) (value, string, error)
	unmarshalOnto func(netip.Addr, uint16, []byte) (value, string, error)
	unmarshalVia  func([]byte) (value, error) // through encoding/json (which validates and trims the document)
}

func mkOps[T addrT, P addrP[T]](role spec.AddrRole, typ string, parse func(string) (T, error), must func(string) T, from func(netip.Addr, uint16) T) ops {
	wrap := func(v T) value {
		return value{addr: v.Addr(), port: v.Port(), str: v.String, marshal: v.MarshalJSON}
	}
	return ops{
		role:  role,
		typ:   typ,
		parse: func(s string) (value, error) { v, err := parse(s); return wrap(v), err },
		must:  func(s string) value { return wrap(must(s)) },
		set: func(s string) (value, error) {
			var v T
			err := P(&v).Set(s)
			return wrap(v), err
		},
		unmarshal: func(b []byte) (value, error) {
			var v T
			err := P(&v).UnmarshalJSON(b)
			return wrap(v), err
		},
		unmarshalVia: func(b []byte) (value, error) {
			var v T
			err := json.Unmarshal(b, &v)
			return wrap(v), err
		},
		setOnto: func(a netip.Addr, port uint16, s string) (value, string, error) {
			v := from(a, port)
			own := v.String()
			err := P(&v).Set(s)
			return wrap(v), own, err
		},
		unmarshalOnto: func(a netip.Addr, port uint16, b []byte) (value, string, error) {
			v := from(a, port)
			own := v.String()
			err := P(&v).UnmarshalJSON(b)
			return wrap(v), own, err
		},
	}
}

var roles = []ops{
	mkOps[types.BindAddr](spec.AddrBind, "BindAddr", types.ParseBindAddr, types.MustParseBindAddr, types.BindAddrFrom),
	mkOps[types.BroadcastAddr](spec.AddrBroadcast, "BroadcastAddr", types.ParseBroadcastAddr, types.MustParseBroadcastAddr, types.BroadcastAddrFrom),
	mkOps[types.ListenAddr](spec.AddrListen, "ListenAddr", types.ParseListenAddr, types.MustParseListenAddr, types.ListenAddrFrom),
	mkOps[types.ControllerAddr](spec.AddrController, "ControllerAddr", types.ParseControllerAddr, types.MustParseControllerAddr, types.ControllerAddrFrom),
}

// ---------------------------------------------------------------------------------------------
// violations are buffered here so that the case kept per key is the simplest one (shortest input,
// then lexicographically smallest, then role order) independently of goroutine timing

type addrCase struct {
	Role  string `json:"role"`
	Input string `json:"input"`
}

type vrec struct {
	what  string
	c     addrCase
	ridx  int
	count int64
}

var (
	vmu  sync.Mutex
	vmap = map[string]*vrec{}
)

func report(key string, o *ops, s string, what string) {
	vmu.Lock()
	defer vmu.Unlock()
	c := addrCase{o.role.String(), s}
	ridx := int(o.role)
	if v, ok := vmap[key]; ok {
		v.count++
		if len(s) < len(v.c.Input) || (len(s) == len(v.c.Input) && (s < v.c.Input || (s == v.c.Input && ridx < v.ridx))) {
			v.what, v.c, v.ridx = what, c, ridx
		}
		return
	}
	vmap[key] = &vrec{what, c, ridx, 1}
}

func flushViolations(r *vk.Run) {
	vmu.Lock()
	defer vmu.Unlock()
	keys := []string{}
	for k := range vmap {
		keys = append(keys, k)
	}
	sort.Strings(keys)
	out := []vk.WorkerViolation{}
	for _, k := range keys {
		v := vmap[k]
		out = append(out, vk.WorkerViolation{Key: k, What: v.what, Kind: "addr", Case: v.c, Count: v.count})
	}
	r.Import(out)
}

// ---------------------------------------------------------------------------------------------
// per-goroutine statistics, merged at the end of each shard

type tally struct {
	evals      int64
	cases      int64 // (role, input) pairs
	reasons    [4][spec.NumAddrReasons]int64
	roundtrips int64
}

var (
	tmu   sync.Mutex
	total tally
)

func (t *tally) flush() {
	tmu.Lock()
	defer tmu.Unlock()
	total.evals += t.evals
	total.cases += t.cases
	total.roundtrips += t.roundtrips
	for i := range t.reasons {
		for j := range t.reasons[i] {
			total.reasons[i][j] += t.reasons[i][j]
		}
	}
	*t = tally{}
}

// ---------------------------------------------------------------------------------------------
// the check proper

// mustGuard runs a MustParseXxx call: a panic there is the documented way of rejecting, so the
// (expensive) stack symbolisation of vk.Guard is not wanted.
func mustGuard(fn func()) (panicked bool, msg string) {
	defer func() {
		if e := recover(); e != nil {
			panicked = true
			msg = fmt.Sprint(e)
		}
	}()
	fn()
	return
}

// jsonString is the JSON text of s. Every enumerated alphabet is printable ASCII without '"' and
// '\\', for which the JSON string literal is the text between quotes; anything else goes through
// encoding/json (trusted base).
func jsonString(s string) []byte {
	plain := true
	for i := 0; i < len(s); i++ {
		if c := s[i]; c < 0x20 || c > 0x7e || c == '"' || c == '\\' || c == '<' || c == '>' || c == '&' {
			plain = false
			break
		}
	}
	if plain {
		b := make([]byte, 0, len(s)+2)
		b = append(b, '"')
		b = append(b, s...)
		return append(b, '"')
	}
	b, _ := json.Marshal(s)
	return b
}

func quad(ip [4]byte) string {
	return strconv.Itoa(int(ip[0])) + "." + strconv.Itoa(int(ip[1])) + "." + strconv.Itoa(int(ip[2])) + "." + strconv.Itoa(int(ip[3]))
}

// sameAddr: "exactly that address" is judged on the IPv4 value (an IPv4-mapped IPv6 form of the
// same four bytes is tolerated: DESIGN §4.1a compares IP addresses by value, not representation).
func sameAddr(got netip.Addr, want [4]byte) bool {
	return got.IsValid() && got.Zone() == "" && got.Unmap() == netip.AddrFrom4(want)
}

type entry struct {
	site     string // key component, e.g. "ParseBindAddr", "BindAddr.Set"
	rejected bool
	errText  string
	v        value
}

// checkOne runs every entry point of one role on one input and judges the results.
func checkOne(o *ops, s string, t *tally, verbose bool) {
	c := spec.ClassifyAddr(o.role, s)
	t.cases++
	t.reasons[o.role][c.Reason]++

	var es [4]entry
	n := 0
	run := func(site string, fn func() (value, error)) {
		t.evals++
		var v value
		var err error
		if p, msg, frame := vk.Guard(func() { v, err = fn() }); p {
			report("C15/"+site+"/panic/"+frame, o, s, fmt.Sprintf("%s(%q) panicked: %s", site, s, msg))
			return
		}
		e := entry{site: site, rejected: err != nil, v: v}
		if err != nil {
			e.errText = err.Error()
		}
		es[n] = e
		n++
	}
	run("Parse"+o.typ, func() (value, error) { return o.parse(s) })
	run(o.typ+".Set", func() (value, error) { return o.set(s) })
	run(o.typ+".UnmarshalJSON", func() (value, error) { return o.unmarshal(jsonString(s)) })
	{
		t.evals++
		var v value
		p, msg := mustGuard(func() { v = o.must(s) })
		es[n] = entry{site: "MustParse" + o.typ, rejected: p, errText: msg, v: v}
		n++
	}

	if verbose {
		fmt.Printf("role=%s input=%q\n  reference: %v (%v)", o.role, s, c.Verdict, c.Reason)
		if c.Verdict == spec.AddrMustAccept {
			fmt.Printf(" address=%s port=%d", quad(c.IP), c.Port)
		}
		fmt.Println()
		for _, e := range es[:n] {
			if e.rejected {
				fmt.Printf("  library %-28s rejected: %s\n", e.site, e.errText)
			} else {
				fmt.Printf("  library %-28s accepted: address=%s port=%d\n", e.site, e.v.addr.String(), e.v.port)
			}
		}
	}

	for _, e := range es[:n] {
		switch c.Verdict {
		case spec.AddrMustAccept:
			form := "explicit-port"
			if !c.HasPort {
				form = "default-port"
			}
			switch {
			case e.rejected:
				report("C15/"+e.site+"/rejects-valid/"+form, o, s,
					fmt.Sprintf("%s(%q) rejected (%s), want address %s port %d", e.site, s, e.errText, quad(c.IP), c.Port))
			case !sameAddr(e.v.addr, c.IP):
				report("C15/"+e.site+"/wrong-address/"+form, o, s,
					fmt.Sprintf("%s(%q) = address %s, want %s", e.site, s, e.v.addr.String(), quad(c.IP)))
			case e.v.port != c.Port:
				report("C15/"+e.site+"/wrong-port/"+form, o, s,
					fmt.Sprintf("%s(%q) = port %d, want %d", e.site, s, e.v.port, c.Port))
			}
		case spec.AddrMustReject:
			if !e.rejected {
				report("C15/"+e.site+"/accepts-"+c.Reason.String(), o, s,
					fmt.Sprintf("%s(%q) accepted as %s port %d, want rejection (%s for a %s address)", e.site, s, e.v.addr.String(), e.v.port, c.Reason, o.role))
			}
		}
	}

	// Formatting an address accepted in dotted-quad form and parsing it again returns the same
	// address and port; the text omits the default port.
	if c.Verdict == spec.AddrMustAccept && n > 0 && es[0].site == "Parse"+o.typ && !es[0].rejected {
		got := es[0].v
		t.roundtrips++

		var text string
		t.evals++
		if p, msg, frame := vk.Guard(func() { text = got.str() }); p {
			report("C15/"+o.typ+".String/panic/"+frame, o, s, fmt.Sprintf("%s.String() of Parse(%q) panicked: %s", o.typ, s, msg))
		} else {
			if verbose {
				fmt.Printf("  library %-28s %q\n", o.typ+".String", text)
			}
			// (the text omits the default port) — judged only when the library's own value is the
			// expected one, so that a parse defect is not reported a second time here
			if def, has := spec.AddrDefaultPort(o.role); has && c.Port == def && sameAddr(got.addr, c.IP) && got.port == c.Port && text != quad(c.IP) {
				report("C15/"+o.typ+".String/default-port-not-omitted", o, s,
					fmt.Sprintf("%s.String() of Parse(%q) = %q, want %q (default port %d omitted)", o.typ, s, text, quad(c.IP), def))
			}
			t.evals++
			var back value
			var err error
			if p, msg, frame := vk.Guard(func() { back, err = o.parse(text) }); p {
				report("C15/Parse"+o.typ+"/panic/"+frame, o, s, fmt.Sprintf("Parse%s(%q) (the String() of Parse(%q)) panicked: %s", o.typ, text, s, msg))
			} else if err != nil {
				report("C15/"+o.typ+".String/roundtrip-rejected", o, s,
					fmt.Sprintf("Parse%s(%q) = error %v; %q is the String() of Parse(%q) = %s port %d", o.typ, text, err, text, s, got.addr.String(), got.port))
			} else if back.addr != got.addr || back.port != got.port {
				report("C15/"+o.typ+".String/roundtrip-differs", o, s,
					fmt.Sprintf("Parse%s(%q) = %s port %d; %q is the String() of Parse(%q) = %s port %d", o.typ, text, back.addr.String(), back.port, text, s, got.addr.String(), got.port))
			}
		}

		var js []byte
		var err error
		t.evals++
		if p, msg, frame := vk.Guard(func() { js, err = got.marshal() }); p {
			report("C15/"+o.typ+".MarshalJSON/panic/"+frame, o, s, fmt.Sprintf("%s.MarshalJSON() of Parse(%q) panicked: %s", o.typ, s, msg))
		} else if err != nil {
			report("C15/"+o.typ+".MarshalJSON/error", o, s, fmt.Sprintf("%s.MarshalJSON() of Parse(%q) = error %v", o.typ, s, err))
		} else {
			if verbose {
				fmt.Printf("  library %-28s %s\n", o.typ+".MarshalJSON", js)
			}
			t.evals++
			var back value
			if p, msg, frame := vk.Guard(func() { back, err = o.unmarshal(js) }); p {
				report("C15/"+o.typ+".UnmarshalJSON/panic/"+frame, o, s, fmt.Sprintf("%s.UnmarshalJSON(%s) panicked: %s", o.typ, js, msg))
			} else if err != nil {
				report("C15/"+o.typ+".MarshalJSON/roundtrip-rejected", o, s,
					fmt.Sprintf("%s.UnmarshalJSON(%s) = error %v; that is the MarshalJSON() of Parse(%q)", o.typ, js, err, s))
			} else if back.addr != got.addr || back.port != got.port {
				report("C15/"+o.typ+".MarshalJSON/roundtrip-differs", o, s,
					fmt.Sprintf("%s.UnmarshalJSON(%s) = %s port %d; that is the MarshalJSON() of Parse(%q) = %s port %d", o.typ, js, back.addr.String(), back.port, s, got.addr.String(), got.port))
			}
		}
	}
}

func checkAll(s string, t *tally) {
	for i := range roles {
		checkOne(&roles[i], s, t, false)
	}
}

// ---------------------------------------------------------------------------------------------
// enumeration helpers

// allStrings runs fn on every string of length 0..maxLen over alphabet (sum k^L strings), in
// parallel chunks; returns the number of strings.
func allStrings(alphabet []byte, maxLen int, fn func(s string, t *tally)) int64 {
	k := len(alphabet)
	var n int64
	for L, p := 0, int64(1); L <= maxLen; L, p = L+1, p*int64(k) {
		n += p
		const chunk = 4096
		chunks := int((p + chunk - 1) / chunk)
		length, count := L, p
		vk.Parallel(chunks, func(ci int) {
			var t tally
			buf := make([]byte, length)
			lo, hi := int64(ci)*chunk, int64(ci+1)*chunk
			if hi > count {
				hi = count
			}
			for idx := lo; idx < hi; idx++ {
				v := idx
				for pos := length - 1; pos >= 0; pos-- {
					buf[pos] = alphabet[v%int64(k)]
					v /= int64(k)
				}
				fn(string(buf), &t)
			}
			t.flush()
		})
	}
	return n
}

func within(s string, alphabet []byte, maxLen int) bool {
	if len(s) > maxLen {
		return false
	}
	for i := 0; i < len(s); i++ {
		ok := false
		for _, a := range alphabet {
			ok = ok || s[i] == a
		}
		if !ok {
			return false
		}
	}
	return true
}

// grammarShaped: `digits* . digits* . digits* . digits*` optionally followed by ':' and any
// characters of {digit, '+', '-', ' '}. Every string of family B has this shape, so family C
// counts a string as new only if it does not (conservative under-count of distinct cases).
func grammarShaped(s string) bool {
	i, dots := 0, 0
	for i < len(s) && (s[i] == '.' || (s[i] >= '0' && s[i] <= '9')) {
		if s[i] == '.' {
			dots++
		}
		i++
	}
	if dots != 3 {
		return false
	}
	if i == len(s) {
		return true
	}
	if s[i] != ':' {
		return false
	}
	for i++; i < len(s); i++ {
		if c := s[i]; !(c >= '0' && c <= '9') && c != '+' && c != '-' && c != ' ' {
			return false
		}
	}
	return true
}

func levenshtein(a, b string) int {
	prev := make([]int, len(b)+1)
	for j := range prev {
		prev[j] = j
	}
	for i := 1; i <= len(a); i++ {
		cur := make([]int, len(b)+1)
		cur[0] = i
		for j := 1; j <= len(b); j++ {
			d := prev[j-1]
			if a[i-1] != b[j-1] {
				d++
			}
			if prev[j]+1 < d {
				d = prev[j] + 1
			}
			if cur[j-1]+1 < d {
				d = cur[j-1] + 1
			}
			cur[j] = d
		}
		prev = cur
	}
	return prev[len(b)]
}

// neighbours adds every string at edit distance <= 1 of s (single insertion, deletion,
// substitution over alphabet) to out.
func neighbours(s string, alphabet []byte, out map[string]struct{}) {
	for i := 0; i <= len(s); i++ {
		for _, a := range alphabet {
			out[s[:i]+string(a)+s[i:]] = struct{}{}
		}
	}
	for i := 0; i < len(s); i++ {
		out[s[:i]+s[i+1:]] = struct{}{}
		for _, a := range alphabet {
			out[s[:i]+string(a)+s[i+1:]] = struct{}{}
		}
	}
}

// ---------------------------------------------------------------------------------------------

var (
	alphaA1 = []byte{'1', '2', '.', ':'}
	alphaA2 = []byte{'0', '1', '6', '.', ':', 'x', ' '}
	alphaC  = []byte{'0', '1', '5', '6', '9', '.', ':', '[', ']', '%', 'x', ' '}

	// boundary octet texts (the last four are not octets: > 255 or leading zero)
	octets12 = []string{"0", "1", "9", "10", "99", "100", "199", "255", "256", "999", "00", "01"}

	// all-distinct base address, so that swapped or shifted octets are visible
	baseOctets = [4]string{"12", "34", "56", "78"}

	// port suffixes used with every address text of families B1/B3
	portSuffixes = []string{
		"", ":0", ":1", ":9", ":10", ":99", ":100", ":999", ":1000", ":9999", ":10000",
		":59999", ":60000", ":60001", ":65535", // in-form up to here
		":65536", ":99999", ":100000", ":65537", ":125536", ":125537", ":131071", ":4294967297", ":4295027297", ":18446744073709551617", ":18446744073709611617", ":160001", ":080", ":00", ":060000", ":00001", ":+1", ":-1", ":", ": 1", ":1 ", ":6000x",
	}

	// the six valid addresses whose edit neighbourhood is enumerated (pairwise edit distance > 4,
	// asserted at start-up, so their radius-2 neighbourhoods are disjoint)
	seedsC = []string{
		"1.2.3.4",
		"0.0.0.0:0",
		"10.0.0.1:60000",
		"172.16.254.9:59999",
		"192.168.1.100:60001",
		"255.255.255.255:65535",
	}

	// the simplest written-out cases, run first
	basics = []string{
		"1.2.3.4", "1.2.3.4:0", "1.2.3.4:1", "1.2.3.4:59999", "1.2.3.4:60000", "1.2.3.4:60001", "1.2.3.4:65535",
		"0.0.0.0", "255.255.255.255", "192.168.1.100", "192.168.1.100:60000", "192.168.1.100:54321",
		"", ":", ".", "1.2.3", "1.2.3:4", ":60000", "::1", "localhost", "localhost:60001", "1.2.3.x", "1.256.3.4", "1.2.999.4:60001",
	}
)

func join4(o [4]string) string { return o[0] + "." + o[1] + "." + o[2] + "." + o[3] }

func main() {
	r := vk.Start("C15", "exploration")

	// Every parser call compiles two regular expressions: tens of short-lived allocations per
	// evaluation against a live heap of a few MB, i.e. a GC cycle every few milliseconds on 16
	// cores. Collect on a 512 MB ceiling instead of on heap growth.
	debug.SetGCPercent(-1)
	debug.SetMemoryLimit(512 << 20)

	if err := spec.AddrSelfTest(); err != nil {
		r.Machinery("%v", err)
		r.Finish()
	}

	if r.Replay != "" {
		kind, raw, err := vk.LoadReplay(r.Replay)
		var c addrCase
		if err == nil && kind != "addr" {
			err = fmt.Errorf("unknown replay kind %q", kind)
		}
		if err == nil {
			err = json.Unmarshal(raw, &c)
		}
		found := false
		if err == nil {
			for i := range roles {
				if roles[i].role.String() == c.Role {
					var t tally
					checkOne(&roles[i], c.Input, &t, true)
					r.Count(t.evals)
					found = true
				}
			}
			if !found {
				err = fmt.Errorf("unknown role %q", c.Role)
			}
		}
		if err != nil {
			r.Machinery("cannot replay %s: %v", r.Replay, err)
		}
		flushViolations(r)
		r.Finish()
	}

	for i := range seedsC {
		for j := i + 1; j < len(seedsC); j++ {
			if d := levenshtein(seedsC[i], seedsC[j]); d <= 4 {
				r.Machinery("family C seeds %q and %q are only %d edits apart", seedsC[i], seedsC[j], d)
				r.Finish()
			}
		}
	}

	maxA1, radius := 9, 1
	if r.Thorough() {
		maxA1, radius = 10, 2
	}
	const maxA2 = 7
	inA := func(s string) bool { return within(s, alphaA1, maxA1) || within(s, alphaA2, maxA2) }

	var distinct int64 // distinct input strings, counted conservatively

	// ---- (0) basics, serially, simplest first
	{
		var t tally
		seen := map[string]struct{}{}
		for _, s := range basics {
			checkAll(s, &t)
			seen[s] = struct{}{}
		}
		t.flush()
		r.Set("family0_basics_strings", int64(len(seen)))
		// not added to `distinct`: most of them reappear in families A–C
	}

	// ---- (B) grammar family
	// B1: two octet positions over the 12 boundary texts, the others fixed, × every port suffix
	// B3: each octet position over all 0..255, the others fixed, × every port suffix
	b13 := map[string]struct{}{}
	b13addr := []string{}
	{
		addrs := map[string]struct{}{}
		add := func(o [4]string) {
			a := join4(o)
			if _, dup := addrs[a]; !dup {
				addrs[a] = struct{}{}
				b13addr = append(b13addr, a)
			}
		}
		for p := 0; p < 4; p++ {
			for q := p + 1; q < 4; q++ {
				for _, x := range octets12 {
					for _, y := range octets12 {
						o := baseOctets
						o[p], o[q] = x, y
						add(o)
					}
				}
			}
		}
		r.Set("familyB1_address_texts", int64(len(b13addr)))
		n1 := len(b13addr)
		for p := 0; p < 4; p++ {
			for v := 0; v <= 255; v++ {
				o := baseOctets
				o[p] = strconv.Itoa(v)
				add(o)
			}
		}
		r.Set("familyB3_address_texts", int64(len(b13addr)-n1))
		for _, a := range b13addr {
			for _, p := range portSuffixes {
				b13[a+p] = struct{}{}
			}
		}
		vk.Parallel(len(b13addr), func(i int) {
			var t tally
			for _, p := range portSuffixes {
				checkAll(b13addr[i]+p, &t)
			}
			t.flush()
		})
		var fresh int64
		for s := range b13 {
			if !inA(s) {
				fresh++
			}
		}
		r.Set("familyB1B3_strings", int64(len(b13)))
		r.Set("port_suffixes", portSuffixes)
		distinct += fresh
	}

	// B2: every port 0..65535 in plain decimal × a set of address texts
	{
		addrs := []string{join4(baseOctets), "0.0.0.0", "255.255.255.255", "192.168.1.100"}
		if r.Thorough() {
			// every single-position boundary text, valid or not
			for p := 0; p < 4; p++ {
				for _, x := range octets12 {
					o := baseOctets
					o[p] = x
					addrs = append(addrs, join4(o))
				}
			}
		}
		const block = 1024
		var fresh int64
		var fmu sync.Mutex
		vk.Parallel(len(addrs)*(65536/block), func(i int) {
			var t tally
			a, lo := addrs[i/(65536/block)], (i%(65536/block))*block
			var f int64
			for port := lo; port < lo+block; port++ {
				s := a + ":" + strconv.Itoa(port)
				checkAll(s, &t)
				if _, dup := b13[s]; !dup && !inA(s) {
					f++
				}
			}
			if r.Thorough() && i/(65536/block) == 0 {
				// the same ports zero-padded to five digits (leading-zero ports: middle ground, must not panic)
				for port := lo; port < lo+block; port++ {
					if port < 10000 {
						s := a + ":" + fmt.Sprintf("%05d", port)
						checkAll(s, &t)
						if _, dup := b13[s]; !dup {
							f++
						}
					}
				}
			}
			t.flush()
			fmu.Lock()
			fresh += f
			fmu.Unlock()
		})
		r.Set("familyB2_address_texts_x_65536_ports", int64(len(addrs)))
		distinct += fresh
	}

	// B4: two octet positions over all 0..255 (others fixed) — quick: the two adjacent-pair sweeps
	// (0,1) and (2,3) without port; thorough: all six position pairs, without port and with :60001
	{
		pairs := [][2]int{{0, 1}, {2, 3}}
		suffixes := []string{""}
		if r.Thorough() {
			pairs = [][2]int{{0, 1}, {0, 2}, {0, 3}, {1, 2}, {1, 3}, {2, 3}}
			suffixes = []string{"", ":60001"}
		}
		var fresh int64
		var fmu sync.Mutex
		vk.Parallel(len(pairs)*256, func(i int) {
			var t tally
			var f int64
			pq, x := pairs[i/256], i%256
			for y := 0; y <= 255; y++ {
				o := baseOctets
				o[pq[0]], o[pq[1]] = strconv.Itoa(x), strconv.Itoa(y)
				for _, sfx := range suffixes {
					s := join4(o) + sfx
					checkAll(s, &t)
					// new unless it is a B1/B3 text; a text with both swept octets equal to the base
					// values is shared between pairs: count it for no pair (conservative)
					if _, dup := b13[s]; !dup && !inA(s) && o[pq[0]] != baseOctets[pq[0]] && o[pq[1]] != baseOctets[pq[1]] {
						f++
					}
				}
			}
			t.flush()
			fmu.Lock()
			fresh += f
			fmu.Unlock()
		})
		r.Set("familyB4_octet_pair_sweeps", int64(len(pairs)))
		distinct += fresh
	}

	// ---- (C) complete edit neighbourhood of the six valid addresses
	{
		var sizes []int64
		for _, seed := range seedsC {
			ball := map[string]struct{}{seed: {}}
			neighbours(seed, alphaC, ball)
			if radius == 2 {
				ring := make([]string, 0, len(ball))
				for s := range ball {
					ring = append(ring, s)
				}
				for _, s := range ring {
					neighbours(s, alphaC, ball)
				}
			}
			list := make([]string, 0, len(ball))
			for s := range ball {
				list = append(list, s)
			}
			sort.Strings(list)
			sizes = append(sizes, int64(len(list)))
			const chunk = 512
			vk.Parallel((len(list)+chunk-1)/chunk, func(ci int) {
				var t tally
				hi := (ci + 1) * chunk
				if hi > len(list) {
					hi = len(list)
				}
				for _, s := range list[ci*chunk : hi] {
					checkAll(s, &t)
				}
				t.flush()
			})
			for _, s := range list {
				if !grammarShaped(s) && !inA(s) {
					distinct++
				}
			}
		}
		r.Set("familyC_seeds", seedsC)
		r.Set("familyC_radius", int64(radius))
		r.Set("familyC_neighbourhood_sizes", sizes)
	}

	// ---- (A) every string up to a length bound over two small alphabets
	{
		nA1 := allStrings(alphaA1, maxA1, checkAll)
		var overlap int64
		var omu sync.Mutex
		nA2 := allStrings(alphaA2, maxA2, func(s string, t *tally) {
			checkAll(s, t)
			if within(s, alphaA1, maxA1) {
				omu.Lock()
				overlap++
				omu.Unlock()
			}
		})
		r.Set("familyA1_strings", nA1)
		r.Set("familyA2_strings", nA2)
		distinct += nA1 + nA2 - overlap - 1 // the empty string is the trivial case
	}

	// ---- family G: IPv6 literals. A text that contains no dotted quad is never an address, however
	// else it may denote an IPv4 host: (G1) every string of length 0..maxG over {':','f','0'}
	// (thorough: plus '1') - the shortest IPv4-mapped literals ("::ffff:0:0") are among them - and
	// (G2) the hexadecimal IPv4-mapped / IPv4-compatible / NAT64 / 6to4 spellings of 8 IPv4 addresses,
	// bare, bracketed, with zone and with 6 port suffixes.
	{
		alphaG, maxG := []byte{':', 'f', '0'}, 10
		if r.Thorough() {
			alphaG = []byte{':', 'f', '0', '1'}
		}
		var overlapG int64
		var gmu sync.Mutex
		nG1 := allStrings(alphaG, maxG, func(s string, t *tally) {
			checkAll(s, t)
			if inA(s) {
				gmu.Lock()
				overlapG++
				gmu.Unlock()
			}
		})
		ips := [][4]byte{{0, 0, 0, 0}, {1, 2, 3, 4}, {10, 0, 0, 1}, {127, 0, 0, 1}, {192, 168, 1, 100}, {192, 168, 1, 255}, {224, 0, 0, 1}, {255, 255, 255, 255}}
		set := map[string]struct{}{}
		for _, ip := range ips {
			h, l := fmt.Sprintf("%x", uint16(ip[0])<<8|uint16(ip[1])), fmt.Sprintf("%x", uint16(ip[2])<<8|uint16(ip[3]))
			H, L := fmt.Sprintf("%04x", uint16(ip[0])<<8|uint16(ip[1])), fmt.Sprintf("%04X", uint16(ip[2])<<8|uint16(ip[3]))
			for _, x := range []string{
				"::ffff:" + h + ":" + l, "::FFFF:" + h + ":" + l, "::ffff:" + H + ":" + L, "0:0:0:0:0:ffff:" + h + ":" + l,
				"0000:0000:0000:0000:0000:ffff:" + H + ":" + L, "::0:ffff:" + h + ":" + l, "0::ffff:" + h + ":" + l, "0:0::ffff:" + h + ":" + l,
				"::" + h + ":" + l, "0:0:0:0:0:0:" + h + ":" + l, "64:ff9b::" + h + ":" + l, "2002:" + h + ":" + l + "::", "::ffff:0:" + h + ":" + l,
			} {
				for _, form := range []string{"%s", "[%s]", "%s%%eth0", "[%s%%eth0]", "[%s%%1]"} {
					base := fmt.Sprintf(form, x)
					set[base] = struct{}{}
					for _, port := range []string{":0", ":1", ":59999", ":60000", ":60001", ":65535"} {
						set[base+port] = struct{}{}
					}
				}
			}
		}
		// IPv6 literals whose zone carries a dotted fragment shorter than a quad (a VLAN sub-interface, a
		// numeric scope): still no dotted quad anywhere in the text
		for _, base := range []string{"fe80::1", "::", "::1", "::ffff:c0a8:164", "2001:db8::1", "fe80::c0a8:164"} {
			for _, zone := range []string{"eth0.100", "1.2", "1.2.3", "0.0", "eth0.1.2", "a.b", "1.2.3.", "255.255.255", "bond0.4094"} {
				for _, form := range []string{"%s%%%s", "[%s%%%s]"} {
					b := fmt.Sprintf(form, base, zone)
					set[b] = struct{}{}
					for _, port := range []string{":0", ":1", ":60000", ":60001", ":65535"} {
						set[b+port] = struct{}{}
					}
				}
			}
		}
		g2 := make([]string, 0, len(set))
		for s := range set {
			g2 = append(g2, s)
		}
		sort.Strings(g2)
		var t tally
		for _, s := range g2 {
			if c := spec.ClassifyAddr(spec.AddrBind, s); c.Verdict != spec.AddrMustReject {
				r.Machinery("family G2 text %q is not a must-reject case of the reference (%v)", s, c.Reason)
			}
			checkAll(s, &t)
		}
		t.flush()
		// (G3) every string of length 0..8 (thorough 9) over {':','%','1','.'}: zoned literals, dotted
		// fragments and their mixtures
		maxG3 := 8
		if r.Thorough() {
			maxG3 = 9
		}
		var overlapG3 int64
		nG3 := allStrings([]byte{':', '%', '1', '.'}, maxG3, func(s string, t *tally) {
			checkAll(s, t)
			if inA(s) {
				gmu.Lock()
				overlapG3++
				gmu.Unlock()
			}
		})
		// (G4) every string of length 0..7 over {'*',':','0','1','6'}: wildcard shorthands ("*:60001",
		// ":60001", "*") are not addresses either
		var overlapG4 int64
		nG4 := allStrings([]byte{'*', ':', '0', '1', '6'}, 7, func(s string, t *tally) {
			checkAll(s, t)
			if inA(s) {
				gmu.Lock()
				overlapG4++
				gmu.Unlock()
			}
		})
		r.Set("familyG4_wildcard_alphabet_strings", nG4)
		distinct += nG4 - overlapG4
		r.Set("familyG3_zone_alphabet_strings", nG3)
		distinct += nG3 - overlapG3
		r.Set("familyG1_ipv6_alphabet_strings", nG1)
		r.Set("familyG2_ipv6_spellings_of_ipv4", int64(len(g2)))
		distinct += nG1 - overlapG + int64(len(g2))
	}

	// ---- family H: names of things the host knows. An address text is judged by its characters
	// alone: the names of the network interfaces of the machine the check runs on (read with
	// net.Interfaces), common interface names, host names and service names, bare, with port suffixes
	// and bracketed, contain no dotted quad and are rejected.
	{
		names := map[string]struct{}{}
		if ifs, err := net.Interfaces(); err == nil {
			for _, i := range ifs {
				names[i.Name] = struct{}{}
			}
		}
		if h, err := os.Hostname(); err == nil && h != "" {
			names[h] = struct{}{}
		}
		for _, n := range []string{"lo", "lo0", "eth0", "eth1", "en0", "wlan0", "docker0", "br0", "localhost", "broadcasthost", "ip6-localhost", "any", "all", "default", "broadcast", "udp", "tcp", "http"} {
			names[n] = struct{}{}
		}
		list := []string{}
		for n := range names {
			if c := spec.ClassifyAddr(spec.AddrBind, n); c.Verdict != spec.AddrMustReject {
				continue // (a host named like a dotted quad: not this family's business)
			}
			for _, form := range []string{"%s", "[%s]", "%s%%1"} {
				base := fmt.Sprintf(form, n)
				list = append(list, base)
				for _, port := range []string{":0", ":1", ":60000", ":60001", ":65535"} {
					list = append(list, base+port)
				}
			}
		}
		sort.Strings(list)
		var t tally
		for _, s := range list {
			checkAll(s, &t)
		}
		t.flush()
		r.Set("familyH_host_known_names", int64(len(list)))
		distinct += int64(len(list))
	}

	// ---- family D: Set / UnmarshalJSON on a receiver that already holds a value. The verdict and the
	// resulting value must be those of the text alone, whatever the receiver held before (including
	// a value the role's port rule forbids, which only the XxxAddrFrom constructors can produce, and
	// including the receiver's own String()).
	{
		var nD int64
		prevAddrs := []netip.Addr{netip.MustParseAddr("1.2.3.4"), netip.MustParseAddr("192.168.1.100"), netip.MustParseAddr("0.0.0.0")}
		prevPorts := []uint16{0, 1, 59999, 60000, 60001, 65535}
		for ri := range roles {
			o := &roles[ri]
			for _, pa := range prevAddrs {
				for _, pp := range prevPorts {
					texts := map[string]bool{}
					for _, a := range []string{"1.2.3.4", "192.168.1.100", "0.0.0.0", "10.0.0.1"} {
						texts[a] = true
						for _, p := range prevPorts {
							texts[fmt.Sprintf("%s:%d", a, p)] = true
						}
					}
					texts[""] = true
					texts["x"] = true
					// the receiver's own text form
					if _, own, _ := o.setOnto(pa, pp, "0.0.0.0"); own != "" {
						texts[own] = true
					}
					keys := []string{}
					for t := range texts {
						keys = append(keys, t)
					}
					sort.Strings(keys)
					for _, s := range keys {
						c := spec.ClassifyAddr(o.role, s)
						for _, site := range []string{"Set", "UnmarshalJSON"} {
							nD++
							var v value
							var err error
							fn := func() { v, _, err = o.setOnto(pa, pp, s) }
							if site == "UnmarshalJSON" {
								fn = func() { v, _, err = o.unmarshalOnto(pa, pp, jsonString(s)) }
							}
							name := fmt.Sprintf("%s.%s on a receiver holding %s:%d", o.typ, site, pa, pp)
							if p, msg, frame := vk.Guard(fn); p {
								report("C15/"+o.typ+"."+site+"/non-fresh-receiver/panic/"+frame, o, s, fmt.Sprintf("%s (%q) panicked: %s", name, s, msg))
								continue
							}
							switch c.Verdict {
							case spec.AddrMustAccept:
								if err != nil {
									report("C15/"+o.typ+"."+site+"/non-fresh-receiver/rejects-valid", o, s, fmt.Sprintf("%s (%q) rejected: %v", name, s, err))
								} else if !sameAddr(v.addr, c.IP) || v.port != c.Port {
									report("C15/"+o.typ+"."+site+"/non-fresh-receiver/wrong-value", o, s, fmt.Sprintf("%s (%q) = %s port %d, want %s port %d", name, s, v.addr, v.port, quad(c.IP), c.Port))
								}
							case spec.AddrMustReject:
								if err == nil {
									report("C15/"+o.typ+"."+site+"/non-fresh-receiver/accepts-"+c.Reason.String(), o, s, fmt.Sprintf("%s (%q) accepted as %s port %d, want rejection (%s for a %s address)", name, s, v.addr, v.port, c.Reason, o.role))
								}
							}
						}
					}
				}
			}
		}
		total.evals += nD
		r.Set("familyD_non_fresh_receiver_cases", nD)
	}

	// ---- family E: histories. Parsing is a function of the text: every ordered pair of texts from a
	// small alphabet is parsed one directly after the other (the JSON form from one reused input
	// buffer); the second result must be what the text gives on its own.
	{
		var nE int64
		texts := []string{"", "x", "1.2.3.4", "1.2.3.4:0", "1.2.3.4:1", "1.2.3.4:60000", "1.2.3.4:60001", "1.2.3.4:65535", "1.2.3.5:60001", "10.20.30.40:12345", "10.20.30.41:12345",
			"192.168.100.255:60001", "192.168.100.255:6000", "255.255.255.255:60000", "255.255.255.255", "0.0.0.0:0", "0.0.0.0", "0.0.0.0:60001", "1.2.3.256", "1.2.3.4:65536", "01.2.3.4", "1.2.3.4:", "1.2.3:4"}
		buf := make([]byte, 0, 256)
		loadJSON := func(t string) []byte {
			j := jsonString(t)
			for i := range buf[:cap(buf)] {
				buf[:cap(buf)][i] = ' '
			}
			buf = buf[:len(j)]
			copy(buf, j)
			return buf
		}
		for ri := range roles {
			o := &roles[ri]
			for _, t1 := range texts {
				for _, t2 := range texts {
					c := spec.ClassifyAddr(o.role, t2)
					if c.Verdict == spec.AddrUnconstrained {
						continue
					}
					for _, site := range []string{"Parse", "Set", "UnmarshalJSON"} {
						nE++
						var v value
						var err error
						fn := func() { o.parse(t1); v, err = o.parse(t2) }
						switch site {
						case "Set":
							fn = func() { o.set(t1); v, err = o.set(t2) }
						case "UnmarshalJSON":
							fn = func() { o.unmarshal(loadJSON(t1)); v, err = o.unmarshal(loadJSON(t2)) }
						}
						name := fmt.Sprintf("%s %s(%q) directly after %s(%q)", o.typ, site, t2, site, t1)
						if p, msg, frame := vk.Guard(fn); p {
							report("C15/"+o.typ+"."+site+"/history/panic/"+frame, o, t2, name+" panicked: "+msg)
							continue
						}
						switch c.Verdict {
						case spec.AddrMustAccept:
							if err != nil {
								report("C15/"+o.typ+"."+site+"/history/rejects-valid", o, t2, fmt.Sprintf("%s rejected: %v", name, err))
							} else if !sameAddr(v.addr, c.IP) || v.port != c.Port {
								report("C15/"+o.typ+"."+site+"/history/wrong-value", o, t2, fmt.Sprintf("%s = %s port %d, want %s port %d", name, v.addr, v.port, quad(c.IP), c.Port))
							}
						case spec.AddrMustReject:
							if err == nil {
								report("C15/"+o.typ+"."+site+"/history/accepts-"+c.Reason.String(), o, t2, fmt.Sprintf("%s accepted as %s port %d", name, v.addr, v.port))
							}
						}
					}
				}
			}
		}
		total.evals += nE
		r.Set("familyE_history_cases", nE)
	}

	// ---- family F: JSON spellings. A JSON string is the text it denotes: the same address written with
	// \uXXXX escapes (all characters, or only the first, a dot, the colon, the last) or surrounded by
	// insignificant white space is the same string of the form a.b.c.d[:port].
	{
		var nF int64
		texts := []string{"1.2.3.4", "1.2.3.4:0", "1.2.3.4:1", "1.2.3.4:60000", "1.2.3.4:60001", "1.2.3.4:65535", "192.168.100.255:60001", "255.255.255.255:12345", "0.0.0.0:0", "0.0.0.0", "10.20.30.40:54321",
			"1.2.3.4:65536", "1.2.3.256", "1.2.3", "x"}
		esc := func(t string, which func(i int, c byte) bool) []byte {
			out := []byte{'"'}
			for i := 0; i < len(t); i++ {
				if which(i, t[i]) {
					out = append(out, []byte(fmt.Sprintf("\\u%04x", t[i]))...)
				} else {
					out = append(out, t[i])
				}
			}
			return append(out, '"')
		}
		for ri := range roles {
			o := &roles[ri]
			for _, t := range texts {
				c := spec.ClassifyAddr(o.role, t)
				if c.Verdict == spec.AddrUnconstrained {
					continue
				}
				variants := [][]byte{
					esc(t, func(int, byte) bool { return true }),
					esc(t, func(i int, _ byte) bool { return i == 0 }),
					esc(t, func(_ int, ch byte) bool { return ch == '.' }),
					esc(t, func(_ int, ch byte) bool { return ch == ':' }),
					esc(t, func(i int, _ byte) bool { return i == len(t)-1 }),
					append(append([]byte(" \n\t"), jsonString(t)...), " \r\n"...),
				}
				for _, doc := range variants {
					nF++
					var v value
					var err error
					name := fmt.Sprintf("json.Unmarshal(%s) into a %s", doc, o.typ)
					if p, msg, frame := vk.Guard(func() { v, err = o.unmarshalVia(doc) }); p {
						report("C15/"+o.typ+".UnmarshalJSON/json-spelling/panic/"+frame, o, t, name+" panicked: "+msg)
						continue
					}
					switch c.Verdict {
					case spec.AddrMustAccept:
						if err != nil {
							report("C15/"+o.typ+".UnmarshalJSON/json-spelling/rejects-valid", o, t, fmt.Sprintf("%s (the JSON string %q) rejected: %v", name, t, err))
						} else if !sameAddr(v.addr, c.IP) || v.port != c.Port {
							report("C15/"+o.typ+".UnmarshalJSON/json-spelling/wrong-value", o, t, fmt.Sprintf("%s = %s port %d, want %s port %d", name, v.addr, v.port, quad(c.IP), c.Port))
						}
					case spec.AddrMustReject:
						if err == nil {
							report("C15/"+o.typ+".UnmarshalJSON/json-spelling/accepts-"+c.Reason.String(), o, t, fmt.Sprintf("%s accepted as %s port %d", name, v.addr, v.port))
						}
					}
				}
			}
		}
		total.evals += nF
		r.Set("familyF_json_spelling_cases", nF)
	}

	// ---- evidence
	r.Count(total.evals)
	r.Distinct(distinct * int64(len(roles)))
	r.Set("role_input_pairs", total.cases)
	r.Set("distinct_input_strings", distinct)
	r.Set("roundtrips_checked", total.roundtrips)
	var mustAccept int64
	for ri, o := range roles {
		for reason := spec.AddrReason(0); reason < spec.NumAddrReasons; reason++ {
			if n := total.reasons[ri][reason]; n > 0 {
				r.Set("oracle/"+o.role.String()+"/"+reason.String(), n)
				if reason == spec.AddrInFormDefaultPort || reason == spec.AddrInFormExplicitPort {
					mustAccept += n
				}
			}
		}
	}
	// vacuity guards: the enumeration must have reached every verdict class of every role
	for ri, o := range roles {
		need := []spec.AddrReason{spec.AddrInFormExplicitPort, spec.AddrNoDigitQuad, spec.AddrNoOctetQuad, spec.AddrMiddleOther, spec.AddrMiddleLeadingZeroPort}
		switch o.role {
		case spec.AddrBind:
			need = append(need, spec.AddrInFormDefaultPort, spec.AddrPort60000Forbidden)
		case spec.AddrBroadcast, spec.AddrController:
			need = append(need, spec.AddrInFormDefaultPort, spec.AddrPort0Forbidden)
		case spec.AddrListen:
			need = append(need, spec.AddrPortMissing, spec.AddrPort0Forbidden, spec.AddrPort60000Forbidden)
		}
		for _, reason := range need {
			if total.reasons[ri][reason] == 0 {
				r.Machinery("enumeration never produced a %q case for role %s", reason, o.role)
			}
		}
	}
	if total.roundtrips != mustAccept && len(vmap) == 0 {
		r.Machinery("round trips (%d) != must-accept cases (%d) although nothing was reported", total.roundtrips, mustAccept)
	}

	r.Rule(fmt.Sprintf("inputs = (A) every string of length 0..%d over {'1','2','.',':'} and of length 0..%d over {'0','1','6','.',':','x',' '}; "+
		"(B) a.b.c.d+suffix with [B1] two octet positions over {0,1,9,10,99,100,199,255,256,999,00,01} (others fixed to 12.34.56.78) and [B3] each position over 0..255, each x %d port suffixes (none, boundary ports, 65536, 99999, leading zeros, signs, blanks, empty); "+
		"[B2] all 65536 plain-decimal ports x %s address texts; [B4] %s; "+
		"(G) every string of length 0..10 over {':','f','0'} (thorough: plus '1') and the hexadecimal IPv4-mapped / -compatible / NAT64 / 6to4 IPv6 spellings of 8 IPv4 addresses (13 spellings x bare / bracketed / zoned x 7 port suffixes), IPv6 literals with 9 zones that carry dotted fragments shorter than a quad, every string of length 0..8 over {':','%','1','.'} and of length 0..7 over {'*',':','0','1','6'}: no dotted quad, must be rejected. "+
		"(H) the names of the host's network interfaces, its host name and 18 common interface / host / service names x 3 forms x 6 port suffixes: rejected. "+
		"(C) every string within edit distance %d (insert/delete/substitute over a 12-symbol alphabet incl. '[',']','%%','x',' ') of 6 valid addresses. "+
		"Each input x 4 roles x {Parse, Set, UnmarshalJSON, MustParse}; String()->Parse and MarshalJSON->UnmarshalJSON for every accepted in-form input. (D) Set and UnmarshalJSON on receivers already holding each of 3 addresses x 6 ports (built with XxxAddrFrom, rule-violating ports included) x 29 texts incl. the receiver's own String(). (F) 15 texts in 6 JSON spellings (\\uXXXX escapes, surrounding white space) through encoding/json. (E) every ordered pair of 23 texts parsed one directly after the other through Parse, Set and UnmarshalJSON (JSON from one reused buffer). "+
		"A case is a (role, input string) pair; distinct = distinct non-empty input strings x 4 roles, counted conservatively "+
		"(a string is counted for the first family that can contain it: B only if outside A's alphabets/length, C only if additionally not of the shape digits.digits.digits.digits[:suffix] of B; repeated entry points and round trips are evaluations, not cases)",
		maxA1, maxA2, len(portSuffixes),
		map[bool]string{false: "4", true: "52 (4 valid + each position over the 12 boundary texts), plus 10000 zero-padded ports for one"}[r.Thorough()],
		map[bool]string{false: "octet pairs (0,1) and (2,3) over all 256x256 values without port", true: "all six octet pairs over all 256x256 values, without port and with :60001"}[r.Thorough()],
		radius))
	r.Assume("reference recogniser verif/spec/addr.go (hand-written scanner, pinned by a self-test of 33 hand-evaluated vectors x 4 roles at start-up)")
	r.Assume("'contains no dotted quad' is read conservatively: must-reject only if no SUBSTRING is a.b.c.d with numbers <= 255 (leading zeros tolerated); everything not in-form that does contain one is unconstrained")
	r.Assume("'exactly that address' compares the four address bytes (an IPv4-mapped IPv6 representation would be tolerated); encoding/json is trusted for quoting")
	for _, s := range []struct {
		role spec.AddrRole
		in   string
	}{
		{spec.AddrBind, "1.2.3.4"}, {spec.AddrBind, "1.2.3.4:60000"}, {spec.AddrBroadcast, "192.168.1.255"}, {spec.AddrBroadcast, "192.168.1.255:0"},
		{spec.AddrListen, "0.0.0.0"}, {spec.AddrListen, "0.0.0.0:60001"}, {spec.AddrListen, "0.0.0.0:60000"}, {spec.AddrController, "10.0.0.1:59999"},
		{spec.AddrController, "1.256.3.4"}, {spec.AddrController, "::1.2.3.4"}, {spec.AddrBind, "1.2.3.4:080"}, {spec.AddrBind, "1.2.3:4"},
	} {
		c := spec.ClassifyAddr(s.role, s.in)
		m := map[string]any{"role": s.role.String(), "input": s.in, "reference": c.Verdict.String(), "reason": c.Reason.String()}
		if c.Verdict == spec.AddrMustAccept {
			m["address"], m["port"] = quad(c.IP), c.Port
		}
		r.Sample(m)
	}

	flushViolations(r)
	r.Finish()
}
