module verif

go 1.23

require github.com/uhppoted/uhppote-core v0.0.0

replace github.com/uhppoted/uhppote-core => /repo
