// Package vk is the small framework shared by every check: tier/seed handling, counters,
// violation bookkeeping against the committed known-findings file, evidence and replay files.
package vk

import (
	"bytes"
	"crypto/sha256"
	"encoding/json"
	"flag"
	"fmt"
	"os"
	"os/exec"
	"path/filepath"
	"runtime"
	"sort"
	"strconv"
	"strings"
	"sync"
	"sync/atomic"
	"time"
)

const Root = "/verif"

type Finding struct {
	Property string `json:"property"`
	Key      string `json:"key"`
	Status   string `json:"status"` // "known" | "fixed"
	Commit   string `json:"commit,omitempty"`
	What     string `json:"what"`
}

type violation struct {
	Key   string `json:"key"`
	What  string `json:"what"`
	Kind  string `json:"kind,omitempty"`
	Case  any    `json:"case"`
	Count int64  `json:"count"`
}

type Run struct {
	ID     string
	Tier   string
	Seed   int64
	Level  string
	Replay string // path given with --replay ("" = normal run)
	Worker string // --worker argument for child processes

	start time.Time

	Evaluations atomic.Int64
	distinct    atomic.Int64

	mu          sync.Mutex
	samples     []any
	violations  map[string]*violation
	order       []string
	extra       map[string]any
	assumptions []string
	rule        string
	exhaustive  bool
	machinery   []string
}

// Start parses the command line (--tier quick|thorough, --replay path, --worker spec) and the
// VERIF_TIER / VERIF_SEED environment and pins the process time zone to UTC (zone-quantified
// checks set time.Local themselves in worker processes).
func Start(id, level string) *Run {
	tier := flag.String("tier", "", "quick|thorough")
	replay := flag.String("replay", "", "replay file")
	worker := flag.String("worker", "", "internal: worker spec")
	flag.Parse()

	r := &Run{ID: id, Level: level, start: time.Now(), violations: map[string]*violation{}, extra: map[string]any{}, exhaustive: true}
	r.Tier = *tier
	if r.Tier == "" {
		r.Tier = os.Getenv("VERIF_TIER")
	}
	if r.Tier != "thorough" {
		r.Tier = "quick"
	}
	if s := os.Getenv("VERIF_SEED"); s != "" {
		if v, err := strconv.ParseInt(s, 10, 64); err == nil {
			r.Seed = v
		}
	}
	r.Replay = *replay
	r.Worker = *worker
	time.Local = time.UTC
	return r
}

func (r *Run) Quick() bool    { return r.Tier != "thorough" }
func (r *Run) Thorough() bool { return r.Tier == "thorough" }

func (r *Run) Count(n int64)    { r.Evaluations.Add(n) }
func (r *Run) Distinct(n int64) { r.distinct.Add(n) }
func (r *Run) Rule(s string)    { r.rule = s }

func (r *Run) Sample(v any) {
	r.mu.Lock()
	defer r.mu.Unlock()
	if len(r.samples) < 12 {
		r.samples = append(r.samples, v)
	}
}

func (r *Run) NumSamples() int {
	r.mu.Lock()
	defer r.mu.Unlock()
	return len(r.samples)
}

func (r *Run) Set(k string, v any) {
	r.mu.Lock()
	defer r.mu.Unlock()
	r.extra[k] = v
}

func (r *Run) Add(k string, n int64) {
	r.mu.Lock()
	defer r.mu.Unlock()
	if v, ok := r.extra[k].(int64); ok {
		r.extra[k] = v + n
	} else {
		r.extra[k] = n
	}
}

func (r *Run) Assume(s string) {
	r.mu.Lock()
	defer r.mu.Unlock()
	r.assumptions = append(r.assumptions, s)
}

// NotExhaustive records that a cap was hit; the evidence then says exhaustive:false and why.
func (r *Run) NotExhaustive(why string) {
	r.mu.Lock()
	defer r.mu.Unlock()
	r.exhaustive = false
	r.extra["cap_hit"] = why
}

// Machinery records a failure of the checking machinery itself (exit 2, never a VIOLATION).
func (r *Run) Machinery(format string, a ...any) {
	r.mu.Lock()
	defer r.mu.Unlock()
	r.machinery = append(r.machinery, fmt.Sprintf(format, a...))
}

// Violation records a property violation. key names the failing site and class (it is what the
// known-findings file is matched against); kind + c describe the concrete case for replay. Only the
// first case per key is kept (alphabets are ordered simplest-first), later ones are counted.
func (r *Run) Violation(key, what, kind string, c any) {
	r.mu.Lock()
	defer r.mu.Unlock()
	if v, ok := r.violations[key]; ok {
		v.Count++
		return
	}
	r.violations[key] = &violation{Key: key, What: what, Kind: kind, Case: c, Count: 1}
	r.order = append(r.order, key)
}

func (r *Run) Violations() int {
	r.mu.Lock()
	defer r.mu.Unlock()
	return len(r.violations)
}

// ViolationKeys returns the keys recorded so far (used by workers to report to their parent).
type WorkerViolation struct {
	Key, What, Kind string
	Case            any
	Count           int64
}

func (r *Run) Export() []WorkerViolation {
	r.mu.Lock()
	defer r.mu.Unlock()
	out := []WorkerViolation{}
	for _, k := range r.order {
		v := r.violations[k]
		out = append(out, WorkerViolation{v.Key, v.What, v.Kind, v.Case, v.Count})
	}
	return out
}

func (r *Run) Import(vs []WorkerViolation) {
	for _, v := range vs {
		r.mu.Lock()
		if w, ok := r.violations[v.Key]; ok {
			w.Count += v.Count
			if w.What == "" && v.What != "" { // a count-only record arrived first
				w.What, w.Kind, w.Case = v.What, v.Kind, v.Case
			}
		} else {
			r.violations[v.Key] = &violation{Key: v.Key, What: v.What, Kind: v.Kind, Case: v.Case, Count: v.Count}
			r.order = append(r.order, v.Key)
		}
		r.mu.Unlock()
	}
}

func loadFindings() []Finding {
	var f struct {
		Findings []Finding `json:"findings"`
	}
	b, err := os.ReadFile(filepath.Join(Root, "known_findings.json"))
	if err != nil {
		return nil
	}
	if err := json.Unmarshal(b, &f); err != nil {
		fmt.Fprintf(os.Stderr, "vk: known_findings.json unreadable: %v\n", err)
		os.Exit(2)
	}
	return f.Findings
}

// arch386 runs the same harness once more as a 32-bit build (GOARCH=386, built by ./check for the
// harnesses that carry an ARCH386 marker): the properties are about bytes and values, not about the
// word size of the machine the library happens to be compiled for, and 32-bit ARM/x86 are real
// targets of the library. The child runs the same tier, writes its violations to a file instead of
// evidence, and the parent imports them.
func (r *Run) arch386() {
	if r.Worker != "" || r.Replay != "" || os.Getenv("VERIF_IS_386") != "" {
		return
	}
	// build-tag variants found by ./check in the library's //go:build lines (none on the pinned tree)
	for _, v := range strings.Fields(os.Getenv("VERIF_VARIANT_BINS")) {
		if i := strings.Index(v, "="); i > 0 {
			r.variant(v[i+1:], "build tag "+v[:i], "variant_"+v[:i])
		}
	}
	// environment variables the library's own (non-test) source consults by name, found by ./check (none
	// on the pinned tree): the whole enumeration is repeated with each of them set to each value of a
	// small alphabet - what the library computes is a function of its arguments, not of the process
	// environment
	if self := os.Getenv("VERIF_SELF_BIN"); self != "" {
		names := strings.Fields(os.Getenv("VERIF_ENV_NAMES"))
		r.Set("environment_variables_consulted_by_the_library", len(names))
		for _, name := range names {
			for i, value := range []string{"1", "0", "true", "false", "60001", "54321", "x", ""} {
				r.variant(self, fmt.Sprintf("environment variable %s=%q", name, value), fmt.Sprintf("env_%s_%d", name, i), name+"="+value)
			}
		}
	}
	bin := os.Getenv("VERIF_386_BIN")
	if bin == "" {
		return
	}
	switch when := strings.TrimSpace(os.Getenv("VERIF_386_WHEN")); {
	case when == "thorough" && r.Tier != "thorough":
		return
	case when == "quick" && r.Tier != "quick":
		// the thorough enumeration of this harness does not fit a 32-bit address space
		r.Assume("GOARCH=386 pass: quick tier only (the thorough tier's bookkeeping exceeds a 32-bit address space)")
		return
	}
	r.variant(bin, "GOARCH=386", "arch_386")
	r.Assume("the whole enumeration of this tier is repeated on a 32-bit (GOARCH=386) build of library and harness; its cases are not added to evaluations / distinct_nontrivial")
}

// variant runs another build of this harness (same tier) as a child and imports its findings.
func (r *Run) variant(bin, what, key string, extraEnv ...string) {
	out := filepath.Join(os.Getenv("VERIF_WORK"), key+"."+r.ID+".json")
	os.Remove(out)
	cmd := exec.Command(bin, "--tier", r.Tier)
	cmd.Env = append(append(os.Environ(), "VERIF_IS_386=1", "VERIF_386_OUT="+out), extraEnv...)
	var stderr bytes.Buffer
	cmd.Stderr = &stderr
	start := time.Now()
	err := cmd.Run()
	var res struct {
		Evaluations int64
		Violations  []WorkerViolation
		Machinery   []string
	}
	b, rerr := os.ReadFile(out)
	if rerr != nil || json.Unmarshal(b, &res) != nil {
		tail := stderr.String()
		if len(tail) > 1500 {
			tail = tail[len(tail)-1500:]
		}
		r.Machinery("the %s run of this harness failed (%v): %s", what, err, tail)
		return
	}
	for i := range res.Violations {
		if res.Violations[i].What != "" {
			if len(extraEnv) > 0 {
				res.Violations[i].What = "[with " + what + "] " + res.Violations[i].What
			} else {
				res.Violations[i].What = "[" + what + " build of the library] " + res.Violations[i].What
			}
		}
	}
	r.Import(res.Violations)
	for _, m := range res.Machinery {
		r.Machinery("%s run: %s", what, m)
	}
	r.Set(key+"_evaluations", res.Evaluations)
	r.Set(key+"_wall_s", time.Since(start).Seconds())
}

// Finish writes the evidence file, prints KNOWN-FINDING / VIOLATION lines and exits.
func (r *Run) Finish() {
	if out := os.Getenv("VERIF_386_OUT"); out != "" && r.Worker == "" && r.Replay == "" {
		// this IS the 32-bit run: hand the findings to the parent and leave
		r.mu.Lock()
		res := map[string]any{"Evaluations": r.Evaluations.Load(), "Machinery": r.machinery}
		r.mu.Unlock()
		res["Violations"] = r.Export()
		b, _ := json.Marshal(res)
		os.WriteFile(out, b, 0o644)
		os.Exit(0)
	}
	r.arch386()
	r.mu.Lock()
	defer r.mu.Unlock()

	known := map[string]Finding{}
	for _, f := range loadFindings() {
		if f.Property == r.ID && f.Status == "known" {
			known[f.Key] = f
		}
	}

	sort.Strings(r.order)
	unlisted := 0
	lines := []string{}
	for _, k := range r.order {
		v := r.violations[k]
		if f, ok := known[k]; ok {
			lines = append(lines, fmt.Sprintf("KNOWN-FINDING: property=%s %s (%s; %d cases)", r.ID, k, f.What, v.Count))
			continue
		}
		unlisted++
		path := r.writeReplay(v)
		lines = append(lines, fmt.Sprintf("VIOLATION property=%s replay=%s", r.ID, path))
		lines = append(lines, fmt.Sprintf("  key=%s cases=%d: %s", k, v.Count, v.What))
	}

	cov := map[string]any{}
	for k, v := range r.extra {
		cov[k] = v
	}
	cov["evaluations"] = r.Evaluations.Load()
	cov["distinct_nontrivial"] = r.distinct.Load()
	cov["rule"] = r.rule
	if len(r.samples) == 0 {
		r.samples = []any{"(no sample recorded)"}
	}
	cov["samples"] = r.samples
	cov["exhaustive"] = r.exhaustive
	keys := []string{}
	for _, k := range r.order {
		keys = append(keys, k)
	}
	cov["violation_keys"] = keys

	ev := map[string]any{
		"property_id": r.ID,
		"tier":        r.Tier,
		"seed":        r.Seed,
		"level":       r.Level,
		"coverage":    cov,
		"assumptions": append([]string{"VERIF_SEED is recorded but never influences what is explored (no sampling)"}, r.assumptions...),
		"wall_s":      time.Since(r.start).Seconds(),
		"violations":  unlisted,
	}
	if len(r.machinery) == 0 && r.Replay == "" { // a replay re-executes one case: it is not a run of the check
		b, _ := json.MarshalIndent(ev, "", " ")
		// VERIF_SCRATCH_EVIDENCE (tools/seed*.sh: checks run against a deliberately broken copy of the
		// library) keeps such runs from overwriting the evidence of the real tree
		dir := filepath.Join(Root, "evidence")
		if d := os.Getenv("VERIF_SCRATCH_EVIDENCE"); d != "" {
			dir = d
		}
		os.MkdirAll(dir, 0o755)
		if err := os.WriteFile(filepath.Join(dir, r.ID+".json"), append(b, '\n'), 0o644); err != nil {
			fmt.Fprintf(os.Stderr, "vk: cannot write evidence: %v\n", err)
			os.Exit(2)
		}
	}

	for _, l := range lines {
		fmt.Println(l)
	}
	fmt.Printf("%s tier=%s evaluations=%d distinct=%d violations=%d known=%d exhaustive=%v wall=%.1fs\n",
		r.ID, r.Tier, r.Evaluations.Load(), r.distinct.Load(), unlisted, len(r.order)-unlisted, r.exhaustive, time.Since(r.start).Seconds())

	for _, m := range r.machinery {
		fmt.Fprintf(os.Stderr, "MACHINERY-ERROR %s: %s\n", r.ID, m)
	}
	if unlisted > 0 {
		os.Exit(1) // a violation that reproduced from its artefact stands, whatever else went wrong
	}
	if len(r.machinery) > 0 {
		os.Exit(2)
	}
	os.Exit(0)
}

func (r *Run) writeReplay(v *violation) string {
	doc := map[string]any{"property": r.ID, "key": v.Key, "what": v.What, "kind": v.Kind, "case": v.Case}
	b, _ := json.MarshalIndent(doc, "", " ")
	h := sha256.Sum256([]byte(v.Key))
	dir := filepath.Join(Root, "replays", r.ID)
	os.MkdirAll(dir, 0o755)
	path := filepath.Join(dir, fmt.Sprintf("%x.json", h[:6]))
	os.WriteFile(path, append(b, '\n'), 0o644)
	return path
}

// LoadReplay reads a replay file written by writeReplay.
func LoadReplay(path string) (kind string, c json.RawMessage, err error) {
	var doc struct {
		Kind string          `json:"kind"`
		Case json.RawMessage `json:"case"`
	}
	b, err := os.ReadFile(path)
	if err != nil {
		return "", nil, err
	}
	if err := json.Unmarshal(b, &doc); err != nil {
		return "", nil, err
	}
	return doc.Kind, doc.Case, nil
}

// Parallel runs fn(i) for i in [0,n) on all cores.
func Parallel(n int, fn func(i int)) {
	w := runtime.GOMAXPROCS(0)
	if w > n {
		w = n
	}
	if w < 1 {
		w = 1
	}
	var next atomic.Int64
	var wg sync.WaitGroup
	for k := 0; k < w; k++ {
		wg.Add(1)
		go func() {
			defer wg.Done()
			for {
				i := int(next.Add(1)) - 1
				if i >= n {
					return
				}
				fn(i)
			}
		}()
	}
	wg.Wait()
}

// Guard runs fn and converts a panic into (message, innermost library frame).
func Guard(fn func()) (panicked bool, msg string, frame string) {
	defer func() {
		if e := recover(); e != nil {
			panicked = true
			msg = fmt.Sprint(e)
			frame = LibraryFrame()
		}
	}()
	fn()
	return
}

// LibraryFrame returns the innermost stack frame inside uhppote-core (function name without the
// module prefix), for keying panics by site.
func LibraryFrame() string {
	pcs := make([]uintptr, 64)
	n := runtime.Callers(2, pcs)
	frames := runtime.CallersFrames(pcs[:n])
	for {
		f, more := frames.Next()
		if strings.Contains(f.Function, "uhppoted/uhppote-core/") {
			fn := f.Function[strings.Index(f.Function, "uhppote-core/")+len("uhppote-core/"):]
			if i := strings.Index(fn, "["); i > 0 { // generic instantiation
				fn = fn[:i]
			}
			return fn
		}
		if !more {
			break
		}
	}
	return "unknown"
}

func Hex(b []byte) string { return fmt.Sprintf("%x", b) }
