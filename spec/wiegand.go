package spec

// Wiegand-26 card numbers, written from the property text of C07:
//
//	"Wiegand-26 means facility code 0..255 followed by a five-digit number 0..65535"
//
// i.e. the decimal card number is n = fc*100000 + id with 0 <= fc <= 255 and 0 <= id <= 65535.
// The decomposition of n into (fc, id) with id < 100000 is unique (fc = n / 100000,
// id = n % 100000), so the predicate is plain integer arithmetic. The largest Wiegand-26 number
// is 25565535, so no number with nine or ten decimal digits can be one.

// Wiegand26Parts splits a decimal card number into the part in front of the last five digits
// and the last five digits.
func Wiegand26Parts(n uint32) (facility uint32, id uint32) {
	return n / 100000, n % 100000
}

// IsWiegand26 reports whether n is facility code 0..255 followed by a five-digit number 0..65535.
func IsWiegand26(n uint32) bool {
	fc, id := Wiegand26Parts(n)
	return fc <= 255 && id <= 65535
}

// Wiegand26Max is the largest Wiegand-26 card number (255, 65535).
const Wiegand26Max uint32 = 25565535
