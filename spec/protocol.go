package spec

// Hand-written reference tables for the UT0311-L0x protocol as used by uhppote-core: function
// codes, request layouts, reply layouts. Transcribed from the protocol description (field lists of
// the message documentation), NOT read from the library's reflection tags at run time — a tag
// mutation in the library must be visible as a disagreement with these tables.

import (
	"encoding/binary"
	"fmt"
)

type Enc int

const (
	U8 Enc = iota
	U16
	U32
	Bool
	IPv4     // 4 bytes
	AddrPort // 4 bytes IPv4 + port little-endian
	MAC      // 6 bytes
	Date     // 4 bytes BCD YYYYMMDD, all-zero = no date
	DateTime // 7 bytes BCD YYYYMMDDHHmmss
	SysDate  // 3 bytes BCD YYMMDD
	SysTime  // 3 bytes BCD HHmmss
	HHmm     // 2 bytes BCD
	PIN      // 3 bytes little-endian
	Version  // 2 bytes big-endian (major, minor)
	Magic    // 4 bytes 0x55aaaa55 little-endian; takes no argument
)

func (e Enc) Width() int {
	return [...]int{1, 2, 4, 1, 4, 6, 6, 4, 7, 3, 3, 2, 3, 2, 4}[e]
}

func (e Enc) String() string {
	return [...]string{"u8", "u16", "u32", "bool", "ipv4", "addrport", "mac", "date", "datetime", "sysdate", "systime", "hhmm", "pin", "version", "magic"}[e]
}

// Neutral value types used by the reference model.
type Civil struct{ Y, M, D int } // {0,0,0} = no date

func (c Civil) IsZero() bool { return c.Y == 0 && c.M == 0 && c.D == 0 }

type CivilDT struct {
	Y, M, D, H, Mi, S int
	Zero              bool // the 'no value' date-time
}
type HM struct{ H, M int }
type HMS struct{ H, M, S int }
type AP struct {
	IP   [4]byte
	Port uint16
}

type Field struct {
	Name string
	Off  int
	Enc  Enc
}

type Op struct {
	Name      string
	Code      byte
	Broadcast bool    // discovery: no serial number, broadcast, many replies
	NoReply   bool    // SetAddress
	Req       []Field // arguments after the serial number
	Reply     []Field // reply fields after the serial number
}

type Args map[string]any

const MagicWord = 0x55aaaa55

var weekdays = []string{"Monday", "Tuesday", "Wednesday", "Thursday", "Friday", "Saturday", "Sunday"}

func days(off int) []Field {
	f := []Field{}
	for i, d := range weekdays {
		f = append(f, Field{d, off + i, Bool})
	}
	return f
}

func cat(l ...[]Field) []Field {
	out := []Field{}
	for _, x := range l {
		out = append(out, x...)
	}
	return out
}

var okReply = []Field{{"Succeeded", 8, Bool}}

var cardFields = []Field{{"CardNumber", 8, U32}, {"From", 12, Date}, {"To", 16, Date}, {"Door1", 20, U8}, {"Door2", 21, U8}, {"Door3", 22, U8}, {"Door4", 23, U8}, {"PIN", 24, PIN}}

var deviceReply = []Field{{"IpAddress", 8, IPv4}, {"SubnetMask", 12, IPv4}, {"Gateway", 16, IPv4}, {"MacAddress", 20, MAC}, {"Version", 26, Version}, {"Date", 28, Date}}

var profileFields = cat(
	[]Field{{"ProfileID", 8, U8}, {"From", 9, Date}, {"To", 13, Date}},
	days(17),
	[]Field{{"Segment1Start", 24, HHmm}, {"Segment1End", 26, HHmm}, {"Segment2Start", 28, HHmm}, {"Segment2End", 30, HHmm}, {"Segment3Start", 32, HHmm}, {"Segment3End", 34, HHmm}, {"LinkedProfileID", 36, U8}})

// StatusReply is also the layout of an event datagram (function 0x20, protocol id 0x17 or 0x19).
var StatusReply = []Field{
	{"EventIndex", 8, U32}, {"EventType", 12, U8}, {"Granted", 13, Bool}, {"Door", 14, U8}, {"Direction", 15, U8},
	{"CardNumber", 16, U32}, {"Timestamp", 20, DateTime}, {"Reason", 27, U8},
	{"Door1State", 28, Bool}, {"Door2State", 29, Bool}, {"Door3State", 30, Bool}, {"Door4State", 31, Bool},
	{"Door1Button", 32, Bool}, {"Door2Button", 33, Bool}, {"Door3Button", 34, Bool}, {"Door4Button", 35, Bool},
	{"SystemError", 36, U8}, {"SystemTime", 37, SysTime}, {"SequenceId", 40, U32}, {"SpecialInfo", 48, U8},
	{"RelayState", 49, U8}, {"InputState", 50, U8}, {"SystemDate", 51, SysDate},
}

var doorControl = []Field{{"Door", 8, U8}, {"ControlState", 9, U8}, {"Delay", 10, U8}}

// Ops lists the 32 request-issuing API operations in the order of the public interface.
var Ops = []Op{
	{Name: "GetDevices", Code: 0x94, Broadcast: true, Reply: deviceReply},
	{Name: "GetDevice", Code: 0x94, Reply: deviceReply},
	{Name: "SetAddress", Code: 0x96, NoReply: true, Req: []Field{{"Address", 8, IPv4}, {"Mask", 12, IPv4}, {"Gateway", 16, IPv4}, {"", 20, Magic}}},
	{Name: "GetListener", Code: 0x92, Reply: []Field{{"AddrPort", 8, AddrPort}, {"Interval", 14, U8}}},
	{Name: "SetListener", Code: 0x90, Req: []Field{{"AddrPort", 8, AddrPort}, {"Interval", 14, U8}}, Reply: okReply},
	{Name: "GetTime", Code: 0x32, Reply: []Field{{"DateTime", 8, DateTime}}},
	{Name: "SetTime", Code: 0x30, Req: []Field{{"DateTime", 8, DateTime}}, Reply: []Field{{"DateTime", 8, DateTime}}},
	{Name: "GetDoorControlState", Code: 0x82, Req: []Field{{"Door", 8, U8}}, Reply: doorControl},
	{Name: "SetDoorControlState", Code: 0x80, Req: doorControl, Reply: doorControl},
	{Name: "GetStatus", Code: 0x20, Reply: StatusReply},
	{Name: "GetCards", Code: 0x58, Reply: []Field{{"Records", 8, U32}}},
	{Name: "GetCardByIndex", Code: 0x5c, Req: []Field{{"Index", 8, U32}}, Reply: cardFields},
	{Name: "GetCardByID", Code: 0x5a, Req: []Field{{"CardNumber", 8, U32}}, Reply: cardFields},
	{Name: "PutCard", Code: 0x50, Req: cardFields, Reply: okReply},
	{Name: "DeleteCard", Code: 0x52, Req: []Field{{"CardNumber", 8, U32}}, Reply: okReply},
	{Name: "DeleteCards", Code: 0x54, Req: []Field{{"", 8, Magic}}, Reply: okReply},
	{Name: "GetTimeProfile", Code: 0x98, Req: []Field{{"ProfileID", 8, U8}}, Reply: profileFields},
	{Name: "SetTimeProfile", Code: 0x88, Req: profileFields, Reply: okReply},
	{Name: "ClearTimeProfiles", Code: 0x8a, Req: []Field{{"", 8, Magic}}, Reply: okReply},
	{Name: "ClearTaskList", Code: 0xa6, Req: []Field{{"", 8, Magic}}, Reply: okReply},
	{Name: "AddTask", Code: 0xa8, Req: cat([]Field{{"From", 8, Date}, {"To", 12, Date}}, days(16), []Field{{"Start", 23, HHmm}, {"Door", 25, U8}, {"Task", 26, U8}, {"MoreCards", 27, U8}}), Reply: okReply},
	{Name: "RefreshTaskList", Code: 0xac, Req: []Field{{"", 8, Magic}}, Reply: okReply},
	{Name: "RecordSpecialEvents", Code: 0x8e, Req: []Field{{"Enable", 8, Bool}}, Reply: okReply},
	{Name: "GetEvent", Code: 0xb0, Req: []Field{{"Index", 8, U32}}, Reply: []Field{{"Index", 8, U32}, {"Type", 12, U8}, {"Granted", 13, Bool}, {"Door", 14, U8}, {"Direction", 15, U8}, {"CardNumber", 16, U32}, {"Timestamp", 20, DateTime}, {"Reason", 27, U8}}},
	{Name: "GetEventIndex", Code: 0xb4, Reply: []Field{{"Index", 8, U32}}},
	{Name: "SetEventIndex", Code: 0xb2, Req: []Field{{"Index", 8, U32}, {"", 12, Magic}}, Reply: okReply},
	{Name: "SetDoorPasscodes", Code: 0x8c, Req: []Field{{"Door", 8, U8}, {"Passcode1", 12, U32}, {"Passcode2", 16, U32}, {"Passcode3", 20, U32}, {"Passcode4", 24, U32}}, Reply: okReply},
	{Name: "OpenDoor", Code: 0x40, Req: []Field{{"Door", 8, U8}}, Reply: okReply},
	{Name: "SetPCControl", Code: 0xa0, Req: []Field{{"", 8, Magic}, {"Enable", 12, Bool}}, Reply: okReply},
	{Name: "SetInterlock", Code: 0xa2, Req: []Field{{"Interlock", 8, U8}}, Reply: okReply},
	{Name: "ActivateKeypads", Code: 0xa4, Req: []Field{{"Reader1", 8, Bool}, {"Reader2", 9, Bool}, {"Reader3", 10, Bool}, {"Reader4", 11, Bool}}, Reply: okReply},
	{Name: "RestoreDefaultParameters", Code: 0xc8, Req: []Field{{"", 8, Magic}}, Reply: okReply},
}

// SetFirstCard has a registered request/reply pair but no API operation.
var SetFirstCardReq = cat([]Field{{"Door", 8, U8}, {"Start", 9, HHmm}, {"StartDoorControl", 11, U8}, {"End", 12, HHmm}, {"EndDoorControl", 14, U8}}, days(15))

func OpByName(name string) *Op {
	for i := range Ops {
		if Ops[i].Name == name {
			return &Ops[i]
		}
	}
	panic("spec: unknown operation " + name)
}

// RequestLayouts / ReplyLayouts: function code -> fields after the serial number, for the message
// dispatchers (32 request types, 31 reply types).
func RequestLayouts() map[byte][]Field {
	m := map[byte][]Field{}
	for _, op := range Ops {
		m[op.Code] = op.Req
	}
	m[0xaa] = SetFirstCardReq
	return m
}

func ReplyLayouts() map[byte][]Field {
	m := map[byte][]Field{}
	for _, op := range Ops {
		if !op.NoReply {
			m[op.Code] = op.Reply
		}
	}
	m[0xaa] = okReply
	return m
}

func bcd2(v int) byte { return byte(v/10%10)<<4 | byte(v%10) }

// PutField writes the reference encoding of v at f.Off. Panics on a value of the wrong neutral
// type (harness bug, not a library verdict).
func PutField(buf []byte, f Field, v any) {
	b := buf[f.Off : f.Off+f.Enc.Width()]
	switch f.Enc {
	case U8:
		b[0] = v.(uint8)
	case U16:
		binary.LittleEndian.PutUint16(b, v.(uint16))
	case U32:
		binary.LittleEndian.PutUint32(b, v.(uint32))
	case Bool:
		if v.(bool) {
			b[0] = 1
		} else {
			b[0] = 0
		}
	case IPv4:
		ip := v.([4]byte)
		copy(b, ip[:])
	case AddrPort:
		ap := v.(AP)
		copy(b, ap.IP[:])
		b[4] = byte(ap.Port)
		b[5] = byte(ap.Port >> 8)
	case MAC:
		m := v.([6]byte)
		copy(b, m[:])
	case Date:
		c := v.(Civil)
		if c.IsZero() {
			b[0], b[1], b[2], b[3] = 0, 0, 0, 0
		} else {
			b[0], b[1], b[2], b[3] = bcd2(c.Y/100), bcd2(c.Y%100), bcd2(c.M), bcd2(c.D)
		}
	case DateTime:
		c := v.(CivilDT)
		if c.Zero {
			// the zero date-time is year 1, January 1, 00:00:00
			c = CivilDT{Y: 1, M: 1, D: 1}
		}
		b[0], b[1], b[2], b[3], b[4], b[5], b[6] = bcd2(c.Y/100), bcd2(c.Y%100), bcd2(c.M), bcd2(c.D), bcd2(c.H), bcd2(c.Mi), bcd2(c.S)
	case SysDate:
		c := v.(Civil)
		b[0], b[1], b[2] = bcd2(c.Y%100), bcd2(c.M), bcd2(c.D)
	case SysTime:
		t := v.(HMS)
		b[0], b[1], b[2] = bcd2(t.H), bcd2(t.M), bcd2(t.S)
	case HHmm:
		t := v.(HM)
		b[0], b[1] = bcd2(t.H), bcd2(t.M)
	case PIN:
		p := v.(uint32)
		b[0], b[1], b[2] = byte(p), byte(p>>8), byte(p>>16)
	case Version:
		ver := v.(uint16)
		b[0], b[1] = byte(ver>>8), byte(ver)
	case Magic:
		binary.LittleEndian.PutUint32(b, MagicWord)
	default:
		panic(fmt.Sprintf("spec: PutField: unknown encoding %v", f.Enc))
	}
}

// EncodeRequest is the reference encoder: 0x17, function code, serial little-endian at 4..7, each
// argument at its offset, the magic word where the operation has one, zero elsewhere.
func EncodeRequest(op *Op, serial uint32, args Args) []byte {
	buf := make([]byte, 64)
	buf[0] = 0x17
	buf[1] = op.Code
	binary.LittleEndian.PutUint32(buf[4:8], serial)
	for _, f := range op.Req {
		if f.Enc == Magic {
			PutField(buf, f, nil)
			continue
		}
		v, ok := args[f.Name]
		if !ok {
			panic("spec: EncodeRequest: missing argument " + f.Name + " for " + op.Name)
		}
		PutField(buf, f, v)
	}
	return buf
}

// EncodeReply builds a reply datagram for op from neutral field values (missing fields stay zero).
func EncodeReply(op *Op, serial uint32, vals Args) []byte {
	return EncodeMessage(0x17, op.Code, serial, op.Reply, vals)
}

func EncodeMessage(som, code byte, serial uint32, fields []Field, vals Args) []byte {
	buf := make([]byte, 64)
	buf[0] = som
	buf[1] = code
	binary.LittleEndian.PutUint32(buf[4:8], serial)
	for _, f := range fields {
		if f.Enc == Magic {
			PutField(buf, f, nil)
		} else if v, ok := vals[f.Name]; ok {
			PutField(buf, f, v)
		}
	}
	return buf
}

// Covered reports which byte offsets of a message belong to a field (header and serial included).
func Covered(fields []Field) [64]bool {
	var c [64]bool
	c[0], c[1] = true, true
	for i := 4; i < 8; i++ {
		c[i] = true
	}
	for _, f := range fields {
		for i := 0; i < f.Enc.Width(); i++ {
			c[f.Off+i] = true
		}
	}
	return c
}
