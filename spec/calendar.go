package spec

import "fmt"

// Proleptic Gregorian calendar for the years 1..9999, written without the time package so that it
// can serve as an independent reference for types.Date (C13, C16).
//
// API (deliberately small):
//
//	IsLeap(y)                     leap-year rule
//	DaysIn(y, m)                  length of a month (0 for a month outside 1..12)
//	ValidDate(y, m, d)            y in 1..9999 and d in 1..DaysIn(y, m)
//	Ordinal(y, m, d)              day number, 0001-01-01 = 1 ... 9999-12-31 = 3652059
//	FromOrdinal(n)                inverse of Ordinal
//	NextDay(y, m, d)              the following civil day (table roll-over, no ordinals involved)
//	CompareYMD(...)               -1/0/+1 by lexicographic (year, month, day)
//	CalendarSelfTest()            walks the whole range cross-checking the above against each other
//
// A date is a plain (year, month, day) triple of ints; month is 1..12.

const (
	MinYear    = 1
	MaxYear    = 9999
	OrdinalMin = 1       // 0001-01-01
	OrdinalMax = 3652059 // 9999-12-31
)

var calMonthLength = [13]int{0, 31, 28, 31, 30, 31, 30, 31, 31, 30, 31, 30, 31}

// IsLeap: every 4th year, except centuries not divisible by 400.
func IsLeap(y int) bool {
	return y%4 == 0 && (y%100 != 0 || y%400 == 0)
}

// DaysIn returns the number of days of month m (1..12) of year y, 0 for any other m.
func DaysIn(y, m int) int {
	if m < 1 || m > 12 {
		return 0
	}
	if m == 2 && IsLeap(y) {
		return 29
	}
	return calMonthLength[m]
}

// ValidDate reports whether (y, m, d) is a calendar day of the years 1..9999.
func ValidDate(y, m, d int) bool {
	return y >= MinYear && y <= MaxYear && d >= 1 && d <= DaysIn(y, m)
}

// Ordinal returns the day number of a valid date counting 0001-01-01 as 1 (the convention of
// Python's date.toordinal: 1970-01-01 = 719163, 2000-01-01 = 730120, 9999-12-31 = 3652059).
func Ordinal(y, m, d int) int {
	p := y - 1
	n := 365*p + p/4 - p/100 + p/400
	for k := 1; k < m; k++ {
		n += DaysIn(y, k)
	}
	return n + d
}

// FromOrdinal is the inverse of Ordinal for n in OrdinalMin..OrdinalMax.
func FromOrdinal(n int) (y, m, d int) {
	n-- // days since 0001-01-01
	n400 := n / 146097
	n %= 146097
	n100 := n / 36524
	if n100 == 4 { // last day of a 400-year cycle
		n100 = 3
	}
	n -= n100 * 36524
	n4 := n / 1461
	n %= 1461
	n1 := n / 365
	if n1 == 4 { // last day of a 4-year cycle
		n1 = 3
	}
	n -= n1 * 365
	y = 400*n400 + 100*n100 + 4*n4 + n1 + 1
	m = 1
	for n >= DaysIn(y, m) {
		n -= DaysIn(y, m)
		m++
	}
	return y, m, n + 1
}

// NextDay returns the civil day after a valid date (9999-12-31 yields 10000-01-01).
func NextDay(y, m, d int) (int, int, int) {
	if d < DaysIn(y, m) {
		return y, m, d + 1
	}
	if m < 12 {
		return y, m + 1, 1
	}
	return y + 1, 1, 1
}

// CompareYMD compares two dates lexicographically by (year, month, day): -1, 0 or +1.
func CompareYMD(y1, m1, d1, y2, m2, d2 int) int {
	switch {
	case y1 != y2:
		return calSign(y1 - y2)
	case m1 != m2:
		return calSign(m1 - m2)
	default:
		return calSign(d1 - d2)
	}
}

func calSign(v int) int {
	switch {
	case v < 0:
		return -1
	case v > 0:
		return +1
	}
	return 0
}

// CalendarSelfTest walks every day 0001-01-01 .. 9999-12-31 with NextDay and checks that Ordinal
// grows by exactly one per step, that FromOrdinal inverts it, that every visited date is valid,
// and the three published anchor values. A failure is a defect of this reference (machinery), never
// of the library under test.
func CalendarSelfTest() error {
	anchors := []struct{ y, m, d, n int }{
		{1, 1, 1, 1}, {1970, 1, 1, 719163}, {2000, 1, 1, 730120}, {9999, 12, 31, OrdinalMax},
	}
	for _, a := range anchors {
		if got := Ordinal(a.y, a.m, a.d); got != a.n {
			return fmt.Errorf("spec/calendar: Ordinal(%04d-%02d-%02d) = %d, want %d", a.y, a.m, a.d, got, a.n)
		}
	}
	y, m, d := 1, 1, 1
	for n := OrdinalMin; n <= OrdinalMax; n++ {
		if !ValidDate(y, m, d) {
			return fmt.Errorf("spec/calendar: walk reached invalid date %04d-%02d-%02d", y, m, d)
		}
		if got := Ordinal(y, m, d); got != n {
			return fmt.Errorf("spec/calendar: Ordinal(%04d-%02d-%02d) = %d, want %d", y, m, d, got, n)
		}
		if yy, mm, dd := FromOrdinal(n); yy != y || mm != m || dd != d {
			return fmt.Errorf("spec/calendar: FromOrdinal(%d) = %04d-%02d-%02d, want %04d-%02d-%02d", n, yy, mm, dd, y, m, d)
		}
		y, m, d = NextDay(y, m, d)
	}
	if y != 10000 || m != 1 || d != 1 {
		return fmt.Errorf("spec/calendar: walk ended at %d-%02d-%02d, want 10000-01-01", y, m, d)
	}
	if ValidDate(1900, 2, 29) || !ValidDate(2000, 2, 29) || ValidDate(2023, 2, 29) || !ValidDate(2024, 2, 29) ||
		ValidDate(0, 12, 31) || ValidDate(10000, 1, 1) || ValidDate(2024, 13, 1) || ValidDate(2024, 4, 31) || ValidDate(2024, 1, 0) {
		return fmt.Errorf("spec/calendar: ValidDate self-test failed")
	}
	return nil
}
