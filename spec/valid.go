package spec

import "net/netip"

// Reference argument-validity predicates for property C07 ("invalid arguments are rejected
// before anything is sent"), written from the property statement only:
//
//	Every operation that takes a controller id rejects id 0; PutCard rejects card numbers 0,
//	0xffffffff and 0x00ffffff, PINs above 999999 and, when a format list is given, numbers
//	matching none of the formats (Wiegand-26 means facility code 0..255 followed by a five-digit
//	number 0..65535); SetListener rejects anything but 0.0.0.0:0 or an IPv4 address with a
//	non-zero port; SetAddress rejects non-IPv4 values; SetDoorPasscodes rejects doors outside
//	1..4 and disables (sends 0 for) passcodes above 999999 or beyond the fourth; SetTimeProfile
//	rejects a missing date, a missing segment or a segment ending before it starts. A rejected
//	call puts nothing on the network, and a call is rejected only for these reasons.
//
// Nothing in here calls the library.

// ArgVerdict is the three-valued answer of the reference.
type ArgVerdict int

const (
	ArgMustAccept    ArgVerdict = iota // the call must not be rejected (exactly one request is sent)
	ArgMustReject                      // the call must return an error and send nothing
	ArgUnconstrained                   // the statement does not decide; executed, never judged on accept/reject
)

func (v ArgVerdict) String() string {
	switch v {
	case ArgMustAccept:
		return "must-accept"
	case ArgMustReject:
		return "must-reject"
	}
	return "unconstrained"
}

// ControllerIDAllowed: "every operation that takes a controller id rejects id 0".
func ControllerIDAllowed(id uint32) bool { return id != 0 }

// CardFormatKind is the reference's own view of a card format list element; the harness maps the
// library's named constants onto it (any value that is neither of the two named formats is
// CardFormatUnknown and matches nothing).
type CardFormatKind int

const (
	CardFormatAny CardFormatKind = iota
	CardFormatWiegand26
	CardFormatUnknown
)

// CardFormatsMatch is the format half of the PutCard rule: an empty list means "no format
// restriction"; otherwise the number has to match at least one listed format.
func CardFormatsMatch(n uint32, formats []CardFormatKind) bool {
	if len(formats) == 0 {
		return true
	}
	for _, f := range formats {
		switch f {
		case CardFormatAny:
			return true
		case CardFormatWiegand26:
			if IsWiegand26(n) {
				return true
			}
		}
	}
	return false
}

// CardNumberSentinel: the three card numbers PutCard always rejects.
func CardNumberSentinel(n uint32) bool {
	return n == 0 || n == 0xffffffff || n == 0x00ffffff
}

// CardNumberAllowed is the complete card-number rule of PutCard.
func CardNumberAllowed(n uint32, formats []CardFormatKind) bool {
	return !CardNumberSentinel(n) && CardFormatsMatch(n, formats)
}

// PINAllowed: "PINs above 999999" are rejected.
func PINAllowed(pin uint32) bool { return pin <= 999999 }

// ListenerVerdict: "SetListener rejects anything but 0.0.0.0:0 or an IPv4 address with a non-zero
// port", quantified over "all netip.AddrPort values incl. IPv6, IPv4-mapped IPv6 and
// zone-qualified addresses".
//
//   - the zero AddrPort and any AddrPort without a valid address: must-reject;
//   - a 4-byte IPv4 address (netip Is4) with a non-zero port, and exactly 0.0.0.0:0: must-accept;
//   - any other 4-byte IPv4 address with port 0: must-reject;
//   - genuine IPv6 (with or without zone): must-reject;
//   - IPv4-mapped IPv6 (::ffff:a.b.c.d): in netip terms this is not "an IPv4 address" (Is4 is
//     false) and the quantifier lists it among the odd values, so a rejection is what the
//     statement reads as; but a reader could also call it an IPv4 address in disguise, so an
//     acceptance with a non-zero port (or of [::ffff:0.0.0.0]:0) is left unconstrained rather than
//     alarmed on. With port 0 and a non-zero address it is rejected under either reading.
func ListenerVerdict(a netip.AddrPort) ArgVerdict {
	addr := a.Addr()
	switch {
	case !addr.IsValid():
		return ArgMustReject
	case addr.Is4():
		if a.Port() != 0 {
			return ArgMustAccept
		}
		if addr == netip.AddrFrom4([4]byte{0, 0, 0, 0}) {
			return ArgMustAccept
		}
		return ArgMustReject
	case addr.Is4In6():
		if a.Port() == 0 && addr.Unmap() != netip.AddrFrom4([4]byte{0, 0, 0, 0}) {
			return ArgMustReject
		}
		return ArgUnconstrained
	default:
		return ArgMustReject
	}
}

// IPv4Bytes: "SetAddress rejects non-IPv4 values". The argument type is net.IP, a byte slice, for
// which the standard library defines IPv4 as: length 4, or length 16 carrying the IPv4-mapped
// prefix 00 00 00 00 00 00 00 00 00 00 ff ff (that is the form net.ParseIP("1.2.3.4") returns, so
// it has to be accepted). Everything else (nil, empty, 3 or 5 bytes, any other 16 bytes) is not
// an IPv4 value.
func IPv4Bytes(ip []byte) bool {
	switch len(ip) {
	case 4:
		return true
	case 16:
		for i := 0; i < 10; i++ {
			if ip[i] != 0 {
				return false
			}
		}
		return ip[10] == 0xff && ip[11] == 0xff
	}
	return false
}

// DoorAllowed: "SetDoorPasscodes rejects doors outside 1..4".
func DoorAllowed(door uint8) bool { return door >= 1 && door <= 4 }

// EffectivePasscodes: SetDoorPasscodes "disables (sends 0 for) passcodes above 999999 or beyond
// the fourth"; missing entries are sent as 0 too.
func EffectivePasscodes(passcodes []uint32) [4]uint32 {
	var out [4]uint32
	for i := 0; i < 4 && i < len(passcodes); i++ {
		if passcodes[i] <= 999999 {
			out[i] = passcodes[i]
		}
	}
	return out
}

// ProfileSegmentArg describes one of the three segments of a time profile argument: whether the
// key is present in the map, and start/end as minutes since 00:00 (0..1440).
type ProfileSegmentArg struct {
	Present    bool
	Start, End int
}

// TimeProfileAllowed: "SetTimeProfile rejects a missing date, a missing segment or a segment
// ending before it starts". A segment that ends exactly when it starts is not "before".
func TimeProfileAllowed(hasFrom, hasTo bool, segments [3]ProfileSegmentArg) bool {
	if !hasFrom || !hasTo {
		return false
	}
	for _, s := range segments {
		if !s.Present || s.End < s.Start {
			return false
		}
	}
	return true
}
