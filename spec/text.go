package spec

// Reference recognisers for the JSON / plain-text forms of the small public types (property C14),
// written by hand from the property text and the protocol documentation. Each answers with a
// three-valued verdict: the text MUST be accepted (with the stated value), MUST be rejected, or the
// property leaves it open (TxtFree: executed, must not panic, never judged).
//
// (All identifiers carry a "Txt"/"txt" prefix: package spec is shared.)

type TxtVerdict int

const (
	TxtAccept TxtVerdict = iota
	TxtReject
	TxtFree
)

func (v TxtVerdict) String() string {
	return [...]string{"must-accept", "must-reject", "unconstrained"}[v]
}

func txtAllDigits(s string) bool {
	if s == "" {
		return false
	}
	for i := 0; i < len(s); i++ {
		if s[i] < '0' || s[i] > '9' {
			return false
		}
	}
	return true
}

// TxtPIN: a PIN is 0 ... 999999; its JSON text is the plain decimal number, the empty string
// standing for "no PIN" (0). More than six digits, or anything that is not a digit, is not a PIN.
// Digit strings with a superfluous leading zero ("007") are left open.
func TxtPIN(s string) (pin uint32, v TxtVerdict) {
	switch {
	case s == "":
		return 0, TxtAccept
	case !txtAllDigits(s):
		return 0, TxtReject
	case len(s) > 6:
		return 0, TxtReject
	case len(s) > 1 && s[0] == '0':
		return 0, TxtFree
	}
	for i := 0; i < len(s); i++ {
		pin = pin*10 + uint32(s[i]-'0')
	}
	return pin, TxtAccept
}

// TxtTaskNames: the 13 scheduled-task types of the controller, protocol codes 0 ... 12, external
// numbering 1 ... 13 (README / task documentation).
var TxtTaskNames = [13]string{
	"CONTROL DOOR",
	"UNLOCK DOOR",
	"LOCK DOOR",
	"DISABLE TIME PROFILE",
	"ENABLE TIME PROFILE",
	"ENABLE CARD, NO PASSWORD",
	"ENABLE CARD+IN PASSWORD",
	"ENABLE CARD+PASSWORD",
	"ENABLE MORE CARDS",
	"DISABLE MORE CARDS",
	"TRIGGER ONCE",
	"DISABLE PUSH BUTTON",
	"ENABLE PUSH BUTTON",
}

// txtFold lower-cases ASCII letters and drops spaces (the promised case/space insensitivity).
func txtFold(s string) string {
	b := make([]byte, 0, len(s))
	for i := 0; i < len(s); i++ {
		c := s[i]
		if c == ' ' {
			continue
		}
		if c >= 'A' && c <= 'Z' {
			c += 'a' - 'A'
		}
		b = append(b, c)
	}
	return string(b)
}

// txtLetters keeps ASCII letters only, lower-cased.
func txtLetters(s string) string {
	b := make([]byte, 0, len(s))
	for i := 0; i < len(s); i++ {
		c := s[i]
		if c >= 'A' && c <= 'Z' {
			c += 'a' - 'A'
		}
		if c >= 'a' && c <= 'z' {
			b = append(b, c)
		}
	}
	return string(b)
}

// TxtTaskName classifies a task-type name (ASCII text only — callers keep to ASCII alphabets):
// equal to a name up to case and spaces -> must-accept with that code; not even the letters spell a
// task -> must-reject; letters spell a task but other characters differ (the implementation
// ignores every non-letter, the property promises only case/space insensitivity) -> unconstrained.
func TxtTaskName(s string) (code int, v TxtVerdict) {
	f := txtFold(s)
	for i, n := range TxtTaskNames {
		if f == txtFold(n) {
			return i, TxtAccept
		}
	}
	l := txtLetters(s)
	for i, n := range TxtTaskNames {
		if l == txtLetters(n) {
			return i, TxtFree
		}
	}
	return 0, TxtReject
}

// TxtTaskNumber: external numbers 1 ... 13 name the protocol codes 0 ... 12; every other number is
// not a task type.
func TxtTaskNumber(n int) (code int, v TxtVerdict) {
	if n >= 1 && n <= 13 {
		return n - 1, TxtAccept
	}
	return 0, TxtReject
}

// TxtControlStateNames: door control states 1 ... 3.
var TxtControlStateNames = map[int]string{1: "normally open", 2: "normally closed", 3: "controlled"}

// TxtControlState: the exact name -> must-accept; a case/space variant of a name -> unconstrained;
// anything else (including the empty string: state 0 is not a control state) -> must-reject.
func TxtControlState(s string) (code int, v TxtVerdict) {
	for c := 1; c <= 3; c++ {
		if s == TxtControlStateNames[c] {
			return c, TxtAccept
		}
	}
	for c := 1; c <= 3; c++ {
		if txtFold(s) == txtFold(TxtControlStateNames[c]) {
			return c, TxtFree
		}
	}
	return 0, TxtReject
}

// TxtHMS: the controller's system time as text, "dd:dd:dd" with 00:00:00 ... 23:59:59. Other shapes
// (single-digit hours, fractions of a second) and the end-of-day 24:00:00 are left open; a strict
// "dd:dd:dd" outside the range must be rejected.
func TxtHMS(s string) (h, m, sec int, v TxtVerdict) {
	if len(s) != 8 || s[2] != ':' || s[5] != ':' {
		return 0, 0, 0, TxtFree
	}
	for _, i := range []int{0, 1, 3, 4, 6, 7} {
		if s[i] < '0' || s[i] > '9' {
			return 0, 0, 0, TxtFree
		}
	}
	h = int(s[0]-'0')*10 + int(s[1]-'0')
	m = int(s[3]-'0')*10 + int(s[4]-'0')
	sec = int(s[6]-'0')*10 + int(s[7]-'0')
	switch {
	case h <= 23 && m <= 59 && sec <= 59:
		return h, m, sec, TxtAccept
	case h == 24 && m == 0 && sec == 0:
		return h, m, sec, TxtFree
	}
	return h, m, sec, TxtReject
}
