package spec

// Reference model for property C15 (address text of the bind / broadcast / listen / controller
// roles). Written by hand from the property text; no regexps, no net/netip parsing.
//
// The oracle is three-valued:
//
//   - in-form  = the WHOLE string is `a.b.c.d` or `a.b.c.d:port`, every octet a decimal number
//     0..255 of 1..3 ASCII digits without a leading zero ("0" itself is fine), the port a decimal
//     number 0..65535 of 1..5 ASCII digits without a leading zero ("0" itself is fine).
//     in-form ∧ the role's port rule holds   → must-accept with exactly that address and port
//     in-form ∧ the role's port rule violated → must-reject
//   - a string that contains no dotted quad anywhere → must-reject (see ContainsDottedQuad)
//   - everything else (a quad embedded in other text, leading-zero octets or ports, over-long or
//     out-of-range ports, signs, spaces, brackets …) → unconstrained: executed, never judged.

import "fmt"

type AddrRole int

const (
	AddrBind AddrRole = iota
	AddrBroadcast
	AddrListen
	AddrController
)

var AddrRoles = []AddrRole{AddrBind, AddrBroadcast, AddrListen, AddrController}

func (r AddrRole) String() string {
	switch r {
	case AddrBind:
		return "bind"
	case AddrBroadcast:
		return "broadcast"
	case AddrListen:
		return "listen"
	case AddrController:
		return "controller"
	}
	return "?"
}

// AddrDefaultPort is the port implied by a text without ":port". ok=false: the port is mandatory.
// (Property text: "The default port is 0 for bind and 60000 for broadcast and controller and the
// port is mandatory for listen".)
func AddrDefaultPort(r AddrRole) (port uint16, ok bool) {
	switch r {
	case AddrBind:
		return 0, true
	case AddrBroadcast, AddrController:
		return 60000, true
	}
	return 0, false
}

// AddrPortAllowed is the per-role port rule. (Property text: "a bind address may not use port
// 60000, a listen address neither 0 nor 60000, broadcast and controller addresses not 0".)
func AddrPortAllowed(r AddrRole, port uint16) bool {
	switch r {
	case AddrBind:
		return port != 60000
	case AddrListen:
		return port != 0 && port != 60000
	case AddrBroadcast, AddrController:
		return port != 0
	}
	return false
}

type AddrVerdict int

const (
	AddrUnconstrained AddrVerdict = iota
	AddrMustAccept
	AddrMustReject
)

func (v AddrVerdict) String() string {
	return [...]string{"unconstrained", "must-accept", "must-reject"}[v]
}

type AddrReason int

const (
	// must-accept
	AddrInFormDefaultPort  AddrReason = iota // `a.b.c.d`, role has a default port
	AddrInFormExplicitPort                   // `a.b.c.d:port`, port allowed for the role
	// must-reject
	AddrPortMissing        // `a.b.c.d` for a role whose port is mandatory
	AddrPort0Forbidden     // `a.b.c.d:0` for a role that forbids port 0
	AddrPort60000Forbidden // `a.b.c.d:60000` for a role that forbids port 60000
	AddrNoDigitQuad        // nowhere four digit runs separated by single dots
	AddrNoOctetQuad        // digit quads exist but each has an inner number > 255
	// unconstrained
	AddrMiddleLeadingZeroPort // in-form address + ':' + 2..5 digits ≤ 65535 with a leading zero
	AddrMiddleOther           // a quad embedded in / decorated with anything else
	NumAddrReasons
)

func (r AddrReason) String() string {
	return [...]string{
		"in-form-default-port", "in-form-explicit-port",
		"port-missing", "port-0", "port-60000", "no-dotted-quad", "octet-out-of-range",
		"middle-leading-zero-port", "middle-other", "?",
	}[r]
}

type AddrClass struct {
	Verdict AddrVerdict
	Reason  AddrReason
	IP      [4]byte // valid when Verdict == AddrMustAccept
	Port    uint16  // valid when Verdict == AddrMustAccept (the default port if the text has none)
	HasPort bool    // the text carried an explicit port
}

func isDigit(c byte) bool { return c >= '0' && c <= '9' }

// strictNumber reads the maximal run of ASCII digits at s[i:] as a plain decimal number of
// 1..maxDigits digits without a leading zero and value <= max.
func strictNumber(s string, i, maxDigits, max int) (val, next int, ok bool) {
	start := i
	for i < len(s) && isDigit(s[i]) {
		i++
	}
	n := i - start
	if n < 1 || n > maxDigits {
		return 0, i, false
	}
	if n > 1 && s[start] == '0' {
		return 0, i, false
	}
	for k := start; k < i; k++ {
		val = val*10 + int(s[k]-'0')
	}
	if val > max {
		return 0, i, false
	}
	return val, i, true
}

// ParseStrictAddr recognises the in-form texts. port = -1 when the text has no ":port".
func ParseStrictAddr(s string) (ip [4]byte, port int, ok bool) {
	i := 0
	for k := 0; k < 4; k++ {
		v, next, good := strictNumber(s, i, 3, 255)
		if !good {
			return ip, 0, false
		}
		ip[k] = byte(v)
		i = next
		if k < 3 {
			if i >= len(s) || s[i] != '.' {
				return ip, 0, false
			}
			i++
		}
	}
	if i == len(s) {
		return ip, -1, true
	}
	if s[i] != ':' {
		return ip, 0, false
	}
	p, next, good := strictNumber(s, i+1, 5, 65535)
	if !good || next != len(s) {
		return ip, 0, false
	}
	return ip, p, true
}

// digitQuadAt reports whether a substring `d.M.M.d` starts at s[i]: one digit, a dot, two
// dot-delimited non-empty digit runs M (necessarily maximal, the dots bound them) and one digit.
// innerOK additionally says that both M denote numbers <= 255 (any number of leading zeros).
func digitQuadAt(s string, i int) (found, innerOK bool) {
	if i+1 >= len(s) || !isDigit(s[i]) || s[i+1] != '.' {
		return false, false
	}
	j := i + 2
	innerOK = true
	for k := 0; k < 2; k++ {
		start, val := j, 0
		for j < len(s) && isDigit(s[j]) {
			if val <= 255 {
				val = val*10 + int(s[j]-'0')
			}
			j++
		}
		if j == start || j >= len(s) || s[j] != '.' {
			return false, false
		}
		if val > 255 {
			innerOK = false
		}
		j++
	}
	if j >= len(s) || !isDigit(s[j]) {
		return false, false
	}
	return true, innerOK
}

// ContainsDigitQuad is the loosest reading of "contains a dotted quad": some substring consists
// of four non-empty runs of ASCII digits separated by single dots, whatever their values.
func ContainsDigitQuad(s string) bool {
	for i := range s {
		if found, _ := digitQuadAt(s, i); found {
			return true
		}
	}
	return false
}

// ContainsDottedQuad reports whether some SUBSTRING of s is `a.b.c.d` with a, b, c, d decimal
// numbers 0..255. It is deliberately generous (so that "contains no dotted quad" — the
// must-reject side — is conservative): leading zeros and any number of digits are tolerated as
// long as the value is <= 255, and because a substring may start and end inside a digit run the
// outer numbers are always satisfiable by a single digit ("256.1.1.1" contains "6.1.1.1",
// "1.2.3.999" contains "1.2.3.9"). Only the two inner numbers, which the dots pin down, can
// disqualify a candidate ("1.256.3.4", "1.2.999.4" contain no dotted quad). Only ASCII digits
// count as digits.
func ContainsDottedQuad(s string) bool {
	for i := range s {
		if found, inner := digitQuadAt(s, i); found && inner {
			return true
		}
	}
	return false
}

// ClassifyAddr is the C15 oracle.
func ClassifyAddr(role AddrRole, s string) AddrClass {
	if ip, port, ok := ParseStrictAddr(s); ok {
		if port < 0 {
			if def, has := AddrDefaultPort(role); has {
				return AddrClass{Verdict: AddrMustAccept, Reason: AddrInFormDefaultPort, IP: ip, Port: def}
			}
			return AddrClass{Verdict: AddrMustReject, Reason: AddrPortMissing}
		}
		if AddrPortAllowed(role, uint16(port)) {
			return AddrClass{Verdict: AddrMustAccept, Reason: AddrInFormExplicitPort, IP: ip, Port: uint16(port), HasPort: true}
		}
		if port == 0 {
			return AddrClass{Verdict: AddrMustReject, Reason: AddrPort0Forbidden, HasPort: true}
		}
		return AddrClass{Verdict: AddrMustReject, Reason: AddrPort60000Forbidden, HasPort: true}
	}
	if !ContainsDigitQuad(s) {
		return AddrClass{Verdict: AddrMustReject, Reason: AddrNoDigitQuad}
	}
	if !ContainsDottedQuad(s) {
		return AddrClass{Verdict: AddrMustReject, Reason: AddrNoOctetQuad}
	}
	// middle ground: is it merely a leading-zero port on an otherwise in-form text? (statistics only)
	for i := len(s) - 1; i >= 0; i-- {
		if s[i] == ':' {
			if _, p, ok := ParseStrictAddr(s[:i]); ok && p < 0 {
				tail := s[i+1:]
				if len(tail) >= 2 && len(tail) <= 5 && tail[0] == '0' {
					all := true
					for k := 0; k < len(tail); k++ {
						all = all && isDigit(tail[k])
					}
					if all {
						return AddrClass{Verdict: AddrUnconstrained, Reason: AddrMiddleLeadingZeroPort}
					}
				}
			}
			break
		}
	}
	return AddrClass{Verdict: AddrUnconstrained, Reason: AddrMiddleOther}
}

// AddrSelfTest pins the recogniser against hand-evaluated vectors, so that a slip in this file
// shows up as a machinery failure of the check and not as a false alarm.
func AddrSelfTest() error {
	type vec struct {
		s    string
		want [4]AddrVerdict // bind, broadcast, listen, controller
		port [4]int         // expected port where must-accept
	}
	const A, R, U = AddrMustAccept, AddrMustReject, AddrUnconstrained
	vectors := []vec{
		{"1.2.3.4", [4]AddrVerdict{A, A, R, A}, [4]int{0, 60000, 0, 60000}},
		{"0.0.0.0", [4]AddrVerdict{A, A, R, A}, [4]int{0, 60000, 0, 60000}},
		{"255.255.255.255", [4]AddrVerdict{A, A, R, A}, [4]int{0, 60000, 0, 60000}},
		{"1.2.3.4:0", [4]AddrVerdict{A, R, R, R}, [4]int{0, 0, 0, 0}},
		{"1.2.3.4:60000", [4]AddrVerdict{R, A, R, A}, [4]int{0, 60000, 0, 60000}},
		{"1.2.3.4:60001", [4]AddrVerdict{A, A, A, A}, [4]int{60001, 60001, 60001, 60001}},
		{"1.2.3.4:59999", [4]AddrVerdict{A, A, A, A}, [4]int{59999, 59999, 59999, 59999}},
		{"1.2.3.4:65535", [4]AddrVerdict{A, A, A, A}, [4]int{65535, 65535, 65535, 65535}},
		{"1.2.3.4:1", [4]AddrVerdict{A, A, A, A}, [4]int{1, 1, 1, 1}},
		{"1.2.3.4:65536", [4]AddrVerdict{U, U, U, U}, [4]int{}},
		{"1.2.3.4:080", [4]AddrVerdict{U, U, U, U}, [4]int{}},
		{"1.2.3.4:00", [4]AddrVerdict{U, U, U, U}, [4]int{}},
		{"1.2.3.4:", [4]AddrVerdict{U, U, U, U}, [4]int{}},
		{"1.2.3.4:+1", [4]AddrVerdict{U, U, U, U}, [4]int{}},
		{"01.2.3.4", [4]AddrVerdict{U, U, U, U}, [4]int{}},
		{"1.02.3.4", [4]AddrVerdict{U, U, U, U}, [4]int{}},
		{"256.2.3.4", [4]AddrVerdict{U, U, U, U}, [4]int{}}, // contains 6.2.3.4
		{"1.2.3.256", [4]AddrVerdict{U, U, U, U}, [4]int{}}, // contains 1.2.3.2
		{"1.256.3.4", [4]AddrVerdict{R, R, R, R}, [4]int{}},
		{"1.2.999.4:60001", [4]AddrVerdict{R, R, R, R}, [4]int{}},
		{"::1.2.3.4", [4]AddrVerdict{U, U, U, U}, [4]int{}},
		{"[1.2.3.4]:1", [4]AddrVerdict{U, U, U, U}, [4]int{}},
		{" 1.2.3.4", [4]AddrVerdict{U, U, U, U}, [4]int{}},
		{"1.2.3.4.5", [4]AddrVerdict{U, U, U, U}, [4]int{}},
		{"", [4]AddrVerdict{R, R, R, R}, [4]int{}},
		{"1.2.3", [4]AddrVerdict{R, R, R, R}, [4]int{}},
		{"1.2.3.", [4]AddrVerdict{R, R, R, R}, [4]int{}},
		{"1..2.3.4", [4]AddrVerdict{R, R, R, R}, [4]int{}},
		{"1.2.3:4", [4]AddrVerdict{R, R, R, R}, [4]int{}},
		{"1.2.3.x", [4]AddrVerdict{R, R, R, R}, [4]int{}},
		{":60000", [4]AddrVerdict{R, R, R, R}, [4]int{}},
		{"::1", [4]AddrVerdict{R, R, R, R}, [4]int{}},
		{"localhost:60001", [4]AddrVerdict{R, R, R, R}, [4]int{}},
	}
	for _, v := range vectors {
		for k, role := range AddrRoles {
			c := ClassifyAddr(role, v.s)
			if c.Verdict != v.want[k] {
				return fmt.Errorf("spec/addr self-test: ClassifyAddr(%v, %q) = %v (%v), want %v", role, v.s, c.Verdict, c.Reason, v.want[k])
			}
			if c.Verdict == AddrMustAccept && int(c.Port) != v.port[k] {
				return fmt.Errorf("spec/addr self-test: ClassifyAddr(%v, %q) port %d, want %d", role, v.s, c.Port, v.port[k])
			}
		}
	}
	if c := ClassifyAddr(AddrController, "192.168.1.100:60001"); c.IP != [4]byte{192, 168, 1, 100} || c.Port != 60001 || !c.HasPort {
		return fmt.Errorf("spec/addr self-test: 192.168.1.100:60001 -> %v", c)
	}
	return nil
}
