package spec

import (
	"encoding/binary"
	"fmt"
	"reflect"
	"sort"
)

// Dom classifies a wire field value against the property's domain.
type Dom int

const (
	In   Dom = iota // in domain: the result must be exactly the protocol decoding
	Out             // out of domain: the call fails or the field comes back as its zero value
	Free            // the property says nothing (e.g. year 0000, 0001-01-01): executed, not judged
)

func pvLeap(y int) bool { return y%4 == 0 && (y%100 != 0 || y%400 == 0) }

func pvDaysIn(y, m int) int {
	switch m {
	case 1, 3, 5, 7, 8, 10, 12:
		return 31
	case 4, 6, 9, 11:
		return 30
	case 2:
		if pvLeap(y) {
			return 29
		}
		return 28
	}
	return 0
}

func pvValidDate(y, m, d int) bool {
	return y >= 0 && y <= 9999 && m >= 1 && m <= 12 && d >= 1 && d <= pvDaysIn(y, m)
}

func unbcd(b byte) (int, bool) {
	hi, lo := int(b>>4), int(b&0x0f)
	if hi > 9 || lo > 9 {
		return 0, false
	}
	return hi*10 + lo, true
}

func unbcdAll(b []byte) ([]int, bool) {
	out := make([]int, len(b))
	for i, v := range b {
		n, ok := unbcd(v)
		if !ok {
			return nil, false
		}
		out[i] = n
	}
	return out, true
}

func allZero(b []byte) bool {
	for _, v := range b {
		if v != 0 {
			return false
		}
	}
	return true
}

// ZeroOf returns the neutral zero value of an encoding.
func ZeroOf(e Enc) any {
	switch e {
	case U8:
		return uint8(0)
	case U16:
		return uint16(0)
	case U32, PIN:
		return uint32(0)
	case Bool:
		return false
	case IPv4:
		return [4]byte{}
	case AddrPort:
		return AP{}
	case MAC:
		return [6]byte{}
	case Date, SysDate:
		return Civil{}
	case DateTime:
		return CivilDT{Zero: true}
	case SysTime:
		return HMS{}
	case HHmm:
		return HM{}
	case Version:
		return uint16(0)
	}
	return nil
}

// GetField is the reference decoder for one field. For Out the returned value is the zero value.
func GetField(buf []byte, f Field) (any, Dom) {
	b := buf[f.Off : f.Off+f.Enc.Width()]
	switch f.Enc {
	case U8:
		return b[0], In
	case U16:
		return binary.LittleEndian.Uint16(b), In
	case U32:
		return binary.LittleEndian.Uint32(b), In
	case Bool:
		switch b[0] {
		case 0:
			return false, In
		case 1:
			return true, In
		}
		return false, Out
	case IPv4:
		return [4]byte{b[0], b[1], b[2], b[3]}, In
	case AddrPort:
		return AP{IP: [4]byte{b[0], b[1], b[2], b[3]}, Port: uint16(b[4]) | uint16(b[5])<<8}, In
	case MAC:
		var m [6]byte
		copy(m[:], b)
		return m, In
	case PIN:
		return uint32(b[0]) | uint32(b[1])<<8 | uint32(b[2])<<16, In
	case Version:
		return uint16(b[0])<<8 | uint16(b[1]), In
	case Date:
		if allZero(b) {
			return Civil{}, In
		}
		n, ok := unbcdAll(b)
		if !ok {
			return Civil{}, Out
		}
		y, m, d := n[0]*100+n[1], n[2], n[3]
		if !pvValidDate(y, m, d) {
			return Civil{}, Out
		}
		if y == 0 || (y == 1 && m == 1 && d == 1) {
			return Civil{y, m, d}, Free
		}
		return Civil{y, m, d}, In
	case DateTime:
		if allZero(b) {
			return CivilDT{Zero: true}, In
		}
		n, ok := unbcdAll(b)
		if !ok {
			return CivilDT{Zero: true}, Out
		}
		y, m, d, h, mi, s := n[0]*100+n[1], n[2], n[3], n[4], n[5], n[6]
		if !pvValidDate(y, m, d) || h > 23 || mi > 59 || s > 59 {
			return CivilDT{Zero: true}, Out
		}
		if y == 0 || (y == 1 && m == 1 && d == 1 && h == 0 && mi == 0 && s == 0) {
			return CivilDT{Y: y, M: m, D: d, H: h, Mi: mi, S: s}, Free
		}
		return CivilDT{Y: y, M: m, D: d, H: h, Mi: mi, S: s}, In
	case SysDate:
		if allZero(b) {
			return Civil{}, In
		}
		n, ok := unbcdAll(b)
		if !ok {
			return Civil{}, Out
		}
		y, m, d := n[0], n[1], n[2]
		// two-digit year: valid in either century unless it is Feb 29 of year 00 (century decides)
		if m == 2 && d == 29 && y == 0 {
			return Civil{y, m, d}, Free
		}
		if !pvValidDate(2000+y, m, d) {
			return Civil{}, Out
		}
		return Civil{y, m, d}, In
	case SysTime:
		n, ok := unbcdAll(b)
		if !ok || n[0] > 23 || n[1] > 59 || n[2] > 59 {
			return HMS{}, Out
		}
		return HMS{n[0], n[1], n[2]}, In
	case HHmm:
		n, ok := unbcdAll(b)
		if !ok || n[0] > 24 || n[1] > 59 || (n[0] == 24 && n[1] != 0) {
			return HM{}, Out
		}
		return HM{n[0], n[1]}, In
	}
	panic("spec: GetField: unknown encoding")
}

// Expect is what the reference model allows the API to return for a reply.
type Expect struct {
	Sentinel string         // "" | "nil" | "error" | "nil-or-error" | "free"
	Fields   map[string]any // expected result fields (zero value for Out fields)
	Doms     map[string]Dom
	AnyOut   bool // some reply field is out of its domain: failing the call is acceptable
	AnyFree  bool
}

// Observed is what the adapter saw.
type Observed struct {
	Err    error
	Nil    bool
	Fields map[string]any
}

// ExpectReply is the reference decoder for a well-formed (64 bytes, right header and serial)
// reply to op issued with args for controller serial.
func ExpectReply(op *Op, serial uint32, args Args, reply []byte) Expect {
	e := Expect{Fields: map[string]any{}, Doms: map[string]Dom{}}
	raw := map[string]any{}
	for _, f := range op.Reply {
		v, d := GetField(reply, f)
		raw[f.Name] = v
		e.Doms[f.Name] = d
		if d == Out {
			e.AnyOut = true
		}
		if d == Free {
			e.AnyFree = true
		}
	}
	set := func(k string, v any, d Dom) { e.Fields[k] = v; e.Doms[k] = d }
	copyAll := func() {
		for k, v := range raw {
			e.Fields[k] = v
		}
	}
	sn := uint32(serial)

	switch op.Name {
	case "GetDevice", "GetDevices":
		copyAll()
		set("SerialNumber", sn, In)
	case "GetListener", "GetCards":
		copyAll()
	case "GetTime", "SetTime", "GetDoorControlState", "SetDoorControlState", "GetEventIndex":
		copyAll()
		set("SerialNumber", sn, In)
	case "OpenDoor":
		copyAll()
		set("SerialNumber", sn, In)
	case "SetEventIndex":
		copyAll()
		set("SerialNumber", sn, In)
		set("Index", args["Index"], In)
	case "GetCardByIndex", "GetCardByID":
		copyAll()
		card := raw["CardNumber"].(uint32)
		switch {
		case card == 0:
			e.Sentinel = "nil"
		case op.Name == "GetCardByIndex" && card == 0xffffffff:
			e.Sentinel = "nil"
		case op.Name == "GetCardByID" && card == 0xffffffff:
			// 'deleted' is only required of GetCardByIndex; by id the echo rule applies too
			if args["CardNumber"].(uint32) == card {
				e.Sentinel = "free"
			} else {
				e.Sentinel = "nil-or-error"
			}
		case op.Name == "GetCardByID" && card != args["CardNumber"].(uint32):
			e.Sentinel = "error"
		}
	case "GetTimeProfile":
		copyAll()
		id := raw["ProfileID"].(uint8)
		switch {
		case id == 0:
			e.Sentinel = "nil"
		case id != args["ProfileID"].(uint8):
			e.Sentinel = "error"
		}
	case "GetEvent":
		copyAll()
		set("SerialNumber", sn, In)
		typ, ix := raw["Type"].(uint8), raw["Index"].(uint32)
		switch {
		case typ == 0xff && ix == 0:
			e.Sentinel = "nil-or-error"
		case typ == 0xff:
			e.Sentinel = "error"
		case ix == 0:
			e.Sentinel = "nil"
		}
	case "GetStatus":
		for _, k := range []string{"Door1State", "Door2State", "Door3State", "Door4State", "Door1Button", "Door2Button", "Door3Button", "Door4Button", "SystemError", "SequenceId", "SpecialInfo", "RelayState", "InputState"} {
			e.Fields[k] = raw[k]
		}
		set("SerialNumber", sn, In)
		// system date + time recombination
		sd, st := raw["SystemDate"].(Civil), raw["SystemTime"].(HMS)
		dd, dt := e.Doms["SystemDate"], e.Doms["SystemTime"]
		delete(e.Doms, "SystemDate")
		delete(e.Doms, "SystemTime")
		switch {
		case dd == Out || dt == Out:
			set("SystemDateTime", CivilDT{Zero: true}, Out)
		case dd == Free || dt == Free:
			set("SystemDateTime", CivilDT{Zero: true}, Free)
		case sd.IsZero():
			set("SystemDateTime", CivilDT{Zero: true}, In)
		default:
			set("SystemDateTime", CivilDT{Y: sd.Y, M: sd.M, D: sd.D, H: st.H, Mi: st.M, S: st.S}, In) // Y is two-digit: compare mod 100
		}
		// the event is present exactly when its index is non-zero
		evf := map[string]string{"EventIndex": "Event.Index", "EventType": "Event.Type", "Granted": "Event.Granted", "Door": "Event.Door", "Direction": "Event.Direction", "CardNumber": "Event.CardNumber", "Timestamp": "Event.Timestamp", "Reason": "Event.Reason"}
		present := raw["EventIndex"].(uint32) != 0
		for wire, res := range evf {
			d := e.Doms[wire]
			delete(e.Doms, wire)
			if present {
				set(res, raw[wire], d)
			} else {
				var enc Enc
				for _, f := range op.Reply {
					if f.Name == wire {
						enc = f.Enc
					}
				}
				// absent event: zero fields — unless the call may fail anyway
				dd := In
				if d == Out {
					dd = Out
				}
				set(res, ZeroOf(enc), dd)
			}
		}
	default: // the boolean-result operations
		copyAll()
	}
	return e
}

// SysDateTimeEqual compares a combined system date-time on (YY, MM, DD, h, m, s).
func civilDTEqual(key string, want, got CivilDT) bool {
	if want.Zero || got.Zero {
		return want.Zero == got.Zero
	}
	if key == "SystemDateTime" {
		return want.Y%100 == got.Y%100 && want.M == got.M && want.D == got.D && want.H == got.H && want.Mi == got.Mi && want.S == got.S
	}
	return want == got
}

func valueEqual(key string, want, got any) bool {
	if w, ok := want.(CivilDT); ok {
		g, ok := got.(CivilDT)
		return ok && civilDTEqual(key, w, g)
	}
	return reflect.DeepEqual(want, got)
}

// Verdict of Judge: Class == "" means conforming.
type Verdict struct {
	Class  string // stable class name for violation keys
	Field  string // result field concerned, if any
	Detail string
}

// Judge compares an observation with the expectation.
func Judge(e Expect, o Observed) Verdict {
	failed := o.Err != nil
	switch e.Sentinel {
	case "free":
		return Verdict{}
	case "error":
		if !failed {
			return Verdict{"sentinel-not-an-error", "", "sentinel reply must make the call fail, but it returned a result"}
		}
		return Verdict{}
	case "nil":
		if failed {
			if e.AnyOut {
				return Verdict{}
			}
			return Verdict{"sentinel-rejected", "", fmt.Sprintf("sentinel reply must yield 'no value' without error, got error %v", o.Err)}
		}
		if !o.Nil {
			return Verdict{"sentinel-ignored", "", "sentinel reply must yield 'no value', got a value"}
		}
		return Verdict{}
	case "nil-or-error":
		if failed || o.Nil {
			return Verdict{}
		}
		return Verdict{"sentinel-ignored", "", "sentinel reply must yield 'no value' or an error, got a value"}
	}
	if failed {
		if e.AnyOut {
			return Verdict{}
		}
		return Verdict{"rejected-valid-reply", "", fmt.Sprintf("well-formed in-domain reply rejected: %v", o.Err)}
	}
	if o.Nil {
		return Verdict{"no-value-for-valid-reply", "", "well-formed in-domain reply yielded no value"}
	}
	keys := make([]string, 0, len(e.Fields))
	for k := range e.Fields {
		keys = append(keys, k)
	}
	sort.Strings(keys)
	for _, k := range keys {
		want := e.Fields[k]
		d := e.Doms[k]
		if d == Free {
			continue
		}
		got, ok := o.Fields[k]
		if !ok {
			return Verdict{"harness-missing-field", k, "harness: observation lacks result field " + k}
		}
		if !valueEqual(k, want, got) {
			if d == Out {
				return Verdict{"out-of-domain-reported", k, fmt.Sprintf("out-of-domain reply field %s reported as %v (want the zero value or a failed call)", k, got)}
			}
			return Verdict{"wrong-value", k, fmt.Sprintf("result field %s = %v, protocol decoding is %v", k, got, want)}
		}
	}
	return Verdict{}
}

// DaysInMonth is the proleptic Gregorian month length (0 for an invalid month).
func DaysInMonth(y, m int) int { return pvDaysIn(y, m) }
