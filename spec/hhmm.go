package spec

// Reference model of the HH:mm time-of-day used by time profiles and tasks, written from the
// property text: the domain is 00:00 ... 23:59 plus the single end-of-day value 24:00 (1441 values);
// the text form is exactly two decimal digits, a colon, two decimal digits.
//
// (All identifiers carry an "HHmmText"/"hhmmText" prefix: package spec is shared.)

// HHmmTextInDomain reports whether (h, m) is one of the 1441 in-domain times.
func HHmmTextInDomain(h, m int) bool {
	if h == 24 {
		return m == 0
	}
	return h >= 0 && h <= 23 && m >= 0 && m <= 59
}

// HHmmTextStrict reports whether s has the exact shape "dd:dd" and returns the two numbers.
func HHmmTextStrict(s string) (h, m int, ok bool) {
	if len(s) != 5 || s[2] != ':' {
		return 0, 0, false
	}
	for _, i := range []int{0, 1, 3, 4} {
		if s[i] < '0' || s[i] > '9' {
			return 0, 0, false
		}
	}
	return int(s[0]-'0')*10 + int(s[1]-'0'), int(s[3]-'0')*10 + int(s[4]-'0'), true
}

// HHmmTextParse is the reference parser: ok only for a strict "dd:dd" whose value is in the domain.
func HHmmTextParse(s string) (h, m int, ok bool) {
	h, m, ok = HHmmTextStrict(s)
	if !ok || !HHmmTextInDomain(h, m) {
		return 0, 0, false
	}
	return h, m, true
}

// HHmmTextRejectClass names why a string is not an HH:mm (used for stable finding keys).
func HHmmTextRejectClass(s string) string {
	h, m, strict := HHmmTextStrict(s)
	switch {
	case !strict:
		return "malformed"
	case h > 24:
		return "hour-above-24"
	case m == 60 && h <= 23:
		return "minute-60"
	case m > 60 && h <= 23:
		return "minute-above-60"
	case h == 24 && m != 0:
		return "beyond-24:00"
	}
	return "in-domain"
}
