package spec

// Reference model of the UT0311-L0x field codec, one encoder per field kind, written from the
// protocol (little-endian integers, BCD dates and times, big-endian firmware version, raw octets
// for addresses) — not from the library's codec and not from its reflection tags. Used by C18.

// Kind is a field kind of the codec's tag grammar.
type Kind int

const (
	KUint8 Kind = iota
	KUint16
	KUint32
	KBool
	KIPv4
	KAddrPort
	KRawMAC
	KSerial
	KDate
	KDateTime
	KSysDate
	KSysTime
	KHHmm
	KPIN
	KVersion
	KMacAddress
	KFixed       // byte field with a `value:` tag
	KDatePtr     // *types.Date
	KDateTimePtr // *types.DateTime
	KHHmmPtr     // *types.HHmm
	NumKinds
)

var kindNames = [NumKinds]string{"uint8", "uint16", "uint32", "bool", "IPv4", "AddrPort", "rawMAC", "SerialNumber",
	"Date", "DateTime", "SystemDate", "SystemTime", "HHmm", "PIN", "Version", "MacAddress", "fixed-byte",
	"DatePtr", "DateTimePtr", "HHmmPtr"}

var kindWidths = [NumKinds]int{1, 2, 4, 1, 4, 6, 6, 4, 4, 7, 3, 3, 2, 3, 2, 6, 1, 4, 7, 2}

func (k Kind) String() string { return kindNames[k] }

// Width is the number of bytes the kind occupies on the wire.
func (k Kind) Width() int { return kindWidths[k] }

// IsPointer reports whether the Go field is a pointer (nil allowed).
func (k Kind) IsPointer() bool { return k == KDatePtr || k == KDateTimePtr || k == KHHmmPtr }

// Base maps a pointer kind to the kind it points to.
func (k Kind) Base() Kind {
	switch k {
	case KDatePtr:
		return KDate
	case KDateTimePtr:
		return KDateTime
	case KHHmmPtr:
		return KHHmm
	}
	return k
}

// KV is a library-independent, JSON-serialisable field value.
//
//	integers, bool (0/1), PIN, serial number, version, Go content of a fixed-value byte: N
//	IPv4: B = 4 octets (Wide: held as a 16-byte net.IP); address:port: B = 4 octets, N = port
//	MAC kinds: B = 6 octets
//	Date / SystemDate: T = y,m,d   DateTime: T = y,m,d,h,mi,s   SystemTime: T = h,mi,s   HHmm: T = h,mi
//	Zero: the zero value of a date / date-time type; Nil: nil pointer (pointer kinds only)
type KV struct {
	N    uint64 `json:"n,omitempty"`
	B    []int  `json:"b,omitempty"`
	T    []int  `json:"t,omitempty"`
	Zero bool   `json:"zero,omitempty"`
	Nil  bool   `json:"nil,omitempty"`
	Wide bool   `json:"wide,omitempty"`
}

func bcdN(out []byte, vals ...int) []byte {
	for _, v := range vals {
		out = append(out, BCD2(v))
	}
	return out
}

// KindEncode is the reference encoder: the canonical wire bytes of v as a field of kind k and,
// where the protocol has a second spelling of the same value, the acceptable alternatives.
// (The zero date-time is `00 00 00 00 00 00 00`; the spelled-out 0001-01-01 00:00:00 is the
// same value and accepted as well — DESIGN §7 D8 keeps that encoding.)
// The fixed-value kind is not handled here: its byte comes from the layout's tag.
func KindEncode(k Kind, v KV) (canonical []byte, alts [][]byte) {
	w := k.Width()
	if k.IsPointer() {
		if v.Nil {
			if k == KDateTimePtr {
				return make([]byte, w), [][]byte{{0x00, 0x01, 0x01, 0x01, 0x00, 0x00, 0x00}}
			}
			return make([]byte, w), nil
		}
		return KindEncode(k.Base(), v)
	}
	oct := func() []byte {
		b := make([]byte, len(v.B))
		for i, x := range v.B {
			b[i] = byte(x)
		}
		return b
	}
	switch k {
	case KUint8:
		return []byte{byte(v.N)}, nil
	case KBool:
		if v.N != 0 {
			return []byte{0x01}, nil
		}
		return []byte{0x00}, nil
	case KUint16:
		return []byte{byte(v.N), byte(v.N >> 8)}, nil
	case KUint32, KSerial:
		return []byte{byte(v.N), byte(v.N >> 8), byte(v.N >> 16), byte(v.N >> 24)}, nil
	case KPIN:
		return []byte{byte(v.N), byte(v.N >> 8), byte(v.N >> 16)}, nil
	case KVersion:
		return []byte{byte(v.N >> 8), byte(v.N)}, nil
	case KIPv4, KRawMAC, KMacAddress:
		return oct(), nil
	case KAddrPort:
		return append(oct(), byte(v.N), byte(v.N>>8)), nil
	case KDate:
		if v.Zero {
			return make([]byte, 4), nil
		}
		return bcdN(nil, v.T[0]/100, v.T[0]%100, v.T[1], v.T[2]), nil
	case KDateTime:
		if v.Zero {
			return make([]byte, 7), [][]byte{{0x00, 0x01, 0x01, 0x01, 0x00, 0x00, 0x00}}
		}
		return bcdN(nil, v.T[0]/100, v.T[0]%100, v.T[1], v.T[2], v.T[3], v.T[4], v.T[5]), nil
	case KSysDate:
		return bcdN(nil, v.T[0]%100, v.T[1], v.T[2]), nil
	case KSysTime:
		return bcdN(nil, v.T[0], v.T[1], v.T[2]), nil
	case KHHmm:
		return bcdN(nil, v.T[0], v.T[1]), nil
	}
	panic("spec.KindEncode: kind without a value encoder: " + k.String())
}

// KindNorm maps a value to its semantic normal form (DESIGN §4.1a): a nil pointer is the zero
// value of its base type, the Go representation of an IPv4 address (4 or 16 bytes) is
// irrelevant, a system date is (y mod 100, m, d).
func KindNorm(k Kind, v KV) KV {
	out := KV{N: v.N, Zero: v.Zero}
	out.B = append(out.B, v.B...)
	out.T = append(out.T, v.T...)
	if k.IsPointer() && v.Nil {
		switch k.Base() {
		case KHHmm:
			return KV{T: []int{0, 0}}
		default:
			return KV{Zero: true}
		}
	}
	switch k.Base() {
	case KSysDate:
		if len(out.T) == 3 {
			out.T[0] %= 100
		}
	case KBool:
		if out.N != 0 {
			out.N = 1
		}
	}
	if out.Zero {
		out.T = nil
	}
	return out
}

// KVEqual compares two values field by field (no normalisation).
func KVEqual(a, b KV) bool {
	if a.N != b.N || a.Zero != b.Zero || a.Nil != b.Nil || a.Wide != b.Wide || len(a.B) != len(b.B) || len(a.T) != len(b.T) {
		return false
	}
	for i := range a.B {
		if a.B[i] != b.B[i] {
			return false
		}
	}
	for i := range a.T {
		if a.T[i] != b.T[i] {
			return false
		}
	}
	return true
}

// KindSame is semantic equality of two values of kind k.
func KindSame(k Kind, a, b KV) bool { return KVEqual(KindNorm(k, a), KindNorm(k, b)) }

func kindsLeap(y int) bool { return y%4 == 0 && (y%100 != 0 || y%400 == 0) }

func kindsDaysIn(y, m int) int {
	switch m {
	case 4, 6, 9, 11:
		return 30
	case 2:
		if kindsLeap(y) {
			return 29
		}
		return 28
	}
	return 31
}

func u32Alphabet() []uint64 {
	out := []uint64{0x01020304, 0, 1, 0x04030201, 0xffffffff, 0x7fffffff, 0x80000000, 0x00ffffff, 0xff000000,
		0x000000ff, 0x0000ff00, 0x00ff0000, 0xa5a5a5a5, 0x5a5a5a5a, 405419896, 423187757, 303986753, 201020304, 0x55aaaa55}
	for i := 0; i < 32; i++ {
		out = append(out, uint64(1)<<i, 0xffffffff^(uint64(1)<<i))
	}
	for p := uint64(10); p <= 1000000000; p *= 10 {
		out = append(out, p-1, p, p+1)
	}
	return out
}

func u16Alphabet() []uint64 {
	out := []uint64{0x1234, 0, 1, 0x0102, 0x0201, 0xffff, 0x00ff, 0xff00, 0x7fff, 0x8000, 60000, 60001, 0x0892, 0x0662}
	for i := 0; i < 16; i++ {
		out = append(out, uint64(1)<<i, 0xffff^(uint64(1)<<i))
	}
	for p := uint64(10); p <= 10000; p *= 10 {
		out = append(out, p-1, p, p+1)
	}
	return out
}

func nvals(ns []uint64) []KV {
	out := []KV{}
	for _, n := range ns {
		out = append(out, KV{N: n})
	}
	return out
}

func dateAlphabet() [][3]int {
	out := [][3]int{{2019, 8, 10}, {1, 1, 2}, {9999, 12, 31}, {1, 12, 31}, {9, 9, 9}, {99, 12, 31}, {100, 1, 1}, {999, 12, 31},
		{1000, 1, 1}, {1582, 10, 10}, {1899, 12, 31}, {1900, 1, 1}, {1900, 2, 28}, {1969, 12, 31}, {1970, 1, 1}, {1999, 12, 31},
		{2000, 1, 1}, {2000, 2, 29}, {2001, 2, 28}, {2021, 2, 3}, {2038, 1, 19}, {2068, 12, 31}, {2069, 1, 1}, {2100, 2, 28},
		{2400, 2, 29}, {9999, 1, 1}, {1234, 5, 6}, {9876, 5, 4}}
	for _, y := range []int{2023, 2024} {
		for m := 1; m <= 12; m++ {
			out = append(out, [3]int{y, m, 1}, [3]int{y, m, kindsDaysIn(y, m)})
		}
	}
	for d := 1; d <= 31; d++ {
		out = append(out, [3]int{2021, 1, d})
	}
	return out
}

func dedupe(k Kind, in []KV) []KV {
	out := []KV{}
outer:
	for _, v := range in {
		for _, w := range out {
			if KVEqual(v, w) {
				continue outer
			}
		}
		out = append(out, v)
	}
	return out
}

// KindAlphabet is the value alphabet of a kind in single-field layouts: the first element is
// the byte-asymmetric baseline, then boundaries and byte-distinct patterns, in-domain values
// only (DESIGN §4.1a "Domains"). No two elements are equal. The fixed-value kind's alphabet is
// the Go content of the field (which encoding must ignore).
func KindAlphabet(k Kind) []KV { return kindAlphabet(k, false) }

// KindDeepAlphabet extends KindAlphabet to the full domain where that is small: every HH:mm
// 00:00..24:00 and every value of each IPv4 octet (the other kinds are unchanged).
func KindDeepAlphabet(k Kind) []KV { return kindAlphabet(k, true) }

func kindAlphabet(k Kind, deep bool) []KV {
	var out []KV
	switch k {
	case KUint8:
		out = append(out, KV{N: 0xa5})
		for i := 0; i < 256; i++ {
			out = append(out, KV{N: uint64(i)})
		}
	case KFixed:
		out = []KV{{N: 0}, {N: 0xa5}, {N: 0xff}}
	case KBool:
		out = []KV{{N: 1}, {N: 0}}
	case KUint16, KVersion:
		out = nvals(u16Alphabet())
	case KUint32, KSerial:
		out = nvals(u32Alphabet())
	case KPIN:
		out = nvals([]uint64{123456, 0, 1, 9, 10, 99, 100, 255, 256, 999, 1000, 9999, 10000, 65535, 65536, 66051, 197121,
			99999, 100000, 524288, 999998, 999999})
	case KIPv4:
		out = append(out, KV{B: []int{192, 168, 1, 100}}, KV{B: []int{0, 0, 0, 0}}, KV{B: []int{255, 255, 255, 255}}, KV{B: []int{1, 2, 3, 4}})
		base := []int{10, 20, 30, 40}
		for pos := 0; pos < 4; pos++ {
			for x := 0; x < 256; x++ {
				if !deep && x > 2 && x < 253 && x != 9 && x != 10 && x != 99 && x != 100 && x != 127 && x != 128 && x != 0x55 && x != 0xaa {
					continue
				}
				b := append([]int{}, base...)
				b[pos] = x
				out = append(out, KV{B: b})
			}
		}
		for _, b := range [][]int{{192, 168, 1, 100}, {0, 0, 0, 0}, {255, 255, 255, 255}, {1, 2, 3, 4}, {127, 0, 0, 1}, {224, 0, 0, 251}} {
			out = append(out, KV{B: b, Wide: true})
		}
	case KAddrPort:
		addrs := [][]int{{192, 168, 1, 100}, {0, 0, 0, 0}, {255, 255, 255, 255}, {1, 2, 3, 4}, {127, 0, 0, 1}}
		ports := []uint64{60001, 0, 1, 255, 256, 0x0102, 0x0201, 9999, 10000, 60000, 65535}
		for _, a := range addrs {
			for _, p := range ports {
				out = append(out, KV{B: a, N: p})
			}
		}
		for i := 0; i < 16; i++ {
			out = append(out, KV{B: []int{10, 20, 30, 40}, N: uint64(1) << i})
		}
		for pos := 0; pos < 4; pos++ {
			for _, x := range []int{0, 1, 127, 128, 254, 255} {
				b := []int{10, 20, 30, 40}
				b[pos] = x
				out = append(out, KV{B: b, N: 60000})
			}
		}
	case KRawMAC, KMacAddress:
		out = append(out, KV{B: []int{0x00, 0x66, 0x19, 0x39, 0x55, 0x2d}}, KV{B: []int{0, 0, 0, 0, 0, 0}},
			KV{B: []int{0xff, 0xff, 0xff, 0xff, 0xff, 0xff}}, KV{B: []int{1, 2, 3, 4, 5, 6}}, KV{B: []int{6, 5, 4, 3, 2, 1}})
		for pos := 0; pos < 6; pos++ {
			for _, x := range []int{0x01, 0x80, 0xff} {
				b := []int{0, 0, 0, 0, 0, 0}
				b[pos] = x
				out = append(out, KV{B: b})
			}
		}
	case KDate:
		out = append(out, KV{T: []int{2019, 8, 10}}, KV{Zero: true})
		for _, d := range dateAlphabet() {
			out = append(out, KV{T: []int{d[0], d[1], d[2]}})
		}
	case KDateTime:
		out = append(out, KV{T: []int{2021, 2, 3, 4, 5, 6}}, KV{Zero: true}, KV{T: []int{1, 1, 1, 0, 0, 1}}, KV{T: []int{9999, 12, 31, 23, 59, 59}})
		for _, d := range dateAlphabet() {
			for _, t := range [][3]int{{0, 0, 0}, {12, 34, 56}, {23, 59, 59}} {
				out = append(out, KV{T: []int{d[0], d[1], d[2], t[0], t[1], t[2]}})
			}
		}
		for h := 0; h < 24; h++ {
			out = append(out, KV{T: []int{2024, 2, 29, h, 7, 8}})
		}
		for m := 0; m < 60; m++ {
			out = append(out, KV{T: []int{2024, 2, 29, 9, m, 8}}, KV{T: []int{2024, 2, 29, 9, 7, m}})
		}
	case KSysDate:
		// two-digit year: 00..68 -> 20yy, 69..99 -> 19yy (the zero SystemDate is a decode-only value)
		out = append(out, KV{T: []int{2021, 2, 3}}, KV{T: []int{2000, 1, 1}}, KV{T: []int{2000, 2, 29}}, KV{T: []int{2068, 12, 31}},
			KV{T: []int{1969, 1, 1}}, KV{T: []int{1999, 12, 31}}, KV{T: []int{2019, 8, 10}})
		for yy := 0; yy < 100; yy++ {
			y := 2000 + yy
			if yy >= 69 {
				y = 1900 + yy
			}
			out = append(out, KV{T: []int{y, 7, 15}})
		}
		for m := 1; m <= 12; m++ {
			out = append(out, KV{T: []int{2023, m, 1}}, KV{T: []int{2023, m, kindsDaysIn(2023, m)}}, KV{T: []int{2024, m, kindsDaysIn(2024, m)}})
		}
		for d := 1; d <= 31; d++ {
			out = append(out, KV{T: []int{2021, 1, d}})
		}
	case KSysTime:
		out = append(out, KV{T: []int{12, 34, 56}}, KV{T: []int{0, 0, 0}}, KV{T: []int{23, 59, 59}}, KV{T: []int{1, 2, 3}})
		for h := 0; h < 24; h++ {
			out = append(out, KV{T: []int{h, 7, 8}})
		}
		for m := 0; m < 60; m++ {
			out = append(out, KV{T: []int{9, m, 8}}, KV{T: []int{9, 7, m}})
		}
	case KHHmm:
		out = append(out, KV{T: []int{12, 34}}, KV{T: []int{0, 0}}, KV{T: []int{24, 0}}, KV{T: []int{23, 59}})
		for h := 0; h < 24; h++ {
			for m := 0; m < 60; m++ {
				if deep || h == 9 || m == 7 {
					out = append(out, KV{T: []int{h, m}})
				}
			}
		}
	case KDatePtr, KDateTimePtr, KHHmmPtr:
		base := kindAlphabet(k.Base(), deep)
		out = append(out, base[0], KV{Nil: true})
		out = append(out, base[1:]...)
	}
	return dedupe(k, out)
}

// KindPairAlphabet is the small alphabet used in multi-field layouts: baseline first, then the
// kind's minimum / zero and maximum.
func KindPairAlphabet(k Kind) []KV {
	switch k {
	case KUint8:
		return []KV{{N: 0xa5}, {N: 0}, {N: 0xff}}
	case KFixed:
		return []KV{{N: 0}, {N: 0xff}}
	case KBool:
		return []KV{{N: 1}, {N: 0}}
	case KUint16, KVersion:
		return []KV{{N: 0x1234}, {N: 0}, {N: 0xffff}}
	case KUint32, KSerial:
		return []KV{{N: 0x01020304}, {N: 0}, {N: 0xffffffff}}
	case KPIN:
		return []KV{{N: 123456}, {N: 0}, {N: 999999}}
	case KIPv4:
		return []KV{{B: []int{192, 168, 1, 100}}, {B: []int{0, 0, 0, 0}}, {B: []int{255, 255, 255, 255}, Wide: true}}
	case KAddrPort:
		return []KV{{B: []int{192, 168, 1, 100}, N: 60001}, {B: []int{0, 0, 0, 0}, N: 0}, {B: []int{255, 255, 255, 255}, N: 65535}}
	case KRawMAC, KMacAddress:
		return []KV{{B: []int{0x00, 0x66, 0x19, 0x39, 0x55, 0x2d}}, {B: []int{0, 0, 0, 0, 0, 0}}, {B: []int{0xff, 0xff, 0xff, 0xff, 0xff, 0xff}}}
	case KDate:
		return []KV{{T: []int{2019, 8, 10}}, {Zero: true}, {T: []int{1, 1, 2}}, {T: []int{9999, 12, 31}}}
	case KDateTime:
		return []KV{{T: []int{2021, 2, 3, 4, 5, 6}}, {Zero: true}, {T: []int{1, 1, 1, 0, 0, 1}}, {T: []int{9999, 12, 31, 23, 59, 59}}}
	case KSysDate:
		return []KV{{T: []int{2021, 2, 3}}, {T: []int{2000, 1, 1}}, {T: []int{1999, 12, 31}}}
	case KSysTime:
		return []KV{{T: []int{12, 34, 56}}, {T: []int{0, 0, 0}}, {T: []int{23, 59, 59}}}
	case KHHmm:
		return []KV{{T: []int{12, 34}}, {T: []int{0, 0}}, {T: []int{24, 0}}}
	case KDatePtr, KDateTimePtr, KHHmmPtr:
		base := KindPairAlphabet(k.Base())
		return append([]KV{base[0], {Nil: true}}, base[1:]...)
	}
	return nil
}

// ValueTagForms lists the ways the number v (0..255) is written in a `value:` tag: decimal and
// 0x / 0X prefixed hexadecimal with lower- and upper-case digits, padded to two digits and
// unpadded; duplicates (e.g. 0x55 in either case) are removed. Unprefixed hexadecimal is not a
// form: `value:85` is the decimal number 85.
func ValueTagForms(v int) []string {
	const lower, upper = "0123456789abcdef", "0123456789ABCDEF"
	dec := ""
	if v == 0 {
		dec = "0"
	}
	for n := v; n > 0; n /= 10 {
		dec = string(rune('0'+n%10)) + dec
	}
	hex := func(prefix, digits string, pad bool) string {
		s := string(digits[v&0x0f])
		if pad || v > 0x0f {
			s = string(digits[v>>4]) + s
		}
		return prefix + s
	}
	all := []string{dec, hex("0x", lower, true), hex("0X", lower, true), hex("0x", upper, true), hex("0X", upper, true),
		hex("0x", lower, false), hex("0X", upper, false)}
	out := []string{}
outer:
	for _, s := range all {
		for _, t := range out {
			if s == t {
				continue outer
			}
		}
		out = append(out, s)
	}
	return out
}
