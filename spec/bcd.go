// Package spec holds the hand-written reference models (oracles). Nothing in here is derived
// from the library's code or reflection tags at run time.
package spec

// BCDEncode is the reference for bcd.Encode: ok=false iff any byte of s is not an ASCII digit.
func BCDEncode(s string) (out []byte, ok bool) {
	for i := 0; i < len(s); i++ {
		if s[i] < '0' || s[i] > '9' {
			return nil, false
		}
	}
	digits := s
	if len(digits)%2 == 1 {
		digits = "0" + digits
	}
	out = make([]byte, len(digits)/2)
	for i := 0; i < len(out); i++ {
		out[i] = (digits[2*i]-'0')<<4 | (digits[2*i+1] - '0')
	}
	return out, true
}

// BCDDecode is the reference for bcd.Decode: ok=false iff any nibble exceeds 9.
func BCDDecode(b []byte) (string, bool) {
	out := make([]byte, 0, 2*len(b))
	for _, v := range b {
		hi, lo := v>>4, v&0x0f
		if hi > 9 || lo > 9 {
			return "", false
		}
		out = append(out, '0'+hi, '0'+lo)
	}
	return string(out), true
}

// IsBCD reports whether every nibble of b is a decimal digit.
func IsBCD(b []byte) bool {
	_, ok := BCDDecode(b)
	return ok
}

// BCD2 encodes 0..99 as one BCD byte.
func BCD2(v int) byte { return byte(v/10)<<4 | byte(v%10) }
