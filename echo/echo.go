// Package echo defines what a simulated or loopback controller answers: reply values that are a
// function of the controller serial number and of the request bytes.
package echo

import (
	"encoding/binary"

	"verif/ops"
	"verif/spec"
)

func OpByCode(code byte) *spec.Op {
	for i := range spec.Ops {
		if spec.Ops[i].Code == code && !spec.Ops[i].Broadcast {
			return &spec.Ops[i]
		}
	}
	return nil
}

func fnv(serial uint32, req []byte, salt string) uint32 {
	h := uint32(2166136261)
	mix := func(b byte) { h = (h ^ uint32(b)) * 16777619 }
	for i := 0; i < 4; i++ {
		mix(byte(serial >> (8 * i)))
	}
	for _, b := range req {
		mix(b)
	}
	for i := 0; i < len(salt); i++ {
		mix(salt[i])
	}
	return h
}

// EchoValues are the reply field values controller `serial` gives to request req: a function of
// the controller and of the request, so "this reply answers that request" is checkable.
func EchoValues(serial uint32, req []byte) (*spec.Op, spec.Args) {
	if len(req) != 64 {
		return nil, nil
	}
	op := OpByCode(req[1])
	if op == nil || op.NoReply {
		return op, nil
	}
	v := ops.BaselineReply(op)
	for _, f := range op.Reply {
		h := fnv(serial, req, f.Name)
		switch f.Enc {
		case spec.U32:
			v[f.Name] = h | 1 // never the 0 sentinel
			if h|1 == 0xffffffff {
				v[f.Name] = uint32(0x7ffffffe)
			}
		case spec.U8:
			v[f.Name] = uint8(h%250) + 1 // 1..250: never 0 / 0xff sentinels
		case spec.Bool:
			v[f.Name] = h&1 == 1
		case spec.PIN:
			v[f.Name] = h % 1000000
		}
	}
	switch op.Name {
	case "GetCardByID":
		v["CardNumber"] = binary.LittleEndian.Uint32(req[8:12])
	case "GetTimeProfile":
		v["ProfileID"] = req[8]
	case "GetEvent":
		v["Index"] = binary.LittleEndian.Uint32(req[8:12])
	}
	return op, v
}

// EchoReply builds the reply datagram (nil if the request gets none).
func EchoReply(serial uint32, req []byte) []byte {
	op, v := EchoValues(serial, req)
	if op == nil || v == nil {
		return nil
	}
	return spec.EncodeReply(op, serial, v)
}
