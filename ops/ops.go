// Package ops adapts the reference model's neutral argument/result values (package spec) to the
// public API of uhppote-core: one Invoke per operation, converting arguments to library types,
// calling the real method, and converting what comes back into neutral values.
package ops

import (
	"fmt"
	"net"
	"net/netip"
	"time"

	"github.com/uhppoted/uhppote-core/types"
	"github.com/uhppoted/uhppote-core/uhppote"
	"verif/spec"
)

// Raw (library-typed) arguments may be supplied under these keys; they take precedence over the
// neutral ones so that nil / partial maps, time.Time values in arbitrary Locations etc. can be
// passed through unchanged.
const (
	RawTime      = "@time"      // time.Time for SetTime
	RawDoors     = "@doors"     // map[uint8]uint8 for PutCard
	RawWeekdays  = "@weekdays"  // types.Weekdays for SetTimeProfile / AddTask
	RawSegments  = "@segments"  // types.Segments for SetTimeProfile
	RawReaders   = "@readers"   // map[uint8]bool for ActivateKeypads
	RawPasscodes = "@passcodes" // []uint32 for SetDoorPasscodes
	RawFormats   = "@formats"   // []types.CardFormat for PutCard
	RawIPs       = "@ips"       // [3]net.IP for SetAddress
	RawAddrPort  = "@addrport"  // netip.AddrPort for SetListener
	RawFrom      = "@from"      // types.Date
	RawTo        = "@to"        // types.Date
)

func ToDate(c spec.Civil) types.Date {
	if c.IsZero() {
		return types.Date{}
	}
	return types.ToDate(c.Y, time.Month(c.M), c.D)
}

func FromDate(d types.Date) spec.Civil {
	if d.IsZero() {
		return spec.Civil{}
	}
	y, m, dd := time.Time(d).Date()
	return spec.Civil{Y: y, M: int(m), D: dd}
}

func FromDateTime(d types.DateTime) spec.CivilDT {
	if d.IsZero() {
		return spec.CivilDT{Zero: true}
	}
	t := time.Time(d)
	return spec.CivilDT{Y: t.Year(), M: int(t.Month()), D: t.Day(), H: t.Hour(), Mi: t.Minute(), S: t.Second()}
}

// UnixOf: the instant a returned date-time denotes (extra observation "<field>@unix"; the reference
// decoding of a reply date-time is its wall clock in the process time zone).
func UnixOf(d types.DateTime) int64 { return time.Time(d).Unix() }

func ToTime(c spec.CivilDT, loc *time.Location) time.Time {
	if c.Zero {
		return time.Time{}
	}
	return time.Date(c.Y, time.Month(c.M), c.D, c.H, c.Mi, c.S, 0, loc)
}

func FromHHmm(h types.HHmm) any {
	var hh, mm int
	s := h.String()
	if n, err := fmt.Sscanf(s, "%d:%d", &hh, &mm); n != 2 || err != nil {
		return "unparseable HHmm " + s
	}
	return spec.HM{H: hh, M: mm}
}

func FromIP(ip net.IP) any {
	v := ip.To4()
	if v == nil {
		return fmt.Sprintf("non-IPv4 %v", []byte(ip))
	}
	return [4]byte{v[0], v[1], v[2], v[3]}
}

func FromAddrPort(a netip.AddrPort) any {
	if !a.Addr().Is4() {
		return fmt.Sprintf("non-IPv4 %v", a)
	}
	return spec.AP{IP: a.Addr().As4(), Port: a.Port()}
}

func ToAddrPort(a spec.AP) netip.AddrPort {
	return netip.AddrPortFrom(netip.AddrFrom4(a.IP), a.Port)
}

func FromMAC(m types.MacAddress) any {
	if len(m) != 6 {
		return fmt.Sprintf("MAC of length %d", len(m))
	}
	var v [6]byte
	copy(v[:], m)
	return v
}

func weekdaysOf(a spec.Args, prefix string) types.Weekdays {
	if w, ok := a[RawWeekdays]; ok {
		if w == nil {
			return nil
		}
		return w.(types.Weekdays)
	}
	return types.Weekdays{
		time.Monday: a["Monday"].(bool), time.Tuesday: a["Tuesday"].(bool), time.Wednesday: a["Wednesday"].(bool),
		time.Thursday: a["Thursday"].(bool), time.Friday: a["Friday"].(bool), time.Saturday: a["Saturday"].(bool), time.Sunday: a["Sunday"].(bool),
	}
}

func dateArg(a spec.Args, raw, name string) types.Date {
	if v, ok := a[raw]; ok {
		return v.(types.Date)
	}
	return ToDate(a[name].(spec.Civil))
}

func hm(a spec.Args, k string) types.HHmm {
	v := a[k].(spec.HM)
	return types.NewHHmm(v.H, v.M)
}

func okResult(b bool, err error) spec.Observed {
	return spec.Observed{Err: err, Fields: map[string]any{"Succeeded": b}}
}

func deviceFields(d *types.Device) map[string]any {
	return map[string]any{
		"Name": d.Name, "SerialNumber": uint32(d.SerialNumber), "IpAddress": FromIP(d.IpAddress), "SubnetMask": FromIP(d.SubnetMask),
		"Gateway": FromIP(d.Gateway), "MacAddress": FromMAC(d.MacAddress), "Version": uint16(d.Version), "Date": FromDate(d.Date),
		"Address": d.Address,
	}
}

func cardFields(c *types.Card) map[string]any {
	f := map[string]any{"CardNumber": c.CardNumber, "From": FromDate(c.From), "To": FromDate(c.To), "PIN": uint32(c.PIN)}
	for i := uint8(1); i <= 4; i++ {
		f[fmt.Sprintf("Door%d", i)] = c.Doors[i]
	}
	return f
}

func StatusFields(s *types.Status) map[string]any {
	f := map[string]any{
		"SerialNumber": uint32(s.SerialNumber), "SystemError": s.SystemError, "SystemDateTime": FromDateTime(s.SystemDateTime), "SystemDateTime@unix": UnixOf(s.SystemDateTime),
		"SequenceId": s.SequenceId, "SpecialInfo": s.SpecialInfo, "RelayState": s.RelayState, "InputState": s.InputState,
		"Event.Index": s.Event.Index, "Event.Type": s.Event.Type, "Event.Granted": s.Event.Granted, "Event.Door": s.Event.Door,
		"Event.Direction": s.Event.Direction, "Event.CardNumber": s.Event.CardNumber, "Event.Timestamp": FromDateTime(s.Event.Timestamp), "Event.Timestamp@unix": UnixOf(s.Event.Timestamp), "Event.Reason": s.Event.Reason,
	}
	for i := uint8(1); i <= 4; i++ {
		f[fmt.Sprintf("Door%dState", i)] = s.DoorState[i]
		f[fmt.Sprintf("Door%dButton", i)] = s.DoorButton[i]
	}
	return f
}

// Invoke calls operation op on u. GetDevices is handled by InvokeGetDevices.
func Invoke(u uhppote.IUHPPOTE, op string, serial uint32, a spec.Args) spec.Observed {
	switch op {
	case "GetDevice":
		d, err := u.GetDevice(serial)
		if err != nil || d == nil {
			return spec.Observed{Err: err, Nil: d == nil}
		}
		return spec.Observed{Fields: deviceFields(d)}

	case "SetAddress":
		var ips [3]net.IP
		if v, ok := a[RawIPs]; ok {
			ips = v.([3]net.IP)
		} else {
			for i, k := range []string{"Address", "Mask", "Gateway"} {
				b := a[k].([4]byte)
				ips[i] = net.IPv4(b[0], b[1], b[2], b[3])
			}
		}
		r, err := u.SetAddress(serial, ips[0], ips[1], ips[2])
		if err != nil || r == nil {
			return spec.Observed{Err: err, Nil: r == nil}
		}
		return spec.Observed{Fields: map[string]any{"SerialNumber": uint32(r.SerialNumber), "Succeeded": r.Succeeded}}

	case "GetListener":
		ap, interval, err := u.GetListener(serial)
		return spec.Observed{Err: err, Fields: map[string]any{"AddrPort": FromAddrPort(ap), "Interval": interval}}

	case "SetListener":
		var ap netip.AddrPort
		if v, ok := a[RawAddrPort]; ok {
			ap = v.(netip.AddrPort)
		} else {
			ap = ToAddrPort(a["AddrPort"].(spec.AP))
		}
		return okResult(u.SetListener(serial, ap, a["Interval"].(uint8)))

	case "GetTime":
		t, err := u.GetTime(serial)
		if err != nil || t == nil {
			return spec.Observed{Err: err, Nil: t == nil}
		}
		return spec.Observed{Fields: map[string]any{"SerialNumber": uint32(t.SerialNumber), "DateTime": FromDateTime(t.DateTime), "DateTime@unix": UnixOf(t.DateTime)}}

	case "SetTime":
		var tt time.Time
		if v, ok := a[RawTime]; ok {
			tt = v.(time.Time)
		} else {
			tt = ToTime(a["DateTime"].(spec.CivilDT), time.Local)
		}
		t, err := u.SetTime(serial, tt)
		if err != nil || t == nil {
			return spec.Observed{Err: err, Nil: t == nil}
		}
		return spec.Observed{Fields: map[string]any{"SerialNumber": uint32(t.SerialNumber), "DateTime": FromDateTime(t.DateTime), "DateTime@unix": UnixOf(t.DateTime)}}

	case "GetDoorControlState", "SetDoorControlState":
		var s *types.DoorControlState
		var err error
		if op == "GetDoorControlState" {
			s, err = u.GetDoorControlState(serial, a["Door"].(uint8))
		} else {
			s, err = u.SetDoorControlState(serial, a["Door"].(uint8), types.ControlState(a["ControlState"].(uint8)), a["Delay"].(uint8))
		}
		if err != nil || s == nil {
			return spec.Observed{Err: err, Nil: s == nil}
		}
		return spec.Observed{Fields: map[string]any{"SerialNumber": uint32(s.SerialNumber), "Door": s.Door, "ControlState": uint8(s.ControlState), "Delay": s.Delay}}

	case "GetStatus":
		s, err := u.GetStatus(serial)
		if err != nil || s == nil {
			return spec.Observed{Err: err, Nil: s == nil}
		}
		return spec.Observed{Fields: StatusFields(s)}

	case "GetCards":
		n, err := u.GetCards(serial)
		return spec.Observed{Err: err, Fields: map[string]any{"Records": n}}

	case "GetCardByIndex", "GetCardByID":
		var c *types.Card
		var err error
		if op == "GetCardByIndex" {
			c, err = u.GetCardByIndex(serial, a["Index"].(uint32))
		} else {
			c, err = u.GetCardByID(serial, a["CardNumber"].(uint32))
		}
		if err != nil || c == nil {
			return spec.Observed{Err: err, Nil: c == nil}
		}
		return spec.Observed{Fields: cardFields(c)}

	case "PutCard":
		card := types.Card{CardNumber: a["CardNumber"].(uint32), From: dateArg(a, RawFrom, "From"), To: dateArg(a, RawTo, "To"), PIN: types.PIN(a["PIN"].(uint32))}
		if v, ok := a[RawDoors]; ok {
			if v != nil {
				card.Doors = v.(map[uint8]uint8)
			}
		} else {
			card.Doors = map[uint8]uint8{1: a["Door1"].(uint8), 2: a["Door2"].(uint8), 3: a["Door3"].(uint8), 4: a["Door4"].(uint8)}
		}
		if v, ok := a[RawFormats]; ok {
			return okResult(u.PutCard(serial, card, v.([]types.CardFormat)...))
		}
		return okResult(u.PutCard(serial, card))

	case "DeleteCard":
		return okResult(u.DeleteCard(serial, a["CardNumber"].(uint32)))
	case "DeleteCards":
		return okResult(u.DeleteCards(serial))

	case "GetTimeProfile":
		p, err := u.GetTimeProfile(serial, a["ProfileID"].(uint8))
		if err != nil || p == nil {
			return spec.Observed{Err: err, Nil: p == nil}
		}
		f := map[string]any{"ProfileID": p.ID, "LinkedProfileID": p.LinkedProfileID, "From": FromDate(p.From), "To": FromDate(p.To)}
		for i, d := range []time.Weekday{time.Monday, time.Tuesday, time.Wednesday, time.Thursday, time.Friday, time.Saturday, time.Sunday} {
			f[[]string{"Monday", "Tuesday", "Wednesday", "Thursday", "Friday", "Saturday", "Sunday"}[i]] = p.Weekdays[d]
		}
		for i := uint8(1); i <= 3; i++ {
			f[fmt.Sprintf("Segment%dStart", i)] = FromHHmm(p.Segments[i].Start)
			f[fmt.Sprintf("Segment%dEnd", i)] = FromHHmm(p.Segments[i].End)
		}
		return spec.Observed{Fields: f}

	case "SetTimeProfile":
		p := types.TimeProfile{ID: a["ProfileID"].(uint8), LinkedProfileID: a["LinkedProfileID"].(uint8), From: dateArg(a, RawFrom, "From"), To: dateArg(a, RawTo, "To"), Weekdays: weekdaysOf(a, "")}
		if v, ok := a[RawSegments]; ok {
			if v != nil {
				p.Segments = v.(types.Segments)
			}
		} else {
			p.Segments = types.Segments{
				1: types.Segment{Start: hm(a, "Segment1Start"), End: hm(a, "Segment1End")},
				2: types.Segment{Start: hm(a, "Segment2Start"), End: hm(a, "Segment2End")},
				3: types.Segment{Start: hm(a, "Segment3Start"), End: hm(a, "Segment3End")},
			}
		}
		return okResult(u.SetTimeProfile(serial, p))

	case "ClearTimeProfiles":
		return okResult(u.ClearTimeProfiles(serial))
	case "ClearTaskList":
		return okResult(u.ClearTaskList(serial))

	case "AddTask":
		t := types.Task{Task: types.TaskType(a["Task"].(uint8)), Door: a["Door"].(uint8), From: dateArg(a, RawFrom, "From"), To: dateArg(a, RawTo, "To"), Weekdays: weekdaysOf(a, ""), Start: hm(a, "Start"), Cards: a["MoreCards"].(uint8)}
		return okResult(u.AddTask(serial, t))

	case "RefreshTaskList":
		return okResult(u.RefreshTaskList(serial))
	case "RecordSpecialEvents":
		return okResult(u.RecordSpecialEvents(serial, a["Enable"].(bool)))

	case "GetEvent":
		e, err := u.GetEvent(serial, a["Index"].(uint32))
		if err != nil || e == nil {
			return spec.Observed{Err: err, Nil: e == nil}
		}
		return spec.Observed{Fields: map[string]any{"SerialNumber": uint32(e.SerialNumber), "Index": e.Index, "Type": e.Type, "Granted": e.Granted, "Door": e.Door, "Direction": e.Direction, "CardNumber": e.CardNumber, "Timestamp": FromDateTime(e.Timestamp), "Timestamp@unix": UnixOf(e.Timestamp), "Reason": e.Reason}}

	case "GetEventIndex":
		e, err := u.GetEventIndex(serial)
		if err != nil || e == nil {
			return spec.Observed{Err: err, Nil: e == nil}
		}
		return spec.Observed{Fields: map[string]any{"SerialNumber": uint32(e.SerialNumber), "Index": e.Index}}

	case "SetEventIndex":
		e, err := u.SetEventIndex(serial, a["Index"].(uint32))
		if err != nil || e == nil {
			return spec.Observed{Err: err, Nil: e == nil}
		}
		return spec.Observed{Fields: map[string]any{"SerialNumber": uint32(e.SerialNumber), "Index": e.Index, "Succeeded": e.Changed}}

	case "SetDoorPasscodes":
		var codes []uint32
		if v, ok := a[RawPasscodes]; ok {
			if v != nil {
				codes = v.([]uint32)
			}
		} else {
			codes = []uint32{a["Passcode1"].(uint32), a["Passcode2"].(uint32), a["Passcode3"].(uint32), a["Passcode4"].(uint32)}
		}
		return okResult(u.SetDoorPasscodes(serial, a["Door"].(uint8), codes...))

	case "OpenDoor":
		r, err := u.OpenDoor(serial, a["Door"].(uint8))
		if err != nil || r == nil {
			return spec.Observed{Err: err, Nil: r == nil}
		}
		return spec.Observed{Fields: map[string]any{"SerialNumber": uint32(r.SerialNumber), "Succeeded": r.Succeeded}}

	case "SetPCControl":
		return okResult(u.SetPCControl(serial, a["Enable"].(bool)))
	case "SetInterlock":
		return okResult(u.SetInterlock(serial, types.Interlock(a["Interlock"].(uint8))))

	case "ActivateKeypads":
		var readers map[uint8]bool
		if v, ok := a[RawReaders]; ok {
			if v != nil {
				readers = v.(map[uint8]bool)
			}
		} else {
			readers = map[uint8]bool{1: a["Reader1"].(bool), 2: a["Reader2"].(bool), 3: a["Reader3"].(bool), 4: a["Reader4"].(bool)}
		}
		return okResult(u.ActivateKeypads(serial, readers))

	case "RestoreDefaultParameters":
		return okResult(u.RestoreDefaultParameters(serial))
	}
	panic("ops: unknown operation " + op)
}

// InvokeGetDevices calls discovery and returns one neutral field map per entry.
func InvokeGetDevices(u uhppote.IUHPPOTE) ([]map[string]any, error) {
	list, err := u.GetDevices()
	if err != nil {
		return nil, err
	}
	out := []map[string]any{}
	for i := range list {
		out = append(out, deviceFields(&list[i]))
	}
	return out, nil
}

// Baseline returns the all-distinct, byte-asymmetric baseline argument tuple of an operation.
func Baseline(op *spec.Op) spec.Args {
	a := spec.Args{}
	n := 0
	for _, f := range op.Req {
		n++
		k := uint32(n)
		switch f.Enc {
		case spec.U8:
			a[f.Name] = uint8(0x20 + 7*n)
		case spec.U32:
			a[f.Name] = 0x01020304 + k*0x10203040
		case spec.Bool:
			a[f.Name] = n%2 == 1
		case spec.IPv4:
			a[f.Name] = [4]byte{byte(10 + n), byte(20 + n), byte(30 + n), byte(40 + n)}
		case spec.AddrPort:
			a[f.Name] = spec.AP{IP: [4]byte{192, 168, byte(n), byte(100 + n)}, Port: uint16(0x1234 + n)}
		case spec.Date:
			a[f.Name] = spec.Civil{Y: 2019 + n, M: 1 + (n*5)%12, D: 3 + n}
		case spec.DateTime:
			a[f.Name] = spec.CivilDT{Y: 2024, M: 11, D: 23, H: 14, Mi: 37, S: 52}
		case spec.HHmm:
			a[f.Name] = spec.HM{H: (7 + n) % 24, M: (13 + 9*n) % 60}
		case spec.PIN:
			a[f.Name] = uint32(654321)
		}
	}
	// keep the baseline inside every operation's accepted domain
	switch op.Name {
	case "PutCard":
		a["CardNumber"] = uint32(8165538)
	case "SetDoorPasscodes":
		a["Door"] = uint8(3)
		a["Passcode1"], a["Passcode2"], a["Passcode3"], a["Passcode4"] = uint32(12345), uint32(999999), uint32(54321), uint32(7)
	case "SetTimeProfile":
		a["Segment1Start"], a["Segment1End"] = spec.HM{H: 8, M: 30}, spec.HM{H: 9, M: 45}
		a["Segment2Start"], a["Segment2End"] = spec.HM{H: 11, M: 35}, spec.HM{H: 13, M: 15}
		a["Segment3Start"], a["Segment3End"] = spec.HM{H: 14, M: 1}, spec.HM{H: 17, M: 59}
	}
	return a
}

// BaselineReply returns all-distinct, in-domain, byte-asymmetric values for the reply fields of op.
func BaselineReply(op *spec.Op) spec.Args {
	a := spec.Args{}
	for i, f := range op.Reply {
		n := i + 1
		switch f.Enc {
		case spec.U8:
			a[f.Name] = uint8(0x21 + 5*n)
		case spec.U32:
			a[f.Name] = uint32(0x0a0b0c0d) + uint32(n)*0x01030507
		case spec.Bool:
			a[f.Name] = n%2 == 1
		case spec.IPv4:
			a[f.Name] = [4]byte{byte(192 - n), byte(168 + n), byte(n), byte(100 + n)}
		case spec.AddrPort:
			a[f.Name] = spec.AP{IP: [4]byte{10, 11, 12, 13}, Port: 0xea61}
		case spec.MAC:
			a[f.Name] = [6]byte{0x00, 0x12, 0x23, 0x34, 0x45, 0x56}
		case spec.Version:
			a[f.Name] = uint16(0x0892)
		case spec.Date:
			a[f.Name] = spec.Civil{Y: 2018 + n, M: 1 + (n*5)%12, D: 10 + n}
		case spec.DateTime:
			a[f.Name] = spec.CivilDT{Y: 2023, M: 5, D: 17, H: 14, Mi: 35, S: 52}
		case spec.SysDate:
			a[f.Name] = spec.Civil{Y: 24, M: 8, D: 9}
		case spec.SysTime:
			a[f.Name] = spec.HMS{H: 13, M: 47, S: 29}
		case spec.HHmm:
			a[f.Name] = spec.HM{H: (6 + n) % 24, M: (11 + 7*n) % 60}
		case spec.PIN:
			a[f.Name] = uint32(0x0735b1)
		}
	}
	return a
}

// EchoArgs returns request arguments consistent with a reply built from vals (echoed card number
// and profile id), on top of the operation's baseline.
func EchoArgs(op *spec.Op, vals spec.Args) spec.Args {
	a := Baseline(op)
	switch op.Name {
	case "GetCardByID":
		a["CardNumber"] = vals["CardNumber"]
	case "GetTimeProfile":
		a["ProfileID"] = vals["ProfileID"]
	}
	return a
}

// DatesWithTimeOfDay: time values that carry a time of day, in Locations whose daylight-saving
// change removes local midnight - the last and first hours around every such change 2022..2025 - and
// in two fixed-offset Locations. A types.Date is a time.Time: whatever time of day it carries, its
// calendar day is the one the value itself shows.
func DatesWithTimeOfDay() []time.Time {
	out := []time.Time{}
	for _, name := range []string{"America/Santiago", "America/Havana", "Africa/Cairo", "Asia/Beirut", "Atlantic/Azores", "America/Asuncion"} {
		loc, err := time.LoadLocation(name)
		if err != nil {
			panic(err)
		}
		for d := time.Date(2022, 1, 1, 12, 0, 0, 0, time.UTC); d.Year() < 2026; d = d.AddDate(0, 0, 1) {
			y, m, dd := d.Date()
			if time.Date(y, m, dd, 0, 0, 0, 0, loc).Hour() == 0 {
				continue
			}
			// local midnight of y-m-dd does not exist in loc
			for _, hms := range [][4]int{{-1, 22, 59, 59}, {-1, 23, 0, 0}, {-1, 23, 0, 1}, {-1, 23, 59, 59}, {0, 1, 0, 0}, {0, 1, 30, 0}, {0, 12, 0, 0}, {0, 23, 0, 0}} {
				out = append(out, time.Date(y, m, dd+hms[0], hms[1], hms[2], hms[3], 0, loc))
			}
			out = append(out, time.Date(y, m, dd-1, 23, 0, 0, 500000000, loc))
		}
	}
	for _, loc := range []*time.Location{time.FixedZone("+13", 13*3600), time.FixedZone("-11", -11*3600), time.UTC} {
		for _, hms := range [][3]int{{0, 0, 1}, {12, 34, 56}, {23, 0, 0}, {23, 59, 59}} {
			out = append(out, time.Date(2024, 2, 29, hms[0], hms[1], hms[2], 0, loc), time.Date(2024, 12, 31, hms[0], hms[1], hms[2], 999999999, loc))
		}
	}
	return out
}
