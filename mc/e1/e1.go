// Package e1 drives engine-E1 scenario families: sharding across worker processes, violation
// re-execution (determinism guard), aggregation into the vk evidence, replay of a recorded
// schedule. Builds only under the E1 overlay.
package e1

import (
	"bytes"
	"encoding/json"
	"fmt"
	"os"
	"os/exec"
	"runtime"
	"sort"
	"strings"
	"sync"
	"time"

	"github.com/uhppoted/uhppote-core/verifshim/vs"
	"verif/vk"
)

type Viol struct {
	Key  string
	What string
}

type Scenario struct {
	Name  string
	Opt   vs.Options
	Bound int  // preemption bound (<0 unbounded)
	Prune bool // state-key pruning (only with Bound < 0)
	// Deviations > 0 bounds the number of non-default choices of any kind per execution.
	Deviations int
	Body       func()
	// Check inspects one complete execution: outcome label + violations.
	Check func(e *vs.Exec) (string, []Viol)
	// MaxExecs caps the exploration of this scenario (0 = none); hitting it is reported.
	MaxExecs int64
	// DefaultOnly: explore the default schedule only (volume scenarios)
	DefaultOnly bool
	// Shards > 1 splits the scenario's choice tree over that many work items (big scenarios).
	Shards         int
	shard, nshards int
}

type replayCase struct {
	Scenario string `json:"scenario"`
	Choices  []int  `json:"choices"`
	Detail   any    `json:"execution,omitempty"`
	// Worker is set for violations that depend on the executions that ran before them in the worker
	// process (state the library keeps across calls): the replay re-runs that worker's whole share.
	Worker string `json:"worker,omitempty"`
}

// unreproduced: a violation seen during exploration that did not recur when its schedule was run on
// its own in the same process.
type unreproduced struct {
	Scenario, Key, What string
	Choices             []int
}

type workerOut struct {
	Executions, States, Transitions, Pruned int64
	Scenarios                               int
	Outcomes                                map[string]int64
	Capped                                  []string
	Violations                              []vk.WorkerViolation
	Machinery                               []string
	Unreproduced                            []unreproduced
	Samples                                 []any
	MaxDepth                                int
}

func generic(e *vs.Exec) []Viol {
	var v []Viol
	switch e.Abort {
	case "DEADLOCK":
		v = append(v, Viol{"deadlock", "deadlock / leaked thread: " + e.AbortMsg})
	case "LIVELOCK":
		v = append(v, Viol{"livelock", e.AbortMsg})
	case "PANIC":
		v = append(v, Viol{"panic", e.AbortMsg})
	}
	return v
}

// PerScenario is the wall-clock allowance of one scenario (one shard of it). Exploration that runs
// out of it is reported as exhaustive:false with the scenario named — never as a violation. It
// exists so that a changed tree with a much larger interleaving space cannot make a check run away.
var PerScenario = 60 * time.Second

func runScenario(id string, s *Scenario, out *workerOut, deadline time.Time) {
	if d := time.Now().Add(PerScenario); deadline.IsZero() || d.Before(deadline) {
		deadline = d
	}
	x := &vs.Explorer{Opt: s.Opt, Bound: s.Bound, Prune: s.Prune && s.Bound < 0, MaxExecs: s.MaxExecs, Deadline: deadline, Shard: s.shard, NShards: s.nshards, Deviations: s.Deviations, DefaultOnly: s.DefaultOnly}
	seenKey := map[string]bool{}
	tried := map[string]int{}
	x.Check = func(e *vs.Exec) string {
		if e.Abort == "NONDETERMINISM" || e.Abort == "HANG" {
			out.Machinery = append(out.Machinery, fmt.Sprintf("scenario %s: %s: %s (choices %v)", s.Name, e.Abort, e.AbortMsg, e.Choices()))
			return e.Abort
		}
		label, viols := s.Check(e)
		for _, v := range viols {
			key := id + "/" + v.Key
			if seenKey[key] {
				out.Violations = append(out.Violations, vk.WorkerViolation{Key: key, Count: 1})
				continue
			}
			if tried[key] >= 3 {
				continue // three occurrences failed to reproduce on their own: reported through Unreproduced
			}
			tried[key]++
			// determinism guard: the recorded schedule must reproduce the violation twice
			choices := e.Choices()
			ok := true
			var last *vs.Exec
			for k := 0; k < 2; k++ {
				opt := s.Opt
				opt.Trace = true
				e2 := vs.Run(choices, nil, opt, s.Body)
				l2, v2 := s.Check(e2)
				found := false
				for _, w := range v2 {
					if w.Key == v.Key {
						found = true
					}
				}
				if !found || l2 != label {
					ok = false
				}
				last = e2
			}
			if !ok {
				out.Unreproduced = append(out.Unreproduced, unreproduced{Scenario: s.Name, Key: key, What: v.What, Choices: choices})
				continue
			}
			seenKey[key] = true // only a reproduced occurrence makes later ones count
			out.Violations = append(out.Violations, vk.WorkerViolation{Key: key, What: s.Name + ": " + v.What, Kind: "schedule",
				Case: replayCase{Scenario: s.Name, Choices: choices, Detail: last.Describe()}, Count: 1})
		}
		return label
	}
	x.Explore(s.Body)
	out.Executions += x.Stats.Executions
	out.States += x.Stats.States
	out.Transitions += x.Stats.Transitions
	out.Pruned += x.Stats.Pruned
	out.Scenarios++
	if x.Stats.MaxDepth > out.MaxDepth {
		out.MaxDepth = x.Stats.MaxDepth
	}
	for l, n := range x.Stats.Outcomes {
		out.Outcomes[l] += n
	}
	if x.Stats.Capped {
		out.Capped = append(out.Capped, s.Name)
	}
}

// RunAll explores every scenario (sharded over worker processes) and folds the results into r.
// budget is the wall-clock allowance per worker (0 = none); running out of it is reported as
// exhaustive:false, never as a violation.
func RunAll(r *vk.Run, scenarios []Scenario, budget time.Duration) {
	if only := os.Getenv("VERIF_ONLY"); only != "" { // debugging aid: restrict to matching scenarios
		var sel []Scenario
		for _, s := range scenarios {
			if strings.Contains(s.Name, only) {
				sel = append(sel, s)
			}
		}
		scenarios = sel
	}
	if r.Replay != "" {
		replay(r, scenarios)
		return
	}
	{ // expand sharded scenarios into one work item per shard (interleaved so they spread over workers)
		var expanded []Scenario
		for _, s := range scenarios {
			if s.Shards <= 1 {
				expanded = append(expanded, s)
				continue
			}
			for k := 0; k < s.Shards; k++ {
				t := s
				t.shard, t.nshards = k, s.Shards
				expanded = append(expanded, t)
			}
		}
		scenarios = expanded
	}
	if strings.HasPrefix(r.Worker, "shard:") {
		var i, n int
		fmt.Sscanf(r.Worker, "shard:%d/%d", &i, &n)
		// the library prints to os.Stdout when a client is built with debug = true: keep the
		// result channel of this worker (the real stdout) apart from it
		result := os.Stdout
		if devnull, err := os.OpenFile(os.DevNull, os.O_WRONLY, 0); err == nil {
			os.Stdout = devnull
		}
		out := workerOut{Outcomes: map[string]int64{}}
		var deadline time.Time
		if budget > 0 {
			deadline = time.Now().Add(budget)
		}
		for k := range scenarios {
			if k%n != i {
				continue
			}
			runScenario(r.ID, &scenarios[k], &out, deadline)
			if len(out.Samples) < 2 && scenarios[k].Body != nil {
				opt := scenarios[k].Opt
				opt.Trace = true
				e := vs.Run(nil, nil, opt, scenarios[k].Body)
				d := e.Describe()
				if tr, ok := d["trace"].([]string); ok && len(tr) > 40 {
					d["trace"] = append(tr[:40:40], "…")
				}
				out.Samples = append(out.Samples, map[string]any{"scenario": scenarios[k].Name, "default_schedule": d})
			}
		}
		b, _ := json.Marshal(out)
		result.Write(b)
		os.Exit(0)
	}

	n := runtime.NumCPU()
	if n > len(scenarios) {
		n = len(scenarios)
	}
	if n < 1 {
		n = 1
	}
	outs := make([]workerOut, n)
	var wg sync.WaitGroup
	for i := 0; i < n; i++ {
		wg.Add(1)
		go func(i int) {
			defer wg.Done()
			cmd := exec.Command(os.Args[0], "--worker", fmt.Sprintf("shard:%d/%d", i, n), "--tier", r.Tier)
			cmd.Env = append(os.Environ(), "GOMAXPROCS=2")
			var stdout, stderr bytes.Buffer
			cmd.Stdout, cmd.Stderr = &stdout, &stderr
			if err := cmd.Run(); err != nil {
				r.Machinery("worker %d failed: %v\n%s", i, err, tail(stderr.String(), 2000))
				return
			}
			if err := json.Unmarshal(stdout.Bytes(), &outs[i]); err != nil {
				r.Machinery("worker %d produced unreadable output: %v\n%s", i, err, tail(stdout.String(), 500))
			}
		}(i)
	}
	wg.Wait()

	// A violation that did not recur when its schedule was run on its own is either a flaw of this
	// machinery (nondeterminism it failed to control) or a library that keeps state from one call to
	// the next, so that what a call does depends on the calls before it. The two are told apart by
	// running the worker's share again in a fresh process: exploration is deterministic, so state
	// carried by the library produces the same violation at the same schedule of the same scenario
	// again, and is then reported as a violation (the replay re-runs the share); anything else stays
	// a machinery error.
	for i := 0; i < n; i++ {
		if len(outs[i].Unreproduced) == 0 {
			continue
		}
		spec := fmt.Sprintf("shard:%d/%d", i, n)
		cmd := exec.Command(os.Args[0], "--worker", spec, "--tier", r.Tier)
		cmd.Env = append(os.Environ(), "GOMAXPROCS=2")
		var stdout bytes.Buffer
		cmd.Stdout = &stdout
		var again workerOut
		if err := cmd.Run(); err == nil {
			json.Unmarshal(stdout.Bytes(), &again)
		}
		second := map[string]bool{}
		for _, u := range again.Unreproduced {
			second[u.Scenario+"|"+u.Key+"|"+fmt.Sprint(u.Choices)] = true
		}
		for _, u := range outs[i].Unreproduced {
			if second[u.Scenario+"|"+u.Key+"|"+fmt.Sprint(u.Choices)] {
				r.Violation(u.Key+"/depends-on-earlier-calls", u.Scenario+": "+u.What+" — observed at this schedule in two fresh runs of the same exploration, but not when the schedule is executed on its own: what the call does depends on state the library keeps from earlier calls in the process", "history-of-executions",
					replayCase{Scenario: u.Scenario, Choices: u.Choices, Worker: spec})
			} else {
				r.Machinery("scenario %s: violation %s did not reproduce from its schedule %v (nor at the same point of a second run of %s)", u.Scenario, u.Key, u.Choices, spec)
			}
		}
	}

	var execs, states, trans, pruned int64
	outcomes := map[string]int64{}
	capped := []string{}
	depth := 0
	for _, o := range outs {
		execs += o.Executions
		states += o.States
		trans += o.Transitions
		pruned += o.Pruned
		for l, c := range o.Outcomes {
			outcomes[l] += c
		}
		capped = append(capped, o.Capped...)
		r.Import(o.Violations)
		for _, m := range o.Machinery {
			r.Machinery("%s", m)
		}
		for _, s := range o.Samples {
			r.Sample(s)
		}
		if o.MaxDepth > depth {
			depth = o.MaxDepth
		}
	}
	r.Count(execs)
	r.Add("executions", execs)
	r.Add("states", states)
	r.Add("transitions", trans)
	r.Add("pruned_subtrees", pruned)
	r.Add("scenarios", int64(len(scenarios)))
	r.Set("max_choice_depth", depth)
	labels := []string{}
	for l := range outcomes {
		labels = append(labels, l)
	}
	sort.Strings(labels)
	if len(labels) > 40 {
		labels = labels[:40]
	}
	r.Set("distinct_outcomes", len(outcomes))
	r.Set("outcome_labels_sample", labels)
	r.Distinct(int64(len(outcomes)))
	if len(capped) > 0 {
		sort.Strings(capped)
		r.NotExhaustive(fmt.Sprintf("%d scenario(s) hit the execution cap or the time budget; first: %s", len(capped), capped[0]))
	}
}

func tail(s string, n int) string {
	if len(s) > n {
		return s[len(s)-n:]
	}
	return s
}

func replay(r *vk.Run, scenarios []Scenario) {
	_, raw, err := vk.LoadReplay(r.Replay)
	if err != nil {
		r.Machinery("cannot load replay: %v", err)
		return
	}
	var c replayCase
	json.Unmarshal(raw, &c)
	if c.Worker != "" {
		cmd := exec.Command(os.Args[0], "--worker", c.Worker, "--tier", r.Tier)
		cmd.Env = append(os.Environ(), "GOMAXPROCS=2")
		var stdout bytes.Buffer
		cmd.Stdout = &stdout
		var again workerOut
		if err := cmd.Run(); err == nil {
			json.Unmarshal(stdout.Bytes(), &again)
		}
		fmt.Printf("replay: re-ran the exploration share %s in a fresh process (the violation depends on the executions before it)\n", c.Worker)
		for _, u := range again.Unreproduced {
			if u.Scenario == c.Scenario && fmt.Sprint(u.Choices) == fmt.Sprint(c.Choices) {
				fmt.Printf("  again at scenario %q schedule %v: %s\n", u.Scenario, u.Choices, u.What)
				r.Violation(u.Key+"/depends-on-earlier-calls", u.Scenario+": "+u.What, "history-of-executions", c)
			}
		}
		r.Count(again.Executions)
		r.Distinct(2)
		return
	}
	for i := range scenarios {
		s := &scenarios[i]
		if s.Name != c.Scenario {
			continue
		}
		opt := s.Opt
		opt.Trace = true
		e := vs.Run(c.Choices, nil, opt, s.Body)
		label, viols := s.Check(e)
		fmt.Printf("replay of scenario %q with schedule %v\n", s.Name, c.Choices)
		for _, t := range e.Trace {
			fmt.Println("  ", t)
		}
		for _, l := range e.Log {
			fmt.Println("  log:", l)
		}
		fmt.Printf("outcome: %s abort=%s %s races=%v\n", label, e.Abort, e.AbortMsg, e.Races)
		for _, v := range viols {
			r.Violation(r.ID+"/"+v.Key, s.Name+": "+v.What, "schedule", replayCase{Scenario: s.Name, Choices: c.Choices})
		}
		r.Count(1)
		r.Distinct(2)
		return
	}
	r.Machinery("replay: no scenario named %q", c.Scenario)
}

// Generic returns the engine-level violations of an execution (deadlock, livelock, panic) —
// scenario checks append it to their own.
func Generic(e *vs.Exec) []Viol { return generic(e) }

// Conformance runs the engine-E3 loopback replay binary of the property (harness/<id>/real, path in
// VERIF_REAL_BIN): the scenarios the model explored, played against the unmodified driver on real
// sockets. It validates the network model; it never decides the property — a divergence is
// recorded in the evidence (model_divergences), not raised as a violation.
func Conformance(r *vk.Run) {
	bin := os.Getenv("VERIF_REAL_BIN")
	build := "amd64"
	if os.Getenv("VERIF_IS_386") != "" {
		bin, build = os.Getenv("VERIF_REAL_BIN_386"), "GOARCH=386"
	}
	if bin == "" {
		return
	}
	cmd := exec.Command(bin)
	var out, errOut bytes.Buffer
	cmd.Stdout, cmd.Stderr = &out, &errOut
	done := make(chan error, 1)
	go func() { done <- cmd.Run() }()
	select {
	case err := <-done:
		if err != nil {
			// the unmodified library crashing on real sockets is not a disagreement between model and
			// kernel: it is a crash of the library, reported as such
			if text := errOut.String(); (strings.Contains(text, "panic:") || strings.Contains(text, "fatal error:")) && strings.Contains(text, "uhppote-core/") {
				if len(text) > 1500 {
					text = text[:1500]
				}
				r.Violation(r.ID+"/real-sockets/panic", fmt.Sprintf("the unmodified library (%s build) crashed while the loopback replay of this property's scenarios ran on real sockets: %s", build, text), "real-sockets", map[string]any{"build": build})
				return
			}
			r.Set("loopback_conformance", "replay binary failed: "+err.Error())
			return
		}
	case <-time.After(4 * time.Minute):
		cmd.Process.Kill()
		r.Set("loopback_conformance", "timed out (not judged)")
		return
	}
	var res struct {
		Replayed, Agreed, Skipped int
		Divergences               []map[string]string
	}
	if err := json.Unmarshal(out.Bytes(), &res); err != nil {
		r.Set("loopback_conformance", "unreadable output")
		return
	}
	r.Set("traces_validated_against_impl", res.Agreed)
	r.Set("loopback_replays", res.Replayed)
	r.Set("loopback_skipped_not_applicable", res.Skipped)
	r.Set("model_divergences", res.Divergences)
}
