package vs

import "reflect"

// math/rand and runtime entry points. Random numbers are an environment choice over a small fixed
// menu (both ends and the middle of the range): deterministic per schedule, explored exhaustively
// over the menu. This under-approximates the values a real generator can return.

func pick3(n int64) int64 {
	if n <= 1 {
		return 0
	}
	menu := []int64{0, n - 1}
	if n > 2 {
		menu = append(menu, n/2)
	}
	return menu[Choose(len(menu), "rand")]
}

func RandIntn(n int) int          { return int(pick3(int64(n))) }
func RandInt31n(n int32) int32    { return int32(pick3(int64(n))) }
func RandInt63n(n int64) int64    { return pick3(n) }
func RandUintn(n uint) uint       { return uint(pick3(int64(n))) }
func RandUint32n(n uint32) uint32 { return uint32(pick3(int64(n))) }
func RandUint64n(n uint64) uint64 {
	if n > 1<<62 {
		n = 1 << 62
	}
	return uint64(pick3(int64(n)))
}
func RandInt() int         { return int(pick3(1 << 62)) }
func RandInt31() int32     { return int32(pick3(1 << 31)) }
func RandInt63() int64     { return pick3(1 << 62) }
func RandUint32() uint32   { return uint32(pick3(1 << 32)) }
func RandUint64() uint64   { return uint64(pick3(1 << 62)) }
func RandFloat64() float64 { return []float64{0, 0.999999, 0.5}[Choose(3, "rand")] }
func RandFloat32() float32 { return []float32{0, 0.999999, 0.5}[Choose(3, "rand")] }
func RandSeed(int64)       {}

func RandN[T ~int | ~int32 | ~int64 | ~uint | ~uint32 | ~uint64](n T) T {
	v := int64(n)
	if v <= 0 || v > 1<<62 {
		v = 1 << 62
	}
	return T(pick3(v))
}

func RandPerm(n int) []int {
	p := make([]int, n)
	rev := n > 1 && Choose(2, "rand-perm") == 1
	for i := range p {
		if rev {
			p[i] = n - 1 - i
		} else {
			p[i] = i
		}
	}
	return p
}

func RandShuffle(n int, swap func(i, j int)) {
	if n > 1 && Choose(2, "rand-shuffle") == 1 {
		for i, j := 0, n-1; i < j; i, j = i+1, j-1 {
			swap(i, j)
		}
	}
}

// Gosched replaces runtime.Gosched: a plain scheduling point.
func Gosched() {
	e := cur
	if e == nil || e.aborted.Load() {
		return
	}
	e.point("Gosched", nil, -1)
	e.cur.yielded = true
}

// NumGoroutine replaces runtime.NumGoroutine: live simulated threads.
func NumGoroutine() int {
	e := cur
	if e == nil {
		return 1
	}
	n := 0
	for _, t := range e.threads {
		if !t.done {
			n++
		}
	}
	return n
}

// Len / Cap replace the builtins in files that use channels: a shimmed channel is never operated on
// directly, so the builtin would always report it empty. For anything else they are the builtins.
func Len(v any) int {
	rv := reflect.ValueOf(v)
	if !rv.IsValid() {
		return 0
	}
	if rv.Kind() == reflect.Chan {
		e := cur
		if e == nil || rv.IsNil() {
			return 0
		}
		if s := e.chans[rv.Pointer()]; s != nil {
			return len(s.buf)
		}
		return 0
	}
	if rv.Kind() == reflect.Ptr { // pointer to array
		return rv.Elem().Len()
	}
	return rv.Len()
}

func Cap(v any) int {
	rv := reflect.ValueOf(v)
	if !rv.IsValid() {
		return 0
	}
	if rv.Kind() == reflect.Ptr {
		return rv.Elem().Cap()
	}
	return rv.Cap()
}
