package vs

import "reflect"

// Map replaces sync.Map: every operation is a scheduling point and a synchronising access
// (happens-before edge through the map, as the real sync.Map guarantees per key — modelled
// coarser, per map, which can only hide races on the map's own values, not create false ones).
type Map struct{ _ byte }

type mapState struct {
	m    map[any]any
	keys []any // insertion order, for deterministic Range
	vc   VC
}

var maps = map[uintptr]*mapState{}

func (e *Exec) mapOf(m *Map, op string) *mapState {
	k := reflect.ValueOf(m).Pointer()
	s := maps[k]
	if s == nil || s.m == nil {
		s = &mapState{m: map[any]any{}}
		maps[k] = s
	}
	e.point("syncmap."+op, nil, -1)
	me := e.cur
	me.vc = me.vc.join(s.vc)
	s.vc = s.vc.join(me.vc)
	me.vc[me.id]++
	e.note(me, "syncmap."+op)
	return s
}

func (m *Map) Load(key any) (any, bool) {
	e := cur
	if e.aborted.Load() {
		return nil, false
	}
	s := e.mapOf(m, "Load")
	v, ok := s.m[key]
	return v, ok
}

func (m *Map) Store(key, value any) {
	e := cur
	if e.aborted.Load() {
		return
	}
	s := e.mapOf(m, "Store")
	if _, ok := s.m[key]; !ok {
		s.keys = append(s.keys, key)
	}
	s.m[key] = value
}

func (m *Map) LoadOrStore(key, value any) (any, bool) {
	e := cur
	if e.aborted.Load() {
		return value, false
	}
	s := e.mapOf(m, "LoadOrStore")
	if v, ok := s.m[key]; ok {
		return v, true
	}
	s.keys = append(s.keys, key)
	s.m[key] = value
	return value, false
}

func (m *Map) LoadAndDelete(key any) (any, bool) {
	e := cur
	if e.aborted.Load() {
		return nil, false
	}
	s := e.mapOf(m, "LoadAndDelete")
	v, ok := s.m[key]
	delete(s.m, key)
	return v, ok
}

func (m *Map) Delete(key any) { m.LoadAndDelete(key) }

func (m *Map) Swap(key, value any) (any, bool) {
	e := cur
	if e.aborted.Load() {
		return nil, false
	}
	s := e.mapOf(m, "Swap")
	v, ok := s.m[key]
	if !ok {
		s.keys = append(s.keys, key)
	}
	s.m[key] = value
	return v, ok
}

func (m *Map) Range(f func(key, value any) bool) {
	e := cur
	if e.aborted.Load() {
		return
	}
	s := e.mapOf(m, "Range")
	for _, k := range append([]any{}, s.keys...) {
		if v, ok := s.m[k]; ok {
			if !f(k, v) {
				return
			}
		}
	}
}

// Once replaces sync.Once.
type Once struct{ _ byte }

type onceState struct {
	done, running bool
	vc            VC
}

var onces = map[uintptr]*onceState{}

func (o *Once) Do(f func()) {
	e := cur
	if e.aborted.Load() {
		return
	}
	k := reflect.ValueOf(o).Pointer()
	s := onces[k]
	if s == nil {
		s = &onceState{}
		onces[k] = s
	}
	e.point("once.Do", func() bool { return !s.running }, -1)
	me := e.cur
	if s.done {
		me.vc = me.vc.join(s.vc)
		return
	}
	s.running = true
	f()
	s.running, s.done = false, true
	s.vc = s.vc.join(me.vc)
	me.vc[me.id]++
}

func resetSyncx() {
	maps = map[uintptr]*mapState{}
	onces = map[uintptr]*onceState{}
}
