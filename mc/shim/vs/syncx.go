package vs

import "reflect"

// Map replaces sync.Map: every operation is a scheduling point and a synchronising access
// (happens-before edge through the map, as the real sync.Map guarantees per key — modelled
// coarser, per map, which can only hide races on the map's own values, not create false ones).
type Map struct{ _ byte }

type mapState struct {
	m    map[any]any
	keys []any // insertion order, for deterministic Range
	vc   VC
}

var maps = map[uintptr]*mapState{}

func (e *Exec) mapOf(m *Map, op string) *mapState {
	k := reflect.ValueOf(m).Pointer()
	s := maps[k]
	if s == nil || s.m == nil {
		s = &mapState{m: map[any]any{}}
		maps[k] = s
		e.pinned = append(e.pinned, m)
	}
	e.point("syncmap."+op, nil, -1)
	me := e.cur
	me.vc = me.vc.join(s.vc)
	s.vc = s.vc.join(me.vc)
	me.vc[me.id]++
	e.note(me, "syncmap."+op)
	return s
}

func (m *Map) Load(key any) (any, bool) {
	if cur == nil {
		return outMap(m).Load(key)
	}
	e := cur
	if e.aborted.Load() {
		return nil, false
	}
	s := e.mapOf(m, "Load")
	v, ok := s.m[key]
	return v, ok
}

func (m *Map) Store(key, value any) {
	if cur == nil {
		outMap(m).Store(key, value)
		return
	}
	e := cur
	if e.aborted.Load() {
		return
	}
	s := e.mapOf(m, "Store")
	if _, ok := s.m[key]; !ok {
		s.keys = append(s.keys, key)
	}
	s.m[key] = value
}

func (m *Map) LoadOrStore(key, value any) (any, bool) {
	if cur == nil {
		return outMap(m).LoadOrStore(key, value)
	}
	e := cur
	if e.aborted.Load() {
		return value, false
	}
	s := e.mapOf(m, "LoadOrStore")
	if v, ok := s.m[key]; ok {
		return v, true
	}
	s.keys = append(s.keys, key)
	s.m[key] = value
	return value, false
}

func (m *Map) LoadAndDelete(key any) (any, bool) {
	if cur == nil {
		return outMap(m).LoadAndDelete(key)
	}
	e := cur
	if e.aborted.Load() {
		return nil, false
	}
	s := e.mapOf(m, "LoadAndDelete")
	v, ok := s.m[key]
	delete(s.m, key)
	return v, ok
}

func (m *Map) Delete(key any) { m.LoadAndDelete(key) }

func (m *Map) Swap(key, value any) (any, bool) {
	if cur == nil {
		return outMap(m).Swap(key, value)
	}
	e := cur
	if e.aborted.Load() {
		return nil, false
	}
	s := e.mapOf(m, "Swap")
	v, ok := s.m[key]
	if !ok {
		s.keys = append(s.keys, key)
	}
	s.m[key] = value
	return v, ok
}

func (m *Map) Range(f func(key, value any) bool) {
	if cur == nil {
		outMap(m).Range(f)
		return
	}
	e := cur
	if e.aborted.Load() {
		return
	}
	s := e.mapOf(m, "Range")
	for _, k := range append([]any{}, s.keys...) {
		if v, ok := s.m[k]; ok {
			if !f(k, v) {
				return
			}
		}
	}
}

// Once replaces sync.Once.
type Once struct{ _ byte }

type onceState struct {
	done, running bool
	vc            VC
}

var onces = map[uintptr]*onceState{}

func (o *Once) Do(f func()) {
	if cur == nil {
		outOnce(o).Do(f)
		return
	}
	e := cur
	if e.aborted.Load() {
		return
	}
	k := reflect.ValueOf(o).Pointer()
	s := onces[k]
	if s == nil {
		s = &onceState{}
		onces[k] = s
		e.pinned = append(e.pinned, o)
	}
	e.point("once.Do", func() bool { return !s.running }, -1)
	me := e.cur
	if s.done {
		me.vc = me.vc.join(s.vc)
		return
	}
	s.running = true
	f()
	s.running, s.done = false, true
	s.vc = s.vc.join(me.vc)
	me.vc[me.id]++
}

func resetSyncx() {
	maps = map[uintptr]*mapState{}
	onces = map[uintptr]*onceState{}
	pools = map[uintptr]*poolState{}
}

// Pool replaces sync.Pool. It is deliberately adversarial but legal: Get returns the most recently
// Put object whenever there is one (the real pool may do exactly that), and Put is followed by a
// scheduling point, so "the object was handed back while somebody still uses it" becomes visible
// as soon as another thread can pick it up.
type Pool struct {
	New func() any
	_   byte
}

type poolState struct {
	items []any
	vc    VC
}

var pools = map[uintptr]*poolState{}

func poolOf(p *Pool) *poolState {
	k := reflect.ValueOf(p).Pointer()
	s := pools[k]
	if s == nil {
		s = &poolState{}
		pools[k] = s
		if cur != nil {
			cur.pinned = append(cur.pinned, p)
		}
	}
	return s
}

func (p *Pool) Get() any {
	if cur == nil {
		return outPoolGet(p)
	}
	e := cur
	if e.aborted.Load() {
		if p.New != nil {
			return p.New()
		}
		return nil
	}
	s := poolOf(p)
	e.point("pool.Get", nil, -1)
	me := e.cur
	if n := len(s.items); n > 0 {
		x := s.items[n-1]
		s.items = s.items[:n-1]
		me.vc = me.vc.join(s.vc)
		e.note(me, "pool.Get-reused")
		return x
	}
	e.note(me, "pool.Get-new")
	if p.New != nil {
		return p.New()
	}
	return nil
}

func (p *Pool) Put(x any) {
	if cur == nil {
		outPoolPut(p, x)
		return
	}
	e := cur
	if e.aborted.Load() {
		return
	}
	s := poolOf(p)
	me := e.cur
	s.items = append(s.items, x)
	s.vc = s.vc.join(me.vc)
	me.vc[me.id]++
	e.note(me, "pool.Put")
	e.point("pool.Put", nil, -1) // the object is already available to other threads here
}
