package vs

// context.WithTimeout / WithDeadline / WithCancel on the virtual clock. The Done channel is an
// ordinary channel as far as instrumented code is concerned (`<-ctx.Done()` and select cases are
// rewritten to shim operations, which find its state by address); expiry closes it from a virtual
// timer, cancel() closes it at a scheduling point.

import (
	"context"
	"errors"
	"net"
	"syscall"
	"time"
)

type vctx struct {
	parent   context.Context
	done     chan struct{}
	deadline int64 // virtual ns, -1 = none
	err      error
	children []*vctx
	e        *Exec
}

func (c *vctx) Deadline() (time.Time, bool) {
	if c.deadline < 0 {
		return c.parent.Deadline()
	}
	return time.Unix(epochUnix, 0).Add(time.Duration(c.deadline)).UTC(), true
}
func (c *vctx) Done() <-chan struct{} { return c.done }
func (c *vctx) Err() error            { return c.err }
func (c *vctx) Value(k any) any       { return c.parent.Value(k) }

func (c *vctx) finish(err error, vc VC) {
	if c.err != nil {
		return
	}
	c.err = err
	s := c.e.chanOf(c.done)
	s.closed = true
	s.closeVC = vc
	for _, k := range c.children {
		k.finish(err, vc)
	}
}

func newCtx(parent context.Context, deadline int64) (context.Context, context.CancelFunc) {
	e := cur
	c := &vctx{parent: parent, done: make(chan struct{}), deadline: deadline, e: e}
	if e == nil || e.aborted.Load() {
		return c, func() {}
	}
	e.chanOf(c.done)
	// the nearest simulated ancestor (through any context.WithValue wrappers) propagates to us
	if p, ok := parent.Value(&ctxKey).(*vctx); ok {
		if p.err != nil {
			c.finish(p.err, VC{})
		} else {
			p.children = append(p.children, c)
			if p.deadline >= 0 && (deadline < 0 || p.deadline < deadline) {
				c.deadline = p.deadline
			}
		}
	}
	if deadline >= 0 && c.err == nil {
		if deadline <= e.clock {
			c.finish(context.DeadlineExceeded, VC{})
		} else {
			e.timerSeq++
			e.timers = append(e.timers, timerEv{at: deadline, seq: e.timerSeq, fn: func() { c.finish(context.DeadlineExceeded, VC{}) }})
		}
	}
	cancel := func() {
		if e.aborted.Load() || c.err != nil {
			return
		}
		e.point("ctx.cancel", nil, -1)
		c.finish(context.Canceled, e.cur.vc.copy())
		e.cur.vc[e.cur.id]++
		e.note(e.cur, "cancel")
	}
	return &ctxWrap{c}, cancel
}

var ctxKey int

// ctxWrap answers Value(&ctxKey) with the simulated context itself, so descendants find it.
type ctxWrap struct{ *vctx }

func (w *ctxWrap) Value(k any) any {
	if k == &ctxKey {
		return w.vctx
	}
	return w.vctx.Value(k)
}

func CtxWithCancel(parent context.Context) (context.Context, context.CancelFunc) {
	return newCtx(parent, -1)
}

func CtxWithTimeout(parent context.Context, d time.Duration) (context.Context, context.CancelFunc) {
	at := int64(0)
	if cur != nil {
		at = cur.clock
	}
	if d < 0 {
		d = 0
	}
	return newCtx(parent, at+int64(d))
}

func CtxWithDeadline(parent context.Context, t time.Time) (context.Context, context.CancelFunc) {
	v := toVirtual(t)
	if v < 0 {
		v = 0
	}
	return newCtx(parent, v)
}

// DialContext replaces (*net.Dialer).DialContext: the context's deadline bounds the dial.
func (d *Dialer) DialContext(ctx context.Context, network, address string) (Conn, error) {
	if err := ctx.Err(); err != nil {
		return nil, &net.OpError{Op: "dial", Net: network, Err: err}
	}
	dd := *d
	if t, ok := ctx.Deadline(); ok {
		if dd.Deadline.IsZero() || t.Before(dd.Deadline) {
			dd.Deadline = t
		}
	}
	return dd.Dial(network, address)
}

// ListenConfig replaces net.ListenConfig (UDP only).
type ListenConfig struct {
	Control   func(network, address string, c syscall.RawConn) error
	KeepAlive time.Duration
}

func (lc *ListenConfig) ListenPacket(ctx context.Context, network, address string) (net.PacketConn, error) {
	if err := ctx.Err(); err != nil {
		return nil, &net.OpError{Op: "listen", Net: network, Err: err}
	}
	if len(network) < 3 || network[:3] != "udp" {
		return nil, &net.OpError{Op: "listen", Net: network, Err: errors.New("vs: only udp networks are simulated")}
	}
	e := cur
	if e.aborted.Load() {
		return nil, errors.New("aborted")
	}
	h, p := splitHostPort(address)
	ip := net.ParseIP(h)
	e.point("ListenPacket", nil, -1)
	n := e.Net
	s := &sockState{fd: len(n.socks), proto: "udp", rdl: -1, wdl: -1, openedBy: e.cur.id, closed: true}
	n.socks = append(n.socks, s)
	if lc.Control != nil {
		if err := lc.Control(network, address, rawConn{fd: uintptr(e.Net.FdBase + s.fd)}); err != nil {
			return nil, &net.OpError{Op: "listen", Net: network, Err: err}
		}
	}
	if ip == nil || ip.To4() == nil {
		ip = net.IPv4zero
	}
	if p != 0 && n.portInUse("udp", p, s.reuse) {
		e.note(e.cur, "listen-fail")
		return nil, &net.OpError{Op: "listen", Net: network, Addr: &net.UDPAddr{IP: ip, Port: p}, Err: syscall.EADDRINUSE}
	}
	if p == 0 {
		p = n.ephemeral("udp")
	}
	s.localIP, s.localPort, s.closed, s.listening = ip.To4(), p, false, true
	n.acqrel(s)
	e.note(e.cur, "listen-ok")
	return &UDPConn{s: s, n: n}, nil
}
