package vs

import (
	"reflect"
	"sync"
)

// Outside an execution (cur == nil): a harness built with the overlay also runs ordinary,
// free-running code through the rewritten library (C14's enumeration families, C03's reflection
// family). There the shim types fall back to the real thing: a real mutex, once, map and pool per
// shim object, kept in side tables keyed by the object's address. The pool keeps its adversarial
// but legal policy (Get returns the most recently Put object).

var (
	outMu      sync.Mutex
	outMutexes = map[uintptr]*sync.RWMutex{}
	outOnces   = map[uintptr]*sync.Once{}
	outMaps    = map[uintptr]*sync.Map{}
	outPools   = map[uintptr]*[]any{}
	outWGs     = map[uintptr]*sync.WaitGroup{}
	outPins    []any
)

func outKey(p any) uintptr { return reflect.ValueOf(p).Pointer() }

func outMutex(p any) *sync.RWMutex {
	outMu.Lock()
	defer outMu.Unlock()
	k := outKey(p)
	m := outMutexes[k]
	if m == nil {
		m = &sync.RWMutex{}
		outMutexes[k] = m
		outPins = append(outPins, p)
	}
	return m
}

func outOnce(p any) *sync.Once {
	outMu.Lock()
	defer outMu.Unlock()
	k := outKey(p)
	o := outOnces[k]
	if o == nil {
		o = &sync.Once{}
		outOnces[k] = o
		outPins = append(outPins, p)
	}
	return o
}

func outMap(p any) *sync.Map {
	outMu.Lock()
	defer outMu.Unlock()
	k := outKey(p)
	m := outMaps[k]
	if m == nil {
		m = &sync.Map{}
		outMaps[k] = m
		outPins = append(outPins, p)
	}
	return m
}

func outWG(p any) *sync.WaitGroup {
	outMu.Lock()
	defer outMu.Unlock()
	k := outKey(p)
	w := outWGs[k]
	if w == nil {
		w = &sync.WaitGroup{}
		outWGs[k] = w
		outPins = append(outPins, p)
	}
	return w
}

func outPoolGet(p *Pool) any {
	outMu.Lock()
	k := outKey(p)
	items := outPools[k]
	if items != nil && len(*items) > 0 {
		x := (*items)[len(*items)-1]
		*items = (*items)[:len(*items)-1]
		outMu.Unlock()
		return x
	}
	outMu.Unlock()
	if p.New != nil {
		return p.New()
	}
	return nil
}

func outPoolPut(p *Pool, x any) {
	outMu.Lock()
	defer outMu.Unlock()
	k := outKey(p)
	items := outPools[k]
	if items == nil {
		items = &[]any{}
		outPools[k] = items
		outPins = append(outPins, p)
	}
	*items = append(*items, x)
}
